(** * Fut/FutProofs.v — the theorems of C02 in the vocabulary of Fut/FutSpec.v, assembled from
    [run_query_ok] (AsyncRun.v), [run_mutation_ok] (AsyncSerial.v) and [run_sync_ok] (SyncProofs.v):
      1. the declarative reading of a plan does not see which resolvers are asynchronous ([strip]);
      2. under well-formed keys the errors of different landing sites are different (so "one
         error per site" is "no error twice");
      3. the statements of Properties/C02.v. *)
From Coq Require Import List NArith ZArith Bool Lia Permutation Btauto.
From ApiFu Require Import Base.Sexp Fut.Plan Fut.Future Fut.ExecAsync Fut.ExecSync Fut.Denote Fut.SubPerm
     Fut.Live Fut.LiveFacts Fut.Acct Fut.AsyncWrap Fut.AsyncField Fut.AsyncList Fut.AsyncSel Fut.AsyncMain
     Fut.AsyncRun Fut.AsyncSerial Fut.SyncProofs Fut.FutSpec Fut.VisibleProofs Fut.SyncMust.
Import ListNotations.

(** ** 1. [strip] is invisible to the declarative reading and to the reference *)
Record StripV (v : vplan) : Prop := {
  sv_sync : forall p errs, sync_inner (strip_v v) p errs = sync_inner v p errs;
  sv_cand : forall p, cand_inner (strip_v v) p = cand_inner v p;
  sv_fails : fails_inner (strip_v v) = fails_inner v;
  sv_jv : jv (strip_v v) = jv v;
  sv_must : forall p, must_I (strip_v v) p = must_I v p;
  sv_async : count_async_v (strip_v v) = 0;
  sv_null : is_vnull (strip_v v) = is_vnull v
}.
Record StripF (f : fplan) : Prop := {
  sf_sync : forall p errs, sync_field (strip_f f) p errs = sync_field f p errs;
  sf_cand : forall p, cand_field (strip_f f) p = cand_field f p;
  sf_fails : fails_f (strip_f f) = fails_f f;
  sf_jf : jf (strip_f f) = jf f;
  sf_must : forall p, must_F (strip_f f) p = must_F f p;
  sf_async : count_async_f (strip_f f) = 0;
  sf_nn : fp_nn (strip_f f) = fp_nn f
}.

Lemma cand_nn_strip nn q x c : is_vnull (strip_v x) = is_vnull x -> cand_nn nn q (strip_v x) c = cand_nn nn q x c.
Proof. unfold cand_nn. destruct nn; auto. destruct x; simpl; auto; discriminate. Qed.

Lemma strip_items_sync inn p l : Forall StripV l ->
  forall i errs, sync_items sync_inner inn p (map strip_v l) i errs = sync_items sync_inner inn p l i errs.
Proof.
  induction 1 as [|x tl Hx _ IH]; intros i errs; [reflexivity|].
  simpl. rewrite (sv_sync _ Hx). destruct (sync_inner x (PIdx i :: p) errs) as [r e1].
  destruct (sync_catch inn (sync_nn inn (PIdx i :: p) r) e1) as [r1 e2]. now rewrite IH.
Qed.

Lemma strip_items_cand inn p l : Forall StripV l ->
  forall i, cand_items cand_inner inn p (map strip_v l) i = cand_items cand_inner inn p l i.
Proof.
  induction 1 as [|x tl Hx _ IH]; intros i; [reflexivity|].
  simpl. rewrite (sv_cand _ Hx), (cand_nn_strip _ _ _ _ (sv_null _ Hx)), IH. reflexivity.
Qed.

Lemma strip_items_must inn p l : Forall StripV l ->
  forall i, must_items must_I inn p (map strip_v l) i = must_items must_I inn p l i.
Proof.
  induction 1 as [|x tl Hx _ IH]; intros i; [reflexivity|].
  simpl. unfold fails_w. rewrite (sv_cand _ Hx), (cand_nn_strip _ _ _ _ (sv_null _ Hx)), (sv_fails _ Hx),
    (sv_null _ Hx), (sv_must _ Hx), IH. reflexivity.
Qed.

Definition sum_async_v (l : list vplan) : nat := fold_right (fun x a => count_async_v x + a) 0 l.
Lemma count_async_list inn items : count_async_v (VList inn items) = sum_async_v items.
Proof. simpl. induction items as [|x tl IH]; simpl; auto. Qed.

Notation strip_sel := (map (fun kf : bytes * fplan => (fst kf, strip_f (snd kf)))).

Lemma strip_sel_sync p l : Forall (fun kf => StripF (snd kf)) l ->
  forall acc errs, sync_sel sync_field p (strip_sel l) acc errs = sync_sel sync_field p l acc errs.
Proof.
  induction 1 as [|[key fp] tl Hf _ IH]; intros acc errs; [reflexivity|].
  simpl in Hf. simpl. rewrite (sf_sync _ Hf). destruct (sync_field fp (PKey key :: p) errs) as [r e1].
  replace (match strip_f fp with FP _ nn _ => nn end) with (fp_nn (strip_f fp)) by (now destruct (strip_f fp)).
  replace (match fp with FP _ nn _ => nn end) with (fp_nn fp) by (now destruct fp).
  rewrite (sf_nn _ Hf). destruct (sync_catch (fp_nn fp) r e1) as [[j|e] e2]; auto.
Qed.

Lemma strip_sel_cand p l : Forall (fun kf => StripF (snd kf)) l ->
  cand_sel cand_field p (strip_sel l) = cand_sel cand_field p l.
Proof.
  induction 1 as [|[key fp] tl Hf _ IH]; [reflexivity|].
  simpl in Hf. simpl. rewrite (sf_cand _ Hf), IH.
  replace (match strip_f fp with FP _ nn _ => nn end) with (fp_nn (strip_f fp)) by (now destruct (strip_f fp)).
  replace (match fp with FP _ nn _ => nn end) with (fp_nn fp) by (now destruct fp).
  now rewrite (sf_nn _ Hf).
Qed.

Lemma strip_sel_must p l : Forall (fun kf => StripF (snd kf)) l ->
  must_sel must_F p (strip_sel l) = must_sel must_F p l.
Proof.
  induction 1 as [|[key fp] tl Hf _ IH]; [reflexivity|].
  simpl in Hf. simpl. now rewrite (sf_cand _ Hf), (sf_nn _ Hf), (sf_fails _ Hf), (sf_must _ Hf), IH.
Qed.

Theorem strip_all : (forall v, StripV v) /\ (forall f, StripF f).
Proof.
  apply plan_ind.
  - constructor; reflexivity.
  - intros z. constructor; reflexivity.
  - constructor; reflexivity.
  - intros inn items F. constructor; try reflexivity.
    + intros p errs.
      change (sync_inner (strip_v (VList inn items)) p errs)
        with (let '(rs, errs1) := sync_items sync_inner inn p (map strip_v items) 0 errs in
              (match first_fail rs with Some e => SFail e | None => SOk (JList (oks rs)) end, errs1)).
      now rewrite strip_items_sync.
    + intros p. change (cand_inner (strip_v (VList inn items)) p)
        with (cand_items cand_inner inn p (map strip_v items) 0).
      now rewrite strip_items_cand.
    + change (strip_v (VList inn items)) with (VList inn (map strip_v items)).
      rewrite !fails_inner_list. f_equal. induction F as [|x tl Hx _ IH]; simpl; auto.
      now rewrite (sv_fails _ Hx), (sv_null _ Hx), IH.
    + change (strip_v (VList inn items)) with (VList inn (map strip_v items)).
      rewrite !jv_list. f_equal. induction F as [|x tl Hx _ IH]; simpl; auto.
      unfold jc in *. now rewrite (sv_fails _ Hx), (sv_jv _ Hx), IH.
    + intros p. change (must_I (strip_v (VList inn items)) p)
        with (must_items must_I inn p (map strip_v items) 0).
      now rewrite strip_items_must.
    + change (strip_v (VList inn items)) with (VList inn (map strip_v items)).
      rewrite count_async_list. induction F as [|x tl Hx _ IH]; simpl; auto.
      now rewrite (sv_async _ Hx), IH.
  - intros fields F. constructor; try reflexivity.
    + intros p errs. change (sync_inner (strip_v (VObj fields)) p errs)
        with (sync_sel sync_field p (strip_sel fields) [] errs).
      now rewrite strip_sel_sync.
    + intros p. change (cand_inner (strip_v (VObj fields)) p) with (cand_sel cand_field p (strip_sel fields)).
      now rewrite strip_sel_cand.
    + change (strip_v (VObj fields)) with (VObj (strip_sel fields)).
      rewrite !fails_inner_obj. induction F as [|[k f] tl Hf _ IH]; simpl; auto.
      simpl in Hf. now rewrite (sf_nn _ Hf), (sf_fails _ Hf), IH.
    + change (strip_v (VObj fields)) with (VObj (strip_sel fields)).
      rewrite !jv_obj. f_equal. induction F as [|[k f] tl Hf _ IH]; simpl; auto.
      simpl in Hf. now rewrite (sf_jf _ Hf), IH.
    + intros p. change (must_I (strip_v (VObj fields)) p) with (must_sel must_F p (strip_sel fields)).
      now rewrite strip_sel_must.
    + change (strip_v (VObj fields)) with (VObj (strip_sel fields)).
      rewrite count_async_obj. induction F as [|[k f] tl Hf _ IH]; simpl; auto.
      simpl in Hf. now rewrite (sf_async _ Hf), IH.
  - intros tag nn. constructor; reflexivity.
  - intros tag nn v Hv. constructor; simpl.
    + intros p errs. now rewrite (sv_sync _ Hv).
    + intros p. now rewrite (sv_cand _ Hv), (cand_nn_strip _ _ _ _ (sv_null _ Hv)).
    + now rewrite (sv_fails _ Hv), (sv_null _ Hv).
    + now rewrite (sv_fails _ Hv), (sv_jv _ Hv).
    + intros p. apply (sv_must _ Hv).
    + apply (sv_async _ Hv).
    + reflexivity.
Qed.

Lemma strip_obj root : strip_v (VObj root) = VObj (strip root).
Proof. reflexivity. Qed.

Lemma strip_count root : count_async (strip root) = 0.
Proof. unfold count_async. rewrite <- strip_obj. apply (sv_async _ (proj1 strip_all (VObj root))). Qed.

Lemma strip_run_sync root : run_sync (strip root) = run_sync root.
Proof. unfold run_sync. rewrite <- strip_obj. now rewrite (sv_sync _ (proj1 strip_all (VObj root))). Qed.

Lemma strip_sites root : sites (strip root) = sites root.
Proof. unfold sites. rewrite <- strip_obj. now rewrite (sv_cand _ (proj1 strip_all (VObj root))). Qed.

Lemma strip_visible root : visible_nulls (strip root) = visible_nulls root.
Proof.
  unfold visible_nulls. rewrite <- strip_obj.
  pose proof (proj1 strip_all (VObj root)) as H.
  now rewrite (sv_fails _ H), (sv_cand _ H), (sv_must _ H).
Qed.

Lemma strip_ddata root : ddata (strip root) = ddata root.
Proof.
  unfold ddata. rewrite <- strip_obj. pose proof (proj1 strip_all (VObj root)) as H.
  now rewrite (sv_fails _ H), (sv_jv _ H).
Qed.

Lemma conforms_strip root d errs : conforms (strip root) d errs <-> conforms root d errs.
Proof.
  split; intros [A B C]; constructor.
  - now rewrite strip_run_sync in A.
  - now rewrite strip_sites in B.
  - now rewrite strip_visible in C.
  - now rewrite strip_run_sync.
  - now rewrite strip_sites.
  - now rewrite strip_visible.
Qed.

(** the property's own equivalence is tag-blind *)
Lemma conforms_same_outcomes a b d errs : same_outcomes a b -> conforms a d errs -> conforms b d errs.
Proof. unfold same_outcomes. intros E H. apply conforms_strip. rewrite <- E. now apply conforms_strip. Qed.

(** ** 2. under well-formed keys every error belongs to one position only *)
Definition errs_of (c : list err * list site) : list err := fst c ++ flat_map snd (snd c).

(** the response path of [e] lies at or beneath position [p] *)
Definition under (p : rpath) (e : err) : Prop := exists rel, e_path e = rev p ++ rel.

Lemma errs_of_catch nn q c : errs_of (cand_catch nn q c) = errs_of c.
Proof. unfold errs_of, cand_catch. destruct nn; reflexivity. Qed.

Lemma errs_of_app (c r : list err * list site) :
  Permutation (errs_of (fst c ++ fst r, snd c ++ snd r)) (errs_of c ++ errs_of r).
Proof.
  unfold errs_of. simpl. rewrite flat_map_app, <- !app_assoc. apply Permutation_app_head.
  rewrite !app_assoc. apply Permutation_app_tail. apply Permutation_app_comm.
Qed.

Lemma under_step x p e : under (x :: p) e -> exists rel, e_path e = rev p ++ x :: rel.
Proof. intros [rel E]. exists rel. simpl in E. now rewrite <- app_assoc in E. Qed.

Lemma under_up x p e : under (x :: p) e -> under p e.
Proof. intros H. destruct (under_step _ _ _ H) as [rel E]. now exists (x :: rel). Qed.

Definition NDV (v : vplan) : Prop :=
  forall p, wf_v v = true -> NoDup (errs_of (cand_inner v p)) /\ Forall (under p) (errs_of (cand_inner v p)).
Definition NDF (f : fplan) : Prop :=
  forall p, wf_f f = true -> NoDup (errs_of (cand_field f p)) /\ Forall (under p) (errs_of (cand_field f p)).

Lemma under_self p k : under p (err_at p k).
Proof. exists []. unfold err_at, slice. simpl. now rewrite app_nil_r. Qed.

Lemma single_ok p k : NoDup [err_at p k] /\ Forall (under p) [err_at p k].
Proof. split; [constructor; [intros []|constructor] | constructor; [apply under_self|constructor]]. Qed.

(** the non-null wrapper *)
Lemma nd_wrap nn q v : NDV v -> wf_v v = true ->
  NoDup (errs_of (cand_nn nn q v (cand_inner v q))) /\ Forall (under q) (errs_of (cand_nn nn q v (cand_inner v q))).
Proof.
  intros H W. unfold cand_nn. destruct nn; [|now apply H]. destruct v; try (now apply H).
  simpl. apply single_ok.
Qed.

Lemma NoDup_app_of {A} (a b : list A) :
  NoDup a -> NoDup b -> (forall x, In x a -> In x b -> False) -> NoDup (a ++ b).
Proof.
  induction a as [|x a IH]; simpl; intros Ha Hb D; auto.
  inversion Ha as [|? ? Hx Ha']; subst. constructor.
  - intros In. apply in_app_or in In. destruct In as [I|I]; [contradiction | exact (D x (or_introl eq_refl) I)].
  - apply IH; auto. intros y Ia Ib. exact (D y (or_intror Ia) Ib).
Qed.

Lemma wf_list_cons inn x tl : wf_v (VList inn (x :: tl)) = wf_v x && wf_v (VList inn tl).
Proof. reflexivity. Qed.

Lemma nd_items inn p l : Forall NDV l -> wf_v (VList inn l) = true ->
  forall i, NoDup (errs_of (cand_items cand_inner inn p l i)) /\
            Forall (fun e => exists j rel, i <= j /\ e_path e = rev p ++ PIdx j :: rel)
                   (errs_of (cand_items cand_inner inn p l i)).
Proof.
  induction 1 as [|x tl Hx _ IH]; intros W i.
  - simpl. split; constructor.
  - rewrite wf_list_cons in W. apply andb_true_iff in W. destruct W as [Wx Wt].
    destruct (IH Wt (S i)) as [N2 U2].
    destruct (nd_wrap inn (PIdx i :: p) x Hx Wx) as [N1 U1].
    change (cand_items cand_inner inn p (x :: tl) i)
      with (let c := cand_catch inn (PIdx i :: p) (cand_nn inn (PIdx i :: p) x (cand_inner x (PIdx i :: p))) in
            let r := cand_items cand_inner inn p tl (S i) in (fst c ++ fst r, snd c ++ snd r)).
    cbv zeta.
    set (c := cand_catch inn (PIdx i :: p) (cand_nn inn (PIdx i :: p) x (cand_inner x (PIdx i :: p)))) in *.
    set (r := cand_items cand_inner inn p tl (S i)) in *.
    pose proof (errs_of_app c r) as P.
    assert (Ec : errs_of c = errs_of (cand_nn inn (PIdx i :: p) x (cand_inner x (PIdx i :: p))))
      by apply errs_of_catch.
    split.
    + eapply Permutation_NoDup; [symmetry; exact P|]. apply NoDup_app_of; auto.
      * now rewrite Ec.
      * intros e I1 I2. rewrite Ec in I1. rewrite Forall_forall in U1, U2.
        destruct (under_step _ _ _ (U1 e I1)) as [rel1 E1].
        destruct (U2 e I2) as (j & rel2 & Hj & E2).
        rewrite E1 in E2. apply app_inv_head in E2. injection E2 as E2 _. lia.
    + eapply Permutation_Forall; [symmetry; exact P|]. apply Forall_app. split.
      * rewrite Ec. eapply Forall_impl; [|exact U1]. intros e U.
        destruct (under_step _ _ _ U) as [rel E]. exists i, rel. split; auto.
      * eapply Forall_impl; [|exact U2]. intros e (j & rel & Hj & E). exists j, rel. split; auto. lia.
Qed.

Lemma wf_obj_cons k f tl :
  wf_v (VObj ((k, f) :: tl)) =
  negb (match k with [] => true | _ => false end) && negb (existsb (bytes_eqb k) (map fst tl)) &&
  wf_f f && wf_v (VObj tl).
Proof.
  simpl. btauto.
Qed.

Lemma nd_sel p l : Forall (fun kf => NDF (snd kf)) l -> wf_v (VObj l) = true ->
  NoDup (errs_of (cand_sel cand_field p l)) /\
  Forall (fun e => exists k rel, In k (map fst l) /\ e_path e = rev p ++ PKey k :: rel)
         (errs_of (cand_sel cand_field p l)).
Proof.
  induction 1 as [|[key fp] tl Hf _ IH]; intros W.
  - simpl. split; constructor.
  - rewrite wf_obj_cons in W. apply andb_true_iff in W. destruct W as [W Wt].
    apply andb_true_iff in W. destruct W as [W Wf]. apply andb_true_iff in W. destruct W as [_ Wk].
    destruct (IH Wt) as [N2 U2]. simpl in Hf. destruct (Hf (PKey key :: p) Wf) as [N1 U1].
    change (cand_sel cand_field p ((key, fp) :: tl))
      with (let c := cand_catch (match fp with FP _ nn _ => nn end) (PKey key :: p) (cand_field fp (PKey key :: p)) in
            let r := cand_sel cand_field p tl in (fst c ++ fst r, snd c ++ snd r)).
    cbv zeta.
    set (c := cand_catch (match fp with FP _ nn _ => nn end) (PKey key :: p) (cand_field fp (PKey key :: p))) in *.
    set (r := cand_sel cand_field p tl) in *.
    pose proof (errs_of_app c r) as P.
    assert (Ec : errs_of c = errs_of (cand_field fp (PKey key :: p))) by apply errs_of_catch.
    split.
    + eapply Permutation_NoDup; [symmetry; exact P|]. apply NoDup_app_of; auto.
      * now rewrite Ec.
      * intros e I1 I2. rewrite Ec in I1. rewrite Forall_forall in U1, U2.
        destruct (under_step _ _ _ (U1 e I1)) as [rel1 E1].
        destruct (U2 e I2) as (k & rel2 & Hk & E2).
        rewrite E1 in E2. apply app_inv_head in E2. injection E2 as E2 _. subst k.
        apply negb_true_iff in Wk. assert (X : existsb (bytes_eqb key) (map fst tl) = true).
        { apply existsb_exists. exists key. split; auto. apply bytes_eqb_refl. }
        congruence.
    + eapply Permutation_Forall; [symmetry; exact P|]. apply Forall_app. split.
      * rewrite Ec. eapply Forall_impl; [|exact U1]. intros e U.
        destruct (under_step _ _ _ U) as [rel E]. exists key, rel. split; auto. now left.
      * eapply Forall_impl; [|exact U2]. intros e (k & rel & Hk & E). exists k, rel. split; auto. now right.
Qed.

Theorem nodup_all : (forall v, NDV v) /\ (forall f, NDF f).
Proof.
  apply plan_ind.
  - intros p _. simpl. split; constructor.
  - intros z p _. simpl. split; constructor.
  - intros p _. apply single_ok.
  - intros inn items F p W. destruct (nd_items inn p items F W 0) as [N U]. split; auto.
    eapply Forall_impl; [|exact U]. intros e (j & rel & _ & E). now exists (PIdx j :: rel).
  - intros fields F p W. destruct (nd_sel p fields F W) as [N U]. split; auto.
    eapply Forall_impl; [|exact U]. intros e (k & rel & _ & E). now exists (PKey k :: rel).
  - intros tag nn p _. apply single_ok.
  - intros tag nn v Hv p W. simpl in W. apply (nd_wrap nn p v Hv W).
Qed.

Lemma all_errors_NoDup root : wf root = true -> NoDup (all_errors root).
Proof.
  intros W. unfold all_errors, sites. simpl. apply (proj1 nodup_all (VObj root) [] W).
Qed.

Lemma sub_perm_flat_map {A B} (f : A -> list B) a b : sub_perm a b -> sub_perm (flat_map f a) (flat_map f b).
Proof.
  intros [c P]. exists (flat_map f c). rewrite <- flat_map_app. now apply Permutation_flat_map.
Qed.

(** errors matched one-to-one with distinct sites are pairwise different *)
Lemma landed_NoDup errs ls : Forall2 lands errs ls -> NoDup (flat_map snd ls) -> NoDup errs.
Proof.
  induction 1 as [|e x es xs L F IH]; intros N; [constructor|].
  simpl in N. constructor.
  - intros I. assert (X : In e (flat_map snd xs)).
    { clear - F I. induction F as [|e' x' es' xs' L' _ IH']; [destruct I|].
      simpl. apply in_or_app. destruct I as [->|I]; [now left | right; auto]. }
    eapply NoDup_app_disj; eauto.
  - apply IH. eapply NoDup_app_r; eauto.
Qed.

(** ** 3. the statements of Properties/C02.v *)

(** the fuel the theorems ask for: one idle round per promise of the plan, one level of JSON
    projection per nesting level of the data *)
Definition resp_depth (root : selset) : nat := jdepth (jv (VObj root)).

Lemma sync_data root : sr_data (run_sync root) = ddata root.
Proof. apply (run_sync_ok root). Qed.

Lemma resp_ok_conforms root r : resp_ok root r -> conforms root (r_data r) (r_errors r).
Proof.
  intros (D & L & M & _). constructor.
  - now rewrite sync_data.
  - exact L.
  - exact M.
Qed.

Lemma run_ok md sigma fuel jfuel root :
  fair sigma -> count_async root <= fuel -> resp_depth root < jfuel ->
  exists r, run FX sigma md fuel jfuel root = Done r /\ resp_ok root r.
Proof. destruct md; [apply run_query_ok | apply run_mutation_ok]. Qed.

(** every run under a fair idle handler finishes, and its response conforms *)
Theorem run_conforms md sigma fuel jfuel root :
  fair sigma -> count_async root <= fuel -> resp_depth root < jfuel ->
  exists r, run FX sigma md fuel jfuel root = Done r /\
            conforms root (r_data r) (r_errors r) /\
            r_data r = data_shape root /\
            r_rounds r <= r_promises r /\ r_promises r <= count_async root.
Proof.
  intros Fa Hf Hj. destruct (run_ok md sigma fuel jfuel root Fa Hf Hj) as (r & E & O).
  exists r. split; auto. split; [now apply resp_ok_conforms|].
  destruct O as (D & _ & _ & R). auto.
Qed.

(** two runs of the same request with the same resolver outcomes — any two choices of the
    asynchronous resolvers, any two fair schedules *)
Theorem schedule_independent md root1 root2 sigma1 sigma2 fuel1 fuel2 jfuel :
  same_outcomes root1 root2 ->
  fair sigma1 -> fair sigma2 ->
  count_async root1 <= fuel1 -> count_async root2 <= fuel2 -> resp_depth root1 < jfuel ->
  exists r1 r2,
    run FX sigma1 md fuel1 jfuel root1 = Done r1 /\
    run FX sigma2 md fuel2 jfuel root2 = Done r2 /\
    r_data r1 = r_data r2 /\
    conforms root1 (r_data r1) (r_errors r1) /\
    conforms root1 (r_data r2) (r_errors r2).
Proof.
  intros Same F1 F2 H1 H2 Hj.
  assert (Hj2 : resp_depth root2 < jfuel).
  { unfold resp_depth in *. unfold same_outcomes in Same.
    rewrite <- (sv_jv _ (proj1 strip_all (VObj root2))), strip_obj, <- Same, <- strip_obj,
      (sv_jv _ (proj1 strip_all (VObj root1))). exact Hj. }
  destruct (run_conforms md sigma1 fuel1 jfuel root1 F1 H1 Hj) as (r1 & E1 & C1 & D1 & _).
  destruct (run_conforms md sigma2 fuel2 jfuel root2 F2 H2 Hj2) as (r2 & E2 & C2 & D2 & _).
  exists r1, r2. split; auto. split; auto.
  assert (C2' : conforms root1 (r_data r2) (r_errors r2)).
  { apply (conforms_same_outcomes root2 root1); auto. unfold same_outcomes in *. now symmetry. }
  split; [|split; auto]. rewrite (cf_data _ _ _ C1), (cf_data _ _ _ C2'). reflexivity.
Qed.

(** the all-synchronous instance of the same executor needs no idle round at all *)
Theorem sync_instance md sigma fuel jfuel root :
  fair sigma -> resp_depth root < jfuel ->
  exists r, run FX sigma md fuel jfuel (strip root) = Done r /\
            conforms root (r_data r) (r_errors r) /\ r_rounds r = 0 /\ r_promises r = 0.
Proof.
  intros Fa Hj.
  assert (Hj2 : resp_depth (strip root) < jfuel).
  { unfold resp_depth in *. now rewrite <- strip_obj, (sv_jv _ (proj1 strip_all (VObj root))). }
  destruct (run_conforms md sigma fuel jfuel (strip root) Fa ltac:(rewrite strip_count; lia) Hj2)
    as (r & E & C & _ & R1 & R2).
  exists r. split; auto. split; [now apply conforms_strip|]. rewrite strip_count in R2. lia.
Qed.

(** no error more than once *)
Lemma conforms_NoDup root d errs : wf root = true -> conforms root d errs -> NoDup errs.
Proof.
  intros W [_ (ls & F & S) _]. apply (landed_NoDup errs ls F).
  eapply sub_perm_NoDup; [apply (sub_perm_flat_map snd _ _ S)|]. now apply all_errors_NoDup.
Qed.

Theorem no_duplicate_error md sigma fuel jfuel root :
  wf root = true -> fair sigma -> count_async root <= fuel -> resp_depth root < jfuel ->
  exists r, run FX sigma md fuel jfuel root = Done r /\ NoDup (r_errors r).
Proof.
  intros W Fa Hf Hj. destruct (run_conforms md sigma fuel jfuel root Fa Hf Hj) as (r & E & C & _).
  exists r. split; auto. eapply conforms_NoDup; eauto.
Qed.

(** no blank key *)
Definition NBV (v : vplan) : Prop := wf_v v = true -> has_blank_key (jv v) = false.
Definition NBF (f : fplan) : Prop := wf_f f = true -> has_blank_key (jf f) = false.

Theorem no_blank_all : (forall v, NBV v) /\ (forall f, NBF f).
Proof.
  apply plan_ind; try (intros; intro; reflexivity).
  - intros inn items F W. rewrite jv_list. simpl.
    induction F as [|x tl Hx _ IH]; [reflexivity|].
    rewrite wf_list_cons in W. apply andb_true_iff in W. destruct W as [Wx Wt].
    simpl. rewrite (IH Wt), orb_false_r. unfold jc. destruct (fails_inner x); [reflexivity | now apply Hx].
  - intros fields F W. rewrite jv_obj. simpl.
    induction F as [|[k f] tl Hf _ IH]; [reflexivity|].
    rewrite wf_obj_cons in W. apply andb_true_iff in W. destruct W as [W Wt].
    apply andb_true_iff in W. destruct W as [W Wf]. apply andb_true_iff in W. destruct W as [Wk _].
    simpl. rewrite (IH Wt), orb_false_r. simpl in Hf. rewrite (Hf Wf), orb_false_r.
    destruct k; [discriminate | reflexivity].
  - intros tag nn v Hv W. simpl in *. destruct (fails_inner v); [reflexivity | now apply Hv].
Qed.

Theorem no_blank_key md sigma fuel jfuel root :
  wf root = true -> fair sigma -> count_async root <= fuel -> resp_depth root < jfuel ->
  exists r, run FX sigma md fuel jfuel root = Done r /\
            match r_data r with Some j => has_blank_key j = false | None => True end.
Proof.
  intros W Fa Hf Hj. destruct (run_conforms md sigma fuel jfuel root Fa Hf Hj) as (r & E & _ & D & _).
  exists r. split; auto. rewrite D. unfold data_shape, ddata.
  destruct (fails_inner (VObj root)); auto. apply (proj1 no_blank_all (VObj root) W).
Qed.

(** null data comes with an error *)
Theorem data_or_error md sigma fuel jfuel root :
  fair sigma -> count_async root <= fuel -> resp_depth root < jfuel ->
  exists r, run FX sigma md fuel jfuel root = Done r /\ (r_data r = None -> r_errors r <> []).
Proof.
  intros Fa Hf Hj. destruct (run_conforms md sigma fuel jfuel root Fa Hf Hj) as (r & E & C & D & _).
  exists r. split; auto. intros N. rewrite D in N. unfold data_shape, ddata in N.
  destruct C as [_ _ M]. unfold visible_nulls in M.
  destruct (fails_inner (VObj root)); [|discriminate].
  inversion M as [|? ? (e & I & _) _]; subst. intros Z. rewrite Z in I. destruct I.
Qed.

(** the reference itself: its errors, too, land one per site *)
Theorem sync_reference_lands root :
  sr_data (run_sync root) = data_shape root /\
  exists ls, Forall2 lands (sr_errors (run_sync root)) ls /\ sub_perm ls (sites root).
Proof. apply (run_sync_ok root). Qed.

(** each closure invocation of the future of a selection set keeps the invariant and pays for
    every side effect out of its account (the step half of the simulation) *)
Theorem poll_sound root p :
  StepSpec (fun G s => LiveS G s root p) (spec_I (VObj root) p).
Proof. apply S_step. apply sel_step_all. Qed.

(** ** the schedulers of the correspondence check are fair *)
Lemma fold_min_attained {A} (f : A -> nat) l a :
  fold_left (fun acc x => Nat.min acc (f x)) l a = a \/
  exists x, In x l /\ f x = fold_left (fun acc x => Nat.min acc (f x)) l a.
Proof.
  revert a. induction l as [|y l IH]; intros a; simpl; [now left|].
  destruct (IH (Nat.min a (f y))) as [E|(x & I & E)].
  - rewrite E. destruct (Nat.min_dec a (f y)) as [M|M]; rewrite M; [now left|].
    right. exists y. split; [now left|]. reflexivity.
  - right. exists x. split; [now right | exact E].
Qed.

Theorem sigma_ranks_fair ranks : fair (sigma_ranks ranks).
Proof.
  intros r out Hne. destruct out as [|[id0 t0] tl]; [congruence|]. clear Hne.
  unfold sigma_ranks.
  set (out := (id0, t0) :: tl).
  set (m := fold_left (fun a pt => Nat.min a (rank_of ranks (snd pt))) out (rank_of ranks t0)).
  assert (X : exists x, In x out /\ rank_of ranks (snd x) = m).
  { destruct (fold_min_attained (fun pt : nat * N => rank_of ranks (snd pt)) out (rank_of ranks t0)) as [E|H].
    - exists (id0, t0). split; [now left|]. symmetry. exact E.
    - exact H. }
  destruct X as (x & I & E). exists (fst x). split.
  - now apply in_map.
  - apply in_map. apply filter_In. split; auto. now apply Nat.eqb_eq.
Qed.

(** ** the three repaired defects, kept as witnesses: with one flag of the pinned tree switched
    back on, the faithful model violates the property *)
Definition flags_drop_err : flags := {| fwd_err := false; after_ptr := true; nn_fwd := true |}.
Definition flags_after_by_value : flags := {| fwd_err := true; after_ptr := false; nn_fwd := true |}.
Definition flags_nn_swallows : flags := {| fwd_err := true; after_ptr := true; nn_fwd := false |}.

Definition key_a : bytes := [97%N].
Definition key_b : bytes := [98%N].
Definition key_c : bytes := [99%N].

(** {a}: a promise fulfilled with an error beneath Int! *)
Definition w_drop : selset := [(key_a, FP (Some 0%N) true None)].
(** {a b c}: three promises fulfilled one per idle round, a's with an error *)
Definition w_after : selset :=
  [(key_a, FP (Some 0%N) false None); (key_b, FP (Some 1%N) false (Some (VLeaf 1)));
   (key_c, FP (Some 2%N) false (Some (VLeaf 2)))].
(** {a}: a synchronous resolver returning a string for Int! *)
Definition w_nn : selset := [(key_a, FP None true (Some VBad))].

Theorem refuted_when_mapok_drops_error :
  exists root sigma r, wf root = true /\ fair sigma /\
    run flags_drop_err sigma Query (count_async root) (S (resp_depth root)) root = Done r /\
    r_errors r = [] /\ r_data r <> sr_data (run_sync root) /\
    exists j, r_data r = Some j /\ has_blank_key j = true.
Proof.
  exists w_drop, (sigma_ranks [0]), 
    {| r_data := Some (JObj [([], JNull)]); r_errors := []; r_rounds := 1;
       r_events := [EStart [PKey key_a]; EFulfil [PKey key_a]]; r_promises := 1 |}.
  split; [reflexivity|]. split; [apply sigma_ranks_fair|]. split; [vm_compute; reflexivity|].
  split; [reflexivity|]. split; [vm_compute; discriminate|].
  eexists. split; reflexivity.
Qed.

Theorem refuted_when_after_ranges_by_value :
  exists root sigma r, wf root = true /\ fair sigma /\
    run flags_after_by_value sigma Query (count_async root) (S (resp_depth root)) root = Done r /\
    ~ NoDup (r_errors r).
Proof.
  exists w_after, (sigma_ranks [0; 1; 2]),
    {| r_data := Some (JObj [(key_a, JNull); (key_b, JInt 1); (key_c, JInt 2)]);
       r_errors := [mkerr [PKey key_a] KResolve; mkerr [PKey key_a] KResolve; mkerr [PKey key_a] KResolve];
       r_rounds := 3;
       r_events := [EStart [PKey key_a]; EStart [PKey key_b]; EStart [PKey key_c];
                    EFulfil [PKey key_a]; EFulfil [PKey key_b]; EFulfil [PKey key_c]];
       r_promises := 3 |}.
  split; [reflexivity|]. split; [apply sigma_ranks_fair|]. split; [vm_compute; reflexivity|].
  simpl. intros N. inversion N as [|? ? H _]; subst. apply H. now left.
Qed.

Theorem refuted_when_nonnull_swallows_error :
  exists root sigma r, wf root = true /\ fair sigma /\
    run flags_nn_swallows sigma Query (count_async root) (S (resp_depth root)) root = Done r /\
    r_errors r = [] /\ r_data r <> sr_data (run_sync root).
Proof.
  exists w_nn, (sigma_ranks []),
    {| r_data := Some (JObj [(key_a, JNull)]); r_errors := []; r_rounds := 0;
       r_events := [EStart [PKey key_a]]; r_promises := 0 |}.
  split; [reflexivity|]. split; [apply sigma_ranks_fair|]. split; [vm_compute; reflexivity|].
  split; [reflexivity|]. vm_compute. discriminate.
Qed.

(** finitely many idle rounds, with the fuel the plan itself gives *)
Theorem rounds_bounded md sigma root :
  fair sigma ->
  exists r, run FX sigma md (count_async root) (S (resp_depth root)) root = Done r /\
            r_rounds r <= r_promises r /\ r_promises r <= count_async root.
Proof.
  intros Fa.
  destruct (run_conforms md sigma (count_async root) (S (resp_depth root)) root Fa (le_n _) (le_n _))
    as (r & E & _ & _ & R).
  exists r. split; auto.
Qed.

(** ** "the same error for every null left visible" *)

(** what is schedule- and tag-independent without any exclusion: the landing sites, the visible
    failure-nulls, and that each of them receives exactly one error, admissible there *)
Theorem error_sites_independent root1 root2 d1 e1 d2 e2 :
  same_outcomes root1 root2 ->
  conforms root1 d1 e1 -> conforms root2 d2 e2 ->
  sites root1 = sites root2 /\ visible_nulls root1 = visible_nulls root2 /\
  forall x, In x (visible_nulls root1) ->
    (exists a, In a e1 /\ In a (snd x)) /\ (exists b, In b e2 /\ In b (snd x)).
Proof.
  intros Same C1 C2. unfold same_outcomes in Same.
  assert (Es : sites root1 = sites root2) by (rewrite <- (strip_sites root1), Same; apply strip_sites).
  assert (Ev : visible_nulls root1 = visible_nulls root2)
    by (rewrite <- (strip_visible root1), Same; apply strip_visible).
  split; auto. split; auto. intros x Hx.
  pose proof (cf_nulls _ _ _ C1) as N1. pose proof (cf_nulls _ _ _ C2) as N2. rewrite <- Ev in N2.
  rewrite Forall_forall in N1, N2. split; [apply (N1 x Hx) | apply (N2 x Hx)].
Qed.

Lemma single_candidate_at root x :
  single_candidate root = true -> In x (visible_nulls root) -> exists e, snd x = [e].
Proof.
  unfold single_candidate. rewrite forallb_forall. intros H Hx. specialize (H x Hx).
  destruct (snd x) as [|e [|? ?]]; try discriminate. now exists e.
Qed.

(** with the exclusion: any two runs report the same error for every visible failure-null *)
Theorem same_error_when_single_candidate md root1 root2 sigma1 sigma2 fuel1 fuel2 jfuel :
  excl_admissible_error_differs root1 = false ->
  same_outcomes root1 root2 ->
  fair sigma1 -> fair sigma2 ->
  count_async root1 <= fuel1 -> count_async root2 <= fuel2 -> resp_depth root1 < jfuel ->
  exists r1 r2,
    run FX sigma1 md fuel1 jfuel root1 = Done r1 /\
    run FX sigma2 md fuel2 jfuel root2 = Done r2 /\
    r_data r1 = r_data r2 /\
    forall x, In x (visible_nulls root1) ->
      exists e, snd x = [e] /\ In e (r_errors r1) /\ In e (r_errors r2) /\
                (forall e', lands e' x -> e' = e).
Proof.
  intros Ex Same F1 F2 H1 H2 Hj.
  destruct (schedule_independent md root1 root2 sigma1 sigma2 fuel1 fuel2 jfuel Same F1 F2 H1 H2 Hj)
    as (r1 & r2 & E1 & E2 & D & C1 & C2).
  exists r1, r2. split; auto. split; auto. split; auto.
  intros x Hx. unfold excl_admissible_error_differs in Ex. apply negb_false_iff in Ex.
  destruct (single_candidate_at root1 x Ex Hx) as [e Se]. exists e. split; auto.
  pose proof (cf_nulls _ _ _ C1) as N1. pose proof (cf_nulls _ _ _ C2) as N2.
  rewrite Forall_forall in N1, N2.
  destruct (N1 x Hx) as (a & Ia & La). destruct (N2 x Hx) as (b & Ib & Lb).
  unfold lands in *. rewrite Se in La, Lb. destruct La as [<-|[]]. destruct Lb as [<-|[]].
  split; auto. split; auto. intros e' L. rewrite Se in L. destruct L as [<-|[]]. reflexivity.
Qed.

(** without it the literal statement is false of the faithful model (and of the code: the oracle
    key admissible-error-differs): {a b}, a: Int! a failing promise, b: Int! failing directly — the
    synchronous execution reports a's error, the asynchronous one b's, without an idle round *)
Definition w_two_fail : selset := [(key_a, FP (Some 0%N) true None); (key_b, FP None true None)].

Theorem same_error_refuted :
  exists root1 root2 sigma r1 r2,
    wf root1 = true /\ same_outcomes root1 root2 /\ fair sigma /\
    run FX sigma Query (count_async root1) (S (resp_depth root1)) root1 = Done r1 /\
    run FX sigma Query (count_async root2) (S (resp_depth root1)) root2 = Done r2 /\
    r_data r1 = r_data r2 /\
    exists x e1 e2, In x (visible_nulls root1) /\
      r_errors r1 = [e1] /\ r_errors r2 = [e2] /\ lands e1 x /\ lands e2 x /\ e1 <> e2.
Proof.
  exists w_two_fail, (strip w_two_fail), (sigma_ranks [0]),
    {| r_data := None; r_errors := [mkerr [PKey key_b] KResolve]; r_rounds := 0;
       r_events := [EStart [PKey key_a]; EStart [PKey key_b]]; r_promises := 1 |},
    {| r_data := None; r_errors := [mkerr [PKey key_a] KResolve]; r_rounds := 0;
       r_events := [EStart [PKey key_a]]; r_promises := 0 |}.
  split; [reflexivity|]. split; [reflexivity|]. split; [apply sigma_ranks_fair|].
  split; [vm_compute; reflexivity|]. split; [vm_compute; reflexivity|]. split; [reflexivity|].
  exists ([], [mkerr [PKey key_a] KResolve; mkerr [PKey key_b] KResolve]),
    (mkerr [PKey key_b] KResolve), (mkerr [PKey key_a] KResolve).
  split; [vm_compute; now left|]. split; [reflexivity|]. split; [reflexivity|].
  split; [right; now left|]. split; [now left|]. discriminate.
Qed.

(** the same with one request and two schedules: { a { x y } }, x: Int!, y: Int! failing promises *)
Definition w_xy : selset :=
  [ (key_a, FP None false (Some (VObj [ ([120%N], FP (Some 0%N) true None); ([121%N], FP (Some 1%N) true None) ]))) ].

Theorem same_error_refuted_by_schedule :
  exists root sigma1 sigma2 r1 r2,
    wf root = true /\ fair sigma1 /\ fair sigma2 /\
    run FX sigma1 Query (count_async root) (S (resp_depth root)) root = Done r1 /\
    run FX sigma2 Query (count_async root) (S (resp_depth root)) root = Done r2 /\
    r_data r1 = r_data r2 /\
    exists x e1 e2, In x (visible_nulls root) /\
      r_errors r1 = [e1] /\ r_errors r2 = [e2] /\ lands e1 x /\ lands e2 x /\ e1 <> e2.
Proof.
  exists w_xy, (sigma_ranks [0; 1]), (sigma_ranks [1; 0]),
    {| r_data := Some (JObj [(key_a, JNull)]); r_errors := [mkerr [PKey key_a; PKey [120%N]] KResolve];
       r_rounds := 1;
       r_events := [EStart [PKey key_a]; EStart [PKey key_a; PKey [120%N]]; EStart [PKey key_a; PKey [121%N]];
                    EFulfil [PKey key_a; PKey [120%N]]];
       r_promises := 2 |},
    {| r_data := Some (JObj [(key_a, JNull)]); r_errors := [mkerr [PKey key_a; PKey [121%N]] KResolve];
       r_rounds := 1;
       r_events := [EStart [PKey key_a]; EStart [PKey key_a; PKey [120%N]]; EStart [PKey key_a; PKey [121%N]];
                    EFulfil [PKey key_a; PKey [121%N]]];
       r_promises := 2 |}.
  split; [reflexivity|]. split; [apply sigma_ranks_fair|]. split; [apply sigma_ranks_fair|].
  split; [vm_compute; reflexivity|]. split; [vm_compute; reflexivity|]. split; [reflexivity|].
  exists ([PKey key_a], [mkerr [PKey key_a; PKey [120%N]] KResolve; mkerr [PKey key_a; PKey [121%N]] KResolve]),
    (mkerr [PKey key_a; PKey [120%N]] KResolve), (mkerr [PKey key_a; PKey [121%N]] KResolve).
  split; [vm_compute; now left|]. split; [reflexivity|]. split; [reflexivity|].
  split; [now left|]. split; [right; now left|]. discriminate.
Qed.

(** ** [conforms], with the visible failure-nulls read off the data as the oracle does *)
Theorem conforms_by_reading root d errs : wf root = true ->
  (conforms root d errs <->
   d = sr_data (run_sync root) /\
   (exists ls, Forall2 lands errs ls /\ sub_perm ls (sites root)) /\
   forall x, In x (sites root) -> visible_failure_null d x = true -> exists e, In e errs /\ lands e x).
Proof.
  intros W. split.
  - intros [D L N]. split; auto. split; auto. intros x Hx V.
    rewrite D, sync_data in V. apply (visible_nulls_agree root W x Hx) in V.
    rewrite Forall_forall in N. now apply N.
  - intros (D & L & N). constructor; auto. apply Forall_forall. intros x Hx.
    apply N; [now apply visible_nulls_are_sites|].
    rewrite D, sync_data. apply (visible_nulls_agree root W x); auto. now apply visible_nulls_are_sites.
Qed.

(** ** the idle-handler contract (graphql.go: "any time request execution is unable to proceed, the
    idle handler will be invoked"): in the model an idle call that finds no outstanding promise
    ends the run as [Stuck], whatever the handler is; a ready future is returned by [wait] without
    any idle call; and no run under a fair handler is [Stuck] — so the executor calls the idle
    handler only while a promise is outstanding, and never after completion. *)
Lemma idle_needs_outstanding sigma s : outstanding s = [] -> idle sigma s = None.
Proof.
  unfold outstanding, idle. intros O. apply map_eq_nil in O.
  assert (H : filter (fun p => negb (p_done p) && mem_nat (p_id p) (sigma (s_round s) [])) (s_proms s) = []).
  { induction (s_proms s) as [|p l IH]; [reflexivity|]. simpl in *.
    destruct (negb (p_done p)); [discriminate|]. simpl. now apply IH. }
  unfold outstanding. rewrite O. simpl. now rewrite H.
Qed.

Lemma wait_ready_no_idle fl sigma fuel r s : wait fl sigma fuel (Ready r) s = Done (r, s).
Proof. reflexivity. Qed.

Theorem run_never_stuck md sigma fuel jfuel root :
  fair sigma -> count_async root <= fuel -> resp_depth root < jfuel ->
  run FX sigma md fuel jfuel root <> Stuck /\ run FX sigma md fuel jfuel root <> OutOfFuel.
Proof.
  intros Fa Hf Hj. destruct (run_conforms md sigma fuel jfuel root Fa Hf Hj) as (r & E & _).
  rewrite E. split; discriminate.
Qed.

(** ** against the reference itself: under the exclusion, every run reports for every visible
    failure-null exactly the error the synchronous reference reports for it *)
Theorem same_error_as_reference md sigma fuel jfuel root :
  excl_admissible_error_differs root = false ->
  fair sigma -> count_async root <= fuel -> resp_depth root < jfuel ->
  exists r, run FX sigma md fuel jfuel root = Done r /\
    r_data r = sr_data (run_sync root) /\
    forall x, In x (visible_nulls root) ->
      exists e, snd x = [e] /\ In e (r_errors r) /\ In e (sr_errors (run_sync root)).
Proof.
  intros Ex Fa Hf Hj. destruct (run_conforms md sigma fuel jfuel root Fa Hf Hj) as (r & E & C & _).
  exists r. split; auto. split; [apply (cf_data _ _ _ C)|]. intros x Hx.
  unfold excl_admissible_error_differs in Ex. apply negb_false_iff in Ex.
  destruct (single_candidate_at root x Ex Hx) as [e Se]. exists e. split; auto.
  pose proof (cf_nulls _ _ _ C) as N1. pose proof (cf_nulls _ _ _ (run_sync_conforms root)) as N2.
  rewrite Forall_forall in N1, N2.
  destruct (N1 x Hx) as (a & Ia & La). destruct (N2 x Hx) as (b & Ib & Lb).
  unfold lands in *. rewrite Se in La, Lb. destruct La as [<-|[]]. destruct Lb as [<-|[]]. auto.
Qed.
