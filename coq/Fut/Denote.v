(** * Fut/Denote.v — proof-side vocabulary over plan trees: an induction principle for the nested
    mutual [vplan]/[fplan], and the *declarative* reading of a plan (does a position fail, which
    JSON does it yield), against which both the synchronous reference and the asynchronous model
    are proved. *)
From Coq Require Import List NArith ZArith Bool Lia.
From ApiFu Require Import Base.Sexp Fut.Plan Fut.ExecSync.
Import ListNotations.

Section PlanInd.
  Variables (P : vplan -> Prop) (Q : fplan -> Prop).
  Hypothesis HNull : P VNull.
  Hypothesis HLeaf : forall z, P (VLeaf z).
  Hypothesis HBad : P VBad.
  Hypothesis HList : forall inn items, Forall P items -> P (VList inn items).
  Hypothesis HObj : forall fields, Forall (fun kf => Q (snd kf)) fields -> P (VObj fields).
  Hypothesis HNone : forall tag nn, Q (FP tag nn None).
  Hypothesis HSome : forall tag nn v, P v -> Q (FP tag nn (Some v)).

  Fixpoint vplan_ind2 (v : vplan) : P v :=
    match v with
    | VNull => HNull
    | VLeaf z => HLeaf z
    | VBad => HBad
    | VList inn items =>
        HList inn items
              ((fix go (l : list vplan) : Forall P l :=
                  match l with
                  | [] => Forall_nil _
                  | x :: tl => Forall_cons x (vplan_ind2 x) (go tl)
                  end) items)
    | VObj fields =>
        HObj fields
             ((fix go (l : list (bytes * fplan)) : Forall (fun kf => Q (snd kf)) l :=
                 match l with
                 | [] => Forall_nil _
                 | kf :: tl => Forall_cons kf (fplan_ind2 (snd kf)) (go tl)
                 end) fields)
    end
  with fplan_ind2 (f : fplan) : Q f :=
    match f with
    | FP tag nn None => HNone tag nn
    | FP tag nn (Some v) => HSome tag nn v (vplan_ind2 v)
    end.

  Lemma plan_ind : (forall v, P v) /\ (forall f, Q f).
  Proof. split; [exact vplan_ind2 | exact fplan_ind2]. Qed.
End PlanInd.

(** ** Declarative reading *)
Definition is_vnull (v : vplan) : bool := match v with VNull => true | _ => false end.
Definition fp_nn (f : fplan) : bool := match f with FP _ nn _ => nn end.

(** does the position raise a failure to its parent?  [fails_inner]: below the non-null wrapper *)
Fixpoint fails_inner (v : vplan) : bool :=
  match v with
  | VBad => true
  | VList inn items =>
      inn && (fix go (l : list vplan) : bool :=
                match l with [] => false | x :: tl => (fails_inner x || is_vnull x) || go tl end) items
  | VObj fields =>
      (fix go (l : list (bytes * fplan)) : bool :=
         match l with [] => false | (_, f) :: tl => (fp_nn f && fails_f f) || go tl end) fields
  | _ => false
  end
with fails_f (f : fplan) : bool :=
  match f with
  | FP _ nn None => true
  | FP _ nn (Some v) => fails_inner v || (nn && is_vnull v)
  end.

Definition fails_w (nn : bool) (v : vplan) : bool := fails_inner v || (nn && is_vnull v).

(** the JSON a position shows when nothing around it fails (null where it fails itself) *)
Fixpoint jv (v : vplan) : json :=
  match v with
  | VNull | VBad => JNull
  | VLeaf z => JInt z
  | VList inn items =>
      JList ((fix go (l : list vplan) : list json :=
                match l with [] => [] | x :: tl => (if fails_inner x then JNull else jv x) :: go tl end) items)
  | VObj fields =>
      JObj ((fix go (l : list (bytes * fplan)) : list (bytes * json) :=
               match l with [] => [] | (k, f) :: tl => (k, jf f) :: go tl end) fields)
  end
with jf (f : fplan) : json :=
  match f with
  | FP _ _ None => JNull
  | FP _ _ (Some v) => if fails_inner v then JNull else jv v
  end.

Definition jc (v : vplan) : json := if fails_inner v then JNull else jv v.

Lemma fails_inner_list inn items :
  fails_inner (VList inn items) = inn && existsb (fun x => fails_inner x || is_vnull x) items.
Proof. reflexivity. Qed.

Lemma fails_inner_obj fields :
  fails_inner (VObj fields) = existsb (fun kf => fp_nn (snd kf) && fails_f (snd kf)) fields.
Proof. simpl. induction fields as [|[k f] tl IH]; simpl; [reflexivity|]. now rewrite IH. Qed.

Lemma jv_list inn items : jv (VList inn items) = JList (map jc items).
Proof. reflexivity. Qed.

Lemma jv_obj fields : jv (VObj fields) = JObj (map (fun kf => (fst kf, jf (snd kf))) fields).
Proof. simpl. f_equal. induction fields as [|[k f] tl IH]; simpl; [reflexivity|]. now rewrite IH. Qed.

(** the data of a whole request, declaratively *)
Definition ddata (root : selset) : option json :=
  if fails_inner (VObj root) then None else Some (jv (VObj root)).

(** ** the sites that must have fired once a position has completed without failing: the
    failure-nulls it leaves visible.  A failing nullable position contributes its own site (and
    hides what is beneath it); a position that does not fail contributes what its parts do. *)
Definition must_catch (nn : bool) (q : rpath) (fails : bool) (esc : list err) (inner : list site) : list site :=
  if nn then inner else if fails then [(slice q, esc)] else inner.

Definition must_items (f : vplan -> rpath -> list site) (inn : bool) (p : rpath) :=
  fix go (l : list vplan) (i : nat) {struct l} : list site :=
    match l with
    | [] => []
    | x :: tl =>
        let q := PIdx i :: p in
        must_catch inn q (fails_w inn x) (fst (cand_nn inn q x (cand_inner x q))) (f x q) ++ go tl (S i)
    end.

Definition must_sel (f : fplan -> rpath -> list site) (p : rpath) :=
  fix go (l : selset) {struct l} : list site :=
    match l with
    | [] => []
    | (key, fp) :: tl =>
        let q := PKey key :: p in
        must_catch (fp_nn fp) q (fails_f fp) (fst (cand_field fp q)) (f fp q) ++ go tl
    end.

Fixpoint must_I (v : vplan) (p : rpath) {struct v} : list site :=
  match v with
  | VList inn items => must_items must_I inn p items 0
  | VObj fields => must_sel must_F p fields
  | _ => []
  end
with must_F (f : fplan) (p : rpath) {struct f} : list site :=
  match f with
  | FP _ _ None => []
  | FP _ _ (Some v) => must_I v p
  end.

Definition must_CI (inn : bool) (x : vplan) (q : rpath) : list site :=
  must_catch inn q (fails_w inn x) (fst (cand_nn inn q x (cand_inner x q))) (must_I x q).
Definition must_CF (fp : fplan) (q : rpath) : list site :=
  must_catch (fp_nn fp) q (fails_f fp) (fst (cand_field fp q)) (must_F fp q).
