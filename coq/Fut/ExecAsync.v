(** * Fut/ExecAsync.v — model of the executor's use of futures (no proofs here).

    Transcribes, over plan trees (Fut/Plan.v), from graphql/executor/executor.go:
      [wait] 213-235, [executeSelections] 237-289 (incl. forceSerial 269-276), [executeField]'s
      promise adapter 332-352, [catchErrorIfNullable] 356-361, [completeValue]'s non-null check
      364-379 and list join 386-408, [executeQuery]/[executeMutation] epilogues 124-150,
      ordered_map.go (pre-sized slots, [Set]) and the JSON projection of [OrderedMap].

    The executor state [st] holds what the Go closures share through pointers: [executor.Errors],
    the heap of result maps, the promise channels, plus the harness-side bookkeeping (which
    promises exist, the idle-round counter, the resolver event log).

    The idle handler is an oracle [sigma : round -> outstanding promises -> promises to fulfil].

    Parameters ([flags]); the repaired tree is [fixed_flags]:
      [fwd_err], [after_ptr]  see Fut/Future.v (defects 2 and 3)
      [nn_fwd]   the non-null wrapper's ready branch returns the inner ready future unchanged
                 (false = pinned tree: [future.Ok(r.Value)], turning an error into Ok(nil); defect 1) *)
From Coq Require Import List NArith ZArith Bool.
From ApiFu Require Import Base.Sexp Fut.Plan Fut.Future.
Import ListNotations.

Record flags := { fwd_err : bool; after_ptr : bool; nn_fwd : bool }.
Definition fixed_flags : flags := {| fwd_err := true; after_ptr := true; nn_fwd := true |}.
Definition pinned_flags : flags := {| fwd_err := false; after_ptr := false; nn_fwd := false |}.

(** a promise whose static tag is at least [pre_base] is *prefilled*: its resolver sends the result
    into the (buffered) channel before it returns the channel, so no idle round is needed for it *)
Definition pre_base : N := 4294967296.
Definition tag_prefilled (t : N) : bool := N.leb pre_base t.
Definition tag_label (t : N) : N := if tag_prefilled t then N.sub t pre_base else t.

(** ** State *)
Record promise := { p_id : nat; p_tag : N; p_path : rpath; p_ok : bool; p_done : bool }.

Inductive event :=
| EStart (p : list pelem)       (* a resolver was invoked for the field at this response path *)
| EFulfil (p : list pelem).     (* the idle handler sent the result of this field's promise *)

Notation slot := (option (bytes * gval)) (only parsing).     (* None = the zero OrderedMapItem {"", nil} *)

Record st := {
  s_proms : list promise;          (* promises in creation order; p_id = position *)
  s_chans : list (nat * bool);     (* sent, not yet received: (promise id, ok?) *)
  s_maps : list (list slot);       (* heap of result maps, by allocation order *)
  s_errs : list err;               (* executor.Errors *)
  s_evs : list event;              (* harness event log *)
  s_round : nat                    (* idle handler invocations so far *)
}.

Definition st0 : st :=
  {| s_proms := []; s_chans := []; s_maps := []; s_errs := []; s_evs := []; s_round := 0 |}.

Definition add_err (e : err) (s : st) : st :=
  {| s_proms := s_proms s; s_chans := s_chans s; s_maps := s_maps s; s_errs := s_errs s ++ [e];
     s_evs := s_evs s; s_round := s_round s |}.
Definition add_ev (e : event) (s : st) : st :=
  {| s_proms := s_proms s; s_chans := s_chans s; s_maps := s_maps s; s_errs := s_errs s;
     s_evs := s_evs s ++ [e]; s_round := s_round s |}.
Definition with_maps (m : list (list slot)) (s : st) : st :=
  {| s_proms := s_proms s; s_chans := s_chans s; s_maps := m; s_errs := s_errs s;
     s_evs := s_evs s; s_round := s_round s |}.
Definition with_chans (c : list (nat * bool)) (s : st) : st :=
  {| s_proms := s_proms s; s_chans := c; s_maps := s_maps s; s_errs := s_errs s;
     s_evs := s_evs s; s_round := s_round s |}.

(** NewOrderedMapWithLength(n) *)
Definition alloc_map (n : nat) (s : st) : nat * st :=
  (length (s_maps s), with_maps (s_maps s ++ [repeat (@None (bytes * gval)) n]) s).

Fixpoint upd_nth {A} (i : nat) (f : A -> A) (l : list A) : list A :=
  match l, i with
  | [], _ => []
  | x :: tl, O => f x :: tl
  | x :: tl, S j => x :: upd_nth j f tl
  end.

(** resultMap.Set(i, key, v) *)
Definition heap_set (m i : nat) (key : bytes) (v : gval) (s : st) : st :=
  with_maps (upd_nth m (upd_nth i (fun _ => Some (key, v))) (s_maps s)) s.

(** the resolver made a channel and returned it *)
Definition new_promise (tag : N) (p : rpath) (ok : bool) (s : st) : nat * st :=
  let id := length (s_proms s) in
  (id, {| s_proms := s_proms s ++ [{| p_id := id; p_tag := tag; p_path := p; p_ok := ok; p_done := false |}];
          s_chans := s_chans s; s_maps := s_maps s; s_errs := s_errs s; s_evs := s_evs s;
          s_round := s_round s |}).

(** the resolver made a channel, sent the result into it and returned it *)
Definition new_promise_pre (tag : N) (p : rpath) (ok : bool) (s : st) : nat * st :=
  let id := length (s_proms s) in
  (id, {| s_proms := s_proms s ++ [{| p_id := id; p_tag := tag; p_path := p; p_ok := ok; p_done := true |}];
          s_chans := s_chans s ++ [(id, ok)]; s_maps := s_maps s; s_errs := s_errs s;
          s_evs := s_evs s ++ [EFulfil (slice p)];
          s_round := s_round s |}).

(** the [select { case r := <-f: … default: … }] of the promise adapter *)
Fixpoint chan_take (id : nat) (c : list (nat * bool)) : option (bool * list (nat * bool)) :=
  match c with
  | [] => None
  | (i, ok) :: tl =>
      if Nat.eqb i id then Some (ok, tl)
      else match chan_take id tl with
           | Some (b, tl1) => Some (b, (i, ok) :: tl1)
           | None => None
           end
  end.

Definition promise_poll (id : nat) (s : st) : option result * st :=
  match chan_take id (s_chans s) with
  | Some (ok, c1) => (Some (if ok then ROk GUnit else RErr (mkerr [] KRaw)), with_chans c1 s)
  | None => (None, s)
  end.

(** ** The idle handler as an oracle *)
Definition sched := nat -> list (nat * N) -> list nat.

Definition outstanding (s : st) : list (nat * N) :=
  map (fun p => (p_id p, p_tag p)) (filter (fun p => negb (p_done p)) (s_proms s)).

Definition mem_nat (x : nat) (l : list nat) : bool := existsb (Nat.eqb x) l.

(** one idle-handler call: fulfils, in creation order, the outstanding promises sigma names;
    [None] when it fulfils nothing (the real executor would then spin for ever) *)
Definition idle (sigma : sched) (s : st) : option st :=
  let chosen := sigma (s_round s) (outstanding s) in
  let hit := filter (fun p => negb (p_done p) && mem_nat (p_id p) chosen) (s_proms s) in
  match hit with
  | [] => None
  | _ =>
      Some {| s_proms := map (fun p => if negb (p_done p) && mem_nat (p_id p) chosen
                                       then {| p_id := p_id p; p_tag := p_tag p; p_path := p_path p;
                                               p_ok := p_ok p; p_done := true |}
                                       else p) (s_proms s);
              s_chans := s_chans s ++ map (fun p => (p_id p, p_ok p)) hit;
              s_maps := s_maps s; s_errs := s_errs s;
              s_evs := s_evs s ++ map (fun p => EFulfil (slice (p_path p))) hit;
              s_round := S (s_round s) |}
  end.

(** ** The executor *)
Inductive outcome (A : Type) :=
| Done (a : A)
| Stuck            (* idle with nothing fulfilled: the real executor never returns *)
| OutOfFuel.       (* the model's bound on idle rounds was too small (excluded by the theorems) *)
Arguments Done {A}.
Arguments Stuck {A}.
Arguments OutOfFuel {A}.

Section Exec.
  Variable fl : flags.
  Variable sigma : sched.

  Definition fut := Future.fut st.
  Definition clo := Future.clo st.
  Definition invoke := @Future.invoke st (fwd_err fl) (after_ptr fl).
  Definition poll := @Future.poll st (fwd_err fl) (after_ptr fl).

  (** e.CatchError (executor.go:109-115) *)
  Definition catch_error (r : result) (s : st) : result * st :=
    match r with
    | RErr e => (ROk GNil, add_err e s)
    | ROk _ => (r, s)
    end.

  (** catchErrorIfNullable *)
  Definition catch_if_nullable (nn : bool) (f : fut) (s : st) : fut * st :=
    if nn then (f, s) else Map f catch_error s.

  (** the callback of the non-null wrapper's not-ready branch (executor.go:373-378) *)
  Definition nn_check (p : rpath) (r : result) (s : st) : result * st :=
    match r with
    | ROk GNil => (RErr (err_at p KNullNN), s)
    | _ => (r, s)
    end.

  (** the non-null wrapper of completeValue (executor.go:364-379) around an inner completion *)
  Definition nn_wrap (nn : bool) (p : rpath) (fs : fut * st) : fut * st :=
    if nn then
      let '(f, s) := fs in
      match f with
      | Ready (ROk GNil) => (Err (err_at p KNullNN), s)
      | Ready (ROk v) => (Ok v, s)
      | Ready (RErr e) => if nn_fwd fl then (f, s) else (Ok GNil, s)
      | Pending _ => Map f (nn_check p) s
      end
    else fs.

  (** the setter closure of executeSelections (executor.go:280-283) *)
  Definition set_slot (m i : nat) (key : bytes) (v : gval) (s : st) : gval * st :=
    (GNil, heap_set m i key v s).

  (** the loop of executeSelections over the grouped field set, forceSerial = false
      (executor.go:245-286); [ef] is executeField, [m] the result map, [i] the slot index *)
  Definition sel_loop (ef : fplan -> rpath -> st -> fut * st) (m : nat) (p : rpath) :=
    fix sel_loop (l : selset) (i : nat) (futures : list fut) (s : st) {struct l}
    : option err * list fut * st :=
    match l with
    | [] => (None, futures, s)
    | (key, fp) :: tl =>
        let ip := PKey key :: p in
        let '(f, s1) := ef fp ip s in
        let '(f1, s2) := catch_if_nullable (match fp with FP _ nn _ => nn end) f s1 in
        match f1 with
        | Ready (RErr e) => (Some e, futures, s2)            (* wait on a ready future; return Err *)
        | Ready (ROk v) => sel_loop tl (S i) futures (heap_set m i key v s2)
        | Pending _ =>
            let '(f2, s3) := MapOk f1 (set_slot m i key) s2 in
            sel_loop tl (S i) (futures ++ [f2]) s3
        end
    end.

  Definition sel_body (ef : fplan -> rpath -> st -> fut * st) (fields : selset) (p : rpath) (s : st)
    : fut * st :=
    let '(m, s0) := alloc_map (length fields) s in                    (* NewOrderedMapWithLength *)
    let '(early, futures, s1) := sel_loop ef m p fields 0 [] s0 in
    match early with
    | Some e => (Err e, s1)
    | None => (MapOkValue (After futures) (GMap m), s1)
    end.

  (** the list branch of completeValue (executor.go:386-408); [cv] is completeValue at the item
      type (non-null wrapper included) *)
  Definition items_loop (cv : vplan -> rpath -> st -> fut * st) (inn : bool) (p : rpath) :=
    fix items_loop (l : list vplan) (i : nat) (s : st) {struct l} : list fut * st :=
    match l with
    | [] => ([], s)
    | x :: tl =>
        let '(f, s1) := cv x (PIdx i :: p) s in
        let '(f1, s2) := catch_if_nullable inn f s1 in
        let '(fs, s3) := items_loop tl (S i) s2 in
        (f1 :: fs, s3)
    end.

  Definition list_body (cv : vplan -> rpath -> st -> fut * st) (inn : bool) (items : list vplan)
             (p : rpath) (s : st) : fut * st :=
    let '(fs, s1) := items_loop cv inn p items 0 s in
    (MapOkToAny (Join fs), s1).

  (** [complete_inner] = completeValue below the non-null wrapper; [exec_field] = executeField *)
  Fixpoint complete_inner (v : vplan) (p : rpath) (s : st) {struct v} : fut * st :=
    match v with
    | VNull => (Ok GNil, s)
    | VBad => (Err (err_at p KBad), s)
    | VLeaf z => (Ok (GInt z), s)
    | VList inn items =>
        list_body (fun x q s => nn_wrap inn q (complete_inner x q s)) inn items p s
    | VObj fields =>
        let '(f, s1) := sel_body exec_field fields p s in (MapOkToAny f, s1)
    end
  with exec_field (fp : fplan) (p : rpath) (s : st) {struct fp} : fut * st :=
    match fp with
    | FP tag nn res =>
        let s1 := add_ev (EStart (slice p)) s in               (* fieldDef.Resolve(...) *)
        match tag with
        | None =>
            match res with
            | None => (Err (err_at p KResolve), s1)
            | Some v => nn_wrap nn p (complete_inner v p s1)
            end
        | Some t =>
            let '(id, s2) := (if tag_prefilled t then new_promise_pre else new_promise)
                               t p (match res with Some _ => true | None => false end) s1 in
            Then (New (promise_poll id))
                 (fun r s =>
                    match r with
                    | ROk _ =>
                        match res with
                        | Some v => nn_wrap nn p (complete_inner v p s)
                        | None => (Ok GNil, s)     (* unreachable: the channel carries p_ok *)
                        end
                    | RErr _ => (Err (err_at p KResolve), s)
                    end) s2
        end
    end.

  (** the continuation the promise adapter hands to Then (executor.go:346-351), as [exec_field]
      builds it *)
  Definition field_k (nn : bool) (res : option vplan) (p : rpath) (r : result) (s : st) : fut * st :=
    match r with
    | ROk _ =>
        match res with
        | Some v => nn_wrap nn p (complete_inner v p s)
        | None => (Ok GNil, s)
        end
    | RErr _ => (Err (err_at p KResolve), s)
    end.

  (** completeValue(fieldType, …) with the non-null wrapper *)
  Definition complete_value (nn : bool) (v : vplan) (p : rpath) (s : st) : fut * st :=
    nn_wrap nn p (complete_inner v p s).

  (** executeSelections(…, forceSerial = false) *)
  Definition exec_sel (fields : selset) (p : rpath) (s : st) : fut * st :=
    sel_body exec_field fields p s.

  (** wait (executor.go:213-235): [fuel] bounds the idle rounds *)
  Definition wait_fn (r : result) (s : st) : result * st := (r, s).

  Fixpoint wait_loop (fuel : nat) (f : fut) (s : st) : outcome (result * st) :=
    match f with
    | Ready r => Done (r, s)
    | Pending _ =>
        match fuel with
        | O => OutOfFuel
        | S n =>
            match idle sigma s with
            | None => Stuck
            | Some s1 => let '(f1, s2) := poll f s1 in wait_loop n f1 s2
            end
        end
    end.

  Definition wait (fuel : nat) (f : fut) (s : st) : outcome (result * st) :=
    match f with
    | Ready r => Done (r, s)
    | Pending _ =>
        let '(f0, s0) := Map f wait_fn s in
        let '(f1, s1) := poll f0 s0 in
        wait_loop fuel f1 s1
    end.

  (** executeSelections(…, forceSerial = true): the root selection set of a mutation.  Each
      field's future is waited for before the next field starts. *)
  Fixpoint serial_loop (fuel : nat) (l : selset) (m i : nat) (p : rpath) (s : st) : outcome (option err * st) :=
    match l with
    | [] => Done (None, s)
    | (key, fp) :: tl =>
        let ip := PKey key :: p in
        let '(f, s1) := exec_field fp ip s in
        let '(f1, s2) := catch_if_nullable (match fp with FP _ nn _ => nn end) f s1 in
        match wait fuel f1 s2 with
        | Done (RErr e, s3) => Done (Some e, s3)
        | Done (ROk v, s3) => serial_loop fuel tl m (S i) p (heap_set m i key v s3)
        | Stuck => Stuck
        | OutOfFuel => OutOfFuel
        end
    end.

  Definition exec_sel_serial (fuel : nat) (fields : selset) (p : rpath) (s : st) : outcome (fut * st) :=
    let '(m, s0) := alloc_map (length fields) s in
    match serial_loop fuel fields m 0 p s0 with
    | Done (Some e, s1) => Done (Err e, s1)
    | Done (None, s1) => Done (MapOkValue (After []) (GMap m), s1)
    | Stuck => Stuck
    | OutOfFuel => OutOfFuel
    end.

  (** JSON projection of a result value through the heap of result maps.  [fuel] bounds the
      nesting depth; [None] = out of fuel. *)
  Fixpoint to_json (fuel : nat) (maps : list (list slot)) (v : gval) : option json :=
    match fuel with
    | O => None
    | S n =>
        match v with
        | GNil | GNilMap | GUnit => Some JNull
        | GInt z => Some (JInt z)
        | GList l =>
            match map_opt (to_json n maps) l with
            | Some js => Some (JList js)
            | None => None
            end
        | GMap m =>
            match nth_error maps m with
            | None => None
            | Some slots =>
                match map_opt (fun sl => match sl with
                                         | None => Some ([], JNull)
                                         | Some (k, x) => match to_json n maps x with
                                                          | Some j => Some (k, j)
                                                          | None => None
                                                          end
                                         end) slots with
                | Some kvs => Some (JObj kvs)
                | None => None
                end
            end
        end
    end.

  (** ** Whole requests *)
  Record resp := {
    r_data : option json;         (* None = "data": null *)
    r_errors : list err;
    r_rounds : nat;
    r_events : list event;
    r_promises : nat              (* promises created *)
  }.

  Inductive mode := Query | Mutation.

  Definition finish (jfuel : nat) (rs : result * st) : outcome resp :=
    let '(r, s) := rs in
    match r with
    | RErr e =>
        Done {| r_data := None; r_errors := s_errs s ++ [e]; r_rounds := s_round s;
                r_events := s_evs s; r_promises := length (s_proms s) |}
    | ROk v =>
        match to_json jfuel (s_maps s) v with
        | Some j => Done {| r_data := Some j; r_errors := s_errs s; r_rounds := s_round s;
                            r_events := s_evs s; r_promises := length (s_proms s) |}
        | None => OutOfFuel
        end
    end.

  Definition run (md : mode) (fuel jfuel : nat) (root : selset) : outcome resp :=
    match md with
    | Query =>
        let '(f, s1) := exec_sel root [] st0 in
        match wait fuel f s1 with
        | Done rs => finish jfuel rs
        | Stuck => Stuck
        | OutOfFuel => OutOfFuel
        end
    | Mutation =>
        match exec_sel_serial fuel root [] st0 with
        | Done (f, s1) =>
            match wait fuel f s1 with
            | Done rs => finish jfuel rs
            | Stuck => Stuck
            | OutOfFuel => OutOfFuel
            end
        | Stuck => Stuck
        | OutOfFuel => OutOfFuel
        end
    end.
End Exec.

(** the scheduler the harness implements: every promise has a rank (by its static tag); an idle
    round fulfils the outstanding promises of minimal rank *)
Definition rank_of (ranks : list nat) (t : N) : nat := nth (N.to_nat (tag_label t)) ranks 0.
Definition sigma_ranks (ranks : list nat) : sched :=
  fun _ out =>
    match out with
    | [] => []
    | (_, t0) :: _ =>
        let m := fold_left (fun a pt => Nat.min a (rank_of ranks (snd pt))) out (rank_of ranks t0) in
        map fst (filter (fun pt => Nat.eqb (rank_of ranks (snd pt)) m) out)
    end.
