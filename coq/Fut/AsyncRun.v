(** * Fut/AsyncRun.v — the wait loop under a fair idle handler, and whole requests. *)
From Coq Require Import List NArith ZArith Bool Lia Permutation.
From ApiFu Require Import Base.Sexp Fut.Plan Fut.Future Fut.ExecAsync Fut.ExecSync Fut.Denote Fut.SubPerm
     Fut.Live Fut.LiveFacts Fut.Acct Fut.AsyncWrap Fut.AsyncField Fut.AsyncList Fut.AsyncSel Fut.AsyncMain.
Import ListNotations.

Definition ndone (s : st) : nat := length (filter p_done (s_proms s)).
Definition pid_ok (s : st) : Prop := forall i pr, nth_error (s_proms s) i = Some pr -> p_id pr = i.

(** every idle round fulfils at least one outstanding promise *)
Definition fair (sigma : sched) : Prop :=
  forall r out, out <> [] -> exists x, In x (map fst out) /\ In x (sigma r out).

(** the global invariant: [g] is the account of the future being waited for, [R] the budget
    reserved for what has not started yet, [ALL]/[N] the totals of the request *)
Record World (ALL : list site) (N : nat) (G : ghe) (s : st) (g R : ghost) : Prop := {
  w_inv : INV G (s_maps s);
  w_chans : chans_wf s;
  w_ids : ids_wf s g;
  w_done : forall id, In id (g_ids g) -> done_at s id = true -> exists ok, In (id, ok) (s_chans s);
  w_pid : pid_ok s;
  w_rounds : s_round s <= ndone s;
  w_errs : exists ls, Forall2 lands (s_errs s) ls /\ sub_perm (ls ++ g_sites g ++ g_sites R) ALL;
  w_pot : np s + g_pot g + g_pot R <= N
}.

Lemma filter_length_le {A} (f : A -> bool) l : length (filter f l) <= length l.
Proof. induction l as [|x l IH]; simpl; auto. destruct (f x); simpl; lia. Qed.

Lemma ndone_le s : ndone s <= np s.
Proof. apply filter_length_le. Qed.

Lemma filter_all {A} (f : A -> bool) l :
  length (filter f l) = length l -> forall i x, nth_error l i = Some x -> f x = true.
Proof.
  induction l as [|y l IH]; simpl; intros H [|i] x E; try discriminate.
  - injection E as <-. destruct (f y) eqn:F; auto. pose proof (filter_length_le f l). simpl in H. lia.
  - destruct (f y) eqn:F; simpl in H.
    + eapply IH; eauto.
    + pose proof (filter_length_le f l). lia.
Qed.

Lemma all_done s id : ndone s = np s -> id < np s -> done_at s id = true.
Proof.
  intros H L. unfold done_at. destruct (nth_error (s_proms s) id) as [pr|] eqn:E.
  - eapply filter_all; eauto.
  - apply nth_error_None in E. unfold np in L. lia.
Qed.

(** ** a step of the executor keeps the world *)
Lemma filter_app_nodone (l new : list promise) :
  Forall (fun pr => p_done pr = false) new -> filter p_done (l ++ new) = filter p_done l.
Proof.
  intros F. rewrite filter_app. replace (filter p_done new) with (@nil promise); [now rewrite app_nil_r|].
  induction F as [|x tl Hx _ IH]; simpl; auto. now rewrite Hx.
Qed.

Lemma World_step ALL N G s g R G' s' g' :
  World ALL N G s g R -> Step G s g G' s' g' -> World ALL N G' s' g' R.
Proof.
  intros W (Sg & Ss & SI & A).
  destruct (ac_proms _ _ _ _ A) as (new & Ep & Kp).
  constructor.
  - exact SI.
  - eapply Acct_chans_wf; eauto. apply W.
  - eapply Acct_ids_wf; eauto. apply W.
  - intros id Hin Hd. destruct (ac_ids _ _ _ _ A id Hin) as [Ho|Hf].
    + assert (Hlt : id < np s) by (apply (w_ids _ _ _ _ _ _ W); auto).
      assert (Hd0 : done_at s id = true).
      { unfold done_at in *. rewrite Ep in Hd. rewrite nth_error_app1 in Hd by exact Hlt. exact Hd. }
      destruct (w_done _ _ _ _ _ _ W id Ho Hd0) as [ok Hc]. exists ok.
      destruct (in_dec chan_eq_dec (id, ok) (s_chans s')) as [X|X]; auto.
      destruct (ac_taken _ _ _ _ A (w_chans _ _ _ _ _ _ W) (w_ids _ _ _ _ _ _ W) (id, ok) Hc X) as [_ T].
      simpl in T. contradiction.
    + apply (ac_born _ _ _ _ A (w_chans _ _ _ _ _ _ W) (w_ids _ _ _ _ _ _ W) id Hin); [lia | exact Hd].
  - intros i pr Hi. rewrite Ep in Hi. destruct (lt_dec i (length (s_proms s))) as [Hlt|Hge].
    + rewrite nth_error_app1 in Hi by auto. now apply (w_pid _ _ _ _ _ _ W).
    + rewrite nth_error_app2 in Hi by lia. rewrite (Kp _ _ Hi). unfold np. lia.
  - rewrite (ac_round _ _ _ _ A). unfold ndone. rewrite Ep, filter_app, app_length.
    pose proof (w_rounds _ _ _ _ _ _ W) as Hr. unfold ndone in Hr. lia.
  - destruct (w_errs _ _ _ _ _ _ W) as (ls & F & S).
    destruct (ac_errs _ _ _ _ A) as (de & ls' & Ee & F' & S').
    exists (ls ++ ls'). rewrite Ee. split; [now apply Forall2_app|].
    eapply sub_perm_trans; [|exact S]. rewrite <- app_assoc.
    apply sub_perm_app; [apply sub_perm_refl|]. rewrite app_assoc.
    apply sub_perm_app; [exact S' | apply sub_perm_refl].
  - pose proof (ac_pot _ _ _ _ A). pose proof (Acct_np _ _ _ _ A). pose proof (w_pot _ _ _ _ _ _ W). lia.
Qed.

(** ** the idle handler *)
Definition mark (chosen : list nat) (p : promise) : promise :=
  if negb (p_done p) && mem_nat (p_id p) chosen
  then {| p_id := p_id p; p_tag := p_tag p; p_path := p_path p; p_ok := p_ok p; p_done := true |}
  else p.

Lemma idle_unfold sigma s :
  idle sigma s =
  let chosen := sigma (s_round s) (outstanding s) in
  let hit := filter (fun p => negb (p_done p) && mem_nat (p_id p) chosen) (s_proms s) in
  match hit with
  | [] => None
  | _ => Some {| s_proms := map (mark chosen) (s_proms s);
                 s_chans := s_chans s ++ map (fun p => (p_id p, p_ok p)) hit;
                 s_maps := s_maps s; s_errs := s_errs s;
                 s_evs := s_evs s ++ map (fun p => EFulfil (slice (p_path p))) hit;
                 s_round := S (s_round s) |}
  end.
Proof. reflexivity. Qed.

Lemma mark_ok chosen p : p_ok (mark chosen p) = p_ok p.
Proof. unfold mark. destruct (negb (p_done p) && mem_nat (p_id p) chosen); reflexivity. Qed.
Lemma mark_id chosen p : p_id (mark chosen p) = p_id p.
Proof. unfold mark. destruct (negb (p_done p) && mem_nat (p_id p) chosen); reflexivity. Qed.

Lemma ndone_mark chosen l :
  length (filter p_done (map (mark chosen) l)) =
  length (filter p_done l) + length (filter (fun p => negb (p_done p) && mem_nat (p_id p) chosen) l).
Proof.
  induction l as [|p l IH]; simpl; auto. unfold mark at 1.
  destruct (p_done p) eqn:D; simpl.
  - rewrite D. simpl. lia.
  - destruct (mem_nat (p_id p) chosen); simpl; [lia | rewrite D; lia].
Qed.

Lemma mem_nat_In x l : mem_nat x l = true <-> In x l.
Proof.
  unfold mem_nat. rewrite existsb_exists. split.
  - intros (y & Hy & E). apply Nat.eqb_eq in E. now subst.
  - intros H. exists x. split; auto. apply Nat.eqb_refl.
Qed.

Lemma World_idle sigma ALL N G s g R s1 :
  World ALL N G s g R -> idle sigma s = Some s1 ->
  World ALL N G s1 g R /\ sle s s1 /\ s_round s1 = S (s_round s).
Proof.
  intros W E. rewrite idle_unfold in E. cbv zeta in E.
  set (chosen := sigma (s_round s) (outstanding s)) in *.
  set (hit := filter (fun p => negb (p_done p) && mem_nat (p_id p) chosen) (s_proms s)) in *.
  destruct hit as [|h0 hit'] eqn:Eh; [discriminate|]. rewrite <- Eh in E. injection E as <-.
  assert (Hh : 1 <= length hit) by (rewrite Eh; simpl; lia).
  assert (Hsle : sle s {| s_proms := map (mark chosen) (s_proms s);
                          s_chans := s_chans s ++ map (fun p => (p_id p, p_ok p)) hit;
                          s_maps := s_maps s; s_errs := s_errs s;
                          s_evs := s_evs s ++ map (fun p => EFulfil (slice (p_path p))) hit;
                          s_round := S (s_round s) |}).
  { split; simpl; [apply hle_refl|]. split; [|apply incl_refl]. intros id pr H. exists (mark chosen pr). split.
    - rewrite nth_error_map, H. reflexivity.
    - apply mark_ok. }
  split; [|split; [exact Hsle | reflexivity]].
  constructor; unfold chans_wf, ids_wf, pid_ok, ndone, np, done_at; simpl.
  - apply W.
  - intros id ok Hin. simpl in Hin. apply in_app_or in Hin. destruct Hin as [Hin|Hin].
    + pose proof (w_chans _ _ _ _ _ _ W id ok Hin) as X. rewrite nth_error_map.
      destruct (nth_error (s_proms s) id); simpl in *; [|discriminate]. now rewrite mark_ok.
    + apply in_map_iff in Hin. destruct Hin as (p & Ep & Hp). injection Ep as <- <-.
      unfold hit in Hp. apply filter_In in Hp. destruct Hp as [Hp _].
      apply In_nth_error in Hp. destruct Hp as [i Hi].
      rewrite (w_pid _ _ _ _ _ _ W i p Hi). rewrite nth_error_map, Hi. simpl. now rewrite mark_ok.
  - destruct (w_ids _ _ _ _ _ _ W) as [A B]. split; auto. intros id Hin. unfold np; simpl.
    rewrite map_length. now apply B.
  - intros id Hin Hd. unfold done_at in Hd. simpl in Hd. rewrite nth_error_map in Hd.
    destruct (nth_error (s_proms s) id) as [pr|] eqn:E; simpl in Hd; [|discriminate].
    unfold mark in Hd. destruct (negb (p_done pr) && mem_nat (p_id pr) chosen) eqn:M.
    + exists (p_ok pr). simpl. apply in_or_app. right. apply in_map_iff. exists pr. split.
      * now rewrite (w_pid _ _ _ _ _ _ W id pr E).
      * unfold hit. apply filter_In. split; [eapply nth_error_In; eauto | exact M].
    + destruct (w_done _ _ _ _ _ _ W id Hin) as [ok Hok].
      { unfold done_at. now rewrite E. }
      exists ok. simpl. apply in_or_app. now left.
  - intros i pr Hi. simpl in Hi. rewrite nth_error_map in Hi.
    destruct (nth_error (s_proms s) i) as [pr0|] eqn:E; simpl in Hi; [|discriminate].
    injection Hi as <-. rewrite mark_id. now apply (w_pid _ _ _ _ _ _ W).
  - unfold ndone. simpl. rewrite ndone_mark. fold hit.
    pose proof (w_rounds _ _ _ _ _ _ W). unfold ndone in H. lia.
  - apply W.
  - unfold np; simpl. rewrite map_length. apply W.
Qed.

Lemma idle_progress sigma ALL N G s g R :
  fair sigma -> World ALL N G s g R -> Blocked s g -> exists s1, idle sigma s = Some s1.
Proof.
  intros F W (id & Hin & _ & Hno). rewrite idle_unfold. cbv zeta.
  set (chosen := sigma (s_round s) (outstanding s)).
  assert (Hlt : id < np s) by (apply (w_ids _ _ _ _ _ _ W); auto).
  destruct (nth_error (s_proms s) id) as [pr|] eqn:E; [|apply nth_error_None in E; unfold np in Hlt; lia].
  assert (Hnd : p_done pr = false).
  { destruct (p_done pr) eqn:D; auto. exfalso.
    destruct (w_done _ _ _ _ _ _ W id Hin) as [ok Hok]; [unfold done_at; now rewrite E|].
    exact (Hno ok Hok). }
  assert (Hout : outstanding s <> []).
  { unfold outstanding. intro X. apply map_eq_nil in X.
    assert (In pr (filter (fun p => negb (p_done p)) (s_proms s))).
    { apply filter_In. split; [eapply nth_error_In; eauto | now rewrite Hnd]. }
    rewrite X in H. contradiction. }
  destruct (F (s_round s) (outstanding s) Hout) as (x & Hx1 & Hx2).
  unfold outstanding in Hx1. rewrite map_map in Hx1. simpl in Hx1.
  apply in_map_iff in Hx1. destruct Hx1 as (p & Ep & Hp). apply filter_In in Hp. destruct Hp as [Hp1 Hp2].
  assert (Hhit : In p (filter (fun p => negb (p_done p) && mem_nat (p_id p) chosen) (s_proms s))).
  { apply filter_In. split; auto. rewrite Hp2. simpl. apply mem_nat_In. rewrite Ep. exact Hx2. }
  destruct (filter (fun p => negb (p_done p) && mem_nat (p_id p) chosen) (s_proms s)); [contradiction|].
  eauto.
Qed.

(** ** the wait loop *)
Lemma wait_loop_pending sigma fuel c s :
  wait_loop FX sigma (S fuel) (Pending c) s =
  match idle sigma s with
  | None => Stuck
  | Some s1 => let '(c1, ro, s2) := invoke FX c s1 in wait_loop FX sigma fuel (fut_of c1 ro) s2
  end.
Proof.
  simpl. destruct (idle sigma s) as [s1|]; auto.
  unfold poll, Future.poll, poll_with, invoke. simpl.
  match goal with |- context [Future.invoke ?a ?b ?c ?d] =>
    destruct (Future.invoke a b c d) as [[c1 [r|]] s2] end; reflexivity.
Qed.

Section Wait.
  Variable sigma : sched.
  Hypothesis Fair : fair sigma.
  Variables (ALL : list site) (N : nat) (R : ghost).
  Variable L : ghe -> st -> clo -> ghost -> Prop.
  Variable sp : pspec.
  Hypothesis LS : StepSpec L sp.
  Hypothesis LM : forall G s G' s' c g, gle G G' -> sle s s' -> L G s c g -> L G' s' c g.

  Lemma wait_loop_spec :
    forall fuel f s G g,
      World ALL N G s g R -> Outcome L sp G s g f -> N <= fuel + s_round s ->
      exists r s' G', wait_loop FX sigma fuel f s = Done (r, s') /\
                      World ALL N G' s' g0 R /\ ResOK G' s' sp r /\ gle G G' /\ sle s s'.
  Proof.
    induction fuel as [|n IH]; intros f s G g W O Hf.
    - destruct f as [r|c]; simpl in O.
      + destruct O as [RO ->]. exists r, s, G. simpl.
        split; auto. split; auto. split; auto. split; [apply gle_refl | apply sle_refl].
      + exfalso. destruct O as [_ (id & Hin & _ & Hno)].
        pose proof (w_pot _ _ _ _ _ _ W). pose proof (w_rounds _ _ _ _ _ _ W). pose proof (ndone_le s).
        assert (Hlt : id < np s) by (apply (w_ids _ _ _ _ _ _ W); auto).
        assert (Hd : done_at s id = true) by (apply all_done; lia).
        destruct (w_done _ _ _ _ _ _ W id Hin Hd) as [ok Hok]. exact (Hno ok Hok).
    - destruct f as [r|c]; simpl in O.
      + destruct O as [RO ->]. exists r, s, G. simpl.
        split; auto. split; auto. split; auto. split; [apply gle_refl | apply sle_refl].
      + destruct O as [Lc B]. rewrite wait_loop_pending.
        destruct (idle_progress sigma ALL N G s g R Fair W B) as [s1 Ei]. rewrite Ei.
        destruct (World_idle sigma ALL N G s g R s1 W Ei) as (W1 & S1 & R1).
        destruct (invoke FX c s1) as [[c1 ro] s2] eqn:E.
        assert (Lc1 : L G s1 c g) by (eapply LM; eauto; apply gle_refl).
        destruct (LS G s1 c g c1 ro s2 (w_inv _ _ _ _ _ _ W1) (w_chans _ _ _ _ _ _ W1) Lc1 E)
          as (G' & g' & St & O').
        pose proof (World_step _ _ _ _ _ _ _ _ _ W1 St) as W2.
        assert (R2 : s_round s2 = S (s_round s)).
        { destruct St as (_ & _ & _ & A). rewrite (ac_round _ _ _ _ A). exact R1. }
        destruct (IH (fut_of c1 ro) s2 G' g' W2 O') as (r & s' & G'' & Ew & W' & RO & Hg & Hs); [lia|].
        exists r, s', G''. split.
        * exact Ew.
        * split; auto. split; auto. destruct St as (Sg & Ss & _).
          split; [eapply gle_trans; eauto|]. eapply sle_trans; [exact S1|]. eapply sle_trans; eauto.
  Qed.

  (** [wait]: the future is wrapped in a Map that records the result, polled once, then the loop *)
  Definition LW (G : ghe) (s : st) (c : clo) (g : ghost) : Prop :=
    exists c0, c = CMap wait_fn c0 /\ L G s c0 g.
End Wait.

Lemma LW_step L sp : StepSpec L sp -> StepSpec (LW L) sp.
Proof.
  intros S G s c g c' ro s' I C Lw E. destruct Lw as (c0 & -> & Lc).
  rewrite invoke_CMap in E. destruct (invoke FX c0 s) as [[c1 r] s1] eqn:E0.
  destruct (S G s c0 g c1 r s1 I C Lc E0) as (G' & g' & St & O).
  destruct r as [r0|]; simpl in E; injection E as <- <- <-; exists G', g'; (split; [exact St|]);
    simpl in *; auto.
  destruct O as [L1 B1]. split; auto. exists c1. auto.
Qed.

Lemma LW_mono (L : ghe -> st -> clo -> ghost -> Prop) :
  (forall G s G' s' c g, gle G G' -> sle s s' -> L G s c g -> L G' s' c g) ->
  forall G s G' s' c g, gle G G' -> sle s s' -> LW L G s c g -> LW L G' s' c g.
Proof. intros M G s G' s' c g Hg Hs Lw. destruct Lw as (c0 & -> & Lc). exists c0. split; auto. eapply M; eauto. Qed.

Section WaitSpec.
  Variable sigma : sched.
  Hypothesis Fair : fair sigma.
  Variables (ALL : list site) (N : nat) (R : ghost).
  Variable L : ghe -> st -> clo -> ghost -> Prop.
  Variable sp : pspec.
  Hypothesis LS : StepSpec L sp.
  Hypothesis LM : forall G s G' s' c g, gle G G' -> sle s s' -> L G s c g -> L G' s' c g.

  Lemma wait_spec fuel f s G g :
    World ALL N G s g R -> Outcome0 L sp G s g f -> N <= fuel + s_round s ->
    exists r s' G', wait FX sigma fuel f s = Done (r, s') /\
                    World ALL N G' s' g0 R /\ ResOK G' s' sp r /\ gle G G' /\ sle s s'.
  Proof.
    intros W O Hf. destruct f as [r|c]; simpl in O.
    - destruct O as [RO ->]. exists r, s, G. simpl.
      split; auto. split; auto. split; auto. split; [apply gle_refl | apply sle_refl].
    - destruct O as [Lc B].
      assert (Ew : wait FX sigma fuel (Pending c) s =
                   let '(c1, ro, s1) := invoke FX (CMap wait_fn c) s in
                   wait_loop FX sigma fuel (fut_of c1 ro) s1).
      { unfold wait, Map, poll, Future.poll, poll_with, invoke. simpl.
        match goal with |- context [Future.invoke ?a ?b ?c ?d] =>
          destruct (Future.invoke a b c d) as [[c1 [r|]] s2] end; reflexivity. }
      rewrite Ew. destruct (invoke FX (CMap wait_fn c) s) as [[c1 ro] s1] eqn:E.
      assert (Lw : LW L G s (CMap wait_fn c) g) by (exists c; auto).
      destruct (LW_step L sp LS G s _ g c1 ro s1 (w_inv _ _ _ _ _ _ W) (w_chans _ _ _ _ _ _ W) Lw E)
        as (G' & g' & St & O').
      pose proof (World_step _ _ _ _ _ _ _ _ _ W St) as W1.
      assert (R1 : s_round s1 = s_round s).
      { destruct St as (_ & _ & _ & A). apply (ac_round _ _ _ _ A). }
      destruct (wait_loop_spec sigma Fair ALL N R (LW L) sp (LW_step L sp LS) (LW_mono L LM)
                               fuel (fut_of c1 ro) s1 G' g' W1 O') as (r & s' & G'' & E2 & W2 & RO & Hg & Hs);
        [lia|].
      exists r, s', G''. split; auto. split; auto. split; auto.
      destruct St as (Sg & Ss & _). split; [eapply gle_trans; eauto | eapply sle_trans; eauto].
  Qed.
End WaitSpec.

(** ** the JSON projection of a right value is the plan's JSON *)
Fixpoint jdepth (j : json) : nat :=
  match j with
  | JList l => S ((fix go (l : list json) : nat := match l with [] => 0 | x :: tl => Nat.max (jdepth x) (go tl) end) l)
  | JObj kvs => S ((fix go (l : list (bytes * json)) : nat :=
                      match l with [] => 0 | (_, x) :: tl => Nat.max (jdepth x) (go tl) end) kvs)
  | _ => 0
  end.

Lemma jdepth_list_in l x : In x l -> jdepth x < jdepth (JList l).
Proof.
  simpl. induction l as [|y tl IH]; intros []; subst.
  - lia.
  - specialize (IH H). lia.
Qed.

Lemma jdepth_obj_in kvs k x : In (k, x) kvs -> jdepth x < jdepth (JObj kvs).
Proof.
  simpl. induction kvs as [|[k0 y] tl IH]; intros []; subst.
  - injection H as <- <-. lia.
  - specialize (IH H). lia.
Qed.

Lemma map_opt_Forall2 {A B} (f : A -> option B) l l' :
  Forall2 (fun a b => f a = Some b) l l' -> map_opt f l = Some l'.
Proof. induction 1; simpl; auto. now rewrite H, IHForall2. Qed.

Lemma to_json_val_ok G H : INV G H ->
  forall fuel v j, val_ok G H v j -> jdepth j < fuel -> to_json fuel H v = Some j.
Proof.
  intros [Ln I]. induction fuel as [|n IH]; intros v j V D; [lia|].
  inversion V; subst; simpl; auto.
  - (* list *)
    rewrite (map_opt_Forall2 (to_json n H) vs js); auto.
    assert (Dj : forall x, In x js -> jdepth x < n).
    { intros x Hx. pose proof (jdepth_list_in js x Hx). lia. }
    clear V D. induction H0 as [|a b la lb Hab _ IH2]; constructor.
    + apply IH; auto. apply Dj. now left.
    + apply IH2. intros x Hx. apply Dj. now right.
  - (* object *)
    rewrite H1.
    destruct (I m slots kvs H1 H0) as [Lk K].
    rewrite (map_opt_Forall2 _ slots kvs); auto.
    apply Forall2_nth_intro; auto.
    intros i [k j] Hi.
    assert (Hlt : i < length slots) by (rewrite Lk; apply nth_error_Some; congruence).
    destruct (nth_error slots i) as [sl|] eqn:E; [|apply nth_error_None in E; lia].
    exists sl. split; auto.
    destruct sl as [[k0 x]|].
    + destruct (K i k0 x E) as (j0 & Hj0 & Vx). rewrite Hi in Hj0. injection Hj0 as <- <-.
      rewrite (IH x j Vx); auto.
      assert (In (k, j) kvs) by (eapply nth_error_In; eauto).
      pose proof (jdepth_obj_in kvs k j H3). lia.
    + exfalso. unfold full in H2. rewrite Forall_forall in H2.
      apply (H2 None); auto. eapply nth_error_In; eauto.
Qed.

(** ** whole requests: queries *)
Definition root_sites (root : selset) : list site := snd (cand_inner (VObj root) []).

Lemma sites_eq root : sites root = ([], fst (cand_inner (VObj root) [])) :: root_sites root.
Proof. reflexivity. Qed.

Lemma World0 root :
  World (root_sites root) (count_async root) [] st0 (budget_I (VObj root) []) g0.
Proof.
  constructor; simpl.
  - split; auto. intros m slots kvs H. destruct m; discriminate.
  - intros id ok [].
  - split; [constructor | intros id []].
  - intros id [].
  - intros i pr H. destruct i; discriminate.
  - unfold ndone. simpl. lia.
  - exists []. split; [constructor|]. simpl. rewrite app_nil_r. apply sub_perm_refl.
  - unfold np, count_async. simpl. lia.
Qed.

(** what a finished request looks like *)
(** the sites whose failure-null the data of the request shows: the root when the data is null,
    otherwise the failing nullable positions not hidden beneath another one *)
Definition must_root (root : selset) : list site :=
  if fails_inner (VObj root) then [([], fst (cand_inner (VObj root) []))] else must_I (VObj root) [].

Definition resp_ok (root : selset) (r : resp) : Prop :=
  r_data r = ddata root /\
  (exists ls, Forall2 lands (r_errors r) ls /\ sub_perm ls (sites root)) /\
  Forall (fun x => exists e, In e (r_errors r) /\ lands e x) (must_root root) /\
  r_rounds r <= r_promises r /\ r_promises r <= count_async root.

Lemma finish_ok root G s r jfuel :
  World (root_sites root) (count_async root) G s g0 g0 ->
  ResOK G s (spec_I (VObj root) []) r ->
  jdepth (jv (VObj root)) < jfuel ->
  exists rs, finish jfuel (r, s) = Done rs /\ resp_ok root rs.
Proof.
  intros W RO D. destruct (w_errs _ _ _ _ _ _ W) as (ls & F & S). simpl in S. rewrite app_nil_r in S.
  pose proof (w_rounds _ _ _ _ _ _ W) as Hr. pose proof (ndone_le s) as Hn.
  pose proof (w_pot _ _ _ _ _ _ W) as Hp. simpl in Hp.
  destruct r as [v|e]; unfold ResOK, spec_I in RO; cbn [ps_fails ps_json ps_esc ps_must] in RO.
  - destruct RO as (Fl & X & Mu).
    unfold finish. rewrite (to_json_val_ok G (s_maps s) (w_inv _ _ _ _ _ _ W) jfuel v _ X D).
    eexists. split; [reflexivity|]. unfold resp_ok; simpl. split.
    + unfold ddata. now rewrite Fl.
    + split; [|split].
      * exists ls. split; auto. rewrite sites_eq. now apply sub_perm_cons_r.
      * unfold must_root. rewrite Fl. exact Mu.
      * unfold np in *. lia.
  - destruct RO as [Fl X].
    unfold finish. eexists. split; [reflexivity|]. unfold resp_ok; simpl. split.
    + unfold ddata. now rewrite Fl.
    + split; [|split]; [| |unfold np in *; lia]; [|
        unfold must_root; rewrite Fl; constructor; [|constructor];
        exists e; split; [apply in_or_app; right; now left | exact X]].
      * exists (ls ++ [([], fst (cand_inner (VObj root) []))]). split.
        -- apply Forall2_app; auto.
        -- rewrite sites_eq.
           eapply sub_perm_perm_r; [apply (Permutation_app_comm (root_sites root) [([], fst (cand_inner (VObj root) []))])|].
           apply sub_perm_app; [exact S | apply sub_perm_refl].
Qed.

Theorem run_query_ok sigma fuel jfuel root :
  fair sigma -> count_async root <= fuel -> jdepth (jv (VObj root)) < jfuel ->
  exists r, run FX sigma Query fuel jfuel root = Done r /\ resp_ok root r.
Proof.
  intros Fair Hf Hj. unfold run, exec_sel.
  destruct (sel_body (exec_field FX) root [] st0) as [f s1] eqn:E.
  pose proof (World0 root) as W0.
  destruct (S_build root [] (sel_build_all root) [] st0 f s1 (w_inv _ _ _ _ _ _ W0) (w_chans _ _ _ _ _ _ W0) E)
    as (G1 & g1 & St & O).
  pose proof (World_step _ _ _ _ _ _ _ _ _ W0 St) as W1.
  destruct (wait_spec sigma Fair (root_sites root) (count_async root) g0
                      (fun G s => LiveS G s root []) (spec_I (VObj root) [])
                      (S_step root [] (sel_step_all root))
                      (fun G s G' s' c g Hg Hs => LiveS_mono G s G' s' Hg Hs root [] c g)
                      fuel f s1 G1 g1 W1 O) as (r & s' & G' & Ew & W' & RO & _ & _); [lia|].
  rewrite Ew. apply (finish_ok root G' s' r jfuel W' RO Hj).
Qed.
