(** * Fut/SyncProofs.v — the synchronous reference against the declarative reading of a plan:
    its data is [ddata], each of its errors lands at a site of its own. *)
From Coq Require Import List NArith ZArith Bool Lia Permutation.
From ApiFu Require Import Base.Sexp Fut.Plan Fut.ExecSync Fut.Denote Fut.SubPerm.
Import ListNotations.

(** specification of one synchronous evaluation step: errors appended, each landing at its own
    site among [sts]; the result agrees with (fails, json, esc) *)
Definition SyncOK (fails : bool) (j : json) (esc : list err) (sts : list site)
           (errs : list err) (out : sres * list err) : Prop :=
  exists de ls, snd out = errs ++ de /\ Forall2 lands de ls /\ sub_perm ls sts /\
    match fst out with
    | SOk j' => fails = false /\ j' = j
    | SFail e => fails = true /\ In e esc
    end.

Lemma jv_null_inv' v : fails_inner v = false -> jv v = JNull -> v = VNull.
Proof. destruct v; simpl; intros F J; try discriminate; auto. Qed.

Lemma cand_nn_snd' nn p v c : snd (cand_nn nn p v c) = snd c.
Proof. unfold cand_nn. destruct nn; auto. destruct v; auto. Qed.

(** non-null wrapper *)
Lemma sync_nn_ok nn p v errs out :
  SyncOK (fails_inner v) (jv v) (fst (cand_inner v p)) (snd (cand_inner v p)) errs out ->
  SyncOK (fails_w nn v) (jv v) (fst (cand_nn nn p v (cand_inner v p))) (snd (cand_inner v p)) errs
         (sync_nn nn p (fst out), snd out).
Proof.
  intros (de & ls & E & F & S & M). exists de, ls. simpl. repeat split; auto.
  unfold sync_nn, fails_w, cand_nn. destruct nn; simpl.
  - destruct (fst out) as [j|e].
    + destruct M as [Fl ->]. destruct (jv v) eqn:J.
      * apply jv_null_inv' in J; auto. subst v. simpl. auto.
      * rewrite Fl. simpl. split; auto. destruct v; simpl in *; auto; discriminate.
      * rewrite Fl. simpl. split; auto. destruct v; simpl in *; auto; discriminate.
      * rewrite Fl. simpl. split; auto. destruct v; simpl in *; auto; discriminate.
    + destruct M as [Fl In]. rewrite Fl. simpl. split; auto. destruct v; auto. simpl in Fl. discriminate.
  - rewrite orb_false_r. exact M.
Qed.

(** catch *)
Lemma sync_catch_ok nn q fails j j' esc sts errs out :
  (fails = false -> j' = j) -> (nn = false -> fails = true -> j' = JNull) ->
  SyncOK fails j esc sts errs out ->
  SyncOK (nn && fails) j' (fst (cand_catch nn q (esc, sts))) (snd (cand_catch nn q (esc, sts))) errs
         (sync_catch nn (fst out) (snd out)).
Proof.
  intros J1 J2 (de & ls & E & F & S & M). unfold sync_catch, cand_catch. destruct nn; simpl.
  - exists de, ls. repeat split; auto. destruct (fst out); destruct M as [A B]; split; auto.
    subst. symmetry. auto.
  - destruct (fst out) as [j0|e].
    + destruct M as [Fl ->]. exists de, ls. simpl. split; auto. split; auto.
      split; [now apply sub_perm_cons_r|]. split; auto. symmetry. auto.
    + destruct M as [Fl In]. exists (de ++ [e]), (ls ++ [(slice q, esc)]). simpl. split; [|split; [|split]].
      * rewrite E. now rewrite app_assoc.
      * apply Forall2_app; auto.
      * eapply sub_perm_perm_r; [apply (Permutation_app_comm sts [(slice q, esc)])|].
        apply sub_perm_app; [exact S | apply sub_perm_refl].
      * split; auto. symmetry. auto.
Qed.

Lemma SyncOK_seq f1 j1 e1 s1 errs out1 (P : Prop) :
  SyncOK f1 j1 e1 s1 errs out1 ->
  forall de2 ls2 errs2 s2, errs2 = snd out1 ++ de2 -> Forall2 lands de2 ls2 -> sub_perm ls2 s2 ->
  exists de ls, errs2 = errs ++ de /\ Forall2 lands de ls /\ sub_perm ls (s1 ++ s2).
Proof.
  intros (de & ls & E & F & S & _) de2 ls2 errs2 s2 E2 F2 S2.
  exists (de ++ de2), (ls ++ ls2). rewrite E2, E, app_assoc. repeat split; auto.
  - now apply Forall2_app.
  - now apply sub_perm_app.
Qed.

Definition PV (v : vplan) : Prop :=
  forall p errs, SyncOK (fails_inner v) (jv v) (fst (cand_inner v p)) (snd (cand_inner v p)) errs
                        (sync_inner v p errs).
Definition PF (f : fplan) : Prop :=
  forall p errs, SyncOK (fails_f f) (jf f) (fst (cand_field f p)) (snd (cand_field f p)) errs
                        (sync_field f p errs).

(** the item loop *)
Lemma sync_items_ok inn p l : Forall PV l ->
  forall i errs, exists de ls,
    snd (sync_items sync_inner inn p l i errs) = errs ++ de /\ Forall2 lands de ls /\
    sub_perm ls (snd (cand_items cand_inner inn p l i)) /\
    match first_fail (fst (sync_items sync_inner inn p l i errs)) with
    | Some e => inn = true /\ existsb (fun x => fails_inner x || is_vnull x) l = true /\
                In e (fst (cand_items cand_inner inn p l i))
    | None => (inn = true -> existsb (fun x => fails_inner x || is_vnull x) l = false) /\
              oks (fst (sync_items sync_inner inn p l i errs)) = map jc l
    end.
Proof.
  induction 1 as [|x tl Px _ IH]; intros i errs.
  - exists [], []. simpl. rewrite app_nil_r. repeat split; auto. apply sub_perm_refl.
  - simpl.
    set (q := PIdx i :: p).
    pose proof (Px q errs) as O0.
    destruct (sync_inner x q errs) as [r e1] eqn:E0.
    pose proof (sync_nn_ok inn q x errs _ O0) as O1. simpl in O1.
    assert (O2 := sync_catch_ok inn q (fails_w inn x) (jv x) (jc x)
                                (fst (cand_nn inn q x (cand_inner x q))) (snd (cand_inner x q)) errs _
                                ltac:(unfold fails_w, jc; intros F; apply orb_false_iff in F; destruct F as [F _]; now rewrite F)
                                ltac:(unfold fails_w, jc; intros -> F; simpl in F; rewrite orb_false_r in F; now rewrite F)
                                O1).
    simpl in O2.
    destruct (sync_catch inn (sync_nn inn q r) e1) as [r1 e2] eqn:E1.
    destruct (IH (S i) e2) as (de2 & ls2 & E2 & F2 & S2 & M2).
    destruct (sync_items sync_inner inn p tl (S i) e2) as [rs e3] eqn:E3. simpl in *.
    assert (Ec : cand_catch inn q (cand_nn inn q x (cand_inner x q)) =
                 cand_catch inn q (fst (cand_nn inn q x (cand_inner x q)), snd (cand_inner x q))).
    { f_equal. rewrite <- (cand_nn_snd' inn q x (cand_inner x q)). now destruct (cand_nn inn q x (cand_inner x q)). }
    rewrite Ec.
    destruct (SyncOK_seq _ _ _ _ _ _ True O2 de2 ls2 e3 _ E2 F2 S2) as (de & ls & Ee & Fe & Se).
    exists de, ls. split; auto. split; auto. split; auto.
    destruct O2 as (_ & _ & _ & _ & _ & M1). simpl in M1.
    destruct r1 as [j|e]; simpl.
    + destruct M1 as [Fl ->].
      destruct (first_fail rs) as [e|].
      * destruct M2 as (N & Ex & In). split; auto. split.
        -- rewrite Ex. apply orb_true_r.
        -- apply in_or_app. now right.
      * destruct M2 as (Ex & Ok). split.
        -- intros N. rewrite (Ex N). rewrite N in Fl. simpl in Fl. unfold fails_w in Fl. simpl in Fl.
           now rewrite Fl.
        -- now rewrite Ok.
    + destruct M1 as [Fl In]. apply andb_true_iff in Fl. destruct Fl as [-> Fl]. split; auto. split.
      * unfold fails_w in Fl. simpl in Fl. now rewrite Fl.
      * apply in_or_app. now left.
Qed.

(** the selection-set loop *)
Definition sel_fails' (l : selset) : bool := existsb (fun kf => fp_nn (snd kf) && fails_f (snd kf)) l.

Lemma sync_sel_ok p l : Forall (fun kf => PF (snd kf)) l ->
  forall acc errs, exists de ls,
    snd (sync_sel sync_field p l acc errs) = errs ++ de /\ Forall2 lands de ls /\
    sub_perm ls (snd (cand_sel cand_field p l)) /\
    match fst (sync_sel sync_field p l acc errs) with
    | SFail e => sel_fails' l = true /\ In e (fst (cand_sel cand_field p l))
    | SOk j => sel_fails' l = false /\
               j = JObj (rev acc ++ map (fun kf => (fst kf, jf (snd kf))) l)
    end.
Proof.
  induction 1 as [|[key fp] tl Pf _ IH]; intros acc errs.
  - exists [], []. simpl. rewrite !app_nil_r. repeat split; auto. apply sub_perm_refl.
  - simpl in Pf. simpl.
    set (q := PKey key :: p).
    pose proof (Pf q errs) as O0.
    destruct (sync_field fp q errs) as [r e1] eqn:E0.
    assert (O2 := sync_catch_ok (fp_nn fp) q (fails_f fp) (jf fp) (jf fp)
                                (fst (cand_field fp q)) (snd (cand_field fp q)) errs _
                                (fun _ => eq_refl)
                                ltac:(intros N F; destruct fp as [t nn [v|]]; simpl in *; auto;
                                      subst nn; simpl in F; rewrite orb_false_r in F; now rewrite F)
                                O0).
    simpl in O2. replace (fst (cand_field fp q), snd (cand_field fp q)) with (cand_field fp q) in O2
      by (now destruct (cand_field fp q)).
    replace (match fp with FP _ nn _ => nn end) with (fp_nn fp) by (now destruct fp).
    destruct (sync_catch (fp_nn fp) r e1) as [r1 e2] eqn:E1.
    destruct r1 as [j|e].
    + destruct (IH ((key, j) :: acc) e2) as (de2 & ls2 & E2 & F2 & S2 & M2).
      destruct (SyncOK_seq _ _ _ _ _ _ True O2 de2 ls2 _ _ E2 F2 S2) as (de & ls & Ee & Fe & Se).
      exists de, ls. split; auto. split; auto. split; auto.
      destruct O2 as (_ & _ & _ & _ & _ & M1). simpl in M1. destruct M1 as [Fl ->].
      destruct (fst (sync_sel sync_field p tl ((key, jf fp) :: acc) e2)) as [j2|e].
      * destruct M2 as [SF ->]. split.
        -- unfold sel_fails' in *. simpl. now rewrite Fl, SF.
        -- simpl. now rewrite <- app_assoc.
      * destruct M2 as [SF In]. split.
        -- unfold sel_fails' in *. simpl. rewrite SF. apply orb_true_r.
        -- apply in_or_app. now right.
    + destruct O2 as (de & ls & Ee & Fe & Se & M1). simpl in *. destruct M1 as [Fl In].
      exists de, ls. split; auto. split; auto. split; [now apply sub_perm_app_l_intro|].
      split.
      * unfold sel_fails'. simpl. now rewrite Fl.
      * apply in_or_app. now left.
Qed.

Theorem sync_char : (forall v, PV v) /\ (forall f, PF f).
Proof.
  apply plan_ind.
  - intros p errs. exists [], []. simpl. rewrite app_nil_r. repeat split; auto. apply sub_perm_refl.
  - intros z p errs. exists [], []. simpl. rewrite app_nil_r. repeat split; auto. apply sub_perm_refl.
  - intros p errs. exists [], []. simpl. rewrite app_nil_r. repeat split; auto. apply sub_perm_refl.
  - intros inn items F p errs.
    destruct (sync_items_ok inn p items F 0 errs) as (de & ls & E & Fl & S & M).
    change (sync_inner (VList inn items) p errs)
      with (let '(rs, errs1) := sync_items sync_inner inn p items 0 errs in
            (match first_fail rs with Some e => SFail e | None => SOk (JList (oks rs)) end, errs1)).
    destruct (sync_items sync_inner inn p items 0 errs) as [rs e1]. cbn [fst snd] in *.
    exists de, ls. cbn [fst snd]. split; auto. split; auto. split; auto.
    rewrite fails_inner_list. destruct (first_fail rs) as [e|].
    + destruct M as (-> & Ex & In). rewrite Ex. auto.
    + destruct M as (Ex & Ok). split.
      * destruct inn; [|reflexivity]. simpl. now apply Ex.
      * rewrite jv_list. now rewrite Ok.
  - intros fields F p errs.
    destruct (sync_sel_ok p fields F [] errs) as (de & ls & E & Fl & S & M).
    change (sync_inner (VObj fields) p errs) with (sync_sel sync_field p fields [] errs).
    exists de, ls. split; auto. split; auto. split; auto.
    rewrite fails_inner_obj. destruct (fst (sync_sel sync_field p fields [] errs)) as [j|e].
    + destruct M as [SF ->]. split; auto. rewrite jv_obj. reflexivity.
    + exact M.
  - intros tag nn p errs. exists [], []. simpl. rewrite app_nil_r. repeat split; auto. apply sub_perm_refl.
  - intros tag nn v Pv p errs. simpl.
    pose proof (sync_nn_ok nn p v errs _ (Pv p errs)) as O.
    destruct (sync_inner v p errs) as [r e1]. simpl in *.
    destruct O as (de & ls & E & Fl & S & M). exists de, ls. split; auto. split; auto.
    rewrite cand_nn_snd'. split; auto.
    unfold fails_w in M. destruct (sync_nn nn p r) as [j|e]; auto.
    destruct M as [F ->]. split; auto. apply orb_false_iff in F. destruct F as [F _]. now rewrite F.
Qed.

(** the reference response *)
Definition sresp_ok (root : selset) (r : sresp) : Prop :=
  sr_data r = ddata root /\
  exists ls, Forall2 lands (sr_errors r) ls /\ sub_perm ls (sites root).

Theorem run_sync_ok root : sresp_ok root (run_sync root).
Proof.
  unfold run_sync, sresp_ok, ddata.
  destruct sync_char as [Hv _]. destruct (Hv (VObj root) [] []) as (de & ls & E & F & S & M).
  destruct (sync_inner (VObj root) [] []) as [r errs]. simpl in *. subst errs.
  destruct r as [j|e]; simpl.
  - destruct M as [-> ->]. split; auto. exists ls. split; auto.
    unfold sites. now apply sub_perm_cons_r.
  - destruct M as [-> In]. split; auto.
    exists (ls ++ [([], fst (cand_inner (VObj root) []))]). split.
    + apply Forall2_app; auto.
    + unfold sites.
      eapply sub_perm_perm_r; [apply (Permutation_app_comm (snd (cand_inner (VObj root) [])) [([], fst (cand_inner (VObj root) []))])|].
      apply sub_perm_app; [exact S | apply sub_perm_refl].
Qed.
