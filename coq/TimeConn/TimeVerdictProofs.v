(** * TimeConn/TimeVerdictProofs.v — what ends the fetch of a time-based connection, completely:
    real errors and non-slice answers together, for every way the getter calls can answer (C16) *)
From Coq Require Import List NArith ZArith Bool Lia.
From ApiFu Require Import Base.Sexp TimeConn.TimeModel TimeConn.TimeSpec TimeConn.TimeProofs
  TimeConn.TimeErrModel TimeConn.TimeErrProofs.
Import ListNotations.
Open Scope Z_scope.

(** ** The complete verdict: real errors AND non-slice answers, without the hypothesis [no_bad]

    What ends the fetch, and in which priority: (1) the first SYNCHRONOUS call, in issue order,
    that fails or answers a non-slice value — it ends the loop at once; (2) otherwise the first
    promise, in issue order, that resolves to an error — [join] stops there and its callback is
    never called; (3) otherwise, if some promise resolved to a non-slice value, the callback's
    non-slice error (so a real error of ANY promise beats a non-slice value of an earlier one);
    (4) otherwise the error-free transcription. *)
Inductive stop := SErr (id : Z) | SNonSlice.

Definition stops_sync (p : xpres) : option stop :=
  if by_promise (xp p) then None
  else match xerr p with Err id => Some (SErr id) | BadValue => Some SNonSlice | _ => None end.

Fixpoint first_sync_stop (ps : nat -> xpres) (i : nat) (qs : list query) : option (stop * nat) :=
  match qs with
  | [] => None
  | _ :: qs' => match stops_sync (ps i) with
                | Some st => Some (st, S i)
                | None => first_sync_stop ps (S i) qs'
                end
  end.

Definition bad_promise_call (p : xpres) : bool :=
  by_promise (xp p) && match xerr p with BadValue => true | _ => false end.

Fixpoint any_bad_promise (ps : nat -> xpres) (i : nat) (qs : list query) : bool :=
  match qs with
  | [] => false
  | _ :: qs' => bad_promise_call (ps i) || any_bad_promise ps (S i) qs'
  end.

Definition verdict (ps : nat -> xpres) (qs : list query) : option (stop * nat) :=
  match first_sync_stop ps 0 qs with
  | Some w => Some w
  | None => match first_promise_err ps 0 qs with
            | Some id => Some (SErr id, length qs)
            | None => if any_bad_promise ps 0 qs then Some (SNonSlice, length qs) else None
            end
  end.

Lemma xcollect_sync_stop g ps qs : forall i st n,
  first_sync_stop ps i qs = Some (st, n) ->
  xcollect true g ps i qs = match st with SErr id => CErr id n | SNonSlice => CNonSlice n end.
Proof.
  induction qs as [|q qs IH]; intros i st n H; [discriminate|].
  cbn [first_sync_stop] in H. cbn [xcollect]. unfold stops_sync in H.
  destruct (by_promise (xp (ps i))) eqn:Hp.
  - rewrite (IH _ _ _ H). destruct st; reflexivity.
  - destruct (xerr (ps i)) eqn:He.
    + rewrite (IH _ _ _ H). destruct st; reflexivity.
    + inversion H. reflexivity.
    + rewrite (IH _ _ _ H). destruct st; reflexivity.
    + inversion H. reflexivity.
Qed.

Lemma xcollect_no_sync_stop g ps qs : forall i,
  first_sync_stop ps i qs = None ->
  xcollect true g ps i qs = COk (fst (collect g (hand ps) i qs)) (xprs g ps i qs).
Proof.
  induction qs as [|q qs IH]; intros i H; [reflexivity|].
  cbn [first_sync_stop] in H. cbn [xcollect collect xprs]. unfold stops_sync in H. change (hand ps i) with (xp (ps i)).
  destruct (collect g (hand ps) (S i) qs) as [es prs] eqn:Hc.
  destruct (by_promise (xp (ps i))) eqn:Hp.
  - rewrite (IH _ H), Hc. reflexivity.
  - destruct (xerr (ps i)) eqn:He; try discriminate;
      rewrite (IH _ H), Hc; cbn [fst]; destruct (present (xp (ps i)) (g q)); reflexivity.
Qed.

Lemma has_pbad_xprs_any g ps qs : forall i, has_pbad (xprs g ps i qs) = any_bad_promise ps i qs.
Proof.
  induction qs as [|q qs IH]; intro i; [reflexivity|].
  cbn [xprs any_bad_promise]. unfold bad_promise_call.
  destruct (by_promise (xp (ps i))); [|apply IH].
  unfold has_pbad in *. cbn [existsb andb]. rewrite IH. unfold promised.
  destruct (xerr (ps i)); reflexivity.
Qed.

Lemma xprs_all_values g ps qs : forall i,
  first_promise_err ps i qs = None -> any_bad_promise ps i qs = false ->
  xprs g ps i qs = map PVal (snd (collect g (hand ps) i qs)).
Proof.
  induction qs as [|q qs IH]; intros i H Hb; [reflexivity|].
  cbn [first_promise_err] in H. cbn [any_bad_promise] in Hb. cbn [xprs collect].
  unfold fails_promise, promised, bad_promise_call in *. change (hand ps i) with (xp (ps i)).
  destruct (collect g (hand ps) (S i) qs) as [es prs] eqn:Hc.
  destruct (by_promise (xp (ps i))) eqn:Hp.
  - destruct (xerr (ps i)) eqn:He; try discriminate; cbn [andb orb] in Hb; rewrite (IH _ H Hb), Hc; reflexivity.
  - cbn [andb orb] in Hb. rewrite (IH _ H Hb), Hc. cbn [snd]. destruct (present (xp (ps i)) (g q)); reflexivity.
Qed.

Definition xres_of_stop (st : stop) : xres := match st with SErr id => XRErr id | SNonSlice => XRNonSlice end.

(** the whole fetch, for EVERY way the calls can answer *)
Theorem xresolve_verdict V g ps qs :
  xresolve V true g ps qs =
  match verdict ps qs with
  | Some (st, n) => (xres_of_stop st, n)
  | None => (lift_res (resolve_edges V g (hand ps) qs), length qs)
  end.
Proof.
  unfold xresolve, verdict.
  destruct (first_sync_stop ps 0 qs) as [[st n]|] eqn:Hs.
  - rewrite (xcollect_sync_stop g ps qs 0%nat st n Hs). destruct st; reflexivity.
  - rewrite (xcollect_no_sync_stop g ps qs 0%nat Hs).
    pose proof (first_perr_xprs g ps qs 0%nat) as Hf.
    pose proof (has_pbad_xprs_any g ps qs 0%nat) as Hbad.
    destruct (first_promise_err ps 0 qs) as [id|] eqn:Hp.
    + destruct (xprs g ps 0 qs) as [|r prs]; [discriminate|]. rewrite Hf. reflexivity.
    + destruct (any_bad_promise ps 0 qs) eqn:Hany.
      * destruct (xprs g ps 0 qs) as [|r prs]; [discriminate|]. rewrite Hf, Hbad. reflexivity.
      * rewrite (xprs_all_values g ps qs 0%nat Hp Hany) in *. unfold resolve_edges.
        destruct (collect g (hand ps) 0 qs) as [es prs]. cbn [fst snd] in *.
        destruct prs as [|r prs]; [reflexivity|].
        cbn [map] in *. change (PVal r :: map PVal prs) with (map PVal (r :: prs)) in *.
        rewrite first_perr_vals, pvals_vals, Hbad. reflexivity.
Qed.

Definition ferr_of_stop (st : stop) : ferr := match st with SErr id => EGetter id | SNonSlice => ENonSlice end.

(** ... and the connection field: the verdict decides the outcome completely *)
Theorem xconn_verdict V g ps s tc a :
  arg_error a = false -> fetches s a = true ->
  let qs := range_queries V (cur_of (a_after a)) (cur_of (a_before a)) (a_from a) (a_to a) (limit_of a) in
  match verdict ps qs with
  | Some (st, n) =>
      exists tcn,
        xconn V true g ps s tc a
        = (XFieldError (ferr_of_stop st :: (if lazy_of a then total_err_of s tc else [])), firstn n qs, tcn)
        /\ (lazy_of a = false -> tcn = Some O)
  | None => xconn V true g ps s tc a = with_total s tc (conn V g (hand ps) (want_info s) a)
  end.
Proof.
  intros Ha Hf qs. unfold xconn, conn, with_total. rewrite Ha.
  fold (lazy_of a). fold (total_err_of s tc) (total_of s tc) (tc_calls_of s). fold qs.
  unfold fetches in Hf. apply negb_true_iff in Hf. rewrite Hf.
  rewrite xresolve_verdict.
  destruct (verdict ps qs) as [[st n]|].
  - destruct st; cbn [xres_of_stop ferr_of_stop]; eexists; (split; [reflexivity|]); intro Hl; rewrite Hl; reflexivity.
  - destruct (resolve_edges V g (hand ps) qs) as [fetched|]; cbn [lift_res fst snd]; [|reflexivity].
    destruct (edges_to_return _ _ _ _ fetched) as [es info]. cbn [fst snd].
    destruct (total_err_of s tc); reflexivity.
Qed.

(** without non-slice answers the verdict is the winner of the error theorems *)
Lemma first_sync_stop_no_bad ps qs : no_bad ps -> forall i,
  first_sync_stop ps i qs = match first_sync_err ps i qs with Some (id, n) => Some (SErr id, n) | None => None end.
Proof.
  intro Hnb. induction qs as [|q qs IH]; intro i; [reflexivity|].
  cbn [first_sync_stop first_sync_err]. unfold stops_sync, fails_sync. pose proof (Hnb i) as Hb.
  destruct (by_promise (xp (ps i))); [apply IH|].
  destruct (xerr (ps i)); try apply IH; try reflexivity. congruence.
Qed.

Lemma any_bad_promise_no_bad ps qs : no_bad ps -> forall i, any_bad_promise ps i qs = false.
Proof.
  intro Hnb. induction qs as [|q qs IH]; intro i; [reflexivity|].
  cbn [any_bad_promise]. rewrite IH. unfold bad_promise_call. pose proof (Hnb i) as Hb.
  destruct (xerr (ps i)); try (rewrite andb_false_r; reflexivity). congruence.
Qed.

Theorem verdict_no_bad ps qs : no_bad ps ->
  verdict ps qs = match winner ps qs with Some (id, n) => Some (SErr id, n) | None => None end.
Proof.
  intro Hnb. unfold verdict, winner.
  rewrite (first_sync_stop_no_bad ps qs Hnb 0%nat), (any_bad_promise_no_bad ps qs Hnb 0%nat).
  destruct (first_sync_err ps 0 qs) as [[id n]|]; [reflexivity|].
  destruct (first_promise_err ps 0 qs); reflexivity.
Qed.

(** ** No verdict means every call that would be issued answered cleanly *)
Definition clean_call (p : xpres) : Prop :=
  match xerr p with Err _ => False | BadValue => False | _ => True end.

Lemma first_sync_stop_none ps qs : forall i,
  first_sync_stop ps i qs = None -> forall j, (i <= j < i + length qs)%nat -> stops_sync (ps j) = None.
Proof.
  induction qs as [|q qs IH]; intros i H j Hj; [cbn in Hj; lia|].
  cbn [first_sync_stop] in H. destruct (stops_sync (ps i)) eqn:Hf; [discriminate|].
  destruct (Nat.eq_dec j i) as [->|Hne]; [exact Hf|]. apply (IH _ H). cbn [length] in Hj. lia.
Qed.

Lemma any_bad_promise_false ps qs : forall i,
  any_bad_promise ps i qs = false -> forall j, (i <= j < i + length qs)%nat -> bad_promise_call (ps j) = false.
Proof.
  induction qs as [|q qs IH]; intros i H j Hj; [cbn in Hj; lia|].
  cbn [any_bad_promise] in H. apply orb_false_iff in H as [H1 H2].
  destruct (Nat.eq_dec j i) as [->|Hne]; [exact H1|]. apply (IH _ H2). cbn [length] in Hj. lia.
Qed.

Theorem verdict_none_clean ps qs :
  verdict ps qs = None -> forall j, (j < length qs)%nat -> clean_call (ps j).
Proof.
  unfold verdict. intros H j Hj.
  destruct (first_sync_stop ps 0 qs) as [[? ?]|] eqn:Hs; [discriminate|].
  destruct (first_promise_err ps 0 qs) eqn:Hp; [discriminate|].
  destruct (any_bad_promise ps 0 qs) eqn:Hb; [discriminate|].
  pose proof (first_sync_stop_none ps qs _ Hs j ltac:(lia)) as H1.
  pose proof (first_promise_err_none ps qs _ Hp j ltac:(lia)) as H2.
  pose proof (any_bad_promise_false ps qs _ Hb j ltac:(lia)) as H3.
  unfold stops_sync in H1. unfold fails_promise in H2. unfold bad_promise_call in H3. unfold clean_call.
  destruct (by_promise (xp (ps j))); destruct (xerr (ps j)); try discriminate; exact I.
Qed.

(** a page (when edges are fetched at all) means: no verdict — no issued call failed or answered a
    non-slice value; no hypothesis on the calls *)
Theorem xconn_page_no_verdict V g ps s tc a es info total issued tcn :
  fetches s a = true ->
  xconn V true g ps s tc a = (XPage es info total, issued, tcn) ->
  verdict ps (range_queries V (cur_of (a_after a)) (cur_of (a_before a)) (a_from a) (a_to a) (limit_of a)) = None.
Proof.
  intros Hf H.
  destruct (arg_error a) eqn:Ha; [unfold xconn in H; rewrite Ha in H; discriminate|].
  pose proof (xconn_verdict V g ps s tc a Ha Hf) as Hv. cbv zeta in Hv.
  destruct (verdict ps _) as [[st n]|]; [|reflexivity].
  destruct Hv as [tcn' [Hx _]]. rewrite Hx in H. discriminate.
Qed.
