(** * TimeConn/TimeErrModel.v — the time-based connection with failing getters and totalCount (C16, stage B)

    [TimeModel.conn] transcribes the connection for getters that always succeed.  This file
    transcribes the same Go code once more with the remaining paths of the adapter included:

    - pagination.go [TimeBasedConnection], the [for _, q := range queries] loop: the getter's
      second result.  A synchronous error ends the loop at once ([return nil, nil, err]): later
      queries are not issued, promises already obtained are abandoned.  -> [xcollect]
    - api.go [join]: the promises are awaited IN THE ORDER OF THE SLICE; the first one (in that
      order) whose result carries an error ends the wait with that error, the values of the others
      are dropped, the callback that appends the edges is not called.            -> [xresolve]
    - both tests for "is there an error": the loop used [err != nil] on the pinned tree (a typed
      nil error value counts as an error there, and the Connection resolver, which tests with
      [isNil], then sees "no error" and a nil edge slice: a made-up error "unexpected non-slice
      type <nil> for edges"), [join] uses [isNil] (a typed nil error is no error).  After the
      fourth repair the loop uses [isNil] too.
    - a result that is neither nil nor a slice nor (synchronously) a promise — a string, a map, a
      promise that a promise resolved to: on the pinned tree [reflect.Value.IsNil] / [Index] panic
      on it (on the promise path inside [join]'s goroutine: the process dies; a channel that
      happens to be empty is even taken for an empty result).  After the fifth repair
      ([appendEdgeSlice]) it is the error "unexpected non-slice type ... for edges", as in the
      generic [completeConnection]; on the promise path it is found by [join]'s callback, i.e.
      only after every promise has resolved without an error.
      [F] = the fourth and fifth repair are present.
    - pagination.go [Connection] / [completeConnection]: [totalCount] resolves to whatever
      [config.ResolveTotalCount] answers; the field is NonNull, so its error nulls the connection
      field; it is not called when the edges could not be fetched (except in the lazy first/last
      = 0 path, where pageInfo and totalCount are resolved independently).     -> [xconn]

    An error is identified by a number ([Err id]); what the getter returns BESIDE an error
    (nothing, or a partial result) is not represented at all: the code never looks at it.
    No proofs in this file. *)
From Coq Require Import List NArith ZArith Bool.
From ApiFu Require Import Base.Sexp TimeConn.TimeModel.
Import ListNotations.
Open Scope Z_scope.

(** the getter's second result for one call *)
Inductive gerr := NoErr | Err (id : Z) | TypedNilErr
                | BadValue.      (* no error, but the value is neither nil nor a slice (nor, synchronously, a promise) *)

(** how the i-th getter call answers: hand-over as in [TimeModel.pres], plus the error *)
Record xpres := { xp : pres; xerr : gerr }.

(** what a promise resolves to, as [join] sees it (after its [isNil(result.Error)] test) *)
Inductive presult := PVal (r : gresult) | PErr (id : Z) | PBad.

(** the result of the loop over the queries; [issued] = number of getter calls made *)
Inductive cres :=
| CErr (id : Z) (issued : nat)      (* a synchronous error *)
| CBogus (issued : nat)             (* pinned tree: a synchronous typed nil error ends the loop *)
| CNonSlice (issued : nat)          (* a synchronous non-slice value: an error (5th repair) *)
| CPanic (issued : nat)             (* ... a panic inside reflect before it *)
| COk (es : list edge) (prs : list presult).

Inductive xres := XRErr (id : Z) | XRBogus | XRNonSlice | XRPanic | XROk (l : list edge).

(** [ResolveTotalCount]'s answer (directly or through a promise: the executor awaits it) *)
Inductive tcres := TCVal (n : Z) | TCErr (id : Z).

(** which of the connection's own fields the request selects *)
Record sel := { want_info : bool; want_total : bool }.

(** the error that nulls the connection field *)
Inductive ferr := EGetter (id : Z) | ETotal (id : Z) | EBogus | ENonSlice.

Inductive xoutcome :=
| XArgError                                   (* rejected arguments *)
| XFieldError (errs : list ferr)              (* connection: null.  More than one entry only in the
                                                 lazy path when pageInfo and totalCount both fail:
                                                 which of the two the executor reports is its business *)
| XPanic
| XPage (edges : list edge) (info : option page_info) (total : option Z).

Section XModel.
  Variable V : version.
  Variable F : bool.                (* the loop tests the getter's error with isNil (4th repair) *)
  Variable g : query -> list edge.

  Definition promised (p : xpres) (l : list edge) : presult :=
    match xerr p with
    | Err id => PErr id
    | BadValue => PBad
    | _ => PVal (present (xp p) l)    (* join: isNil(result.Error) *)
    end.

  (** the [for _, q := range queries] loop *)
  Fixpoint xcollect (ps : nat -> xpres) (i : nat) (qs : list query) : cres :=
    match qs with
    | [] => COk [] []
    | q :: qs' =>
        let p := ps i in
        if by_promise (xp p) then
          match xcollect ps (S i) qs' with
          | COk es prs => COk es (promised p (g q) :: prs)
          | r => r
          end
        else
          let go_on :=
            match xcollect ps (S i) qs' with
            | COk es prs =>
                match present (xp p) (g q) with
                | GNil => COk es prs
                | GSlice l => COk (l ++ es) prs
                end
            | r => r
            end in
          match xerr p with
          | Err id => CErr id (S i)
          | TypedNilErr => if F then go_on else CBogus (S i)
          | BadValue => if F then CNonSlice (S i) else CPanic (S i)
          | NoErr => go_on
          end
    end.

  (** [join]: the first promise, in the order of the slice, that carries an error *)
  Fixpoint first_perr (prs : list presult) : option Z :=
    match prs with
    | [] => None
    | PErr id :: _ => Some id
    | _ :: r => first_perr r
    end.
  Definition pvals (prs : list presult) : list gresult :=
    flat_map (fun p => match p with PVal r => [r] | _ => [] end) prs.
  Definition has_pbad (prs : list presult) : bool :=
    existsb (fun p => match p with PBad => true | _ => false end) prs.

  Definition xresolve (ps : nat -> xpres) (qs : list query) : xres * nat :=
    match xcollect ps 0 qs with
    | CErr id n => (XRErr id, n)
    | CBogus n => (XRBogus, n)
    | CNonSlice n => (XRNonSlice, n)
    | CPanic n => (XRPanic, n)
    | COk es prs =>
        (match prs with
         | [] => XROk es
         | _ => match first_perr prs with
                | Some id => XRErr id
                | None =>
                    (* the callback: appendEdgeSlice on every value, in order *)
                    if has_pbad prs then (if F then XRNonSlice else XRPanic)
                    else match join_cb V es (pvals prs) with Some l => XROk l | None => XRPanic end
                end
         end, length qs)
    end.

  (** the connection field: outcome, the range queries the getter received, and the number of
      [ResolveTotalCount] calls where the connection determines it ([None]: it depends on the
      executor's treatment of a failing sibling) *)
  Definition xconn (ps : nat -> xpres) (s : sel) (tc : tcres) (a : args)
    : xoutcome * list query * option nat :=
    if arg_error a then (XArgError, [], Some O)
    else
      let after := cur_of (a_after a) in
      let before := cur_of (a_before a) in
      let limit := limit_of a in
      let lazy := (limit =? 1) || (limit =? -1) in
      let qs := range_queries V after before (a_from a) (a_to a) limit in
      let total_err := if want_total s then match tc with TCErr id => [ETotal id] | TCVal _ => [] end else [] in
      let total := if want_total s then match tc with TCVal n => Some n | TCErr _ => None end else None in
      let tc_calls := if want_total s then 1%nat else O in
      if lazy && negb (want_info s) then
        match total_err with
        | [] => (XPage [] None total, [], Some tc_calls)
        | _ => (XFieldError total_err, [], Some tc_calls)
        end
      else
        match xresolve ps qs with
        | (XRErr id, n) =>
            (XFieldError (EGetter id :: (if lazy then total_err else [])), firstn n qs,
             if lazy then None else Some O)
        | (XRBogus, n) =>
            (XFieldError (EBogus :: (if lazy then total_err else [])), firstn n qs,
             if lazy then None else Some O)
        | (XRNonSlice, n) =>
            (XFieldError (ENonSlice :: (if lazy then total_err else [])), firstn n qs,
             if lazy then None else Some O)
        | (XRPanic, _) => (XPanic, qs, None)
        | (XROk fetched, _) =>
            let (es, info) := edges_to_return after before (a_first a) (a_last a) fetched in
            match total_err with
            | [] => (XPage es (if want_info s then Some info else None) total, qs, Some tc_calls)
            | _ => (XFieldError total_err, qs, Some tc_calls)
            end
        end.

  (** ** Who wins, said declaratively (the statement of the theorems) *)

  Definition fails_sync (p : xpres) : option Z :=
    if by_promise (xp p) then None else match xerr p with Err id => Some id | _ => None end.
  Definition fails_promise (p : xpres) : option Z :=
    if by_promise (xp p) then match xerr p with Err id => Some id | _ => None end else None.

  (** the first synchronous failure in issue order, with the number of calls made up to it *)
  Fixpoint first_sync_err (ps : nat -> xpres) (i : nat) (qs : list query) : option (Z * nat) :=
    match qs with
    | [] => None
    | _ :: qs' => match fails_sync (ps i) with
                  | Some id => Some (id, S i)
                  | None => first_sync_err ps (S i) qs'
                  end
    end.
  Fixpoint first_promise_err (ps : nat -> xpres) (i : nat) (qs : list query) : option Z :=
    match qs with
    | [] => None
    | _ :: qs' => match fails_promise (ps i) with
                  | Some id => Some id
                  | None => first_promise_err ps (S i) qs'
                  end
    end.

  (** a synchronous failure beats every promised one (also one issued earlier); among the
      promised ones the first in issue order wins, whatever the order in which they resolve *)
  Definition winner (ps : nat -> xpres) (qs : list query) : option (Z * nat) :=
    match first_sync_err ps 0 qs with
    | Some w => Some w
    | None => match first_promise_err ps 0 qs with
              | Some id => Some (id, length qs)
              | None => None
              end
    end.
End XModel.

(** ** [join] with an explicit delivery schedule

    [join]'s goroutine reads promise 0, then promise 1, ...; each read blocks until the idle
    handler has delivered that promise's result (a buffered channel, so deliveries never block).
    [sched] is the order in which the results arrive.  The goroutine's state: the position [k] it
    waits at and the values read so far.  [join_sched] returns [None] while the goroutine is
    still blocked after the whole schedule. *)
Inductive jstate := JWait (k : nat) (acc : list gresult) | JErr (id : Z) | JDone (vals : list gresult).

Fixpoint jadvance (fuel : nat) (prs : list presult) (mail : list nat) (k : nat) (acc : list gresult) : jstate :=
  match fuel with
  | O => JWait k acc
  | S fuel' =>
      match nth_error prs k with
      | None => JDone acc
      | Some r =>
          if existsb (Nat.eqb k) mail then
            match r with
            | PErr id => JErr id
            | PVal v => jadvance fuel' prs mail (S k) (acc ++ [v])
            | PBad => jadvance fuel' prs mail (S k) acc     (* carried along; the callback rejects it *)
            end
          else JWait k acc
      end
  end.

Fixpoint jrun (prs : list presult) (mail : list nat) (st : jstate) (sched : list nat) : jstate :=
  match sched with
  | [] => st
  | i :: sched' =>
      let mail' := i :: mail in
      match st with
      | JWait k acc => jrun prs mail' (jadvance (S (length prs)) prs mail' k acc) sched'
      | _ => jrun prs mail' st sched'
      end
  end.

Definition join_sched (prs : list presult) (sched : list nat) : jstate :=
  jrun prs [] (jadvance (S (length prs)) prs [] 0 []) sched.

(** the four repairs present *)
Definition xconn_current := xconn current true.

Definition xsync (p : pres) : xpres := {| xp := p; xerr := NoErr |}.
