(** * TimeConn/TimeCostProofs.v — the cost C14's model assigns to a time-based connection bounds its page (C16, stage B)

    [apifu.TimeBasedConnection] builds its field with [Connection] / [ConnectionFieldDefinition]:
    its cost function is [defaultConnectionCost], the cost of its [edges] field reads the edge
    count that function stored in the context.  Both are transcribed in C14's Cost/CostModel.v
    ([default_connection_cost], [edges_cost], [connection_edge_count]); here they are composed
    with C16's result theorem. *)
From Coq Require Import List NArith ZArith Bool Lia.
From ApiFu Require Import Base.Sexp Cost.CostModel TimeConn.TimeModel TimeConn.TimeSpec TimeConn.TimeProofs.
Import ListNotations.
Open Scope Z_scope.

(** first / last as a cost function sees them in [Arguments] *)
Definition argval_of (o : option Z) : argval := match o with Some z => AInt z | None => AAbsent end.

(** the multiplier the [edges] field gets for a request *)
Definition edges_multiplier {U} (a : args) (ctx : kctx U) : option Z :=
  match fc_ctx (default_connection_cost (argval_of (a_first a)) (argval_of (a_last a)) ctx) with
  | Some ctx' => match edges_cost ctx' with Some fc => Some (fc_m fc) | None => None end
  | None => None
  end.

Lemma length_lastn {A} n (l : list A) : length (lastn n l) = Nat.min n (length l).
Proof. unfold lastn. rewrite skipn_length. lia. Qed.

Theorem time_cost_bounds_page U (ctx : kctx U) E g ps want_info a :
  honours g E -> NoDup E -> representable E -> args_ok a = true ->
  exists info m,
    fst (conn current g ps want_info a) = OPage (TimeRef E a) info
    /\ fc_r (default_connection_cost (argval_of (a_first a)) (argval_of (a_last a)) ctx) = 1
    /\ edges_multiplier a ctx = Some m
    /\ Z.of_nat (length (TimeRef E a)) <= m
    /\ connection_edge_count (argval_of (a_first a)) (argval_of (a_last a)) (Z.of_nat (length (matching E a)))
       = Some (Z.of_nat (length (TimeRef E a))).
Proof.
  intros Hg HE HR Hok.
  destruct (time_result_eq E g Hg HE HR ps a want_info Hok) as [info Hc].
  exists info.
  destruct (args_ok_cases a Hok) as [[[f [H1 [H2 Hf]]]|[n [H1 [H2 Hn]]]] _].
  - exists f. split; [exact Hc|]. split; [reflexivity|].
    unfold edges_multiplier, TimeRef, truncate, connection_edge_count. rewrite H1, H2. cbn.
    split; [reflexivity|].
    rewrite firstn_length.
    assert (f <? 0 = false) as -> by lia.
    split; [lia|].
    destruct (Z.of_nat (length (matching E a)) >? f) eqn:Hgt; f_equal; lia.
  - exists n. split; [exact Hc|]. split; [reflexivity|].
    unfold edges_multiplier, TimeRef, truncate, connection_edge_count. rewrite H1, H2. cbn.
    split; [reflexivity|].
    rewrite length_lastn.
    assert (n <? 0 = false) as -> by lia.
    split; [lia|].
    destruct (Z.of_nat (length (matching E a)) >? n) eqn:Hgt; f_equal; lia.
Qed.
