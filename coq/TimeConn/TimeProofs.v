(** * TimeConn/TimeProofs.v — proofs for C16 (time-based connections).

    Structure:
    1. the cursor order is a strict total order; insertion sort yields THE strictly sorted
       permutation of a duplicate-free list ([ssorted_unique]);
    2. list lemmas about [firstn] / [lastn] under [filter];
    3. the range queries: soundness (inside the window), disjointness, sufficiency;
    4. the connection: [time_filters_hold], [time_sufficient], [time_result_eq], page info;
    5. promise mode = synchronous mode;
    6. walks;
    7. the three repaired defects as refutations of the same statements for the pinned tree. *)
From Coq Require Import List NArith ZArith Bool Lia Permutation Sorted.
From ApiFu Require Import Base.Sexp TimeConn.TimeModel TimeConn.TimeSpec.
Import ListNotations.
Open Scope Z_scope.

(** ** 1. Order *)

Lemma bytes_ltb_irrefl a : bytes_ltb a a = false.
Proof.
  induction a as [|x xs IH]; simpl; [reflexivity|].
  rewrite N.ltb_irrefl, N.eqb_refl, IH. reflexivity.
Qed.

Lemma bytes_ltb_trans a : forall b c, bytes_ltb a b = true -> bytes_ltb b c = true -> bytes_ltb a c = true.
Proof.
  induction a as [|x xs IH]; intros [|y ys] [|z zs]; simpl; intros H1 H2; try discriminate; try reflexivity.
  apply orb_true_iff in H1. apply orb_true_iff in H2. apply orb_true_iff.
  destruct H1 as [H1|H1], H2 as [H2|H2].
  - left. apply N.ltb_lt in H1, H2. apply N.ltb_lt. lia.
  - apply andb_true_iff in H2 as [H2 _]. apply N.eqb_eq in H2. subst. left. exact H1.
  - apply andb_true_iff in H1 as [H1 _]. apply N.eqb_eq in H1. subst. left. exact H2.
  - apply andb_true_iff in H1 as [H1 H1']. apply andb_true_iff in H2 as [H2 H2'].
    apply N.eqb_eq in H1, H2. subst. right. rewrite N.eqb_refl. simpl. eapply IH; eassumption.
Qed.

Lemma bytes_ltb_total a : forall b, bytes_ltb a b = true \/ a = b \/ bytes_ltb b a = true.
Proof.
  induction a as [|x xs IH]; intros [|y ys]; simpl; auto.
  destruct (N.lt_trichotomy x y) as [H|[H|H]].
  - left. apply N.ltb_lt in H. rewrite H. reflexivity.
  - subst. rewrite N.ltb_irrefl, N.eqb_refl. simpl.
    destruct (IH ys) as [H|[H|H]]; [left; exact H | right; left; congruence | right; right; exact H].
  - right. right. apply N.ltb_lt in H. rewrite H. reflexivity.
Qed.

Definition clt (a b : cursor) : Prop := cursor_ltb a b = true.

Lemma cursor_ltb_irrefl a : cursor_ltb a a = false.
Proof. unfold cursor_ltb. rewrite Z.ltb_irrefl, Z.eqb_refl, bytes_ltb_irrefl. reflexivity. Qed.

Lemma clt_irrefl a : ~ clt a a.
Proof. unfold clt. rewrite cursor_ltb_irrefl. discriminate. Qed.

Lemma clt_spec a b : clt a b <-> nano a < nano b \/ (nano a = nano b /\ bytes_ltb (cid a) (cid b) = true).
Proof.
  unfold clt, cursor_ltb. rewrite orb_true_iff, andb_true_iff, Z.ltb_lt, Z.eqb_eq. tauto.
Qed.

Lemma clt_trans a b c : clt a b -> clt b c -> clt a c.
Proof.
  rewrite !clt_spec. intros [H1|[H1 H1']] [H2|[H2 H2']].
  - left; lia.
  - left; lia.
  - left; lia.
  - right. split; [lia|]. eapply bytes_ltb_trans; eassumption.
Qed.

Lemma clt_total a b : clt a b \/ a = b \/ clt b a.
Proof.
  rewrite !clt_spec. destruct a as [ta ia], b as [tb ib]. unfold nano, cid; simpl.
  destruct (Z.lt_trichotomy ta tb) as [H|[H|H]]; [left; left; exact H | | right; right; left; exact H].
  subst. destruct (bytes_ltb_total ia ib) as [H|[H|H]].
  - left. right. auto.
  - right. left. congruence.
  - right. right. right. auto.
Qed.

Lemma clt_asym a b : clt a b -> ~ clt b a.
Proof. intros H1 H2. exact (clt_irrefl a (clt_trans _ _ _ H1 H2)). Qed.

Lemma clt_nano_le a b : clt a b -> nano a <= nano b.
Proof. rewrite clt_spec. lia. Qed.

Lemma nano_lt_clt a b : nano a < nano b -> clt a b.
Proof. rewrite clt_spec. auto. Qed.

Lemma cursor_eqb_eq a b : cursor_eqb a b = true <-> a = b.
Proof.
  unfold cursor_eqb. rewrite andb_true_iff, Z.eqb_eq, bytes_eqb_eq.
  destruct a, b; unfold nano, cid; simpl. split; [intros [? ?]; congruence | intros H; inversion H; auto].
Qed.

Lemma cursor_eq_dec (a b : cursor) : {a = b} + {a <> b}.
Proof.
  destruct (cursor_eqb a b) eqn:H; [left; apply cursor_eqb_eq; exact H | right].
  intro E. apply cursor_eqb_eq in E. congruence.
Qed.

(** ** Sorting *)

Definition ssorted (l : list edge) : Prop := StronglySorted clt l.

Lemma insert_perm x l : Permutation (insert x l) (x :: l).
Proof.
  induction l as [|y ys IH]; simpl; [apply Permutation_refl|].
  destruct (cursor_ltb y x).
  - eapply perm_trans; [apply perm_skip; exact IH | apply perm_swap].
  - apply Permutation_refl.
Qed.

Lemma sort_perm l : Permutation (sort l) l.
Proof.
  induction l as [|x xs IH]; simpl; [apply perm_nil|].
  eapply perm_trans; [apply insert_perm | apply perm_skip; exact IH].
Qed.

Lemma sort_In l x : In x (sort l) <-> In x l.
Proof. split; apply Permutation_in; [apply sort_perm | apply Permutation_sym, sort_perm]. Qed.

Lemma sort_length l : length (sort l) = length l.
Proof. apply Permutation_length, sort_perm. Qed.

Lemma sort_NoDup l : NoDup l -> NoDup (sort l).
Proof. intro H. eapply Permutation_NoDup; [apply Permutation_sym, sort_perm | exact H]. Qed.

Lemma ssorted_cons_inv a l : ssorted (a :: l) -> ssorted l /\ Forall (clt a) l.
Proof. intro H. apply StronglySorted_inv in H. exact H. Qed.

Lemma insert_ssorted x l : ssorted l -> ~ In x l -> ssorted (insert x l).
Proof.
  induction l as [|y ys IH]; simpl; intros Hs Hn.
  - constructor; constructor.
  - apply ssorted_cons_inv in Hs as [Hs Hy].
    destruct (cursor_ltb y x) eqn:Hyx.
    + constructor.
      * apply IH; [exact Hs | tauto].
      * rewrite Forall_forall. intros z Hz.
        apply (Permutation_in _ (insert_perm x ys)) in Hz. destruct Hz as [Hz|Hz].
        -- subst. exact Hyx.
        -- rewrite Forall_forall in Hy. apply Hy. exact Hz.
    + assert (Hxy : clt x y).
      { destruct (clt_total x y) as [H|[H|H]]; [exact H | subst; tauto | unfold clt in H; congruence]. }
      constructor.
      * constructor; assumption.
      * constructor; [exact Hxy|].
        rewrite Forall_forall in *. intros z Hz. eapply clt_trans; [exact Hxy | apply Hy; exact Hz].
Qed.

Lemma sort_ssorted l : NoDup l -> ssorted (sort l).
Proof.
  induction l as [|x xs IH]; simpl; intro H.
  - constructor.
  - inversion H as [|? ? Hn Hd]; subst. apply insert_ssorted; [apply IH; exact Hd|].
    rewrite sort_In. exact Hn.
Qed.

Lemma ssorted_NoDup l : ssorted l -> NoDup l.
Proof.
  induction l as [|x xs IH]; intro H; [constructor|].
  apply ssorted_cons_inv in H as [Hs Hx]. constructor; [|apply IH; exact Hs].
  intro Hin. rewrite Forall_forall in Hx. exact (clt_irrefl x (Hx x Hin)).
Qed.

(** a strictly sorted list is determined by its elements *)
Lemma ssorted_unique l1 : forall l2, ssorted l1 -> ssorted l2 -> (forall x, In x l1 <-> In x l2) -> l1 = l2.
Proof.
  induction l1 as [|a l1 IH]; intros [|b l2] H1 H2 Heq.
  - reflexivity.
  - exfalso. apply (proj2 (Heq b)). left; reflexivity.
  - exfalso. apply (proj1 (Heq a)). left; reflexivity.
  - pose proof (ssorted_NoDup _ H1) as N1. pose proof (ssorted_NoDup _ H2) as N2.
    apply ssorted_cons_inv in H1 as [H1 Ha]. apply ssorted_cons_inv in H2 as [H2 Hb].
    rewrite Forall_forall in Ha, Hb.
    assert (a = b) as ->.
    { destruct (proj1 (Heq a) (or_introl eq_refl)) as [E|Hin]; [congruence|].
      destruct (proj2 (Heq b) (or_introl eq_refl)) as [E|Hin']; [congruence|].
      exfalso. exact (clt_asym _ _ (Ha _ Hin') (Hb _ Hin)). }
    f_equal. apply IH; [exact H1 | exact H2|].
    inversion N1 as [|? ? Na _]; inversion N2 as [|? ? Nb _]; subst.
    intro x. split; intro Hx.
    + destruct (proj1 (Heq x) (or_intror Hx)) as [E|Hin]; [subst; tauto | exact Hin].
    + destruct (proj2 (Heq x) (or_intror Hx)) as [E|Hin]; [subst; tauto | exact Hin].
Qed.

Lemma ssorted_filter p l : ssorted l -> ssorted (filter p l).
Proof.
  induction l as [|x xs IH]; simpl; intro H; [constructor|].
  apply ssorted_cons_inv in H as [Hs Hx].
  destruct (p x); [|apply IH; exact Hs].
  constructor; [apply IH; exact Hs|].
  rewrite Forall_forall in *. intros y Hy. apply filter_In in Hy as [Hy _]. apply Hx. exact Hy.
Qed.

Lemma NoDup_filter {A} (p : A -> bool) l : NoDup l -> NoDup (filter p l).
Proof.
  induction l as [|x xs IH]; simpl; intro H; [constructor|].
  inversion H as [|? ? Hn Hd]; subst.
  destruct (p x); [constructor; [rewrite filter_In; tauto | apply IH; exact Hd] | apply IH; exact Hd].
Qed.

Lemma sort_filter p l : NoDup l -> sort (filter p l) = filter p (sort l).
Proof.
  intro H. apply ssorted_unique.
  - apply sort_ssorted, NoDup_filter, H.
  - apply ssorted_filter, sort_ssorted, H.
  - intro x. rewrite sort_In, !filter_In, sort_In. tauto.
Qed.

(** any two duplicate-free lists with the same elements sort to the same list *)
Lemma sort_ext l1 l2 : NoDup l1 -> NoDup l2 -> (forall x, In x l1 <-> In x l2) -> sort l1 = sort l2.
Proof.
  intros N1 N2 H. apply ssorted_unique; [apply sort_ssorted, N1 | apply sort_ssorted, N2|].
  intro x. rewrite !sort_In. apply H.
Qed.

Lemma sort_id l : ssorted l -> sort l = l.
Proof.
  intro H. apply ssorted_unique; [apply sort_ssorted, ssorted_NoDup, H | exact H | apply sort_In].
Qed.

Lemma ssorted_app l1 l2 : ssorted (l1 ++ l2) -> forall x y, In x l1 -> In y l2 -> clt x y.
Proof.
  induction l1 as [|a l1 IH]; simpl; intros H x y Hx Hy; [contradiction|].
  apply ssorted_cons_inv in H as [Hs Ha]. destruct Hx as [->|Hx].
  - rewrite Forall_forall in Ha. apply Ha. apply in_or_app. right. exact Hy.
  - eapply IH; eassumption.
Qed.

Lemma ssorted_app_r l1 l2 : ssorted (l1 ++ l2) -> ssorted l2.
Proof.
  induction l1 as [|a l1 IH]; simpl; intro H; [exact H|].
  apply ssorted_cons_inv in H as [Hs _]. apply IH. exact Hs.
Qed.

(** ** 2. [firstn] / [lastn] under [filter] *)

Section ListLemmas.
  Context {A : Type}.
  Implicit Types (l : list A) (p : A -> bool).

  Lemma In_firstn k : forall l x, In x (firstn k l) -> In x l.
  Proof.
    induction k as [|k IH]; intros [|y l] x H; simpl in *; try contradiction.
    destruct H as [H|H]; [left; exact H | right; apply IH; exact H].
  Qed.

  Lemma In_firstn_S k : forall l x, In x (firstn k l) -> In x (firstn (S k) l).
  Proof.
    induction k as [|k IH]; intros [|y l] x H; simpl in *; try contradiction.
    destruct H as [H|H]; [left; exact H | right; apply IH; exact H].
  Qed.

  (** if the filter keeps the first k elements, the first k of the filtered list are these *)
  Lemma firstn_filter_all p k : forall l,
    (forall x, In x (firstn k l) -> p x = true) -> firstn k (filter p l) = firstn k l.
  Proof.
    induction k as [|k IH]; intros [|y l] H; simpl in *; try reflexivity.
    rewrite (H y (or_introl eq_refl)). simpl. f_equal. apply IH. intros x Hx. apply H. right. exact Hx.
  Qed.

  Lemma In_firstn_filter p : forall l k x,
    In x (firstn k l) -> p x = true -> In x (firstn k (filter p l)).
  Proof.
    induction l as [|y l IH]; intros [|k] x H Hp; simpl in *; try contradiction.
    destruct H as [H|H].
    - subst. rewrite Hp. left. reflexivity.
    - destruct (p y).
      + right. apply IH; assumption.
      + apply In_firstn_S. apply IH; assumption.
  Qed.

  Lemma filter_rev' p l : filter p (rev l) = rev (filter p l).
  Proof.
    induction l as [|y l IH]; simpl; [reflexivity|].
    rewrite filter_app, IH. simpl. destruct (p y); simpl; [reflexivity | apply app_nil_r].
  Qed.

  Lemma lastn_rev k l : lastn k l = rev (firstn k (rev l)).
  Proof. unfold lastn. rewrite firstn_rev, rev_involutive. reflexivity. Qed.

  Lemma In_lastn k l x : In x (lastn k l) -> In x l.
  Proof. rewrite lastn_rev, <- in_rev. intro H. apply In_firstn in H. apply in_rev. exact H. Qed.

  Lemma lastn_filter_all p k l :
    (forall x, In x (lastn k l) -> p x = true) -> lastn k (filter p l) = lastn k l.
  Proof.
    intro H. rewrite !lastn_rev, <- filter_rev'. f_equal. apply firstn_filter_all.
    intros x Hx. apply H. rewrite lastn_rev, <- in_rev. exact Hx.
  Qed.

  Lemma In_lastn_filter p l k x :
    In x (lastn k l) -> p x = true -> In x (lastn k (filter p l)).
  Proof.
    rewrite !lastn_rev, <- !in_rev, <- filter_rev'. apply In_firstn_filter.
  Qed.

  Lemma lastn_length k l : length (lastn k l) = Nat.min k (length l).
  Proof. rewrite lastn_rev, rev_length, firstn_length, rev_length. reflexivity. Qed.

  Lemma lastn_all k l : (length l <= k)%nat -> lastn k l = l.
  Proof. intro H. unfold lastn. replace (length l - k)%nat with 0%nat by lia. reflexivity. Qed.

  Lemma lastn_lastn i j l : (i <= j)%nat -> lastn i (lastn j l) = lastn i l.
  Proof.
    intro H. rewrite (lastn_rev j l), (lastn_rev i (rev _)), rev_involutive, firstn_firstn.
    rewrite Nat.min_l by exact H. symmetry. apply lastn_rev.
  Qed.

  Lemma NoDup_firstn k l : NoDup l -> NoDup (firstn k l).
  Proof.
    revert l. induction k as [|k IH]; intros [|y l] H; simpl; try constructor.
    - inversion H as [|? ? Hn Hd]; subst. intro Hin. apply Hn. eapply In_firstn. exact Hin.
    - inversion H; subst. apply IH. assumption.
  Qed.

  Lemma NoDup_lastn k l : NoDup l -> NoDup (lastn k l).
  Proof. intro H. rewrite lastn_rev. apply NoDup_rev, NoDup_firstn, NoDup_rev, H. Qed.

  Lemma filter_filter_impl p q l :
    (forall x, In x l -> q x = true -> p x = true) -> filter q (filter p l) = filter q l.
  Proof.
    induction l as [|y l IH]; simpl; intro H; [reflexivity|].
    destruct (p y) eqn:Hp; simpl.
    - destruct (q y); [f_equal|]; apply IH; intros x Hx; apply H; right; exact Hx.
    - destruct (q y) eqn:Hq.
      + rewrite (H y (or_introl eq_refl) Hq) in Hp. discriminate.
      + apply IH. intros x Hx. apply H. right. exact Hx.
  Qed.

  Lemma filter_ext_in' p q l : (forall x, In x l -> p x = q x) -> filter p l = filter q l.
  Proof.
    induction l as [|y l IH]; simpl; intro H; [reflexivity|].
    rewrite (H y (or_introl eq_refl)). destruct (q y); [f_equal|]; apply IH; intros x Hx; apply H; right; exact Hx.
  Qed.

  Lemma filter_all p l : (forall x, In x l -> p x = true) -> filter p l = l.
  Proof.
    induction l as [|y l IH]; simpl; intro H; [reflexivity|].
    rewrite (H y (or_introl eq_refl)). f_equal. apply IH. intros x Hx. apply H. right. exact Hx.
  Qed.

  Lemma filter_none p l : (forall x, In x l -> p x = false) -> filter p l = [].
  Proof.
    induction l as [|y l IH]; simpl; intro H; [reflexivity|].
    rewrite (H y (or_introl eq_refl)). apply IH. intros x Hx. apply H. right. exact Hx.
  Qed.
End ListLemmas.

(** ** [take]: the first / last |limit| elements (all for 0) *)

Lemma In_take lim l x : In x (take lim l) -> In x l.
Proof.
  unfold take. destruct (lim =? 0); [auto|]. destruct (0 <? lim); [apply In_firstn | apply In_lastn].
Qed.

Lemma In_take_filter p lim l x : In x (take lim l) -> p x = true -> In x (take lim (filter p l)).
Proof.
  unfold take. destruct (lim =? 0).
  - intros H Hp. apply filter_In. auto.
  - destruct (0 <? lim); [apply In_firstn_filter | apply In_lastn_filter].
Qed.

Definition mem (x : edge) (l : list edge) : bool := existsb (cursor_eqb x) l.
Lemma mem_In x l : mem x l = true <-> In x l.
Proof.
  unfold mem. rewrite existsb_exists. split.
  - intros [y [Hy E]]. apply cursor_eqb_eq in E. subst. exact Hy.
  - intro H. exists x. split; [exact H | apply cursor_eqb_eq; reflexivity].
Qed.

(** sorting a duplicate-free sub-collection of a strictly sorted list = filtering that list *)
Lemma sort_as_filter S L : ssorted S -> NoDup L -> incl L S -> sort L = filter (fun x => mem x L) S.
Proof.
  intros HS HL Hi. apply ssorted_unique.
  - apply sort_ssorted, HL.
  - apply ssorted_filter, HS.
  - intro x. rewrite sort_In, filter_In, mem_In. split; [intro H; split; [apply Hi|]; exact H | tauto].
Qed.

(** the sandwich: a fetched collection [L] inside the full answer [S] that contains the first
    (last) k of [S] has, once sorted, the same first (last) k *)
Lemma sandwich_firstn k S L :
  ssorted S -> NoDup L -> incl L S -> incl (firstn k S) L -> firstn k (sort L) = firstn k S.
Proof.
  intros HS HL Hi Hk. rewrite (sort_as_filter S L HS HL Hi). apply firstn_filter_all.
  intros x Hx. apply mem_In, Hk, Hx.
Qed.

Lemma sandwich_lastn k S L :
  ssorted S -> NoDup L -> incl L S -> incl (lastn k S) L -> lastn k (sort L) = lastn k S.
Proof.
  intros HS HL Hi Hk. rewrite (sort_as_filter S L HS HL Hi). apply lastn_filter_all.
  intros x Hx. apply mem_In, Hk, Hx.
Qed.

(** ** 3. The range queries of the current code *)

Definition lo (from : option Z) : Z := match from with Some t => t | None => zero_time end.
Definition hi (to : option Z) : Z := match to with Some t => t | None => distant_future end - 1.
Definition exact_q (t : Z) : query := mkq t t 0.
Definition min1 (after : option cursor) (from : option Z) : Z :=
  match after with Some a => Z.max (lo from) (nano a + 1) | None => lo from end.
Definition max1 (before : option cursor) (to : option Z) : Z :=
  match before with Some b => Z.min (hi to) (nano b - 1) | None => hi to end.
Definition inside (from to : option Z) (t : Z) : bool := (lo from <=? t) && (t <=? hi to).

Lemma range_queries_current after before from to lim :
  range_queries current after before from to lim =
  (match after with Some a => if inside from to (nano a) then [exact_q (nano a)] else [] | None => [] end)
  ++ (match before with
      | Some b => if (match after with None => true | Some a => negb (nano a =? nano b) end) && inside from to (nano b)
                  then [exact_q (nano b)] else []
      | None => []
      end)
  ++ [mkq (min1 after from) (max1 before to) lim].
Proof.
  unfold range_queries, nano_plus, inside, lo, hi, min1, max1, exact_q. simpl.
  set (L := match from with Some t => t | None => zero_time end).
  set (H := match to with Some t => t | None => distant_future end - 1).
  assert (E1 : forall a, (if L <? nano a + 1 then nano a + 1 else L) = Z.max L (nano a + 1)).
  { intro a. destruct (Z.ltb_spec L (nano a + 1)); lia. }
  assert (E2 : forall b, (if nano b + -1 <? H then nano b + -1 else H) = Z.min H (nano b - 1)).
  { intro b. destruct (Z.ltb_spec (nano b + -1) H); lia. }
  destruct after, before; rewrite ?E1, ?E2; reflexivity.
Qed.

Lemma window_from from e : lo from <= nano e -> from_ok from e = true.
Proof. unfold lo, from_ok. destruct from; [intro; apply Z.leb_le; assumption | reflexivity]. Qed.
Lemma window_to to e : nano e <= hi to -> to_ok to e = true.
Proof. unfold hi, to_ok. destruct to; [intro; apply Z.ltb_lt; lia | reflexivity]. Qed.
Lemma from_window from e : zero_time <= nano e -> from_ok from e = true -> lo from <= nano e.
Proof. unfold lo, from_ok. destruct from; [intros _ H; apply Z.leb_le; exact H | auto]. Qed.
Lemma to_window to e : nano e < distant_future -> to_ok to e = true -> nano e <= hi to.
Proof. unfold hi, to_ok. destruct to; [intros _ H; apply Z.ltb_lt in H; lia | lia]. Qed.

(** every issued query lies inside the requested time window (this is what the repair of
    defect 20 establishes; before it the two exact-timestamp queries could lie outside) *)
Lemma queries_inside after before from to lim q e :
  In q (range_queries current after before from to lim) -> in_range q e = true ->
  lo from <= nano e <= hi to.
Proof.
  rewrite range_queries_current, !in_app_iff. unfold in_range, inside.
  intros [H|[H|[H|[]]]] Hr.
  - destruct after as [a|]; [|contradiction].
    destruct (lo from <=? nano a) eqn:H1, (nano a <=? hi to) eqn:H2; simpl in H; try contradiction.
    destruct H as [<-|[]]. simpl in Hr. lia.
  - destruct before as [b|]; [|contradiction].
    destruct (match after with None => true | Some a => negb (nano a =? nano b) end); simpl in H; [|contradiction].
    destruct (lo from <=? nano b) eqn:H1, (nano b <=? hi to) eqn:H2; simpl in H; try contradiction.
    destruct H as [<-|[]]. simpl in Hr. lia.
  - subst q. simpl in Hr. unfold min1, max1 in Hr. destruct after, before; lia.
Qed.

(** an edge strictly inside the middle query passes both cursor filters *)
Lemma middle_between after before from to e :
  min1 after from <= nano e <= max1 before to ->
  after_ok after e = true /\ before_ok before e = true.
Proof.
  unfold min1, max1, after_ok, before_ok. intro H. split.
  - destruct after as [a|]; [|reflexivity]. apply nano_lt_clt. lia.
  - destruct before as [b|]; [|reflexivity]. apply nano_lt_clt. lia.
Qed.

Lemma in_mid_last {A} (x : A) l1 l2 : In x (l1 ++ l2 ++ [x]).
Proof. rewrite !in_app_iff. right. right. left. reflexivity. Qed.

(** every edge between the cursors and inside the window lies in the range of an issued
    exact-timestamp query (limit 0), or in the range of the middle query *)
Lemma queries_cover after before from to lim e :
  after_ok after e = true -> before_ok before e = true -> lo from <= nano e <= hi to ->
  (exists q, In q (range_queries current after before from to lim) /\ q_limit q = 0 /\ in_range q e = true)
  \/ (In (mkq (min1 after from) (max1 before to) lim) (range_queries current after before from to lim)
      /\ min1 after from <= nano e <= max1 before to).
Proof.
  intros Ha Hb Hw. rewrite range_queries_current.
  assert (Hex : forall t, t = nano e -> in_range (exact_q t) e = true).
  { intros t ->. unfold in_range, exact_q. simpl. lia. }
  assert (Hin : forall t, t = nano e -> inside from to t = true).
  { intros t ->. unfold inside. lia. }
  destruct after as [a|], before as [b|]; simpl in Ha, Hb.
  - apply clt_nano_le in Ha, Hb.
    destruct (Z.eq_dec (nano a) (nano e)) as [Ea|Na].
    + left. exists (exact_q (nano a)). rewrite (Hin _ Ea). simpl. auto.
    + destruct (Z.eq_dec (nano b) (nano e)) as [Eb|Nb].
      * left. exists (exact_q (nano b)). rewrite (Hin _ Eb).
        assert (nano a =? nano b = false) as -> by lia. simpl.
        split; [apply in_or_app; right; left; reflexivity | auto].
      * right. split; [apply in_mid_last|]. unfold min1, max1. lia.
  - apply clt_nano_le in Ha.
    destruct (Z.eq_dec (nano a) (nano e)) as [Ea|Na].
    + left. exists (exact_q (nano a)). rewrite (Hin _ Ea). simpl. auto.
    + right. split; [apply in_mid_last|]. unfold min1, max1. lia.
  - apply clt_nano_le in Hb.
    destruct (Z.eq_dec (nano b) (nano e)) as [Eb|Nb].
    + left. exists (exact_q (nano b)). rewrite (Hin _ Eb). simpl. auto.
    + right. split; [apply in_mid_last|]. unfold min1, max1. lia.
  - right. split; [apply in_mid_last|]. unfold min1, max1. lia.
Qed.

(** the ranges of the issued queries are pairwise disjoint *)
Lemma queries_disjoint after before from to lim :
  ForallOrdPairs (fun q1 q2 => forall e, in_range q1 e = true -> in_range q2 e = true -> False)
                 (range_queries current after before from to lim).
Proof.
  rewrite range_queries_current. unfold in_range, exact_q, min1, max1.
  destruct after as [a|], before as [b|];
    repeat match goal with |- context [if ?c then _ else _] => destruct c eqn:? end;
    simpl; repeat constructor; simpl; intros; lia.
Qed.

Lemma min1_lo after from : lo from <= min1 after from.
Proof. unfold min1. destruct after; lia. Qed.
Lemma max1_hi before to : max1 before to <= hi to.
Proof. unfold max1. destruct before; lia. Qed.

Lemma NoDup_app_intro {A} (l1 l2 : list A) :
  NoDup l1 -> NoDup l2 -> (forall x, In x l1 -> In x l2 -> False) -> NoDup (l1 ++ l2).
Proof.
  induction l1 as [|a l1 IH]; simpl; intros H1 H2 H; [exact H2|].
  inversion H1 as [|? ? Hn Hd]; subst. constructor.
  - rewrite in_app_iff. intros [Hi|Hi]; [exact (Hn Hi) | exact (H a (or_introl eq_refl) Hi)].
  - apply IH; [exact Hd | exact H2 | intros x Hx; apply H; right; exact Hx].
Qed.

(** the conjunction of the client's filters, on options *)
Definition matches' (after before : option cursor) (from to : option Z) (e : edge) : bool :=
  after_ok after e && before_ok before e && from_ok from e && to_ok to e.

(** ** What is fetched, for a getter that honours its contract *)
Section Fetch.
  Variable E : list edge.
  Variable g : query -> list edge.
  Hypothesis Hg : honours g E.
  Hypothesis HE : NoDup E.
  Hypothesis HR : representable E.

  Lemma fetched_sound qs e : In e (flat_map g qs) -> In e E /\ exists q, In q qs /\ in_range q e = true.
  Proof.
    rewrite in_flat_map. intros [q [Hq He]]. destruct (h_sound g E Hg q e He) as [H1 H2].
    split; [exact H1 | exists q; auto].
  Qed.

  Lemma fetched_nodup qs :
    ForallOrdPairs (fun q1 q2 => forall e, in_range q1 e = true -> in_range q2 e = true -> False) qs ->
    NoDup (flat_map g qs).
  Proof.
    induction 1 as [|q qs Hq _ IH]; simpl; [constructor|].
    apply NoDup_app_intro; [apply (h_nodup g E Hg) | exact IH|].
    intros e H1 H2. destruct (h_sound g E Hg q e H1) as [_ R1].
    apply fetched_sound in H2 as [_ [q' [Hq' R2]]].
    rewrite Forall_forall in Hq. exact (Hq q' Hq' e R1 R2).
  Qed.

  Variables (after before : option cursor) (from to : option Z) (lim : Z).
  Let qs := range_queries current after before from to lim.
  Let M := sort (filter (matches' after before from to) E).

  Lemma M_In e : In e M <-> In e E /\ matches' after before from to e = true.
  Proof. unfold M. rewrite sort_In, filter_In. tauto. Qed.

  (** stage 1a: whatever is fetched lies in E and inside the requested time window *)
  Lemma fetched_in_window e : In e (flat_map g qs) -> In e E /\ from_ok from e = true /\ to_ok to e = true.
  Proof.
    intro H. apply fetched_sound in H as [HE' [q [Hq Hr]]]. split; [exact HE'|].
    destruct (queries_inside _ _ _ _ _ _ _ Hq Hr) as [H1 H2].
    split; [apply window_from; exact H1 | apply window_to; exact H2].
  Qed.

  Lemma fetched_NoDup : NoDup (flat_map g qs).
  Proof. apply fetched_nodup, queries_disjoint. Qed.

  (** stage 1b: the issued queries are sufficient — every one of the first / last |lim| (all,
      for lim = 0) matching edges is returned by some issued query *)
  Lemma queries_sufficient e :
    In e (take lim M) -> exists q, In q qs /\ In e (g q).
  Proof.
    intro Ht. pose proof (In_take _ _ _ Ht) as HM. apply M_In in HM as [HinE Hm].
    unfold matches' in Hm. apply andb_true_iff in Hm as [Hm Hto]. apply andb_true_iff in Hm as [Hm Hfrom].
    apply andb_true_iff in Hm as [Haf Hbe].
    destruct (HR e HinE) as [Hz Hd].
    assert (Hw : lo from <= nano e <= hi to).
    { split; [apply from_window; assumption | apply to_window; assumption]. }
    destruct (queries_cover after before from to lim e Haf Hbe Hw) as [[q [Hq [Hl Hr]]]|[Hq Hr]].
    - exists q. split; [exact Hq|]. apply (h_complete g E Hg). unfold range_ref, take. rewrite Hl. simpl.
      rewrite sort_In, filter_In. auto.
    - exists (mkq (min1 after from) (max1 before to) lim). split; [exact Hq|].
      apply (h_complete g E Hg). unfold range_ref. cbn [q_limit].
      set (qm := mkq (min1 after from) (max1 before to) lim).
      assert (Hqm : in_range qm e = true) by (unfold in_range, qm; simpl; lia).
      rewrite (sort_filter _ _ HE).
      rewrite <- (filter_filter_impl (matches' after before from to) (in_range qm)).
      + rewrite <- (sort_filter _ _ HE). fold M. apply In_take_filter; assumption.
      + intros x _ Hx. unfold in_range, qm in Hx. simpl in Hx.
        assert (Hx' : min1 after from <= nano x <= max1 before to) by lia.
        destruct (middle_between after before from to x Hx') as [A1 A2].
        pose proof (min1_lo after from). pose proof (max1_hi before to).
        unfold matches'. rewrite A1, A2, window_from, window_to by lia. reflexivity.
  Qed.

  Lemma fetched_sufficient e : In e (take lim M) -> In e (flat_map g qs).
  Proof.
    intro H. apply queries_sufficient in H as [q [Hq He]]. apply in_flat_map. exists q. auto.
  Qed.
End Fetch.

(** ** The adapter: what [resolve_edges] hands to the generic connection *)

Definition slices (prs : list gresult) : list edge :=
  flat_map (fun r => match r with GNil => [] | GSlice l => l end) prs.

Lemma slices_present p l : slices [present p l] = l.
Proof.
  unfold slices, present. destruct l as [|x l]; [destruct (nil_when_empty p); reflexivity|].
  simpl. f_equal. apply app_nil_r.
Qed.

Lemma slices_cons r prs : slices (r :: prs) = slices [r] ++ slices prs.
Proof. unfold slices. simpl. rewrite app_nil_r. reflexivity. Qed.

Lemma collect_perm g ps qs : forall i,
  Permutation (fst (collect g ps i qs) ++ slices (snd (collect g ps i qs))) (flat_map g qs).
Proof.
  induction qs as [|q qs IH]; intro i; [constructor|].
  specialize (IH (S i)). cbn [collect flat_map].
  destruct (collect g ps (S i) qs) as [es prs]. cbn [fst snd] in IH.
  destruct (by_promise (ps i)).
  - cbn [fst snd]. rewrite slices_cons, slices_present.
    eapply perm_trans; [apply Permutation_app_swap_app|]. apply Permutation_app_head. exact IH.
  - unfold present. destruct (g q) as [|x l] eqn:Eg.
    + destruct (nil_when_empty (ps i)); cbn [fst snd app]; exact IH.
    + cbn [fst snd]. rewrite <- app_assoc. apply Permutation_app_head. exact IH.
Qed.

Lemma join_cb_skip V es prs : skip_nil_in_join V = true -> join_cb V es prs = Some (es ++ slices prs).
Proof.
  intro HV. revert es. induction prs as [|r prs IH]; intro es; simpl.
  - rewrite app_nil_r. reflexivity.
  - destruct r as [|l].
    + rewrite HV. apply IH.
    + rewrite IH, <- app_assoc. reflexivity.
Qed.

(** with nil results skipped in the join callback, promises never crash and only permute *)
Lemma resolve_edges_perm V g ps qs : skip_nil_in_join V = true ->
  exists F, resolve_edges V g ps qs = Some F /\ Permutation F (flat_map g qs).
Proof.
  intro HV. unfold resolve_edges. pose proof (collect_perm g ps qs 0%nat) as H.
  destruct (collect g ps 0 qs) as [es prs]. simpl in H.
  destruct prs as [|r prs].
  - exists es. split; [reflexivity|]. simpl in H. rewrite app_nil_r in H. exact H.
  - rewrite (join_cb_skip V es (r :: prs) HV). eexists. split; [reflexivity | exact H].
Qed.

Lemma collect_sync g qs : forall i, collect g all_sync i qs = (flat_map g qs, []).
Proof.
  induction qs as [|q qs IH]; intro i; simpl; [reflexivity|].
  rewrite IH. unfold present. destruct (g q); reflexivity.
Qed.

Lemma resolve_edges_sync V g qs : resolve_edges V g all_sync qs = Some (flat_map g qs).
Proof. unfold resolve_edges. rewrite collect_sync. reflexivity. Qed.

(** all results through promises, none of them nil: literally the synchronous concatenation *)
Definition all_promise : nat -> pres := fun _ => {| by_promise := true; nil_when_empty := false |}.

Lemma join_cb_slices V es prs : (forall r, In r prs -> r <> GNil) -> join_cb V es prs = Some (es ++ slices prs).
Proof.
  revert es. induction prs as [|r prs IH]; intros es H; simpl.
  - rewrite app_nil_r. reflexivity.
  - destruct r as [|l]; [exfalso; apply (H GNil); [left|]; reflexivity|].
    rewrite IH, <- app_assoc; [reflexivity|]. intros r Hr. apply H. right. exact Hr.
Qed.

Lemma collect_all_promise g qs : forall i,
  fst (collect g all_promise i qs) = [] /\ slices (snd (collect g all_promise i qs)) = flat_map g qs
  /\ (forall r, In r (snd (collect g all_promise i qs)) -> r <> GNil).
Proof.
  induction qs as [|q qs IH]; intro i; simpl; [repeat split; intros r []|].
  specialize (IH (S i)). destruct (collect g all_promise (S i) qs) as [es prs]. simpl in *.
  destruct IH as [H1 [H2 H3]]. split; [exact H1|]. split.
  - rewrite H2. f_equal. unfold present. simpl. destruct (g q); reflexivity.
  - intros r [<-|Hr]; [unfold present; simpl; destruct (g q); discriminate | apply H3; exact Hr].
Qed.

Lemma resolve_edges_all_promise V g qs : resolve_edges V g all_promise qs = Some (flat_map g qs).
Proof.
  unfold resolve_edges. destruct (collect_all_promise g qs 0%nat) as [H1 [H2 H3]].
  destruct (collect g all_promise 0 qs) as [es prs]. simpl in *. subst es.
  destruct prs as [|r prs]; [simpl in H2; congruence|].
  rewrite join_cb_slices by exact H3. simpl. f_equal. exact H2.
Qed.

(** ** 4. The generic connection on what was fetched *)

Definition cfilter (after before : option cursor) (c : cursor) : bool :=
  negb (fails_before before c) && negb (fails_after after c).

Lemma cfilter_ok after before c : cfilter after before c = after_ok after c && before_ok before c.
Proof.
  unfold cfilter, fails_before, fails_after, after_ok, before_ok.
  destruct after as [a|], before as [b|]; rewrite ?negb_involutive; simpl;
    try reflexivity; try apply andb_comm. rewrite andb_true_r. reflexivity.
Qed.

Lemma trunc_first f (l : list edge) : 0 <= f ->
  (if f <? Z.of_nat (length l) then (firstn (Z.to_nat f) l, true) else (l, false))
  = (firstn (Z.to_nat f) l, f <? Z.of_nat (length l)).
Proof.
  intro Hf. destruct (Z.ltb_spec f (Z.of_nat (length l))); [reflexivity|].
  rewrite firstn_all2 by lia. reflexivity.
Qed.

Lemma trunc_last n (l : list edge) : 0 <= n ->
  (if n <? Z.of_nat (length l) then (lastn (Z.to_nat n) l, true) else (l, false))
  = (lastn (Z.to_nat n) l, n <? Z.of_nat (length l)).
Proof.
  intro Hf. destruct (Z.ltb_spec n (Z.of_nat (length l))); [reflexivity|].
  rewrite lastn_all by lia. reflexivity.
Qed.

Section Etr.
  Variable E : list edge.
  Hypothesis HE : NoDup E.
  Variables (after before : option cursor) (from to : option Z).
  Variable F : list edge.                       (* what the adapter fetched *)
  Hypothesis HF1 : NoDup F.
  Hypothesis HF2 : forall e, In e F -> In e E /\ from_ok from e = true /\ to_ok to e = true.

  Let M := sort (filter (matches' after before from to) E).
  Let F' := filter (cfilter after before) F.

  Lemma M_ssorted : ssorted M.
  Proof. apply sort_ssorted, NoDup_filter, HE. Qed.

  Lemma F'_NoDup : NoDup F'.
  Proof. apply NoDup_filter, HF1. Qed.

  Lemma F'_incl : incl F' M.
  Proof.
    intros e He. apply filter_In in He as [He Hc]. destruct (HF2 e He) as [H1 [H2 H3]].
    unfold M. rewrite sort_In, filter_In. split; [exact H1|].
    rewrite cfilter_ok in Hc. unfold matches'. rewrite Hc, H2, H3. reflexivity.
  Qed.

  Lemma M_cfilter e : In e M -> cfilter after before e = true.
  Proof.
    unfold M. rewrite sort_In, filter_In, cfilter_ok. unfold matches'. intros [_ H].
    apply andb_true_iff in H as [H _]. apply andb_true_iff in H as [H _]. exact H.
  Qed.

  Lemma etr_first f : 0 <= f ->
    (forall e, In e (firstn (S (Z.to_nat f)) M) -> In e F) ->
    exists hp,
      edges_to_return after before (Some f) None F
      = (firstn (Z.to_nat f) M,
         {| has_prev := hp; has_next := f <? Z.of_nat (length M);
            start_c := hd_error (firstn (Z.to_nat f) M); end_c := last_error (firstn (Z.to_nat f) M) |}).
  Proof.
    intros Hf Hsuff.
    assert (HS : firstn (S (Z.to_nat f)) (sort F') = firstn (S (Z.to_nat f)) M).
    { apply sandwich_firstn; [apply M_ssorted | apply F'_NoDup | apply F'_incl|].
      intros e He. apply filter_In. split; [apply Hsuff; exact He|].
      apply M_cfilter. eapply In_firstn. exact He. }
    assert (H1 : firstn (Z.to_nat f) (sort F') = firstn (Z.to_nat f) M).
    { rewrite <- (Nat.min_l (Z.to_nat f) (S (Z.to_nat f))) by lia.
      rewrite <- !firstn_firstn. rewrite HS. reflexivity. }
    assert (H2 : (f <? Z.of_nat (length (sort F'))) = (f <? Z.of_nat (length M))).
    { apply (f_equal (@length edge)) in HS. rewrite !firstn_length in HS.
      destruct (Z.ltb_spec f (Z.of_nat (length (sort F')))), (Z.ltb_spec f (Z.of_nat (length M))); try reflexivity; lia. }
    unfold edges_to_return, apply_cursors. fold (cfilter after before). fold F'.
    rewrite (trunc_first f (sort F') Hf), H1, H2. eexists. reflexivity.
  Qed.

  Lemma etr_last n : 0 <= n ->
    (forall e, In e (lastn (S (Z.to_nat n)) M) -> In e F) ->
    exists hn,
      edges_to_return after before None (Some n) F
      = (lastn (Z.to_nat n) M,
         {| has_prev := n <? Z.of_nat (length M); has_next := hn;
            start_c := hd_error (lastn (Z.to_nat n) M); end_c := last_error (lastn (Z.to_nat n) M) |}).
  Proof.
    intros Hn Hsuff.
    assert (HS : lastn (S (Z.to_nat n)) (sort F') = lastn (S (Z.to_nat n)) M).
    { apply sandwich_lastn; [apply M_ssorted | apply F'_NoDup | apply F'_incl|].
      intros e He. apply filter_In. split; [apply Hsuff; exact He|].
      apply M_cfilter. eapply In_lastn. exact He. }
    assert (H1 : lastn (Z.to_nat n) (sort F') = lastn (Z.to_nat n) M).
    { rewrite <- (lastn_lastn (Z.to_nat n) (S (Z.to_nat n)) (sort F')) by lia.
      rewrite <- (lastn_lastn (Z.to_nat n) (S (Z.to_nat n)) M) by lia. rewrite HS. reflexivity. }
    assert (H2 : (n <? Z.of_nat (length (sort F'))) = (n <? Z.of_nat (length M))).
    { apply (f_equal (@length edge)) in HS. rewrite !lastn_length in HS.
      destruct (Z.ltb_spec n (Z.of_nat (length (sort F')))), (Z.ltb_spec n (Z.of_nat (length M))); try reflexivity; lia. }
    unfold edges_to_return, apply_cursors. fold (cfilter after before). fold F'.
    rewrite (trunc_last n (sort F') Hn), H1, H2. eexists. reflexivity.
  Qed.

  (** without the sufficiency premise: every returned edge was fetched and passes the cursor filter *)
  Lemma etr_subset first last e :
    In e (fst (edges_to_return after before first last F)) -> In e F /\ cfilter after before e = true.
  Proof.
    unfold edges_to_return, apply_cursors. fold (cfilter after before). fold F'.
    set (es0 := sort F').
    assert (H0 : forall x, In x es0 -> In x F /\ cfilter after before x = true).
    { intros x Hx. unfold es0 in Hx. rewrite sort_In in Hx. apply filter_In in Hx. exact Hx. }
    destruct first as [f|], last as [n|];
      repeat match goal with |- context [if ?c then _ else _] => destruct c end; simpl;
      intro H; try (apply H0; exact H);
      repeat (first [apply In_lastn in H | apply In_firstn in H]); apply H0; exact H.
  Qed.
End Etr.

(** ** The connection field *)

Lemma args_ok_cases a : args_ok a = true ->
  ((exists f, a_first a = Some f /\ a_last a = None /\ 0 <= f) \/
   (exists n, a_first a = None /\ a_last a = Some n /\ 0 <= n))
  /\ a_after a <> CInvalid /\ a_before a <> CInvalid.
Proof.
  unfold args_ok, arg_error. intro H. apply negb_true_iff in H.
  apply orb_false_iff in H as [H Hb]. apply orb_false_iff in H as [H Ha].
  split; [|split; [destruct (a_after a); congruence | destruct (a_before a); congruence]].
  destruct (a_first a) as [f|], (a_last a) as [n|]; try discriminate.
  - left. exists f. repeat split. apply Z.ltb_ge. exact H.
  - right. exists n. repeat split. apply Z.ltb_ge. exact H.
Qed.

Definition queries_of (a : args) : list query :=
  range_queries current (cur_of (a_after a)) (cur_of (a_before a)) (a_from a) (a_to a) (limit_of a).

Definition more_flag (a : args) (i : page_info) : bool :=
  match a_first a with Some _ => has_next i | None => has_prev i end.

Section Conn.
  Variable E : list edge.
  Variable g : query -> list edge.
  Hypothesis Hg : honours g E.
  Hypothesis HE : NoDup E.
  Hypothesis HR : representable E.
  Variable ps : nat -> pres.

  Lemma matching_eq a :
    matching E a = sort (filter (matches' (cur_of (a_after a)) (cur_of (a_before a)) (a_from a) (a_to a)) E).
  Proof. reflexivity. Qed.

  (** the heart: for acceptable arguments the adapter never crashes, and the generic connection
      turns what it fetched into exactly the reference page, with exact page info *)
  Lemma conn_core a : args_ok a = true ->
    exists F info,
      resolve_edges current g ps (queries_of a) = Some F
      /\ edges_to_return (cur_of (a_after a)) (cur_of (a_before a)) (a_first a) (a_last a) F = (TimeRef E a, info)
      /\ start_c info = hd_error (TimeRef E a) /\ end_c info = last_error (TimeRef E a)
      /\ more_flag a info = more_ref E a.
  Proof.
    intro Hok. destruct (args_ok_cases a Hok) as [Hfl _].
    destruct (resolve_edges_perm current g ps (queries_of a) eq_refl) as [F [HF HP]].
    exists F.
    assert (HF1 : NoDup F).
    { eapply Permutation_NoDup; [apply Permutation_sym; exact HP|].
      apply (fetched_NoDup E g Hg). }
    assert (HF2 : forall e, In e F -> In e E /\ from_ok (a_from a) e = true /\ to_ok (a_to a) e = true).
    { intros e He. apply (Permutation_in _ HP) in He.
      exact (fetched_in_window E g Hg _ _ _ _ _ e He). }
    assert (HS : forall e, In e (take (limit_of a) (matching E a)) -> In e F).
    { intros e He. apply (Permutation_in _ (Permutation_sym HP)).
      apply (fetched_sufficient E g Hg HE HR). exact He. }
    destruct Hfl as [[f [H1 [H2 Hf]]]|[n [H1 [H2 Hn]]]].
    - destruct (etr_first E HE (cur_of (a_after a)) (cur_of (a_before a)) (a_from a) (a_to a) F HF1 HF2 f Hf) as [hp Hetr].
      + intros e He. apply HS. unfold limit_of, take. rewrite H1.
        assert (f + 1 =? 0 = false) as -> by lia. assert (0 <? f + 1 = true) as -> by lia.
        rewrite Z2Nat.inj_add by lia. rewrite Nat.add_1_r. exact He.
      + eexists. split; [exact HF|]. rewrite H1, H2, Hetr.
        unfold TimeRef, truncate, more_flag, more_ref. rewrite H1. simpl. repeat split; reflexivity.
    - destruct (etr_last E HE (cur_of (a_after a)) (cur_of (a_before a)) (a_from a) (a_to a) F HF1 HF2 n Hn) as [hn Hetr].
      + intros e He. apply HS. unfold limit_of, take. rewrite H1, H2.
        assert (- (n + 1) =? 0 = false) as -> by lia. assert (0 <? - (n + 1) = false) as -> by lia.
        rewrite Z.opp_involutive, Z2Nat.inj_add by lia. rewrite Nat.add_1_r. exact He.
      + eexists. split; [exact HF|]. rewrite H1, H2, Hetr.
        unfold TimeRef, truncate, more_flag, more_ref. rewrite H1, H2. simpl. repeat split; reflexivity.
  Qed.

  (** stage 2: the result is the reference page, for every way of handing the results over *)
  Theorem time_result_eq a want_info : args_ok a = true ->
    exists info, fst (conn current g ps want_info a) = OPage (TimeRef E a) info.
  Proof.
    intro Hok. unfold conn. pose proof Hok as Hok'. unfold args_ok in Hok'. apply negb_true_iff in Hok'.
    rewrite Hok'.
    destruct (((limit_of a =? 1) || (limit_of a =? -1)) && negb want_info) eqn:Hlazy.
    - exists None. simpl. f_equal.
      apply andb_true_iff in Hlazy as [Hl _].
      destruct (args_ok_cases a Hok) as [[[f [H1 [H2 Hf]]]|[n [H1 [H2 Hn]]]] _];
        unfold limit_of in Hl; rewrite H1, ?H2 in Hl; unfold TimeRef, truncate; rewrite H1, ?H2.
      + assert (f = 0) as -> by lia. reflexivity.
      + assert (n = 0) as -> by lia. unfold lastn. simpl. rewrite Nat.sub_0_r. symmetry. apply skipn_all.
    - destruct (conn_core a Hok) as [F [info [HF [Hetr _]]]].
      fold (queries_of a). rewrite HF, Hetr. eexists. reflexivity.
  Qed.

  (** page info when it is selected: cursors of the first / last returned edge, and the flag in
      the direction of travel says exactly whether more matching edges exist *)
  Theorem time_page_info a : args_ok a = true ->
    exists info,
      conn current g ps true a = (OPage (TimeRef E a) (Some info), queries_of a)
      /\ start_c info = hd_error (TimeRef E a) /\ end_c info = last_error (TimeRef E a)
      /\ more_flag a info = more_ref E a.
  Proof.
    intro Hok. unfold conn. pose proof Hok as Hok'. unfold args_ok in Hok'. apply negb_true_iff in Hok'.
    rewrite Hok'. rewrite andb_false_r.
    destruct (conn_core a Hok) as [F [info [HF [Hetr Hinfo]]]].
    fold (queries_of a). rewrite HF, Hetr. exists info. split; [reflexivity | exact Hinfo].
  Qed.

  (** stage 1: every edge of the reference page is returned by some issued range query *)
  Theorem time_sufficient a e : args_ok a = true -> In e (TimeRef E a) ->
    exists q, In q (queries_of a) /\ In e (g q).
  Proof.
    intros Hok He. apply (queries_sufficient E g Hg HE HR).
    change (In e (take (limit_of a) (matching E a))).
    destruct (args_ok_cases a Hok) as [[[f [H1 [H2 Hf]]]|[n [H1 [H2 Hn]]]] _];
      unfold TimeRef, truncate in He; unfold limit_of, take; rewrite H1, ?H2 in *.
    - assert (f + 1 =? 0 = false) as -> by lia. assert (0 <? f + 1 = true) as -> by lia.
      rewrite Z2Nat.inj_add by lia. rewrite Nat.add_1_r. apply In_firstn_S. exact He.
    - assert (- (n + 1) =? 0 = false) as -> by lia. assert (0 <? - (n + 1) = false) as -> by lia.
      rewrite Z.opp_involutive, Z2Nat.inj_add by lia. rewrite Nat.add_1_r.
      rewrite lastn_rev, <- in_rev in *. apply In_firstn_S. exact He.
  Qed.
End Conn.

(** ** Stage 1: every returned edge satisfies every supplied filter.
    Only the soundness half of the getter's contract is needed. *)
Definition range_sound (g : query -> list edge) (E : list edge) : Prop :=
  forall q e, In e (g q) -> In e E /\ in_range q e = true.

Lemma honours_sound g E : honours g E -> range_sound g E.
Proof. intros H q e. apply (h_sound g E H). Qed.

Theorem time_filters_hold E g ps want_info a es info e :
  range_sound g E ->
  fst (conn current g ps want_info a) = OPage es info -> In e es ->
  In e E /\ matches a e = true.
Proof.
  intros Hs Hc He. unfold conn in Hc.
  destruct (arg_error a); [discriminate|].
  destruct (((limit_of a =? 1) || (limit_of a =? -1)) && negb want_info).
  - simpl in Hc. inversion Hc; subst. contradiction.
  - fold (queries_of a) in Hc.
    destruct (resolve_edges_perm current g ps (queries_of a) eq_refl) as [F [HF HP]].
    rewrite HF in Hc.
    destruct (edges_to_return (cur_of (a_after a)) (cur_of (a_before a)) (a_first a) (a_last a) F) as [es' info'] eqn:Hetr.
    simpl in Hc. inversion Hc; subst es'. clear Hc.
    assert (He' : In e (fst (edges_to_return (cur_of (a_after a)) (cur_of (a_before a)) (a_first a) (a_last a) F)))
      by (rewrite Hetr; exact He).
    apply etr_subset in He' as [HeF Hcf].
    apply (Permutation_in _ HP) in HeF. apply in_flat_map in HeF as [q [Hq Hg]].
    destruct (Hs q e Hg) as [HE Hr]. split; [exact HE|].
    destruct (queries_inside _ _ _ _ _ _ _ Hq Hr) as [W1 W2].
    rewrite cfilter_ok in Hcf. unfold matches. rewrite Hcf, window_from, window_to by assumption. reflexivity.
Qed.

(** sufficiency, stated on the queries the connection really issued *)
Theorem time_sufficient_issued E g ps want_info a e :
  honours g E -> NoDup E -> representable E -> args_ok a = true ->
  In e (TimeRef E a) -> exists q, In q (snd (conn current g ps want_info a)) /\ In e (g q).
Proof.
  intros Hg HE HR Hok He. unfold conn. pose proof Hok as Hok'. unfold args_ok in Hok'.
  apply negb_true_iff in Hok'. rewrite Hok'.
  destruct (((limit_of a =? 1) || (limit_of a =? -1)) && negb want_info) eqn:Hlazy.
  - exfalso. apply andb_true_iff in Hlazy as [Hl _].
    destruct (args_ok_cases a Hok) as [[[f [H1 [H2 Hf]]]|[n [H1 [H2 Hn]]]] _];
      unfold limit_of in Hl; rewrite H1, ?H2 in Hl; unfold TimeRef, truncate in He; rewrite H1, ?H2 in He.
    + assert (f = 0) by lia. subst. exact He.
    + assert (n = 0) by lia. subst.
      unfold lastn in He. simpl in He. rewrite Nat.sub_0_r, skipn_all in He. exact He.
  - destruct (conn_core E g Hg HE HR ps a Hok) as [F [info [HF [Hetr _]]]].
    fold (queries_of a). rewrite HF, Hetr. simpl. apply (time_sufficient E g Hg HE HR); assumption.
Qed.

(** ** 5. Promise mode = synchronous mode *)

Lemma existsb_perm {A} (p : A -> bool) l1 l2 : Permutation l1 l2 -> existsb p l1 = existsb p l2.
Proof.
  intro H. apply eq_true_iff_eq. rewrite !existsb_exists.
  split; intros [x [Hx Hp]]; exists x; split; try exact Hp;
    [apply (Permutation_in _ H) | apply (Permutation_in _ (Permutation_sym H))]; exact Hx.
Qed.

Lemma edges_to_return_perm after before first last F1 F2 :
  Permutation F1 F2 -> NoDup F1 ->
  edges_to_return after before first last F1 = edges_to_return after before first last F2.
Proof.
  intros HP HN. unfold edges_to_return, apply_cursors.
  rewrite (existsb_perm (fails_before before) F1 F2 HP).
  rewrite (existsb_perm (fun c => negb (fails_before before c) && fails_after after c) F1 F2 HP).
  fold (cfilter after before).
  rewrite (sort_ext (filter (cfilter after before) F1) (filter (cfilter after before) F2));
    [reflexivity | apply NoDup_filter, HN | |].
  - apply NoDup_filter. eapply Permutation_NoDup; eassumption.
  - intro x. rewrite !filter_In. split; intros [H1 H2]; split; try exact H2;
      [apply (Permutation_in _ HP) | apply (Permutation_in _ (Permutation_sym HP))]; exact H1.
Qed.

(** any mixture of synchronous and promised results, nil or not, gives the very same outcome
    and the same queries as the all-synchronous run *)
Theorem time_promise_eq_sync E g ps want_info a :
  honours g E ->
  conn current g ps want_info a = conn current g all_sync want_info a.
Proof.
  intro Hg. unfold conn.
  destruct (arg_error a); [reflexivity|].
  destruct (((limit_of a =? 1) || (limit_of a =? -1)) && negb want_info); [reflexivity|].
  fold (queries_of a).
  destruct (resolve_edges_perm current g ps (queries_of a) eq_refl) as [F [HF HP]].
  rewrite HF, resolve_edges_sync.
  rewrite (edges_to_return_perm _ _ _ _ (flat_map g (queries_of a)) F); [reflexivity | apply Permutation_sym, HP|].
  apply (fetched_NoDup E g Hg).
Qed.

(** all results through promises (no nil): the same computation, for every getter and version *)
Theorem time_all_promise_eq_sync V g want_info a :
  conn V g all_promise want_info a = conn V g all_sync want_info a.
Proof.
  unfold conn. rewrite resolve_edges_all_promise, resolve_edges_sync. reflexivity.
Qed.

(** the adapter never crashes, whatever the getter returns and however it hands it over *)
Theorem time_no_panic g ps want_info a :
  fst (conn current g ps want_info a) <> OPanic.
Proof.
  unfold conn. destruct (arg_error a); [discriminate|].
  destruct (((limit_of a =? 1) || (limit_of a =? -1)) && negb want_info); [discriminate|].
  destruct (resolve_edges_perm current g ps
              (range_queries current (cur_of (a_after a)) (cur_of (a_before a)) (a_from a) (a_to a) (limit_of a)) eq_refl)
    as [F [HF _]].
  rewrite HF. destruct (edges_to_return _ _ _ _ F). discriminate.
Qed.

(** ** 6. Walking the pages by cursor *)

Lemma filter_andb {A} (p q : A -> bool) l : filter (fun x => p x && q x) l = filter p (filter q l).
Proof.
  induction l as [|y l IH]; simpl; [reflexivity|].
  destruct (q y); simpl; [destruct (p y); simpl; rewrite IH; reflexivity | rewrite andb_false_r; exact IH].
Qed.

Lemma filter_length_le' {A} (p : A -> bool) l : (length (filter p l) <= length l)%nat.
Proof. induction l as [|y l IH]; simpl; [lia|]. destruct (p y); simpl; lia. Qed.

Lemma ssorted_split_after l1 c l2 : ssorted (l1 ++ c :: l2) ->
  filter (fun x => cursor_ltb c x) (l1 ++ c :: l2) = l2.
Proof.
  intro H. rewrite filter_app. simpl. rewrite cursor_ltb_irrefl.
  rewrite (filter_none _ l1), (filter_all _ l2); [reflexivity| |].
  - intros x Hx. apply ssorted_app_r in H. apply ssorted_cons_inv in H as [_ H].
    rewrite Forall_forall in H. exact (H x Hx).
  - intros x Hx. assert (Hlt : clt x c) by (eapply ssorted_app; [exact H | exact Hx | left; reflexivity]).
    destruct (cursor_ltb c x) eqn:Hc; [|reflexivity]. exfalso. exact (clt_asym _ _ Hlt Hc).
Qed.

Lemma ssorted_split_before l1 c l2 : ssorted (l1 ++ c :: l2) ->
  filter (fun x => cursor_ltb x c) (l1 ++ c :: l2) = l1.
Proof.
  intro H. rewrite filter_app. simpl. rewrite cursor_ltb_irrefl.
  rewrite (filter_all _ l1), (filter_none _ l2); [apply app_nil_r| |].
  - intros x Hx. apply ssorted_app_r in H. apply ssorted_cons_inv in H as [_ H].
    rewrite Forall_forall in H. specialize (H x Hx).
    destruct (cursor_ltb x c) eqn:Hc; [|reflexivity]. exfalso. exact (clt_asym _ _ H Hc).
  - intros x Hx. eapply ssorted_app; [exact H | exact Hx | left; reflexivity].
Qed.

Definition in_window (from to : option Z) (e : edge) : bool := from_ok from e && to_ok to e.

Section Walk.
  Variable E : list edge.
  Variable g : query -> list edge.
  Hypothesis Hg : honours g E.
  Hypothesis HE : NoDup E.
  Hypothesis HR : representable E.
  Variable ps : nat -> pres.
  Variables (n : Z) (from to : option Z).
  Hypothesis Hn : 1 <= n.

  (** all edges inside the time window, in (time, id) order: what a complete walk must visit *)
  Let W := sort (filter (in_window from to) E).

  Lemma W_ssorted : ssorted W.
  Proof. apply sort_ssorted, NoDup_filter, HE. Qed.

  Lemma matching_fwd c : matching E (fwd_args n from to c) = filter (after_ok (cur_of c)) W.
  Proof.
    unfold matching, W. rewrite <- sort_filter by (apply NoDup_filter, HE). f_equal.
    rewrite <- filter_andb. apply filter_ext_in'. intros x _.
    unfold matches, fwd_args, in_window. simpl. rewrite andb_true_r, andb_assoc. reflexivity.
  Qed.

  Lemma matching_bwd c : matching E (bwd_args n from to c) = filter (before_ok (cur_of c)) W.
  Proof.
    unfold matching, W. rewrite <- sort_filter by (apply NoDup_filter, HE). f_equal.
    rewrite <- filter_andb. apply filter_ext_in'. intros x _.
    unfold matches, bwd_args, in_window. simpl. rewrite andb_assoc. reflexivity.
  Qed.

  Lemma walk_fwd_from fuel : forall c, c <> CInvalid ->
    (length (filter (after_ok (cur_of c)) W) < fuel)%nat ->
    walk_fwd current g fuel ps n from to c = WDone (filter (after_ok (cur_of c)) W).
  Proof.
    induction fuel as [|fuel IH]; intros c Hc Hlen; [lia|].
    set (R := filter (after_ok (cur_of c)) W) in *.
    assert (Hok : args_ok (fwd_args n from to c) = true).
    { unfold args_ok, arg_error, fwd_args. simpl. destruct c; [| congruence |];
        rewrite !orb_false_r; apply negb_true_iff, Z.ltb_ge; lia. }
    destruct (time_page_info E g Hg HE HR ps _ Hok) as [info [Hconn [_ [Hend Hmore]]]].
    cbn [walk_fwd]. rewrite Hconn. cbn [fst].
    unfold more_flag, more_ref in Hmore. cbn [fwd_args a_first] in Hmore.
    unfold TimeRef, truncate in *. cbn [fwd_args a_first] in *.
    rewrite matching_fwd in *. fold R in Hend, Hmore |- *.
    rewrite Hmore. destruct (Z.ltb_spec n (Z.of_nat (length R))) as [Hlt|Hge].
    - (* a further page exists *)
      set (k := Z.to_nat n) in *.
      assert (Hk : (1 <= k < length R)%nat) by lia.
      assert (Hne : firstn k R <> []).
      { intro H0. apply (f_equal (@length edge)) in H0. rewrite firstn_length in H0. simpl in H0. lia. }
      destruct (exists_last Hne) as [l1 [c' Hpage]].
      rewrite Hend, Hpage. unfold last_error. rewrite rev_unit. cbn [hd_error].
      assert (HRs : ssorted R) by (apply ssorted_filter, W_ssorted).
      assert (HRsplit : R = l1 ++ c' :: skipn k R).
      { rewrite <- (firstn_skipn k R) at 1. rewrite Hpage, <- app_assoc. reflexivity. }
      assert (Hc'R : In c' R) by (rewrite HRsplit; apply in_or_app; right; left; reflexivity).
      assert (Hnext : filter (after_ok (cur_of (CCursor c'))) W = skipn k R).
      { change (filter (after_ok (cur_of (CCursor c'))) W) with (filter (fun x : edge => cursor_ltb c' x) W).
        transitivity (filter (fun x : edge => cursor_ltb c' x) R).
        - symmetry. unfold R. apply filter_filter_impl.
          intros x _ Hx. apply filter_In in Hc'R as [_ Hc'].
          destruct c as [| |a]; cbn [cur_of after_ok] in *; try reflexivity.
          exact (clt_trans _ _ _ Hc' Hx).
        - rewrite HRsplit at 1. apply ssorted_split_after. rewrite <- HRsplit. exact HRs. }
      rewrite IH; [| discriminate |].
      + rewrite Hnext, <- Hpage, firstn_skipn. reflexivity.
      + rewrite Hnext, skipn_length. lia.
    - rewrite firstn_all2 by lia. reflexivity.
  Qed.

  (** forward: first:n, then after:endCursor while hasNextPage — every edge of the window
      exactly once, in order *)
  Theorem time_walk_fwd_exact fuel : (length E < fuel)%nat ->
    walk_fwd current g fuel ps n from to CAbsent = WDone W.
  Proof.
    intro Hf. rewrite walk_fwd_from; [| discriminate |].
    - f_equal. apply filter_all. reflexivity.
    - cbn [cur_of]. rewrite (filter_all (after_ok None)) by reflexivity.
      unfold W. rewrite sort_length. eapply Nat.le_lt_trans; [apply filter_length_le' | exact Hf].
  Qed.

  Lemma walk_bwd_from fuel : forall c, c <> CInvalid ->
    (length (filter (before_ok (cur_of c)) W) < fuel)%nat ->
    walk_bwd current g fuel ps n from to c = WDone (filter (before_ok (cur_of c)) W).
  Proof.
    induction fuel as [|fuel IH]; intros c Hc Hlen; [lia|].
    set (R := filter (before_ok (cur_of c)) W) in *.
    assert (Hok : args_ok (bwd_args n from to c) = true).
    { unfold args_ok, arg_error, bwd_args. simpl. destruct c; [| congruence |];
        rewrite ?orb_false_r; apply negb_true_iff, Z.ltb_ge; lia. }
    destruct (time_page_info E g Hg HE HR ps _ Hok) as [info [Hconn [Hstart [_ Hmore]]]].
    cbn [walk_bwd]. rewrite Hconn. cbn [fst].
    unfold more_flag, more_ref in Hmore. cbn [bwd_args a_first a_last] in Hmore.
    unfold TimeRef, truncate in *. cbn [bwd_args a_first a_last] in *.
    rewrite matching_bwd in *. fold R in Hstart, Hmore |- *.
    rewrite Hmore. destruct (Z.ltb_spec n (Z.of_nat (length R))) as [Hlt|Hge].
    - set (k := Z.to_nat n) in *.
      assert (Hk : (1 <= k < length R)%nat) by lia.
      destruct (lastn k R) as [|c' l2] eqn:Hpage.
      { apply (f_equal (@length edge)) in Hpage. rewrite lastn_length in Hpage. simpl in Hpage. lia. }
      rewrite Hstart. cbn [hd_error].
      assert (HRs : ssorted R) by (apply ssorted_filter, W_ssorted).
      assert (HRsplit : R = firstn (length R - k) R ++ c' :: l2).
      { rewrite <- Hpage. unfold lastn. symmetry. apply firstn_skipn. }
      assert (Hc'R : In c' R) by (rewrite HRsplit; apply in_or_app; right; left; reflexivity).
      assert (Hnext : filter (before_ok (cur_of (CCursor c'))) W = firstn (length R - k) R).
      { change (filter (before_ok (cur_of (CCursor c'))) W) with (filter (fun x : edge => cursor_ltb x c') W).
        transitivity (filter (fun x : edge => cursor_ltb x c') R).
        - symmetry. unfold R. apply filter_filter_impl.
          intros x _ Hx. apply filter_In in Hc'R as [_ Hc'].
          destruct c as [| |b]; cbn [cur_of before_ok] in *; try reflexivity.
          exact (clt_trans _ _ _ Hx Hc').
        - rewrite HRsplit at 1. apply ssorted_split_before. rewrite <- HRsplit. exact HRs. }
      rewrite IH; [| discriminate |].
      + rewrite Hnext. rewrite HRsplit at 3. reflexivity.
      + rewrite Hnext, firstn_length. lia.
    - rewrite lastn_all by lia. reflexivity.
  Qed.

  (** backward: last:n, then before:startCursor while hasPreviousPage *)
  Theorem time_walk_bwd_exact fuel : (length E < fuel)%nat ->
    walk_bwd current g fuel ps n from to CAbsent = WDone W.
  Proof.
    intro Hf. rewrite walk_bwd_from; [| discriminate |].
    - f_equal. apply filter_all. reflexivity.
    - cbn [cur_of]. rewrite (filter_all (before_ok None)) by reflexivity.
      unfold W. rewrite sort_length. eapply Nat.le_lt_trans; [apply filter_length_le' | exact Hf].
  Qed.
End Walk.

(** ** The reference getters honour the contract (non-vacuity of [honours]; these are the
    getters the harness implements) *)

Lemma NoDup_take lim l : NoDup l -> NoDup (take lim l).
Proof.
  intro H. unfold take. destruct (lim =? 0); [exact H|].
  destruct (0 <? lim); [apply NoDup_firstn | apply NoDup_lastn]; exact H.
Qed.

Lemma g_exact_honours E : NoDup E -> honours (g_exact E) E.
Proof.
  intro HE. unfold g_exact, range_ref. constructor.
  - intro q. apply NoDup_take, sort_NoDup, NoDup_filter, HE.
  - intros q e H. apply In_take in H. rewrite sort_In, filter_In in H. exact H.
  - intros q e H. exact H.
Qed.

Lemma g_reversed_honours E : NoDup E -> honours (g_reversed E) E.
Proof.
  intro HE. unfold g_reversed, range_ref. constructor.
  - intro q. apply NoDup_rev, NoDup_take, sort_NoDup, NoDup_filter, HE.
  - intros q e H. apply in_rev, In_take in H. rewrite sort_In, filter_In in H. exact H.
  - intros q e H. rewrite <- in_rev. exact H.
Qed.

Lemma g_generous_honours E : NoDup E -> honours (g_generous E) E.
Proof.
  intro HE. unfold g_generous, range_ref. constructor.
  - intro q. apply NoDup_rev, sort_NoDup, NoDup_filter, HE.
  - intros q e H. apply in_rev in H. rewrite sort_In, filter_In in H. exact H.
  - intros q e H. apply In_take in H. rewrite <- in_rev. exact H.
Qed.

(** the reference page is characterised without reference to the sorting function *)
Lemma matching_spec E a : NoDup E ->
  StronglySorted clt (matching E a) /\ forall e, In e (matching E a) <-> In e E /\ matches a e = true.
Proof.
  intro HE. split; [apply sort_ssorted, NoDup_filter, HE|].
  intro e. unfold matching. rewrite sort_In, filter_In. tauto.
Qed.

(** ** 7. The three repaired defects: the same statements are false of the pinned tree *)

Definition b_a : bytes := [97%N].
Definition b_b : bytes := [98%N].
Definition b_c : bytes := [99%N].

(** DESIGN §6 row 20 *)
Definition E20 : list edge := [(100, b_a); (100, b_b); (100, b_c); (200, b_a); (200, b_b); (300, b_a)].
Definition a20 : args :=
  {| a_first := Some 10; a_last := None; a_after := CCursor (100, b_a); a_before := CAbsent;
     a_from := Some 200; a_to := None |}.

Lemma E20_NoDup : NoDup E20.
Proof.
  unfold E20. repeat constructor; simpl; intro H;
    repeat match goal with H : _ \/ _ |- _ => destruct H as [H|H] end; try discriminate; exact H.
Qed.

Lemma E20_representable : representable E20.
Proof.
  intros e H. unfold E20 in H. simpl in H.
  repeat match goal with H : _ \/ _ |- _ => destruct H as [H|H] end; try contradiction;
    subst; unfold nano, zero_time, distant_future; simpl; lia.
Qed.

Theorem filters_refuted_before_fix :
  exists E g a es info e,
    honours g E /\ NoDup E /\ representable E /\ args_ok a = true /\
    fst (conn pinned g all_sync true a) = OPage es info /\ In e es /\ matches a e = false.
Proof.
  exists E20, (g_exact E20), a20.
  eexists. eexists. exists (100, b_b).
  split; [apply g_exact_honours, E20_NoDup|]. split; [apply E20_NoDup|]. split; [apply E20_representable|].
  split; [reflexivity|]. split; [vm_compute; reflexivity|]. split; [left; reflexivity | reflexivity].
Qed.

(** a cursor at the largest int64 nanosecond: the middle query wrapped around to 1677, the
    edge at the cursor's timestamp is fetched and returned twice *)
Definition max64 : Z := 9223372036854775807.
Definition Ewrap : list edge := [(max64, b_b)].
Definition awrap : args :=
  {| a_first := Some 10; a_last := None; a_after := CCursor (max64, b_a); a_before := CAbsent;
     a_from := None; a_to := None |}.

Theorem result_refuted_before_wrap_fix :
  exists E g a es info,
    honours g E /\ NoDup E /\ representable E /\ args_ok a = true /\
    fst (conn pinned g all_sync true a) = OPage es info /\ es <> TimeRef E a.
Proof.
  exists Ewrap, (g_exact Ewrap), awrap. eexists. eexists.
  assert (HN : NoDup Ewrap) by (repeat constructor; simpl; tauto).
  split; [apply g_exact_honours, HN|]. split; [exact HN|]. split.
  { intros e [<-|[]]. unfold nano, zero_time, distant_future, max64. simpl. lia. }
  split; [reflexivity|]. split; [vm_compute; reflexivity|]. vm_compute. discriminate.
Qed.

(** DESIGN §6 row 32: an empty range handed over as nil through a promise *)
Definition nil_promises : nat -> pres := fun _ => {| by_promise := true; nil_when_empty := true |}.
Definition a32 : args :=
  {| a_first := Some 2; a_last := None; a_after := CAbsent; a_before := CAbsent; a_from := None; a_to := None |}.

Theorem panic_before_fix :
  exists E g ps a,
    honours g E /\ NoDup E /\ representable E /\ args_ok a = true /\
    fst (conn pinned g ps true a) = OPanic /\
    fst (conn pinned g all_sync true a) = OPage [] (Some {| has_prev := false; has_next := false; start_c := None; end_c := None |}).
Proof.
  exists [], (g_exact []), nil_promises, a32.
  split; [apply g_exact_honours; constructor|]. split; [constructor|]. split; [intros e []|].
  split; [reflexivity|]. split; vm_compute; reflexivity.
Qed.

(** ** The main theorems with all premises explicit (the forms closed in Properties/C16.v) *)

Lemma time_result_eq_stmt E g ps want_info a :
  honours g E -> NoDup E -> representable E -> args_ok a = true ->
  exists info, fst (conn current g ps want_info a) = OPage (TimeRef E a) info.
Proof. intros Hg HE HR Hok. exact (time_result_eq E g Hg HE HR ps a want_info Hok). Qed.

Lemma time_page_info_stmt E g ps a :
  honours g E -> NoDup E -> representable E -> args_ok a = true ->
  exists info,
    fst (conn current g ps true a) = OPage (TimeRef E a) (Some info)
    /\ start_c info = hd_error (TimeRef E a) /\ end_c info = last_error (TimeRef E a)
    /\ (match a_first a with Some _ => has_next info | None => has_prev info end) = more_ref E a.
Proof.
  intros Hg HE HR Hok. destruct (time_page_info E g Hg HE HR ps a Hok) as [info [Hc Hi]].
  exists info. rewrite Hc. split; [reflexivity | exact Hi].
Qed.

Lemma time_walk_fwd_stmt E g ps n from to fuel :
  honours g E -> NoDup E -> representable E -> 1 <= n -> (length E < fuel)%nat ->
  walk_fwd current g fuel ps n from to CAbsent
  = WDone (sort (filter (fun e => from_ok from e && to_ok to e) E)).
Proof. intros Hg HE HR Hn Hf. exact (time_walk_fwd_exact E g Hg HE HR ps n from to Hn fuel Hf). Qed.

Lemma time_walk_bwd_stmt E g ps n from to fuel :
  honours g E -> NoDup E -> representable E -> 1 <= n -> (length E < fuel)%nat ->
  walk_bwd current g fuel ps n from to CAbsent
  = WDone (sort (filter (fun e => from_ok from e && to_ok to e) E)).
Proof. intros Hg HE HR Hn Hf. exact (time_walk_bwd_exact E g Hg HE HR ps n from to Hn fuel Hf). Qed.

Lemma cursor_order_strict_total :
  (forall a, cursor_ltb a a = false) /\
  (forall a b c, cursor_ltb a b = true -> cursor_ltb b c = true -> cursor_ltb a c = true) /\
  (forall a b, cursor_ltb a b = true \/ a = b \/ cursor_ltb b a = true).
Proof. exact (conj cursor_ltb_irrefl (conj clt_trans clt_total)). Qed.

(** ** The tie-break by id is a genuine part of the getter's contract

    The Go doc of [EdgeGetter] speaks of "the start / end of the range" without saying how edges
    with equal timestamps are ordered.  A getter that honours minimum time, maximum time and limit
    with respect to TIME only (and delivers exactly as many edges as asked) is not enough: *)
Lemma take_length lim (l1 l2 : list edge) : length l1 = length l2 -> length (take lim l1) = length (take lim l2).
Proof.
  intro H. unfold take. destruct (lim =? 0); [exact H|].
  destruct (0 <? lim); [rewrite !firstn_length | rewrite !lastn_length]; rewrite H; reflexivity.
Qed.

(** three edges on one timestamp; ties broken by DEscending id *)
Definition E3 : list edge := [(100, b_a); (100, b_b); (100, b_c)].
Definition g_desc (q : query) : list edge := take (q_limit q) (rev (sort (filter (in_range q) E3))).
Definition a_tie : args :=
  {| a_first := Some 1; a_last := None; a_after := CAbsent; a_before := CAbsent; a_from := None; a_to := None |}.

Lemma E3_NoDup : NoDup E3.
Proof.
  unfold E3. repeat constructor; simpl; intro H;
    repeat match goal with H : _ \/ _ |- _ => destruct H as [H|H] end; try discriminate; exact H.
Qed.

Lemma g_desc_time_only : honours_time_only g_desc E3.
Proof.
  intro q. unfold g_desc.
  assert (Hin : forall e, In e (take (q_limit q) (rev (sort (filter (in_range q) E3)))) ->
                          In e E3 /\ in_range q e = true).
  { intros e H. apply In_take in H. rewrite <- in_rev, sort_In, filter_In in H. exact H. }
  split; [apply NoDup_take, NoDup_rev, sort_NoDup, NoDup_filter, E3_NoDup|].
  split; [exact Hin|]. split.
  - apply take_length. rewrite rev_length, sort_length. reflexivity.
  - intros e e' He He' _ _.
    assert (H100 : forall x, In x E3 -> nano x = 100).
    { intros x Hx. unfold E3 in Hx. simpl in Hx.
      repeat match goal with H : _ \/ _ |- _ => destruct H as [H|H] end; try contradiction; subst; reflexivity. }
    rewrite (H100 e (proj1 (Hin e He))), (H100 e' He'). destruct (0 <? q_limit q); lia.
Qed.

Theorem tiebreak_by_id_needed :
  exists E g a es info,
    NoDup E /\ representable E /\ args_ok a = true /\ honours_time_only g E /\
    fst (conn current g all_sync true a) = OPage es info /\ es <> TimeRef E a.
Proof.
  exists E3, g_desc, a_tie. eexists. eexists.
  split; [apply E3_NoDup|]. split.
  { intros e H. unfold E3 in H. simpl in H.
    repeat match goal with H : _ \/ _ |- _ => destruct H as [H|H] end; try contradiction;
      subst; unfold nano, zero_time, distant_future; simpl; lia. }
  split; [reflexivity|]. split; [apply g_desc_time_only|].
  split; [vm_compute; reflexivity|]. vm_compute. discriminate.
Qed.
