(** * TimeConn/TimeSpec.v — what C16 demands, independently of how the code obtains the edges.

    [TimeRef E a]: of the edges [E] of the connection, those whose cursor lies strictly between
    the [after] and [before] cursors and whose time lies in [atOrAfterTime, beforeTime), in
    (time, id) order, truncated to the first / last n.

    [honours g E]: the contract of the application's range getter (Go doc of
    [TimeBasedConnectionConfig.EdgeGetter]: "If limit is zero, all edges within the given range
    should be returned. If limit is greater than zero, up to limit edges at the start of the range
    should be returned. If limit is less than zero, up to -limit edge at the end of the range
    should be returned."), with "start"/"end" read in the order of the cursors, (time, id). *)
From Coq Require Import List NArith ZArith Bool.
From ApiFu Require Import Base.Sexp TimeConn.TimeModel.
Import ListNotations.
Open Scope Z_scope.

(** ** The filters a client can supply *)
Definition after_ok (after : option cursor) (e : edge) : bool :=
  match after with Some a => cursor_ltb a e | None => true end.
Definition before_ok (before : option cursor) (e : edge) : bool :=
  match before with Some b => cursor_ltb e b | None => true end.
Definition from_ok (from : option Z) (e : edge) : bool :=
  match from with Some t => t <=? nano e | None => true end.
Definition to_ok (to : option Z) (e : edge) : bool :=
  match to with Some t => nano e <? t | None => true end.

Definition matches (a : args) (e : edge) : bool :=
  after_ok (cur_of (a_after a)) e && before_ok (cur_of (a_before a)) e
  && from_ok (a_from a) e && to_ok (a_to a) e.

(** the arguments are acceptable: exactly one of first/last, non-negative, decodable cursors *)
Definition args_ok (a : args) : bool := negb (arg_error a).

Definition truncate (a : args) (l : list edge) : list edge :=
  match a_first a, a_last a with
  | Some f, _ => firstn (Z.to_nat f) l
  | None, Some n => lastn (Z.to_nat n) l
  | None, None => l
  end.

(** all matching edges in (time, id) order, and the page *)
Definition matching (E : list edge) (a : args) : list edge := sort (filter (matches a) E).
Definition TimeRef (E : list edge) (a : args) : list edge := truncate a (matching E a).

(** whether a further page exists in the direction of travel *)
Definition more_ref (E : list edge) (a : args) : bool :=
  match a_first a, a_last a with
  | Some f, _ => f <? Z.of_nat (length (matching E a))
  | None, Some n => n <? Z.of_nat (length (matching E a))
  | None, None => false
  end.

(** ** The getter's contract *)
Definition in_range (q : query) (e : edge) : bool := (q_min q <=? nano e) && (nano e <=? q_max q).

Definition take (limit : Z) (l : list edge) : list edge :=
  if limit =? 0 then l
  else if 0 <? limit then firstn (Z.to_nat limit) l
  else lastn (Z.to_nat (- limit)) l.

(** what a getter has to deliver at least *)
Definition range_ref (E : list edge) (q : query) : list edge :=
  take (q_limit q) (sort (filter (in_range q) E)).

(** [g] answers every range query with edges of [E] inside the range, without repetition, and
    with at least the first / last |limit| of them (all of them for limit 0).  Order is free, and
    returning more than |limit| edges of the range is allowed. *)
Record honours (g : query -> list edge) (E : list edge) : Prop := {
  h_nodup : forall q, NoDup (g q);
  h_sound : forall q e, In e (g q) -> In e E /\ in_range q e = true;
  h_complete : forall q e, In e (range_ref E q) -> In e (g q)
}.

(** A weaker reading of the Go doc — the getter honours minimum time, maximum time and limit with
    respect to TIME only and delivers exactly as many edges as asked, but breaks ties between equal
    timestamps in its own way.  It is NOT sufficient ([C16_tiebreak_by_id_needed]). *)
Definition honours_time_only (g : query -> list edge) (E : list edge) : Prop :=
  forall q,
    NoDup (g q)
    /\ (forall e, In e (g q) -> In e E /\ in_range q e = true)
    /\ length (g q) = length (take (q_limit q) (filter (in_range q) E))
    /\ (forall e e', In e (g q) -> In e' E -> in_range q e' = true -> ~ In e' (g q) ->
                     if 0 <? q_limit q then nano e <= nano e' else nano e' <= nano e).

(** Every time an int64 [Nano] can express lies strictly between Go's zero time and the
    "distant future" the code substitutes for absent time bounds. *)
Definition representable (E : list edge) : Prop :=
  forall e, In e E -> zero_time <= nano e < distant_future.

(** ** Reference getters (used by the correspondence check and the examples) *)
Definition g_exact (E : list edge) : query -> list edge := range_ref E.
Definition g_reversed (E : list edge) : query -> list edge := fun q => rev (range_ref E q).
Definition g_generous (E : list edge) : query -> list edge := fun q => rev (sort (filter (in_range q) E)).
