(** * TimeConn/DateTimeModel.v — the DateTime scalar's parser, fast path (C16, stage B)

    scalars.go [parseDateTime] = [time.Time.UnmarshalText] = Go 1.23 time/format_rfc3339.go
    [parseStrictRFC3339], whose first step is [parseRFC3339]: fixed positions
    YYYY-MM-DDTHH:MM:SS, ranges 0000-9999 / 01-12 / 01-daysIn(month, year) / 00-23 / 00-59 / 00-59,
    an optional fraction '.' digit+ of which the first nine digits count (the rest is dropped),
    then 'Z' or (+|-)HH:MM with HH 00-23 and MM 00-59.  That is transcribed here ([parse_rfc3339]),
    with [time.Date] for in-range fields as the usual days-from-civil computation.

    When [parseRFC3339] declines, Go falls back to the general layout parser [time.Parse(RFC3339)]
    and — strict checking being switched off in this Go release ("case true: return t, nil",
    go.dev/issue/54580) — accepts what that one accepts (a one-digit hour, ',' before the
    fraction, zone offsets 24:00 or 23:60 ...).  The fallback is NOT modelled: [PDOut].
    No proofs in this file. *)
From Coq Require Import List NArith ZArith Bool.
From ApiFu Require Import Base.Sexp.
Import ListNotations.
Open Scope Z_scope.

Inductive pdt := PDOut | PDTime (nanos : Z).     (* nanoseconds since the Unix epoch, unbounded *)

Definition digit (c : N) : option Z :=
  if (48 <=? c)%N && (c <=? 57)%N then Some (Z.of_N c - 48) else None.

(** [parseUint(s, min, max)] on two / four digits *)
Definition num2 (a b : N) (lo hi : Z) : option Z :=
  match digit a, digit b with
  | Some x, Some y => let v := x * 10 + y in if (lo <=? v) && (v <=? hi) then Some v else None
  | _, _ => None
  end.
Definition num4 (a b c d : N) : option Z :=
  match digit a, digit b, digit c, digit d with
  | Some w, Some x, Some y, Some z => Some (((w * 10 + x) * 10 + y) * 10 + z)
  | _, _, _, _ => None
  end.

Definition is_leap (y : Z) : bool := ((y mod 4 =? 0) && negb (y mod 100 =? 0)) || (y mod 400 =? 0).
Definition days_in (m y : Z) : Z :=
  if m =? 2 then (if is_leap y then 29 else 28)
  else if (m =? 4) || (m =? 6) || (m =? 9) || (m =? 11) then 30 else 31.

(** days from 1970-01-01 to year-month-day (proleptic Gregorian) *)
Definition days_from_civil (y m d : Z) : Z :=
  let y := if m <=? 2 then y - 1 else y in
  let era := y / 400 in
  let yoe := y - era * 400 in
  let doy := (153 * (if 2 <? m then m - 3 else m + 9) + 2) / 5 + d - 1 in
  let doe := yoe * 365 + yoe / 4 - yoe / 100 + doy in
  era * 146097 + doe - 719468.

(** the leading digits of a list and the rest *)
Fixpoint span_digits (s : bytes) : list Z * bytes :=
  match s with
  | [] => ([], [])
  | c :: r => match digit c with
              | Some d => let (ds, r') := span_digits r in (d :: ds, r')
              | None => ([], s)
              end
  end.

(** [parseNanoseconds]: the first nine digits, scaled to nanoseconds *)
Fixpoint frac_nanos (k : nat) (ds : list Z) : Z :=
  match k with
  | O => 0
  | S k' => match ds with
            | [] => 0
            | d :: ds' => d * 10 ^ Z.of_nat k' + frac_nanos k' ds'
            end
  end.

Definition parse_zone (s : bytes) : option Z :=       (* seconds east of UTC *)
  match s with
  | [z] => if (z =? 90)%N then Some 0 else None
  | [sg; h1; h2; c; m1; m2] =>
      match num2 h1 h2 0 23, num2 m1 m2 0 59 with
      | Some hr, Some mm =>
          if (c =? 58)%N then
            if (sg =? 43)%N then Some ((hr * 60 + mm) * 60)
            else if (sg =? 45)%N then Some (- ((hr * 60 + mm) * 60))
            else None
          else None
      | _, _ => None
      end
  | _ => None
  end.

Definition parse_rfc3339 (s : bytes) : pdt :=
  match s with
  | y1 :: y2 :: y3 :: y4 :: d1 :: m1 :: m2 :: d2 :: a1 :: a2 :: t :: h1 :: h2 :: c1 :: i1 :: i2 :: c2 :: s1 :: s2 :: rest =>
      match num4 y1 y2 y3 y4, num2 m1 m2 1 12 with
      | Some year, Some month =>
          match num2 a1 a2 1 (days_in month year), num2 h1 h2 0 23, num2 i1 i2 0 59, num2 s1 s2 0 59 with
          | Some day, Some hour, Some mi, Some sec =>
              if (d1 =? 45)%N && (d2 =? 45)%N && (t =? 84)%N && (c1 =? 58)%N && (c2 =? 58)%N then
                let '(nsec, rest') :=
                  match rest with
                  | dot :: r =>
                      if (dot =? 46)%N then
                        match span_digits r with
                        | ([], _) => (0, rest)
                        | (ds, r') => (frac_nanos 9 ds, r')
                        end
                      else (0, rest)
                  | [] => (0, rest)
                  end in
                match parse_zone rest' with
                | Some off =>
                    PDTime ((((days_from_civil year month day * 24 + hour) * 60 + mi) * 60 + sec - off) * 1000000000 + nsec)
                | None => PDOut
                end
              else PDOut
          | _, _, _, _ => PDOut
          end
      | _, _ => PDOut
      end
  | _ => PDOut
  end.
