(** * TimeConn/TimeCursorCodecProofs.v — round trip of the TimeBasedCursor codec and the walks by cursor STRING *)
From Coq Require Import List NArith ZArith Bool Lia.
From ApiFu Require Import Base.Sexp Relay.CursorCodec Relay.CursorCodecProofs
  TimeConn.TimeModel TimeConn.TimeSpec TimeConn.TimeProofs TimeConn.TimeCursorCodec.
Import ListNotations.

Lemma rd_bytes_app (a b : bytes) : rd_bytes (N.of_nat (length a)) (a ++ b) = Some (a, b).
Proof.
  unfold rd_bytes. rewrite app_length.
  replace (N.of_nat (length a + length b) <? N.of_nat (length a))%N with false by lia.
  rewrite Nat2N.id.
  rewrite firstn_app, firstn_all, Nat.sub_diag, skipn_app, skipn_all, Nat.sub_diag.
  simpl. rewrite app_nil_r. reflexivity.
Qed.

Lemma rd_be_encode k n rest : (0 <= n < 256 ^ Z.of_nat k)%Z ->
  rd_be (N.of_nat k) (be_encode k n ++ rest) = Some (n, rest).
Proof.
  intro Hn. unfold rd_be.
  pose proof (rd_bytes_app (be_encode k n) rest) as H. rewrite be_encode_length in H. rewrite H.
  rewrite be_roundtrip by lia. rewrite Z.mod_small by lia. reflexivity.
Qed.

Lemma rd_int_encode z rest : (- 2 ^ 63 <= z < 2 ^ 63)%Z ->
  rd_int (mp_encode_int z ++ rest) = Some (z, rest).
Proof.
  intro Hz. unfold mp_encode_int. cbn [app].
  change (rd_int (211%N :: be_encode 8 (z mod 2 ^ 64) ++ rest)) with (rd_sbe 8 (be_encode 8 (z mod 2 ^ 64) ++ rest)).
  unfold rd_sbe. change 8%N with (N.of_nat 8).
  rewrite rd_be_encode by (change (256 ^ Z.of_nat 8)%Z with (2 ^ 64)%Z; apply Z.mod_pos_bound; lia).
  unfold wrap_signed. change (8 * Z.of_N (N.of_nat 8) - 1)%Z with 63%Z. change (8 * Z.of_N (N.of_nat 8))%Z with 64%Z.
  f_equal. f_equal. destruct (z mod 2 ^ 64 <? 2 ^ 63)%Z eqn:H; lia.
Qed.

Lemma rd_len_bytes_encode k (s rest : bytes) : (Z.of_nat (length s) < 256 ^ Z.of_nat k)%Z ->
  rd_len_bytes (N.of_nat k) (be_encode k (Z.of_nat (length s)) ++ s ++ rest) = Some (s, rest).
Proof.
  intro H. unfold rd_len_bytes. rewrite rd_be_encode by lia.
  rewrite <- nat_N_Z, N2Z.id. apply rd_bytes_app.
Qed.

Lemma rd_str_encode s rest : (Z.of_nat (length s) < 2 ^ 32)%Z ->
  rd_str (mp_encode_str s ++ rest) = Some (s, rest).
Proof.
  intro Hl. unfold mp_encode_str. set (l := Z.of_nat (length s)) in *.
  assert (Hl0 : (0 <= l)%Z) by lia.
  destruct (l <? 32)%Z eqn:H32.
  - cbn [app]. unfold rd_str.
    replace (Z.to_N (160 + l) =? 192)%N with false by lia.
    replace ((160 <=? Z.to_N (160 + l)) && (Z.to_N (160 + l) <=? 191))%N with true by lia.
    replace (Z.to_N (160 + l) - 160)%N with (N.of_nat (length s)) by lia. apply rd_bytes_app.
  - destruct (l <? 256)%Z eqn:H256; [|destruct (l <? 65536)%Z eqn:H64k]; rewrite <- app_assoc; cbn [app].
    + change (rd_str (217%N :: be_encode 1 l ++ s ++ rest)) with (rd_len_bytes (N.of_nat 1) (be_encode 1 l ++ s ++ rest)).
      apply rd_len_bytes_encode. change (256 ^ Z.of_nat 1)%Z with 256%Z. lia.
    + change (rd_str (218%N :: be_encode 2 l ++ s ++ rest)) with (rd_len_bytes (N.of_nat 2) (be_encode 2 l ++ s ++ rest)).
      apply rd_len_bytes_encode. change (256 ^ Z.of_nat 2)%Z with 65536%Z. lia.
    + change (rd_str (219%N :: be_encode 4 l ++ s ++ rest)) with (rd_len_bytes (N.of_nat 4) (be_encode 4 l ++ s ++ rest)).
      apply rd_len_bytes_encode. change (256 ^ Z.of_nat 4)%Z with (2 ^ 32)%Z. lia.
Qed.

Lemma mp_encode_tb_bytes c : Forall (fun x => (x < 256)%N) (snd c) -> is_bytes (mp_encode_tb c).
Proof.
  intro H. unfold mp_encode_tb, is_bytes.
  apply Forall_app; split; [unfold key_nano; repeat constructor; lia|].
  apply Forall_app; split; [apply mp_encode_int_bytes|].
  apply Forall_app; split; [unfold key_id; repeat constructor; lia | apply mp_encode_str_bytes; exact H].
Qed.

Lemma dec_map_two fuel z s cur : (2 <= fuel)%nat ->
  (- 2 ^ 63 <= z < 2 ^ 63)%Z -> (Z.of_nat (length s) < 2 ^ 32)%Z ->
  dec_map fuel 2 (164%N :: key_nano ++ mp_encode_int z ++ 162%N :: key_id ++ mp_encode_str s) cur = DCur (z, s).
Proof.
  intros Hf Hz Hl. destruct fuel as [|[|fuel]]; try lia.
  set (rest1 := mp_encode_int z ++ 162%N :: key_id ++ mp_encode_str s).
  cbn [dec_map]. change (2 <=? 0)%Z with false. cbv iota.
  change (rd_str (164%N :: key_nano ++ rest1)) with (rd_bytes (N.of_nat (length key_nano)) (key_nano ++ rest1)).
  rewrite rd_bytes_app. change (bytes_eqb key_nano key_nano) with true. cbv iota.
  unfold rest1. rewrite rd_int_encode by exact Hz.
  change (2 - 1 <=? 0)%Z with false. cbv iota.
  change (rd_str (162%N :: key_id ++ mp_encode_str s)) with (rd_bytes (N.of_nat (length key_id)) (key_id ++ mp_encode_str s)).
  rewrite rd_bytes_app. change (bytes_eqb key_id key_nano) with false. change (bytes_eqb key_id key_id) with true. cbv iota.
  rewrite <- (app_nil_r (mp_encode_str s)). rewrite rd_str_encode by exact Hl.
  cbn [fst snd]. destruct fuel as [|fuel']; cbn [dec_map]; change (2 - 1 - 1 <=? 0)%Z with true; reflexivity.
Qed.

Theorem mp_tb_roundtrip c : wire_ok c -> mp_decode_tb (mp_encode_tb c) = DCur c.
Proof.
  destruct c as [z s]. intros [Hz [Hl Hb]]. cbn [fst snd] in *.
  unfold mp_encode_tb. cbn [fst snd app].
  change (mp_decode_tb (130%N :: 164%N :: key_nano ++ mp_encode_int z ++ 162%N :: key_id ++ mp_encode_str s))
    with (dec_map (S (length (164%N :: key_nano ++ mp_encode_int z ++ 162%N :: key_id ++ mp_encode_str s))) 2
            (164%N :: key_nano ++ mp_encode_int z ++ 162%N :: key_id ++ mp_encode_str s) zero_cursor).
  apply dec_map_two; [cbn [length]; lia | exact Hz | exact Hl].
Qed.

(** Deserialize(Serialize(c)) = c for every cursor of an edge the server can emit *)
Theorem tb_roundtrip c : wire_ok c -> tb_decode (tb_encode c) = DCur c.
Proof.
  intro H. unfold tb_decode, tb_encode.
  rewrite (b64_roundtrip _ (mp_encode_tb_bytes c (proj2 (proj2 H)))). apply mp_tb_roundtrip, H.
Qed.

(** a serialised cursor is never the empty string, which the resolver takes for "no cursor" *)
Theorem tb_encode_nonempty c : tb_encode c <> [].
Proof. unfold tb_encode. apply b64_encode_nonempty. unfold mp_encode_tb. discriminate. Qed.

Theorem arg_of_wire_encode c : wire_ok c -> arg_of_wire (Some (tb_encode c)) = Some (CCursor c).
Proof.
  intro H. unfold arg_of_wire. pose proof (tb_encode_nonempty c) as Hne.
  destruct (tb_encode c) eqn:E; [congruence|]. rewrite <- E, tb_roundtrip by exact H. reflexivity.
Qed.

Theorem cursor_string_as_argument c :
  tb_encode c <> [] /\ (wire_ok c -> arg_of_wire (Some (tb_encode c)) = Some (CCursor c)).
Proof. split; [apply tb_encode_nonempty | apply arg_of_wire_encode]. Qed.

(** a decision procedure for [wire_ok] (used by the examples) *)
Definition wire_okb (c : tcursor) : bool :=
  (- 9223372036854775808 <=? fst c)%Z && (fst c <? 9223372036854775808)%Z
  && (Z.of_nat (length (snd c)) <? 4294967296)%Z && forallb (fun x => (x <? 256)%N) (snd c).
Lemma wire_okb_ok c : wire_okb c = true -> wire_ok c.
Proof.
  unfold wire_okb, wire_ok. intro H.
  apply andb_true_iff in H as [H H4]. apply andb_true_iff in H as [H H3]. apply andb_true_iff in H as [H1 H2].
  change (2 ^ 63)%Z with 9223372036854775808%Z. change (2 ^ 32)%Z with 4294967296%Z.
  split; [lia|]. split; [lia|].
  apply Forall_forall. intros x Hx. rewrite forallb_forall in H4. specialize (H4 x Hx). lia.
Qed.

(** ** Walking by the cursor strings is walking by the cursors *)

Lemma last_error_In {A} (l : list A) x : last_error l = Some x -> In x l.
Proof.
  unfold last_error. intro H. apply in_rev. destruct (rev l); [discriminate|]. inversion H. left. reflexivity.
Qed.
Lemma hd_error_In {A} (l : list A) x : hd_error l = Some x -> In x l.
Proof. destruct l; [discriminate|]. intro H. inversion H. left. reflexivity. Qed.

Lemma conn_info_cursors g ps a es info :
  fst (conn current g ps true a) = OPage es (Some info) ->
  start_c info = hd_error es /\ end_c info = last_error es.
Proof.
  unfold conn. destruct (arg_error a); [discriminate|]. rewrite andb_false_r.
  destruct (resolve_edges _ _ _ _); [|discriminate].
  unfold edges_to_return.
  destruct (apply_cursors _ _ l) as [[es0 hp] hn].
  destruct (a_first a); destruct (a_last a);
    repeat match goal with |- context [if ?c then _ else _] => destruct c end;
    cbn [fst]; intro H; inversion H; subst; cbn; split; reflexivity.
Qed.

Section WireWalkProofs.
  Variable E : list edge.
  Variable g : query -> list edge.
  Hypothesis Hsound : forall q x, In x (g q) -> In x E /\ in_range q x = true.
  Hypothesis Hwire : forall e, In e E -> wire_ok e.

  Theorem walk_fwd_wire_eq ps n from to : forall fuel after,
    arg_of_wire after <> None ->
    walk_fwd_wire g fuel ps n from to after
    = match arg_of_wire after with
      | Some aft => walk_fwd current g fuel ps n from to aft
      | None => WFailed
      end.
  Proof.
    induction fuel as [|fuel IH]; intros after Hne.
    - cbn. destruct (arg_of_wire after); [reflexivity | congruence].
    - cbn [walk_fwd_wire walk_fwd]. destruct (arg_of_wire after) as [aft|]; [|congruence].
      destruct (fst (conn current g ps true (fwd_args n from to aft))) as [| |es [info|]] eqn:Hc; try reflexivity.
      destruct (has_next info); [|reflexivity].
      destruct (end_c info) as [c|] eqn:Hend; [|reflexivity].
      assert (Hw : wire_ok c).
      { apply Hwire. destruct (conn_info_cursors _ _ _ _ _ Hc) as [_ He]. rewrite He in Hend.
        apply last_error_In in Hend.
        exact (proj1 (time_filters_hold E g ps true _ es (Some info) c Hsound Hc Hend)). }
      rewrite IH by (rewrite arg_of_wire_encode by exact Hw; discriminate).
      rewrite arg_of_wire_encode by exact Hw. reflexivity.
  Qed.

  Theorem walk_bwd_wire_eq ps n from to : forall fuel before,
    arg_of_wire before <> None ->
    walk_bwd_wire g fuel ps n from to before
    = match arg_of_wire before with
      | Some bef => walk_bwd current g fuel ps n from to bef
      | None => WFailed
      end.
  Proof.
    induction fuel as [|fuel IH]; intros before Hne.
    - cbn. destruct (arg_of_wire before); [reflexivity | congruence].
    - cbn [walk_bwd_wire walk_bwd]. destruct (arg_of_wire before) as [bef|]; [|congruence].
      destruct (fst (conn current g ps true (bwd_args n from to bef))) as [| |es [info|]] eqn:Hc; try reflexivity.
      destruct (has_prev info); [|reflexivity].
      destruct (start_c info) as [c|] eqn:Hst; [|reflexivity].
      assert (Hw : wire_ok c).
      { apply Hwire. destruct (conn_info_cursors _ _ _ _ _ Hc) as [Hs _]. rewrite Hs in Hst.
        apply hd_error_In in Hst.
        exact (proj1 (time_filters_hold E g ps true _ es (Some info) c Hsound Hc Hst)). }
      rewrite IH by (rewrite arg_of_wire_encode by exact Hw; discriminate).
      rewrite arg_of_wire_encode by exact Hw. reflexivity.
  Qed.
End WireWalkProofs.

(** the statements closed in Properties/C16.v: walking forward / backward with the cursor STRINGS
    the server emitted visits every edge of the window exactly once *)
Theorem time_walk_fwd_wire_stmt E g ps n from to fuel :
  honours g E -> NoDup E -> representable E -> (forall e, In e E -> wire_ok e) ->
  (1 <= n)%Z -> (length E < fuel)%nat ->
  walk_fwd_wire g fuel ps n from to None
  = WDone (sort (filter (fun e => from_ok from e && to_ok to e) E)).
Proof.
  intros Hg HE HR Hw Hn Hf.
  rewrite (walk_fwd_wire_eq E g (h_sound g E Hg) Hw) by discriminate.
  cbn [arg_of_wire]. apply time_walk_fwd_stmt; assumption.
Qed.

Theorem time_walk_bwd_wire_stmt E g ps n from to fuel :
  honours g E -> NoDup E -> representable E -> (forall e, In e E -> wire_ok e) ->
  (1 <= n)%Z -> (length E < fuel)%nat ->
  walk_bwd_wire g fuel ps n from to None
  = WDone (sort (filter (fun e => from_ok from e && to_ok to e) E)).
Proof.
  intros Hg HE HR Hw Hn Hf.
  rewrite (walk_bwd_wire_eq E g (h_sound g E Hg) Hw) by discriminate.
  cbn [arg_of_wire]. apply time_walk_bwd_stmt; assumption.
Qed.
