(** * TimeConn/TimeCheck.v — C16 correspondence: decode a case, run the Spec oracle on what the
    implementation did, run the model, compare.  Executable only (extracted / vm_compute).

    A case is a data set, the kind of (honouring) getter the harness used, and a list of steps
    (requests).  Per step the harness reports the arguments as the resolver sees them, whether
    pageInfo was selected, how each getter call handed over its result, the response and the
    (min, max, limit) triples the getter received. *)
From Coq Require Import List NArith ZArith Bool String.
From ApiFu Require Import Base.Sexp TimeConn.TimeModel TimeConn.TimeSpec TimeConn.TimeErrModel TimeConn.TimeCursorCodec TimeConn.GoTimeModel TimeConn.DateTimeModel.
From ApiFu Require Cost.CostModel.
Import ListNotations.
Open Scope string_scope.

(** ** Observations *)
Inductive ocur := OcNone | OcBad | OcSome (e : edge).
Record oinfo := { oi_prev : bool; oi_next : bool; oi_start : ocur; oi_end : ocur }.
(** an error message of the response: the error the harness getter raised in its i-th call, the
    error of the harness's ResolveTotalCount, anything else *)
Inductive emsg := MG (i : Z) | MTC | MOther.
Inductive obs :=
| ObCrash | ObHang | ObError (msgs : list emsg) | ObMalformed
| ObPage (edges : list edge) (cursors : list ocur) (info : option oinfo) (total : option Z).

(** the cursor strings as they travelled: per edge, startCursor, endCursor *)
Record rawcur := { rc_edges : list bytes; rc_start : bytes; rc_end : bytes }.

Record step := {
  s_args : args; s_sel : sel; s_tc : tcres; s_xpres : list xpres; s_obs : obs;
  s_calls : list (query * list edge);     (* each triple the getter received, and its answer *)
  s_raised : list Z;                      (* per call: 0 = no error, 1 = an error, 2 = a typed nil error, 3 = a non-slice value *)
  s_after_raw : option bytes;             (* the after / before argument strings as sent *)
  s_before_raw : option bytes;
  s_from_raw : option bytes;              (* the atOrAfterTime / beforeTime argument strings as sent *)
  s_to_raw : option bytes;
  s_raw : option rawcur;                  (* the cursor strings of the response *)
  s_tccalls : Z;                          (* calls of ResolveTotalCount *)
  s_store : Z;                            (* 0: fresh slices; 1: windows of shared storage, storage unchanged after the request; 2: ... modified *)
  s_cost : option (Z * Z * Z)             (* the field's cost: Resolver, Multiplier; the edges field's Multiplier *)
}.
Definition s_info (s : step) : bool := want_info (s_sel s).
Definition s_pres (s : step) : list pres := map xp (s_xpres s).
Definition s_triples (s : step) : list query := map fst (s_calls s).

Inductive kind := KSingle | KWalk (fwd : bool) (n : Z).

(** ** Decoding *)
Definition dec_edge (s : sexp) : option edge :=
  match s with
  | SL [t; i] => match as_Z t, as_bytes i with Some z, Some b => Some (z, b) | _, _ => None end
  | _ => None
  end.

Definition dec_cursor_arg (s : sexp) : option cursor_arg :=
  if is_sym "absent" s then Some CAbsent
  else if is_sym "invalid" s then Some CInvalid
  else match tagged "cursor" s with
       | Some [t; i] => match as_Z t, as_bytes i with Some z, Some b => Some (CCursor (z, b)) | _, _ => None end
       | _ => None
       end.

Definition dec_args (s : sexp) : option args :=
  match tagged "args" s with
  | Some l =>
      match field1 "first" l, field1 "last" l, field1 "after" l, field1 "before" l, field1 "from" l, field1 "to" l with
      | Some f, Some la, Some af, Some be, Some fr, Some to =>
          match as_option as_Z f, as_option as_Z la, dec_cursor_arg af, dec_cursor_arg be,
                as_option as_Z fr, as_option as_Z to with
          | Some f', Some la', Some af', Some be', Some fr', Some to' =>
              Some {| a_first := f'; a_last := la'; a_after := af'; a_before := be'; a_from := fr'; a_to := to' |}
          | _, _, _, _, _, _ => None
          end
      | _, _, _, _, _, _ => None
      end
  | None => None
  end.

Definition dec_gerr (i : nat) (z : Z) : option gerr :=
  if Z.eqb z 0 then Some NoErr else if Z.eqb z 1 then Some (Err (Z.of_nat i))
  else if Z.eqb z 2 then Some TypedNilErr else if Z.eqb z 3 then Some BadValue else None.

(** (promise nil error ...): the i-th call's error, when it raises one, is identified by i *)
Definition dec_xpres (i : nat) (s : sexp) : option xpres :=
  match s with
  | SL (p :: n :: e :: _) =>
      match as_bool p, as_bool n, as_Z e with
      | Some p', Some n', Some e' =>
          match dec_gerr i e' with
          | Some ge => Some {| xp := {| by_promise := p'; nil_when_empty := n' |}; xerr := ge |}
          | None => None
          end
      | _, _, _ => None
      end
  | _ => None
  end.
Fixpoint dec_xpres_list (i : nat) (l : list sexp) : option (list xpres) :=
  match l with
  | [] => Some []
  | x :: l' => match dec_xpres i x, dec_xpres_list (S i) l' with
               | Some a, Some b => Some (a :: b)
               | _, _ => None
               end
  end.

Definition dec_emsg (s : sexp) : option emsg :=
  match untag s with
  | Some (t, [i]) => if String.eqb t "g" then match as_Z i with Some z => Some (MG z) | None => None end else None
  | Some (t, []) => if String.eqb t "tc" then Some MTC else if String.eqb t "other" then Some MOther else None
  | _ => None
  end.

Definition dec_tc (s : sexp) : option tcres :=
  match untag s with
  | Some (t, [n]) => if String.eqb t "val" then match as_Z n with Some z => Some (TCVal z) | None => None end else None
  | Some (t, []) => if String.eqb t "err" then Some (TCErr 0) else None
  | _ => None
  end.

Definition dec_ocur (s : sexp) : option ocur :=
  if is_sym "undecodable" s then Some OcBad
  else match as_option dec_edge s with
       | Some None => Some OcNone
       | Some (Some e) => Some (OcSome e)
       | None => None
       end.

Definition dec_ecur (s : sexp) : option ocur :=
  if is_sym "undecodable" s then Some OcBad
  else match dec_edge s with Some e => Some (OcSome e) | None => None end.

Definition dec_oinfo (s : sexp) : option (option oinfo) :=
  match untag s with
  | Some (t, []) => if String.eqb t "noinfo" then Some None else None
  | Some (t, [hp; hn; st; en]) =>
      if String.eqb t "info" then
        match as_bool hp, as_bool hn, dec_ocur st, dec_ocur en with
        | Some a, Some b, Some c, Some d => Some (Some {| oi_prev := a; oi_next := b; oi_start := c; oi_end := d |})
        | _, _, _, _ => None
        end
      else None
  | _ => None
  end.

Definition dec_obs (s : sexp) : option obs :=
  match untag s with
  | Some (t, l) =>
      if String.eqb t "crash" then Some ObCrash
      else if String.eqb t "hang" then Some ObHang
      else if String.eqb t "error" then
        match map_opt dec_emsg l with Some ms => Some (ObError ms) | None => None end
      else if String.eqb t "malformed" then Some ObMalformed
      else if String.eqb t "page" then
        match l with
        | SL es :: SL cs :: i :: tot :: _ =>
            match map_opt dec_edge es, map_opt dec_ecur cs, dec_oinfo i, as_option as_Z tot with
            | Some es', Some cs', Some i', Some tot' => Some (ObPage es' cs' i' tot')
            | _, _, _, _ => None
            end
        | _ => None
        end
      else None
  | None => None
  end.

Definition dec_call (s : sexp) : option (query * list edge) :=
  match s with
  | SL (a :: b :: c :: SL r :: _) =>
                          match as_Z a, as_Z b, as_Z c, map_opt dec_edge r with
                          | Some x, Some y, Some z, Some r' => Some (mkq x y z, r')
                          | _, _, _, _ => None
                          end
  | _ => None
  end.
Definition dec_raised (s : sexp) : option Z :=
  match s with
  | SL [_; _; _; _; k] => as_Z k
  | _ => None
  end.

Definition dec_raw (o : sexp) : option rawcur :=
  match untag o with
  | Some (_, [_; _; _; _; r]) =>
      match tagged "raw" r with
      | Some [SL cs; st; en] =>
          match map_opt as_bytes cs, as_bytes st, as_bytes en with
          | Some cs', Some st', Some en' => Some {| rc_edges := cs'; rc_start := st'; rc_end := en' |}
          | _, _, _ => None
          end
      | _ => None
      end
  | _ => None
  end.

Definition dec_rawarg (name : string) (a : sexp) : option bytes :=
  match tagged "args" a with
  | Some l => match field1 name l with
              | Some x => match as_option as_bytes x with Some (Some b) => Some b | _ => None end
              | None => None
              end
  | None => None
  end.

Definition dec_step (s : sexp) : option step :=
  match tagged "step" s with
  | Some (a :: l) =>
      match dec_args a, field1 "info" l, field1 "pres" l, field1 "obs" l, field1 "triples" l with
      | Some a', Some i, Some (SL ps), Some o, Some (SL ts) =>
          match as_bool i, dec_xpres_list 0 ps, dec_obs o, map_opt dec_call ts, map_opt dec_raised ts with
          | Some i', Some ps', Some o', Some ts', Some rs' =>
              match field1 "total" l, field1 "tc" l, field1 "tccalls" l with
              | Some t, Some tc, Some n =>
                  match as_bool t, dec_tc tc, as_Z n with
                  | Some t', Some tc', Some n' =>
                      Some {| s_args := a'; s_sel := {| want_info := i'; want_total := t' |}; s_tc := tc';
                              s_xpres := ps'; s_obs := o'; s_calls := ts'; s_raised := rs'; s_tccalls := n';
                              s_after_raw := dec_rawarg "afterraw" a; s_before_raw := dec_rawarg "beforeraw" a;
                              s_from_raw := dec_rawarg "fromraw" a; s_to_raw := dec_rawarg "toraw" a;
                              s_raw := dec_raw o;
                              s_store := match field1 "store" l with
                                         | Some x => match as_Z x with Some z => z | None => 0%Z end
                                         | None => 0%Z
                                         end;
                              s_cost := match field "cost" l with
                                        | Some [x; y; z] => match as_Z x, as_Z y, as_Z z with
                                                            | Some x', Some y', Some z' => Some (x', y', z')
                                                            | _, _, _ => None
                                                            end
                                        | _ => None
                                        end |}
                  | _, _, _ => None
                  end
              | _, _, _ => None
              end
          | _, _, _, _, _ => None
          end
      | _, _, _, _, _ => None
      end
  | _ => None
  end.

Definition dec_kind (s : sexp) : option kind :=
  match untag s with
  | Some (t, []) => if String.eqb t "single" then Some KSingle else None
  | Some (t, [d; n]) =>
      if String.eqb t "walk" then
        match as_Z n with
        | Some n' => if is_sym "fwd" d then Some (KWalk true n')
                     else if is_sym "bwd" d then Some (KWalk false n') else None
        | None => None
        end
      else None
  | _ => None
  end.

Definition dec_getter (s : sexp) : option (list edge -> query -> list edge) :=
  if is_sym "exact" s then Some g_exact
  else if is_sym "reversed" s then Some g_reversed
  else if is_sym "generous" s then Some g_generous
  else None.

(** ** Small executable helpers *)
Definition memb (e : edge) (l : list edge) : bool := existsb (cursor_eqb e) l.
Fixpoint edges_eqb (a b : list edge) : bool :=
  match a, b with
  | [], [] => true
  | x :: a', y :: b' => cursor_eqb x y && edges_eqb a' b'
  | _, _ => false
  end.
Fixpoint nodupb (l : list edge) : bool :=
  match l with [] => true | x :: l' => negb (memb x l') && nodupb l' end.
Definition ocur_eqb (a b : ocur) : bool :=
  match a, b with
  | OcNone, OcNone => true
  | OcSome x, OcSome y => cursor_eqb x y
  | _, _ => false
  end.
Definition ocur_of (o : option edge) : ocur := match o with Some e => OcSome e | None => OcNone end.
Fixpoint ocurs_eqb (a : list ocur) (b : list edge) : bool :=
  match a, b with
  | [], [] => true
  | x :: a', y :: b' => ocur_eqb x (OcSome y) && ocurs_eqb a' b'
  | _, _ => false
  end.
Definition query_eqb (a b : query) : bool :=
  Z.eqb (q_min a) (q_min b) && Z.eqb (q_max a) (q_max b) && Z.eqb (q_limit a) (q_limit b).
Definition qcount (q : query) (l : list query) : nat := List.length (filter (query_eqb q) l).
Definition queries_same (a b : list query) : bool :=
  forallb (fun q => Nat.eqb (qcount q a) (qcount q b)) (a ++ b).
Definition pres_fun (ps : list pres) : nat -> pres := fun i => nth i ps sync_pres.
Definition xpres_fun (ps : list xpres) : nat -> xpres := fun i => nth i ps (xsync sync_pres).

Definition of_edge (e : edge) : sexp := SL [SZ (nano e); SStr (cid e)].

(** ** The premise of the property, checked on every observed getter call: the harness getter
    honoured the triple (no repetition, only edges of E inside the range, at least the first /
    last |limit| of them), and answered what the Coq getter of the declared kind answers.  A failure
    here is a defect of the harness, not of the implementation: [bad-case]. *)
Definition call_honoured (E : list edge) (g : query -> list edge) (c : query * list edge) : bool :=
  let (q, r) := c in
  nodupb r
  && forallb (fun e => memb e E && in_range q e) r
  && forallb (fun e => memb e r) (range_ref E q)
  && edges_eqb r (g q).

(** ** The Spec oracle on one step *)
Definition window_ok (a : args) (e : edge) : bool := from_ok (a_from a) e && to_ok (a_to a) e.
Definition cursors_ok (a : args) (e : edge) : bool :=
  after_ok (cur_of (a_after a)) e && before_ok (cur_of (a_before a)) e.

(** a supplied cursor lies outside the requested time window and [e] shares its timestamp *)
Definition at_outside_cursor (a : args) (e : edge) : bool :=
  let test c := match c with
                | CCursor x => negb (window_ok a x) && Z.eqb (nano x) (nano e)
                | _ => false
                end in
  test (a_after a) || test (a_before a).

Definition crash_key (ps : list pres) : string :=
  if existsb (fun p => by_promise p && nil_when_empty p) ps then "crash-promise-nil-result" else "crash".
Definition crash_key_x (s : step) : string :=
  if existsb (fun p => match xerr p with BadValue => true | _ => false end) (s_xpres s)
  then "crash-non-slice-result" else crash_key (s_pres s).

(** the calls (by index) in which the harness getter really raised an error *)
Fixpoint raised_real (i : Z) (rs : list Z) : list Z :=
  match rs with
  | [] => []
  | k :: rs' => (if Z.eqb k 1 then [i] else []) ++ raised_real (Z.succ i) rs'
  end.
Definition tc_fails (s : step) : bool :=
  want_total (s_sel s) && match s_tc s with TCErr _ => true | TCVal _ => false end.

Definition oracle_step (E : list edge) (g : query -> list edge) (i : nat) (s : step) : option sexp :=
  let a := s_args s in
  let fail (key : string) (d : list sexp) := Some (v_oracle_fail key (of_nat i :: d)) in
  let raised := raised_real 0 (s_raised s) in
  match s_obs s with
  | ObMalformed => fail "malformed-response" []
  | ObCrash => fail (crash_key_x s) []
  | ObHang => fail "hang" []
  | ObError msgs =>
      if negb (args_ok a) then None
      else if existsb (fun m => match m with MG k => negb (existsb (Z.eqb k) raised) | _ => false end) msgs
      then fail "error-not-raised-by-any-issued-call" []
      else if existsb (fun m => match m with MTC => negb (tc_fails s) | _ => false end) msgs
      then fail "total-count-error-out-of-nothing" []
      else if (existsb (fun m => match m with MOther => true | _ => false end) msgs && negb (existsb (Z.eqb 3) (s_raised s)))
              || match msgs with [] => true | _ => false end
      then fail "error-on-valid-arguments" []
      else None
  | ObPage es cs info tot =>
      if negb (args_ok a) then None     (* not this property's business; the model comparison sees it *)
      else if match raised with [] => false | _ => true end then fail "page-despite-getter-error" []
      else if existsb (Z.eqb 3) (s_raised s) then fail "page-despite-non-slice-answer" []
      else if tc_fails s then fail "page-despite-total-count-error" []
      else if negb (match tot, want_total (s_sel s), s_tc s with
                    | Some n, true, TCVal m => Z.eqb n m
                    | None, false, _ => true
                    | _, _, _ => false
                    end) then fail "total-count-wrong" []
      else
        let ref := TimeRef E a in
        match find (fun e => negb (memb e E)) es with
        | Some e => fail "unknown-edge" [of_edge e]
        | None =>
        match find (fun e => negb (window_ok a e)) es with
        | Some e => fail (if at_outside_cursor a e then "time-filter-violated-at-cursor-timestamp"
                          else "time-filter-violated") [of_edge e]
        | None =>
        match find (fun e => negb (cursors_ok a e)) es with
        | Some e => fail "cursor-filter-violated" [of_edge e]
        | None =>
        if negb (nodupb es) then fail "duplicate-edge" []
        else
        match find (fun e => negb (memb e es)) ref with
        | Some e => fail "edge-missing" [of_edge e]
        | None =>
        match find (fun e => negb (memb e ref)) es with
        | Some e => fail "edge-beyond-page" [of_edge e]
        | None =>
        if negb (edges_eqb es ref) then fail "order" []
        else if negb (ocurs_eqb cs es) then fail "edge-cursor-mismatch" []
        else
        match find (fun e => negb (existsb (fun c => memb e (snd c)) (s_calls s))) ref with
        | Some e => fail "insufficient-range-queries" [of_edge e]
        | None =>
        match info with
        | None => None
        | Some oi =>
            if negb (ocur_eqb (oi_start oi) (ocur_of (hd_error es)) && ocur_eqb (oi_end oi) (ocur_of (last_error es)))
            then fail "pageinfo-cursor" []
            else if negb (Bool.eqb (match a_first a with Some _ => oi_next oi | None => oi_prev oi end) (more_ref E a))
            then fail "pageinfo-more-flag" []
            else None
        end end end end end end end
  end.

(** ** The cursor codec against the strings that travelled *)
Definition cursor_arg_eqb (a b : cursor_arg) : bool :=
  match a, b with
  | CAbsent, CAbsent => true
  | CInvalid, CInvalid => true
  | CCursor x, CCursor y => cursor_eqb x y
  | _, _ => false
  end.

(** the argument strings decode (model of DeserializeCursor) to what the harness says the real
    DeserializeCursor made of them; the emitted strings are the model's serialisation of the cursors
    the harness decoded from them *)
Definition compare_codec (i : nat) (s : step) : option sexp :=
  let bad (what : string) := Some (v_mismatch what [of_nat i]) in
  let arg_ok raw c := match arg_of_wire raw with Some m => cursor_arg_eqb m c | None => true end in
  let dt_ok raw t := match raw, t with
                     | Some w, Some n => match parse_rfc3339 w with PDTime m => Z.eqb m n | PDOut => true end
                     | None, None => true
                     | _, _ => false
                     end in
  if negb (arg_ok (s_after_raw s) (a_after (s_args s)) && arg_ok (s_before_raw s) (a_before (s_args s)))
  then bad "cursor-decoding"
  else if negb (dt_ok (s_from_raw s) (a_from (s_args s)) && dt_ok (s_to_raw s) (a_to (s_args s)))
  then bad "datetime-parsing"
  else
    match s_obs s, s_raw s with
    | ObPage _ cs info _, Some r =>
        let enc_ok (c : ocur) (raw : bytes) :=
          match c with
          | OcSome e => bytes_eqb (tb_encode e) raw
          | OcNone => match raw with [] => true | _ => false end
          | OcBad => true
          end in
        let fix all2 (a : list ocur) (b : list bytes) : bool :=
          match a, b with
          | [], [] => true
          | x :: a', y :: b' => enc_ok x y && all2 a' b'
          | _, _ => false
          end in
        if negb (all2 cs (rc_edges r)) then bad "cursor-encoding"
        else match info with
             | Some oi => if enc_ok (oi_start oi) (rc_start r) && enc_ok (oi_end oi) (rc_end r) then None
                          else bad "pageinfo-cursor-encoding"
             | None => None
             end
    | ObPage _ _ _ _, None => bad "raw-cursors-missing"
    | _, _ => None
    end.

(** ** The field's cost functions against C14's model of them (Cost/CostModel.v), and the page
    against the edge multiplier they announce *)
Definition argval_of (o : option Z) : CostModel.argval := match o with Some z => CostModel.AInt z | None => CostModel.AAbsent end.
Definition compare_cost (i : nat) (s : step) : option sexp :=
  let a := s_args s in
  match s_cost s with
  | None => Some (v_mismatch "cost-missing" [of_nat i])
  | Some (r, m, em) =>
      let fc := CostModel.default_connection_cost (argval_of (a_first a)) (argval_of (a_last a))
                  {| CostModel.k_user := tt; CostModel.k_max_edge := None |} in
      let mem := match CostModel.fc_ctx fc with
                 | Some c => match CostModel.edges_cost c with Some e => CostModel.fc_m e | None => (-1)%Z end
                 | None => (-1)%Z
                 end in
      if negb (Z.eqb r (CostModel.fc_r fc) && Z.eqb m (CostModel.fc_m fc) && Z.eqb em mem)
      then Some (v_mismatch "connection-cost" [of_nat i])
      else match s_obs s with
           | ObPage es _ _ _ =>
               if Z.ltb em (Z.of_nat (List.length es)) then Some (v_oracle_fail "page-exceeds-cost-multiplier" [of_nat i]) else None
           | _ => None
           end
  end.

(** ** The model against the observation *)
Definition compare_step (E : list edge) (g : query -> list edge) (i : nat) (s : step) : option sexp :=
  let a := s_args s in
  let '(mo, mq, mtc) := xconn_current g (xpres_fun (s_xpres s)) (s_sel s) (s_tc s) a in
  let bad (what : string) := Some (v_mismatch what [of_nat i]) in
  let is_other m := match m with MOther => true | _ => false end in
  let matches_ferr m e := match m, e with
                          | MG k, EGetter id => Z.eqb k id
                          | MTC, ETotal _ => true
                          | MOther, EBogus => true
                          | MOther, ENonSlice => true
                          | _, _ => false
                          end in
  match mo, s_obs s with
  | XArgError, ObError msgs => if forallb is_other msgs then None else bad "argument-error-expected"
  | XFieldError errs, ObError msgs =>
      if match msgs with [] => false | _ => true end && forallb (fun m => existsb (matches_ferr m) errs) msgs
      then None else bad "which-error"
  | XPanic, ObCrash => None
  | XPage mes minfo mtot, ObPage es _ info tot =>
      if negb (edges_eqb mes es) then bad "edges"
      else if negb (match mtot, tot with Some x, Some y => Z.eqb x y | None, None => true | _, _ => false end)
      then bad "total-count"
      else match minfo, info with
           | None, None => None
           | Some mi, Some oi =>
               if negb (ocur_eqb (oi_start oi) (ocur_of (start_c mi)) && ocur_eqb (oi_end oi) (ocur_of (end_c mi)))
               then bad "pageinfo-cursors"
               else if negb (match a_first a with
                             | Some _ => Bool.eqb (oi_next oi) (has_next mi)
                             | None => Bool.eqb (oi_prev oi) (has_prev mi)
                             end)
               then bad "pageinfo-more-flag"
               else None
           | _, _ => bad "pageinfo-presence"
           end
  | _, _ => bad "outcome"
  end.

(** ** Walks *)
Definition pages (steps : list step) : list (list edge) :=
  map (fun s => match s_obs s with ObPage es _ _ _ => es | _ => [] end) steps.
Definition window_args (from to : option Z) : args :=
  {| a_first := None; a_last := None; a_after := CAbsent; a_before := CAbsent; a_from := from; a_to := to |}.

Definition more_flag (fwd : bool) (s : step) : bool :=
  match s_obs s with
  | ObPage _ _ (Some oi) _ => if fwd then oi_next oi else oi_prev oi
  | _ => false
  end.

Definition check_walk (E : list edge) (g : query -> list edge) (fwd : bool) (n : Z) (steps : list step) : option sexp :=
  match steps with
  | [] => Some (v_bad "empty-walk")
  | s0 :: _ =>
      let from := a_from (s_args s0) in
      let to := a_to (s_args s0) in
      let visited := if fwd then List.concat (pages steps) else List.concat (rev (pages steps)) in
      let all := matching E (window_args from to) in
      if more_flag fwd (List.last steps s0) then Some (v_oracle_fail "walk-does-not-end" [])
      else if negb (edges_eqb visited all) then
        Some (v_oracle_fail (if nodupb visited then "walk-misses-or-adds-edges" else "walk-repeats-edge") [])
      else
        let fuel := S (List.length E) in
        let m := if fwd then walk_fwd current g fuel all_sync n from to CAbsent
                 else walk_bwd current g fuel all_sync n from to CAbsent in
        match m with
        | WDone l => if edges_eqb l visited then None else Some (v_mismatch "walk" [])
        | _ => Some (v_mismatch "walk-model-stuck" [])
        end
  end.

(** ** Evidence classes *)
Definition supplied (a : args) : list cursor :=
  (match a_after a with CCursor c => [c] | _ => [] end) ++ (match a_before a with CCursor c => [c] | _ => [] end).

Definition big (z : Z) : bool := Z.ltb 4611686018427387904 (Z.abs z).

Definition same_outcome (a b : outcome * list query) : bool :=
  match fst a, fst b with
  | OPage x _, OPage y _ => edges_eqb x y
  | OError, OError => true
  | OPanic, OPanic => true
  | _, _ => false
  end.

Definition step_classes (E : list edge) (g : query -> list edge) (s : step) : list string :=
  let a := s_args s in
  let ps := s_pres s in
  let cond (b : bool) (c : string) := if b then [c] else [] in
  let m := conn current g (pres_fun ps) (s_info s) a in
  let shared := existsb (fun c => existsb (fun e => Z.eqb (nano e) (nano c) && negb (cursor_eqb e c)) E) (supplied a) in
  let nonempty := match s_obs s with ObPage (_ :: _) _ _ _ => true | _ => false end in
  let xps := xpres_fun (s_xpres s) in
  let xm := xconn_current g xps (s_sel s) (s_tc s) a in
  let nq := List.length (snd m) in
  let failing := filter (fun k => match xerr (xps k) with Err _ => true | _ => false end) (seq 0 nq) in
  let is_err o := match o with XFieldError _ => true | _ => false end in
  cond (match a_first a with Some _ => true | None => false end) "first"
  ++ cond (match a_last a with Some _ => true | None => false end) "last"
  ++ cond (match a_after a with CCursor _ => true | _ => false end) "after"
  ++ cond (match a_before a with CCursor _ => true | _ => false end) "before"
  ++ cond (match a_from a with Some _ => true | None => false end) "at-or-after-time"
  ++ cond (match a_to a with Some _ => true | None => false end) "before-time"
  ++ cond shared "cursor-timestamp-shared"
  ++ cond (existsb (fun c => negb (window_ok a c)) (supplied a)) "cursor-outside-window"
  ++ cond (existsb (fun c => negb (memb c E)) (supplied a)) "foreign-cursor"
  ++ cond (negb (same_outcome m (conn {| clamp_exact_queries := false; wrap_cursor_arith := false; skip_nil_in_join := true |}
                                      g (pres_fun ps) (s_info s) a))) "exact-query-clamp-matters"
  ++ cond (negb (same_outcome m (conn {| clamp_exact_queries := true; wrap_cursor_arith := true; skip_nil_in_join := true |}
                                      g (pres_fun ps) (s_info s) a))) "int64-wrap-matters"
  ++ cond (match fst (conn {| clamp_exact_queries := true; wrap_cursor_arith := false; skip_nil_in_join := false |}
                           g (pres_fun ps) (s_info s) a) with OPanic => true | _ => false end) "nil-in-join-matters"
  ++ cond (existsb by_promise ps && forallb by_promise ps) "all-promise"
  ++ cond (existsb by_promise ps && negb (forallb by_promise ps)) "mixed-sync-promise"
  ++ cond (existsb nil_when_empty ps) "nil-results"
  ++ cond (match s_obs s with ObError _ => true | _ => false end) "error"
  ++ cond (negb (s_info s)) "no-pageinfo"
  ++ cond (args_ok a && more_ref E a) "truncated"
  ++ cond (args_ok a && negb nonempty) "empty-page"
  ++ cond (existsb (fun e => big (nano e)) (E ++ supplied a)) "extreme-nanoseconds"
  ++ cond (queries_same (snd (fst xm)) (s_triples s)) "triples-equal-model"
  ++ cond (negb (queries_same (snd (fst xm)) (s_triples s))) "triples-differ-from-model"
  ++ cond (match snd xm with Some n => Z.eqb (Z.of_nat n) (s_tccalls s) | None => true end) "total-count-calls-equal-model"
  ++ cond (match snd xm with Some n => negb (Z.eqb (Z.of_nat n) (s_tccalls s)) | None => false end) "total-count-calls-differ-from-model"
  ++ cond (existsb (fun k => negb (by_promise (xp (xps k)))) failing && is_err (fst (fst xm))) "getter-error-sync"
  ++ cond (existsb (fun k => by_promise (xp (xps k))) failing && is_err (fst (fst xm))) "getter-error-promise"
  ++ cond (Nat.ltb 1 (List.length failing)) "several-getter-errors"
  ++ cond (Nat.ltb (List.length (snd (fst xm))) nq && is_err (fst (fst xm))) "queries-cut-short-by-error"
  ++ cond (match failing with
           | k :: _ => by_promise (xp (xps k)) && existsb (fun j => negb (by_promise (xp (xps j)))) failing
           | [] => false
           end) "sync-error-beats-earlier-promise-error"
  ++ cond (match failing with [] => false | _ => true end
           && existsb (fun c => match snd c with [] => false | _ => true end) (s_calls s)) "error-beside-fetched-edges"
  ++ cond (existsb (fun k => match xerr (xps k) with TypedNilErr => true | _ => false end) (seq 0 nq)) "typed-nil-error"
  ++ cond (negb (match fst (fst xm), fst (fst (xconn current false g xps (s_sel s) (s_tc s) a)) with
                 | XPage x _ _, XPage y _ _ => edges_eqb x y
                 | XFieldError x, XFieldError y => Nat.eqb (List.length x) (List.length y)
                                                   && match x, y with EBogus :: _, EBogus :: _ => true
                                                      | EBogus :: _, _ => false | _, EBogus :: _ => false | _, _ => true end
                 | XArgError, XArgError => true
                 | XPanic, XPanic => true
                 | _, _ => false
                 end)) "typed-nil-or-non-slice-fix-matters"
  ++ cond (match arg_of_wire (s_after_raw s), arg_of_wire (s_before_raw s) with Some _, Some _ => false | _, _ => true end)
          "cursor-string-outside-codec-model"
  ++ cond (match s_from_raw s, s_to_raw s with Some _, _ => true | _, Some _ => true | _, _ => false end) "datetime-string-parsed-by-model"
  ++ cond (existsb (fun o => match o with Some w => match parse_rfc3339 w with PDOut => true | _ => false end | None => false end)
                   [s_from_raw s; s_to_raw s]) "datetime-string-outside-parser-model"
  ++ cond (match s_after_raw s, s_before_raw s with
           | Some (_ :: _), _ => true | _, Some (_ :: _) => true | _, _ => false end) "cursor-string-decoded-by-model"
  ++ cond (existsb (Z.eqb 3) (s_raised s)) "non-slice-answer"
  ++ cond (existsb (Z.eqb 3) (s_raised s) && negb (match raised_real 0 (s_raised s) with [] => true | _ => false end)) "non-slice-answer-and-getter-error"
  ++ cond (Z.eqb (s_store s) 1) "getter-answers-windows-of-shared-storage"
  ++ cond (Z.eqb (s_store s) 1 && Nat.ltb 1 (List.length (filter (fun c => match snd c with [] => false | _ => true end) (s_calls s))))
          "shared-storage-several-non-empty-answers"
  ++ cond (want_total (s_sel s)) "total-count"
  ++ cond (tc_fails s) "total-count-error"
  ++ cond (want_total (s_sel s) && match fst (fst xm), snd (fst xm) with XPage _ _ _, [] => true | _, _ => false end) "total-count-without-fetch"
  ++ cond (match fst m, s_obs s with
           | OPage _ (Some mi), ObPage _ _ (Some oi) _ =>
               negb (match a_first a with
                     | Some _ => Bool.eqb (oi_prev oi) (has_prev mi)
                     | None => Bool.eqb (oi_next oi) (has_next mi)
                     end)
           | _, _ => false
           end) "opposite-flag-differs-from-model"
  ++ cond (shared && nonempty) "nontrivial".

Fixpoint dedup (l : list string) : list string :=
  match l with
  | [] => []
  | x :: l' => if existsb (String.eqb x) l' then dedup l' else x :: dedup l'
  end.

(** ** Entry point *)
Fixpoint first_some {A} (f : nat -> A -> option sexp) (i : nat) (l : list A) : option sexp :=
  match l with
  | [] => None
  | x :: l' => match f i x with Some v => Some v | None => first_some f (S i) l' end
  end.

(** ** [NewTimeBasedCursor] / [TimeBasedCursor.Time] on arbitrary [time.Time] values: the harness
    reports a time (Unix seconds, nanoseconds), the Nano the library's constructor computed for it,
    and the time [Time()] makes of that cursor; the model must compute both. *)
Definition check_far (l : list sexp) : sexp :=
  match l with
  | [s; n; nano; bs; bn] =>
      match as_Z s, as_Z n, as_Z nano, as_Z bs, as_Z bn with
      | Some s', Some n', Some nano', Some bs', Some bn' =>
          let t := {| gsec := s' + unix_to_internal; gnsec := n'; gmono := None; gloc := 0 |} in
          let c := new_cursor t [] in
          let back := cursor_time c in
          if negb (Z.leb 0 n' && Z.ltb n' GoTimeModel.giga) then v_bad "far-nanoseconds"
          else if negb (Z.eqb (TimeModel.nano c) nano') then v_mismatch "new-cursor-nano" []
          else if negb (Z.eqb (gsec back - unix_to_internal) bs' && Z.eqb (gnsec back) bn') then v_mismatch "cursor-time" []
          else if Z.eqb (inst back) (inst t) then v_ok ["cursor-denotes-edge-time"]
          else v_ok ["cursor-wraps-edge-time-outside-int64-nanoseconds"]
      | _, _, _, _, _ => v_bad "far-decode"
      end
  | _ => v_bad "far-shape"
  end.

Definition check (c : sexp) : sexp :=
  match tagged "far" c with
  | Some l => check_far l
  | None =>
  match tagged "case" c with
  | Some l =>
      match field1 "edges" l, field1 "getter" l, field1 "kind" l, field1 "steps" l with
      | Some (SL es), Some gk, Some k, Some (SL ss) =>
          match map_opt dec_edge es, dec_getter gk, dec_kind k, map_opt dec_step ss with
          | Some E, Some mk, Some kd, Some steps =>
              if existsb (fun s => Z.eqb (s_store s) 2) steps
              then v_oracle_fail "application-storage-modified" []
              else if negb (nodupb E) then v_bad "duplicate-cursors-in-data-set"
              else if negb (forallb (fun s => forallb (fun cr => Z.eqb (snd cr) 1 || Z.eqb (snd cr) 3 || call_honoured E (mk E) (fst cr))
                                                      (combine (s_calls s) (s_raised s))) steps)
              then v_bad "harness-getter-does-not-honour-the-triple"
              else
                let g := mk E in
                match first_some (oracle_step E g) 0 steps with
                | Some v => v
                | None =>
                    match first_some (fun i s => match compare_step E g i s with
                                                     | Some v => Some v
                                                     | None => match compare_codec i s with Some v => Some v | None => compare_cost i s end
                                                     end) 0 steps with
                    | Some v => v
                    | None =>
                        let cls := dedup (flat_map (step_classes E g) steps) in
                        match kd with
                        | KSingle => v_ok cls
                        | KWalk fwd n =>
                            match check_walk E g fwd n steps with
                            | Some v => v
                            | None =>
                                v_ok (dedup (cls ++ ["walk"]
                                             ++ (if Nat.ltb 1 (List.length steps) then ["walk-multi-page"; "nontrivial"] else [])))
                            end
                        end
                    end
                end
          | _, _, _, _ => v_bad "decode"
          end
      | _, _, _, _ => v_bad "fields"
      end
  | None => v_bad "shape"
  end
  end.
