(** * TimeConn/GoTimeProofs.v — integer nanoseconds are an exact abstraction of the [time.Time]-level code,
    and where int64 nanoseconds are too small (C16, stage B) *)
From Coq Require Import List NArith ZArith Bool Lia.
From ApiFu Require Import Base.Sexp TimeConn.TimeModel TimeConn.GoTimeModel.
Import ListNotations.
Open Scope Z_scope.

Definition g_ok (t : gtime) : Prop := 0 <= gnsec t < giga /\ gmono t = None.
Definition int64 (z : Z) : Prop := - 9223372036854775808 <= z <= 9223372036854775807.

Lemma g_wf_ok t : g_wf t -> g_ok t.
Proof. intros [H1 [H2 _]]. split; assumption. Qed.

(** ** comparisons are comparisons of instants (the location is never looked at; a monotonic
    reading only when BOTH values carry one) *)
Lemma g_before_inst t u : g_ok t -> g_ok u -> g_before t u = (inst t <? inst u).
Proof.
  intros [Ht Hm] [Hu _]. unfold g_before, inst, giga in *. rewrite Hm.
  destruct (gsec t <? gsec u) eqn:A; destruct (gsec t =? gsec u) eqn:B; destruct (gnsec t <? gnsec u) eqn:C;
    cbn [orb andb]; symmetry; lia.
Qed.
Lemma g_after_inst t u : g_ok t -> g_ok u -> g_after t u = (inst u <? inst t).
Proof.
  intros [Ht Hm] [Hu _]. unfold g_after, inst, giga in *. rewrite Hm.
  destruct (gsec u <? gsec t) eqn:A; destruct (gsec t =? gsec u) eqn:B; destruct (gnsec u <? gnsec t) eqn:C;
    cbn [orb andb]; symmetry; lia.
Qed.
Lemma g_equal_inst t u : g_ok t -> g_ok u -> g_equal t u = (inst t =? inst u).
Proof.
  intros [Ht Hm] [Hu _]. unfold g_equal, inst, giga in *. rewrite Hm.
  destruct (gsec t =? gsec u) eqn:B; destruct (gnsec t =? gnsec u) eqn:C; cbn [andb]; symmetry; lia.
Qed.

Theorem comparisons_are_instants t u : g_ok t -> g_ok u ->
  g_before t u = (inst t <? inst u) /\ g_after t u = (inst u <? inst t) /\ g_equal t u = (inst t =? inst u).
Proof.
  intros Ht Hu. split; [apply g_before_inst | split; [apply g_after_inst | apply g_equal_inst]]; assumption.
Qed.

(** the location does not matter *)
Lemma g_before_loc t u l :
  g_before {| gsec := gsec t; gnsec := gnsec t; gmono := gmono t; gloc := l |} u = g_before t u.
Proof. reflexivity. Qed.

(** ** adding and subtracting one nanosecond *)
Lemma wrap64_small x : int64 x -> wrap64 x = x.
Proof. unfold int64, wrap64. intro H. rewrite Z.mod_small by lia. lia. Qed.

Lemma add_sec_small s d : - 4611686018427387904 < s < 4611686018427387904 -> -1 <= d <= 1 -> add_sec s d = s + d.
Proof.
  intros Hs Hd. unfold add_sec. rewrite wrap64_small by (unfold int64; lia).
  destruct (s <? s + d) eqn:A; destruct (0 <? d) eqn:B; cbn [Bool.eqb]; try reflexivity; lia.
Qed.

Lemma g_add_plus1 t : g_wf t -> inst (g_add t 1) = inst t + 1 /\ g_ok (g_add t 1).
Proof.
  intros [Hn [Hm Hs]]. unfold g_add.
  change (Z.quot 1 giga) with 0. change (Z.rem 1 giga) with 1.
  unfold inst, g_ok, giga in *.
  destruct (1000000000 <=? gnsec t + 1) eqn:A.
  - cbn [gsec gnsec gmono]. rewrite add_sec_small by lia. rewrite Hm. split; [lia | split; [lia | reflexivity]].
  - destruct (gnsec t + 1 <? 0) eqn:B; [lia|].
    cbn [gsec gnsec gmono]. rewrite add_sec_small by lia. rewrite Hm. split; [lia | split; [lia | reflexivity]].
Qed.

Lemma g_add_minus1 t : g_wf t -> inst (g_add t (-1)) = inst t - 1 /\ g_ok (g_add t (-1)).
Proof.
  intros [Hn [Hm Hs]]. unfold g_add.
  change (Z.quot (-1) giga) with 0. change (Z.rem (-1) giga) with (-1).
  unfold inst, g_ok, giga in *.
  destruct (1000000000 <=? gnsec t + -1) eqn:A; [lia|].
  destruct (gnsec t + -1 <? 0) eqn:B;
    cbn [gsec gnsec gmono]; rewrite add_sec_small by lia; rewrite Hm; (split; [lia | split; [lia | reflexivity]]).
Qed.

(** ** [time.Unix(0, n)] and [UnixNano] *)
Lemma g_unix_nano_of_spec n : int64 n -> inst (g_unix_nano_of n) = n /\ g_wf (g_unix_nano_of n).
Proof.
  intro Hn. unfold g_unix_nano_of.
  pose proof (Z.quot_rem' n giga) as Hqr.
  assert (Hr : - giga < Z.rem n giga < giga).
  { pose proof (Z.rem_bound_abs n giga ltac:(unfold giga; lia)) as Hb. unfold giga in *. lia. }
  assert (Hq : - 9223372037 <= Z.quot n giga <= 9223372037).
  { unfold int64, giga in *. split.
    - destruct (Z_le_gt_dec (-9223372037) (n ÷ 1000000000)); [assumption|]. exfalso.
      unfold giga in Hqr, Hr. lia.
    - destruct (Z_le_gt_dec (n ÷ 1000000000) 9223372037); [assumption|]. exfalso.
      unfold giga in Hqr, Hr. lia. }
  set (q := Z.quot n giga) in *. set (r := Z.rem n giga) in *.
  replace (n - q * giga) with r by lia.
  unfold inst, g_wf, unix_to_internal, giga in *.
  destruct (r <? 0) eqn:A; cbn [gsec gnsec gmono]; (split; [lia | split; [lia | split; [reflexivity | lia]]]).
Qed.

Lemma g_unix_nano_wrap t : g_unix_nano t = wrap64 (inst t).
Proof. reflexivity. Qed.

Lemma wrap64_range x : int64 (wrap64 x).
Proof.
  unfold int64, wrap64.
  pose proof (Z.mod_pos_bound (x + 9223372036854775808) 18446744073709551616 ltac:(lia)). lia.
Qed.

(** [UnixNano] is the instant exactly when the instant is an int64 nanosecond count (between
    1677-09-21T00:12:43.145224192Z and 2262-04-11T23:47:16.854775807Z) *)
Theorem g_unix_nano_exact_iff t : g_unix_nano t = inst t <-> int64 (inst t).
Proof.
  rewrite g_unix_nano_wrap. split.
  - intro H. rewrite <- H. apply wrap64_range.
  - apply wrap64_small.
Qed.

(** the cursor of an edge denotes the edge's time exactly when that time fits int64 nanoseconds *)
Theorem cursor_time_roundtrip_iff t id :
  inst (cursor_time (new_cursor t id)) = inst t <-> int64 (inst t).
Proof.
  unfold cursor_time, new_cursor. cbn [nano fst].
  destruct (g_unix_nano_of_spec (g_unix_nano t)) as [Hi _]; [rewrite g_unix_nano_wrap; apply wrap64_range|].
  rewrite Hi. apply g_unix_nano_exact_iff.
Qed.

(** and the location of the edge's time.Time never matters *)
Lemma new_cursor_loc t id l :
  new_cursor {| gsec := gsec t; gnsec := gnsec t; gmono := gmono t; gloc := l |} id = new_cursor t id.
Proof. reflexivity. Qed.
Lemma new_cursor_mono t id m :
  new_cursor {| gsec := gsec t; gnsec := gnsec t; gmono := m; gloc := gloc t |} id = new_cursor t id.
Proof. reflexivity. Qed.

(** outside that range the order of the cursors is not the order of the times: an edge of the
    year 2300 sorts BEFORE an edge of 2020 (its cursor says 1715), an edge of 1600 after it *)
Definition t_2020 : gtime := {| gsec := 1577836800 + unix_to_internal; gnsec := 0; gmono := None; gloc := 0 |}.
Definition t_2300 : gtime := {| gsec := 10413792000 + unix_to_internal; gnsec := 0; gmono := None; gloc := 0 |}.
Definition t_1600 : gtime := {| gsec := -11676096000 + unix_to_internal; gnsec := 0; gmono := None; gloc := 0 |}.

Theorem cursor_order_refuted_outside_int64 :
  g_wf t_1600 /\ g_wf t_2020 /\ g_wf t_2300 /\
  inst t_1600 < inst t_2020 < inst t_2300 /\
  cursor_ltb (new_cursor t_2300 []) (new_cursor t_2020 []) = true /\
  cursor_ltb (new_cursor t_2020 []) (new_cursor t_1600 []) = true /\
  inst (cursor_time (new_cursor t_2300 [])) <> inst t_2300.
Proof.
  unfold g_wf, giga. cbn [gsec gnsec gmono t_1600 t_2020 t_2300]. unfold unix_to_internal.
  repeat split; try reflexivity; try lia; vm_compute; try reflexivity; discriminate.
Qed.

(** ** [TimeBasedRangeQueries] at the level of time.Time computes the integer transcription *)
Lemma inst_g_zero : inst g_zero = zero_time.
Proof. reflexivity. Qed.
Lemma inst_g_distant_future : inst g_distant_future = distant_future.
Proof. reflexivity. Qed.
Lemma g_zero_wf : g_wf g_zero.
Proof. unfold g_wf, g_zero, giga. cbn. repeat split; lia. Qed.
Lemma g_distant_future_wf : g_wf g_distant_future.
Proof. unfold g_wf, g_distant_future, giga, unix_to_internal. cbn. repeat split; lia. Qed.

Definition opt_wf (o : option gtime) : Prop := match o with Some t => g_wf t | None => True end.
Definition opt_int64 (o : option cursor) : Prop := match o with Some c => int64 (nano c) | None => True end.

Theorem range_queries_t_exact after before from to limit :
  opt_wf from -> opt_wf to -> opt_int64 after -> opt_int64 before ->
  map inst_query (range_queries_t after before from to limit)
  = range_queries current after before (option_map inst from) (option_map inst to) limit.
Proof.
  intros Hfrom Hto Hafter Hbefore.
  unfold range_queries_t, range_queries. cbv zeta.
  change (clamp_exact_queries current) with true. cbn [negb orb].
  unfold nano_plus. change (wrap_cursor_arith current) with false. cbv iota.
  set (min0 := match from with Some t => t | None => g_zero end).
  set (bt := match to with Some t => t | None => g_distant_future end).
  assert (Hmin0 : g_wf min0) by (unfold min0; destruct from; [exact Hfrom | apply g_zero_wf]).
  assert (Hbt : g_wf bt) by (unfold bt; destruct to; [exact Hto | apply g_distant_future_wf]).
  assert (Emin0 : match option_map inst from with Some t => t | None => zero_time end = inst min0)
    by (unfold min0; destruct from; reflexivity).
  assert (Ebt : match option_map inst to with Some t => t | None => distant_future end = inst bt)
    by (unfold bt; destruct to; reflexivity).
  rewrite Emin0, Ebt.
  destruct (g_add_minus1 bt Hbt) as [Emax0 Hmax0].
  set (max0 := g_add bt (-1)) in *.
  pose proof (g_wf_ok _ Hmin0) as Hmin0'.
  assert (Hrange : forall t, g_ok t ->
            negb (g_before t min0) && negb (g_after t max0) = (inst min0 <=? inst t) && (inst t <=? inst bt - 1)).
  { intros t Ht. rewrite g_before_inst, g_after_inst by assumption. rewrite Emax0.
    rewrite <- !Z.leb_antisym. reflexivity. }
  assert (Hcur : forall c, int64 (nano c) -> inst (cursor_time c) = nano c /\ g_wf (cursor_time c)).
  { intros c Hc. apply g_unix_nano_of_spec. exact Hc. }
  rewrite !map_app. cbn [map inst_query tq_min tq_max tq_limit].
  f_equal; [|f_equal].
  - destruct after as [a|]; [|reflexivity]. cbn [opt_int64] in Hafter.
    destruct (Hcur a Hafter) as [Ea Wa].
    rewrite Hrange by (apply g_wf_ok, Wa). rewrite Ea.
    destruct ((inst min0 <=? nano a) && (nano a <=? inst bt - 1)); [|reflexivity].
    cbn [map]. unfold inst_query. cbn [tq_min tq_max tq_limit]. rewrite Ea. reflexivity.
  - destruct before as [b|]; [|reflexivity]. cbn [opt_int64] in Hbefore.
    destruct (Hcur b Hbefore) as [Eb Wb].
    rewrite Hrange by (apply g_wf_ok, Wb). rewrite Eb.
    assert (Hne : match after with None => true | Some a => negb (g_equal (cursor_time a) (cursor_time b)) end
                  = match after with None => true | Some a => negb (nano a =? nano b) end).
    { destruct after as [a|]; [|reflexivity]. cbn [opt_int64] in Hafter.
      destruct (Hcur a Hafter) as [Ea Wa].
      rewrite g_equal_inst by (apply g_wf_ok; assumption). rewrite Ea, Eb. reflexivity. }
    rewrite Hne.
    destruct (_ && _); [|reflexivity].
    cbn [map]. unfold inst_query. cbn [tq_min tq_max tq_limit]. rewrite Eb. reflexivity.
  - f_equal. unfold inst_query. cbn [tq_min tq_max tq_limit]. f_equal.
    + destruct after as [a|]; [|reflexivity]. cbn [opt_int64] in Hafter.
      destruct (Hcur a Hafter) as [Ea Wa]. destruct (g_add_plus1 _ Wa) as [Ep Op].
      rewrite g_after_inst by assumption. rewrite Ep, Ea.
      destruct (inst min0 <? nano a + 1); [rewrite Ep, Ea|]; reflexivity.
    + destruct before as [b|]; [exact Emax0 || idtac|exact Emax0]. cbn [opt_int64] in Hbefore.
      destruct (Hcur b Hbefore) as [Eb Wb]. destruct (g_add_minus1 _ Wb) as [Em Om].
      rewrite g_before_inst by assumption. rewrite Em, Eb, Emax0.
      replace (nano b + -1) with (nano b - 1) by lia.
      destruct (nano b - 1 <? inst bt - 1); [rewrite Em, Eb|rewrite Emax0]; reflexivity.
Qed.
