(** * TimeConn/TimeCursorCodec.v — SerializeCursor / DeserializeCursor for the TimeBasedCursor struct (C16, stage B)

    Composes C09's transcription of the cursor codec (Relay/CursorCodec.v: base64url without
    padding, msgpack integers and strings, big-endian numbers) for the struct shape

        type TimeBasedCursor struct { Nano int64; Id string }

    - [SerializeCursor]: msgpack v4.0.4 [Marshal] of a struct without tags is a map of its fields in
      declaration order: fixmap(2), "Nano" (fixstr), the int64 as 0xd3 + 8 bytes (useCompact is
      off), "Id" (fixstr), the string with the shortest str header; then RawURLEncoding.
    - [DeserializeCursor]: RawURLEncoding.DecodeString, then [decodeStructValue]: nil gives the zero
      struct; a map (fixmap / map16 / map32) is read key by key, keys are strings of any str/bin
      form, the value of "Nano" is read with [DecodeInt64] (nil, fixnums, every (u)int code), the
      value of "Id" with [DecodeString] (nil, fixstr, str8/16/32, bin8/16/32), a later occurrence
      of a key overrides an earlier one, unknown keys have their value skipped ([d.Skip()] =
      [skip_vals]: any msgpack value, nested maps / arrays, bin, ext, floats); an array (fixarray /
      array16 / array32) assigns the fields in declaration order, further elements are skipped;
      trailing bytes are ignored; every decoding error gives Go's nil ([DNil]).  [DOut] (the model
      declines) is left only for an exhausted fuel, which cannot happen.
    No proofs in this file. *)
From Coq Require Import List NArith ZArith Bool.
From ApiFu Require Import Base.Sexp Relay.CursorCodec TimeConn.TimeModel.
Import ListNotations.

Definition tcursor := TimeModel.cursor.     (* (nanoseconds, id) *)

(** ** stream readers: the value and the remaining bytes *)
Definition rd_bytes (n : N) (b : bytes) : option (bytes * bytes) :=
  if (N.of_nat (length b) <? n)%N then None
  else Some (firstn (N.to_nat n) b, skipn (N.to_nat n) b).

Definition rd_be (k : N) (b : bytes) : option (Z * bytes) :=
  match rd_bytes k b with Some (x, r) => Some (be_decode x, r) | None => None end.

Definition rd_sbe (k : N) (b : bytes) : option (Z * bytes) :=
  match rd_be k b with Some (v, r) => Some (wrap_signed (8 * Z.of_N k) v, r) | None => None end.

(** [DecodeInt64] *)
Definition rd_int (b : bytes) : option (Z * bytes) :=
  match b with
  | [] => None
  | c :: r =>
      if (c =? 192)%N then Some (0%Z, r)
      else if (c <=? 127)%N then Some (Z.of_N c, r)
      else if (224 <=? c)%N then Some ((Z.of_N c - 256)%Z, r)
      else if (c =? 204)%N then rd_be 1 r
      else if (c =? 208)%N then rd_sbe 1 r
      else if (c =? 205)%N then rd_be 2 r
      else if (c =? 209)%N then rd_sbe 2 r
      else if (c =? 206)%N then rd_be 4 r
      else if (c =? 210)%N then rd_sbe 4 r
      else if (c =? 207)%N || (c =? 211)%N then rd_sbe 8 r
      else None
  end.

Definition rd_len_bytes (k : N) (b : bytes) : option (bytes * bytes) :=
  match rd_be k b with Some (l, r) => rd_bytes (Z.to_N l) r | None => None end.

(** [DecodeString] *)
Definition rd_str (b : bytes) : option (bytes * bytes) :=
  match b with
  | [] => None
  | c :: r =>
      if (c =? 192)%N then Some ([], r)
      else if (160 <=? c)%N && (c <=? 191)%N then rd_bytes (c - 160) r
      else if (c =? 217)%N || (c =? 196)%N then rd_len_bytes 1 r
      else if (c =? 218)%N || (c =? 197)%N then rd_len_bytes 2 r
      else if (c =? 219)%N || (c =? 198)%N then rd_len_bytes 4 r
      else None
  end.

(** ** [d.Skip()]: skip [count] values.  Nested containers are flattened into the count (a map of
    n entries is 2n further values, an array n), which consumes the same bytes and fails at the
    same place as the recursive original; every value consumes at least one byte, so [fuel] =
    number of remaining bytes + 1 is never exhausted. *)
Definition skip_bytes (n : N) (b : bytes) : option bytes :=
  match rd_bytes n b with Some (_, r) => Some r | None => None end.
Definition skip_len (k : N) (extra : Z) (b : bytes) : option bytes :=
  match rd_be k b with Some (l, r) => skip_bytes (Z.to_N (l + extra)) r | None => None end.

Fixpoint skip_vals (fuel : nat) (count : Z) (b : bytes) : option bytes :=
  if (count <=? 0)%Z then Some b
  else match fuel with
       | O => None
       | S fuel' =>
           match b with
           | [] => None
           | c :: r =>
               let next (o : option bytes) := match o with Some r' => skip_vals fuel' (count - 1)%Z r' | None => None end in
               let nest (k : N) (mult : Z) := match rd_be k r with
                                              | Some (n, r') => skip_vals fuel' (count - 1 + mult * n)%Z r'
                                              | None => None
                                              end in
               if (c <=? 127)%N || (224 <=? c)%N then next (Some r)                        (* fixnum *)
               else if (c <=? 143)%N then skip_vals fuel' (count - 1 + 2 * Z.of_N (c - 128))%Z r   (* fixmap *)
               else if (c <=? 159)%N then skip_vals fuel' (count - 1 + Z.of_N (c - 144))%Z r       (* fixarray *)
               else if (c <=? 191)%N then next (skip_bytes (c - 160) r)                   (* fixstr *)
               else if (c =? 192)%N || (c =? 194)%N || (c =? 195)%N then next (Some r)    (* nil, false, true *)
               else if (c =? 204)%N || (c =? 208)%N then next (skip_bytes 1%N r)
               else if (c =? 205)%N || (c =? 209)%N then next (skip_bytes 2%N r)
               else if (c =? 206)%N || (c =? 210)%N || (c =? 202)%N then next (skip_bytes 4%N r)
               else if (c =? 207)%N || (c =? 211)%N || (c =? 203)%N then next (skip_bytes 8%N r)
               else if (c =? 196)%N || (c =? 217)%N then next (skip_len 1%N 0%Z r)            (* bin8, str8 *)
               else if (c =? 197)%N || (c =? 218)%N then next (skip_len 2%N 0%Z r)
               else if (c =? 198)%N || (c =? 219)%N then next (skip_len 4%N 0%Z r)
               else if (c =? 220)%N then nest 2%N 1%Z                                          (* array16 *)
               else if (c =? 221)%N then nest 4%N 1%Z
               else if (c =? 222)%N then nest 2%N 2%Z                                          (* map16 *)
               else if (c =? 223)%N then nest 4%N 2%Z
               else if (c =? 212)%N then next (skip_bytes 2%N r)                            (* fixext1: type + 1 *)
               else if (c =? 213)%N then next (skip_bytes 3%N r)
               else if (c =? 214)%N then next (skip_bytes 5%N r)
               else if (c =? 215)%N then next (skip_bytes 9%N r)
               else if (c =? 216)%N then next (skip_bytes 17%N r)
               else if (c =? 199)%N then next (skip_len 1%N 1%Z r)                            (* ext8: len, type, data *)
               else if (c =? 200)%N then next (skip_len 2%N 1%Z r)
               else if (c =? 201)%N then next (skip_len 4%N 1%Z r)
               else None                                                                   (* 0xc1 *)
           end
       end.

(** ** the struct *)
Definition key_nano : bytes := [78; 97; 110; 111]%N.     (* "Nano" *)
Definition key_id : bytes := [73; 100]%N.               (* "Id" *)

Inductive dec := DOut | DNil | DCur (c : tcursor).
Definition zero_cursor : tcursor := (0%Z, []).

(** the [for i := 0; i < n; i++] loop over the map entries; every iteration consumes at least one
    byte, so [fuel] = number of remaining bytes + 1 is never exhausted *)
Fixpoint dec_map (fuel : nat) (n : Z) (b : bytes) (cur : tcursor) : dec :=
  if (n <=? 0)%Z then DCur cur
  else match fuel with
       | O => DOut
       | S fuel' =>
           match rd_str b with
           | None => DNil
           | Some (k, r) =>
               if bytes_eqb k key_nano then
                 match rd_int r with
                 | Some (z, r') => dec_map fuel' (n - 1)%Z r' (z, snd cur)
                 | None => DNil
                 end
               else if bytes_eqb k key_id then
                 match rd_str r with
                 | Some (s, r') => dec_map fuel' (n - 1)%Z r' (fst cur, s)
                 | None => DNil
                 end
               else match skip_vals (S (length r)) 1 r with
                    | Some r' => dec_map fuel' (n - 1)%Z r' cur
                    | None => DNil
                    end
           end
       end.

Definition dec_array (n : Z) (b : bytes) : dec :=
  if (n <=? 0)%Z then DCur zero_cursor
  else match rd_int b with
       | None => DNil
       | Some (z, r) =>
           if (n =? 1)%Z then DCur (z, [])
           else match rd_str r with
                | None => DNil
                | Some (s, r') =>
                    if (n =? 2)%Z then DCur (z, s)
                    else match skip_vals (S (length r')) (n - 2)%Z r' with
                         | Some _ => DCur (z, s)
                         | None => DNil
                         end
                end
       end.

Definition mp_decode_tb (b : bytes) : dec :=
  match b with
  | [] => DNil
  | c :: r =>
      if (c =? 192)%N then DCur zero_cursor
      else if (128 <=? c)%N && (c <=? 143)%N then dec_map (S (length r)) (Z.of_N (c - 128)) r zero_cursor
      else if (c =? 222)%N then
        match rd_be 2 r with Some (n, r') => dec_map (S (length r')) n r' zero_cursor | None => DNil end
      else if (c =? 223)%N then
        match rd_be 4 r with Some (n, r') => dec_map (S (length r')) n r' zero_cursor | None => DNil end
      else if (144 <=? c)%N && (c <=? 159)%N then dec_array (Z.of_N (c - 144)) r
      else if (c =? 220)%N then
        match rd_be 2 r with Some (n, r') => dec_array n r' | None => DNil end
      else if (c =? 221)%N then
        match rd_be 4 r with Some (n, r') => dec_array n r' | None => DNil end
      else DNil
  end.

Definition mp_encode_tb (c : tcursor) : bytes :=
  (130 :: 164 :: key_nano)%N ++ mp_encode_int (fst c) ++ (162 :: key_id)%N ++ mp_encode_str (snd c).

(** SerializeCursor(TimeBasedCursor{...}) *)
Definition tb_encode (c : tcursor) : bytes := b64_encode (mp_encode_tb c).

(** DeserializeCursor(reflect.TypeOf(TimeBasedCursor{}), s) *)
Definition tb_decode (s : bytes) : dec :=
  match b64_decode s with
  | None => DNil
  | Some b => mp_decode_tb b
  end.

(** what SerializeCursor encodes faithfully: an int64, an id shorter than 2^32 made of bytes *)
Definition wire_ok (c : tcursor) : Prop :=
  (- 2 ^ 63 <= fst c < 2 ^ 63)%Z /\ (Z.of_nat (length (snd c)) < 2 ^ 32)%Z /\ Forall (fun x => (x < 256)%N) (snd c).

(** ** the resolver's treatment of the [after] / [before] argument strings
    ([None] = argument omitted; [""] counts as absent; outer [None] = outside the modelled decoder) *)
Definition arg_of_wire (s : option bytes) : option cursor_arg :=
  match s with
  | None => Some CAbsent
  | Some [] => Some CAbsent
  | Some w => match tb_decode w with
              | DOut => None
              | DNil => Some CInvalid
              | DCur c => Some (CCursor c)
              end
  end.

(** ** the client loop of [TimeModel.walk_fwd] / [walk_bwd], with the cursors as the strings that
    travel: pageInfo.endCursor is [tb_encode], the next request's [after] goes through
    [arg_of_wire] *)
Section WireWalk.
  Variable g : query -> list edge.

  Fixpoint walk_fwd_wire (fuel : nat) (ps : nat -> pres) (n : Z) (from to : option Z) (after : option bytes) : walk_result :=
    match fuel with
    | O => WOutOfFuel
    | S fuel' =>
        match arg_of_wire after with
        | None => WFailed
        | Some aft =>
            match fst (conn current g ps true (fwd_args n from to aft)) with
            | OPage es (Some info) =>
                if has_next info then
                  match end_c info with
                  | Some c => match walk_fwd_wire fuel' ps n from to (Some (tb_encode c)) with
                              | WDone rest => WDone (es ++ rest)
                              | r => r
                              end
                  | None => WFailed
                  end
                else WDone es
            | _ => WFailed
            end
        end
    end.

  Fixpoint walk_bwd_wire (fuel : nat) (ps : nat -> pres) (n : Z) (from to : option Z) (before : option bytes) : walk_result :=
    match fuel with
    | O => WOutOfFuel
    | S fuel' =>
        match arg_of_wire before with
        | None => WFailed
        | Some bef =>
            match fst (conn current g ps true (bwd_args n from to bef)) with
            | OPage es (Some info) =>
                if has_prev info then
                  match start_c info with
                  | Some c => match walk_bwd_wire fuel' ps n from to (Some (tb_encode c)) with
                              | WDone rest => WDone (rest ++ es)
                              | r => r
                              end
                  | None => WFailed
                  end
                else WDone es
            | _ => WFailed
            end
        end
    end.
End WireWalk.
