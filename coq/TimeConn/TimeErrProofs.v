(** * TimeConn/TimeErrProofs.v — failing getters, totalCount, the order in which promises resolve (C16, stage B) *)
From Coq Require Import List NArith ZArith Bool Lia Permutation.
From ApiFu Require Import Base.Sexp TimeConn.TimeModel TimeConn.TimeSpec TimeConn.TimeProofs TimeConn.TimeErrModel.
Import ListNotations.
Open Scope Z_scope.

(** ** The loop and [join], characterised *)

Definition hand (ps : nat -> xpres) : nat -> pres := fun i => xp (ps i).

(** the promises of the loop, in issue order *)
Fixpoint xprs (g : query -> list edge) (ps : nat -> xpres) (i : nat) (qs : list query) : list presult :=
  match qs with
  | [] => []
  | q :: qs' => if by_promise (xp (ps i)) then promised (ps i) (g q) :: xprs g ps (S i) qs'
                else xprs g ps (S i) qs'
  end.

(** no call answers with a non-slice value (those have their own theorems below) *)
Definition no_bad (ps : nat -> xpres) : Prop := forall j, xerr (ps j) <> BadValue.

Lemma xcollect_sync_err g ps qs : no_bad ps -> forall i id n,
  first_sync_err ps i qs = Some (id, n) -> xcollect true g ps i qs = CErr id n.
Proof.
  intro Hnb. induction qs as [|q qs IH]; intros i id n H; [discriminate|].
  cbn [first_sync_err] in H. cbn [xcollect]. unfold fails_sync in H.
  destruct (by_promise (xp (ps i))) eqn:Hp.
  - rewrite (IH _ _ _ H). reflexivity.
  - pose proof (Hnb i) as Hb. destruct (xerr (ps i)) eqn:He.
    + rewrite (IH _ _ _ H). reflexivity.
    + inversion H. reflexivity.
    + rewrite (IH _ _ _ H). reflexivity.
    + congruence.
Qed.

Lemma xcollect_no_sync_err g ps qs : no_bad ps -> forall i,
  first_sync_err ps i qs = None ->
  xcollect true g ps i qs = COk (fst (collect g (hand ps) i qs)) (xprs g ps i qs).
Proof.
  intro Hnb. induction qs as [|q qs IH]; intros i H; [reflexivity|]. pose proof (Hnb i) as Hb.
  cbn [first_sync_err] in H. cbn [xcollect collect xprs]. unfold fails_sync in H. change (hand ps i) with (xp (ps i)).
  destruct (collect g (hand ps) (S i) qs) as [es prs] eqn:Hc.
  destruct (by_promise (xp (ps i))) eqn:Hp.
  - rewrite (IH _ H), Hc. reflexivity.
  - destruct (xerr (ps i)) eqn:He; try discriminate; try congruence;
      rewrite (IH _ H), Hc; cbn [fst]; destruct (present (xp (ps i)) (g q)); reflexivity.
Qed.

Lemma first_perr_xprs g ps qs : forall i, first_perr (xprs g ps i qs) = first_promise_err ps i qs.
Proof.
  induction qs as [|q qs IH]; intro i; [reflexivity|].
  cbn [xprs first_promise_err]. unfold fails_promise, promised.
  destruct (by_promise (xp (ps i))); [|apply IH].
  destruct (xerr (ps i)); cbn [first_perr]; try apply IH. reflexivity.
Qed.

Lemma has_pbad_xprs g ps qs : no_bad ps -> forall i, has_pbad (xprs g ps i qs) = false.
Proof.
  intro Hnb. induction qs as [|q qs IH]; intro i; [reflexivity|].
  cbn [xprs]. destruct (by_promise (xp (ps i))); [|apply IH].
  unfold has_pbad in *. cbn [existsb]. rewrite IH. unfold promised.
  pose proof (Hnb i). destruct (xerr (ps i)); try reflexivity. congruence.
Qed.

Lemma xprs_no_promise_err g ps qs : no_bad ps -> forall i,
  first_promise_err ps i qs = None ->
  xprs g ps i qs = map PVal (snd (collect g (hand ps) i qs)).
Proof.
  intro Hnb. induction qs as [|q qs IH]; intros i H; [reflexivity|]. pose proof (Hnb i) as Hb.
  cbn [first_promise_err] in H. cbn [xprs collect]. unfold fails_promise, promised in *. change (hand ps i) with (xp (ps i)).
  destruct (collect g (hand ps) (S i) qs) as [es prs] eqn:Hc.
  destruct (by_promise (xp (ps i))) eqn:Hp.
  - destruct (xerr (ps i)) eqn:He; try discriminate; try congruence; rewrite (IH _ H), Hc; reflexivity.
  - rewrite (IH _ H), Hc. cbn [snd]. destruct (present (xp (ps i)) (g q)); reflexivity.
Qed.

Lemma first_perr_vals l : first_perr (map PVal l) = None.
Proof. induction l; [reflexivity | exact IHl]. Qed.
Lemma pvals_vals l : pvals (map PVal l) = l.
Proof. induction l as [|x l IH]; [reflexivity|]. unfold pvals in *. cbn. f_equal. exact IH. Qed.

Definition lift_res (r : option (list edge)) : xres :=
  match r with Some l => XROk l | None => XRPanic end.

(** the whole fetch: a failing call decides the result as [winner] says; otherwise the adapter
    computes what the error-free transcription computes *)
Theorem xresolve_winner V g ps qs : no_bad ps ->
  xresolve V true g ps qs =
  match winner ps qs with
  | Some (id, n) => (XRErr id, n)
  | None => (lift_res (resolve_edges V g (hand ps) qs), length qs)
  end.
Proof.
  intro Hnb. unfold xresolve, winner.
  destruct (first_sync_err ps 0 qs) as [[id n]|] eqn:Hs.
  - rewrite (xcollect_sync_err g ps qs Hnb 0%nat id n Hs). reflexivity.
  - rewrite (xcollect_no_sync_err g ps qs Hnb 0%nat Hs).
    pose proof (first_perr_xprs g ps qs 0%nat) as Hf.
    pose proof (has_pbad_xprs g ps qs Hnb 0%nat) as Hbad.
    destruct (first_promise_err ps 0 qs) as [id|] eqn:Hp.
    + destruct (xprs g ps 0 qs) as [|r prs]; [discriminate|]. rewrite Hf. reflexivity.
    + rewrite (xprs_no_promise_err g ps qs Hnb 0%nat Hp) in *. unfold resolve_edges.
      destruct (collect g (hand ps) 0 qs) as [es prs]. cbn [fst snd] in *.
      destruct prs as [|r prs]; [reflexivity|].
      cbn [map] in *. change (PVal r :: map PVal prs) with (map PVal (r :: prs)) in *.
      rewrite first_perr_vals, pvals_vals, Hbad. reflexivity.
Qed.

(** ** The connection field *)

Definition lazy_of (a : args) : bool := (limit_of a =? 1) || (limit_of a =? -1).
(** the request makes the connection fetch edges at all *)
Definition fetches (s : sel) (a : args) : bool := negb (lazy_of a && negb (want_info s)).

Definition total_err_of (s : sel) (tc : tcres) : list ferr :=
  if want_total s then match tc with TCErr id => [ETotal id] | TCVal _ => [] end else [].
Definition total_of (s : sel) (tc : tcres) : option Z :=
  if want_total s then match tc with TCVal n => Some n | TCErr _ => None end else None.
Definition tc_calls_of (s : sel) : nat := if want_total s then 1%nat else O.

(** what [totalCount] adds to the outcome of the error-free transcription *)
Definition with_total (s : sel) (tc : tcres) (r : outcome * list query) : xoutcome * list query * option nat :=
  match fst r with
  | OError => (XArgError, [], Some O)
  | OPanic => (XPanic, snd r, None)
  | OPage es info =>
      match total_err_of s tc with
      | [] => (XPage es info (total_of s tc), snd r, Some (tc_calls_of s))
      | errs => (XFieldError errs, snd r, Some (tc_calls_of s))
      end
  end.

(** no issued call fails: the connection is the error-free transcription plus totalCount *)
Theorem xconn_no_failure V g ps s tc a : no_bad ps ->
  winner ps (range_queries V (cur_of (a_after a)) (cur_of (a_before a)) (a_from a) (a_to a) (limit_of a)) = None ->
  xconn V true g ps s tc a = with_total s tc (conn V g (hand ps) (want_info s) a).
Proof.
  intros Hnb Hw. unfold xconn, conn, with_total.
  destruct (arg_error a); [reflexivity|].
  fold (lazy_of a). fold (total_err_of s tc) (total_of s tc) (tc_calls_of s).
  destruct (lazy_of a && negb (want_info s)) eqn:Hl.
  - cbn [fst snd]. destruct (total_err_of s tc); reflexivity.
  - rewrite xresolve_winner by exact Hnb. rewrite Hw.
    destruct (resolve_edges V g (hand ps) _) as [fetched|]; cbn [lift_res fst snd]; [|reflexivity].
    destruct (edges_to_return _ _ _ _ fetched) as [es info]. cbn [fst snd].
    destruct (total_err_of s tc); reflexivity.
Qed.

(** an issued call fails: the field is null with exactly the error [winner] names, only the
    queries up to a synchronous failure were issued, and there is no page *)
Theorem xconn_failure V g ps s tc a id n : no_bad ps ->
  arg_error a = false -> fetches s a = true ->
  winner ps (range_queries V (cur_of (a_after a)) (cur_of (a_before a)) (a_from a) (a_to a) (limit_of a)) = Some (id, n) ->
  exists more tcn,
    xconn V true g ps s tc a
    = (XFieldError (EGetter id :: more),
       firstn n (range_queries V (cur_of (a_after a)) (cur_of (a_before a)) (a_from a) (a_to a) (limit_of a)), tcn)
    /\ more = (if lazy_of a then total_err_of s tc else [])
    /\ (lazy_of a = false -> tcn = Some O).
Proof.
  intros Hnb Ha Hf Hw. unfold xconn. rewrite Ha.
  fold (lazy_of a). fold (total_err_of s tc).
  unfold fetches in Hf. apply negb_true_iff in Hf. rewrite Hf.
  rewrite xresolve_winner by exact Hnb. rewrite Hw.
  eexists. eexists. split; [reflexivity|]. split; [reflexivity|].
  intro Hl. rewrite Hl. reflexivity.
Qed.

(** ** [winner] says what one expects *)

Lemma first_sync_err_bound ps qs : forall i id n,
  first_sync_err ps i qs = Some (id, n) ->
  (i < n <= i + length qs)%nat /\ fails_sync (ps (n - 1)%nat) = Some id
  /\ forall j, (i <= j < n - 1)%nat -> fails_sync (ps j) = None.
Proof.
  induction qs as [|q qs IH]; intros i id n H; [discriminate|].
  cbn [first_sync_err] in H. destruct (fails_sync (ps i)) as [id'|] eqn:Hf.
  - inversion H; subst. cbn [length]. replace (S i - 1)%nat with i by lia.
    split; [lia|]. split; [exact Hf|]. intros j Hj. lia.
  - destruct (IH _ _ _ H) as [Hb [Hn Hj]]. cbn [length]. split; [lia|]. split; [exact Hn|].
    intros j Hjj. destruct (Nat.eq_dec j i) as [->|Hne]; [exact Hf|]. apply Hj. lia.
Qed.

Lemma first_sync_err_none ps qs : forall i,
  first_sync_err ps i qs = None -> forall j, (i <= j < i + length qs)%nat -> fails_sync (ps j) = None.
Proof.
  induction qs as [|q qs IH]; intros i H j Hj; [cbn in Hj; lia|].
  cbn [first_sync_err] in H. destruct (fails_sync (ps i)) eqn:Hf; [discriminate|].
  destruct (Nat.eq_dec j i) as [->|Hne]; [exact Hf|]. apply (IH _ H). cbn [length] in Hj. lia.
Qed.

Lemma first_promise_err_some ps qs : forall i id,
  first_promise_err ps i qs = Some id ->
  exists k, (i <= k < i + length qs)%nat /\ fails_promise (ps k) = Some id
            /\ forall j, (i <= j < k)%nat -> fails_promise (ps j) = None.
Proof.
  induction qs as [|q qs IH]; intros i id H; [discriminate|].
  cbn [first_promise_err] in H. destruct (fails_promise (ps i)) as [id'|] eqn:Hf.
  - inversion H; subst. exists i. cbn [length]. split; [lia|]. split; [exact Hf|]. intros; lia.
  - destruct (IH _ _ H) as [k [Hk [Hfk Hj]]]. exists k. cbn [length]. split; [lia|]. split; [exact Hfk|].
    intros j Hjj. destruct (Nat.eq_dec j i) as [->|Hne]; [exact Hf|]. apply Hj. lia.
Qed.

Lemma first_promise_err_none ps qs : forall i,
  first_promise_err ps i qs = None -> forall j, (i <= j < i + length qs)%nat -> fails_promise (ps j) = None.
Proof.
  induction qs as [|q qs IH]; intros i H j Hj; [cbn in Hj; lia|].
  cbn [first_promise_err] in H. destruct (fails_promise (ps i)) eqn:Hf; [discriminate|].
  destruct (Nat.eq_dec j i) as [->|Hne]; [exact Hf|]. apply (IH _ H). cbn [length] in Hj. lia.
Qed.

Definition call_fails (p : xpres) : option Z := match xerr p with Err id => Some id | _ => None end.

Lemma call_fails_split p :
  call_fails p = if by_promise (xp p) then fails_promise p else fails_sync p.
Proof. unfold call_fails, fails_promise, fails_sync. destruct (by_promise (xp p)); reflexivity. Qed.

(** the winner is an error that an ISSUED call really raised; a synchronous one if any issued
    synchronous call fails (then the first of them, and nothing is issued after it), otherwise
    the first failing promise in issue order *)
Theorem winner_sound ps qs id n :
  winner ps qs = Some (id, n) ->
  (n <= length qs)%nat /\
  exists k, (k < n)%nat /\ call_fails (ps k) = Some id /\
    ((by_promise (xp (ps k)) = false /\ n = S k /\ forall j, (j < k)%nat -> fails_sync (ps j) = None)
     \/ (by_promise (xp (ps k)) = true /\ n = length qs
         /\ (forall j, (j < n)%nat -> fails_sync (ps j) = None)
         /\ forall j, (j < k)%nat -> fails_promise (ps j) = None)).
Proof.
  unfold winner. destruct (first_sync_err ps 0 qs) as [[id' n']|] eqn:Hs.
  - intro H. inversion H; subst.
    destruct (first_sync_err_bound ps qs _ _ _ Hs) as [Hb [Hn Hj]].
    split; [lia|]. exists (n - 1)%nat. split; [lia|].
    assert (Hbp : by_promise (xp (ps (n - 1)%nat)) = false).
    { unfold fails_sync in Hn. destruct (by_promise _); [discriminate | reflexivity]. }
    split; [rewrite call_fails_split, Hbp; exact Hn|].
    left. split; [exact Hbp|]. split; [lia|]. intros j Hjj. apply Hj. lia.
  - destruct (first_promise_err ps 0 qs) as [id'|] eqn:Hp; [|discriminate].
    intro H. inversion H; subst.
    destruct (first_promise_err_some ps qs _ _ Hp) as [k [Hk [Hfk Hj]]].
    split; [lia|]. exists k. split; [lia|].
    assert (Hbp : by_promise (xp (ps k)) = true).
    { unfold fails_promise in Hfk. destruct (by_promise _); [reflexivity | discriminate]. }
    split; [rewrite call_fails_split, Hbp; exact Hfk|].
    right. split; [exact Hbp|]. split; [reflexivity|]. split.
    + intros j Hjj. apply (first_sync_err_none ps qs _ Hs). lia.
    + intros j Hjj. apply Hj. lia.
Qed.

(** ... and there is a winner as soon as one of the calls that would be issued fails *)
Theorem winner_complete ps qs :
  winner ps qs = None -> forall j, (j < length qs)%nat -> call_fails (ps j) = None.
Proof.
  unfold winner. intros H j Hj.
  destruct (first_sync_err ps 0 qs) as [[? ?]|] eqn:Hs; [discriminate|].
  destruct (first_promise_err ps 0 qs) eqn:Hp; [discriminate|].
  rewrite call_fails_split. destruct (by_promise (xp (ps j))).
  - apply (first_promise_err_none ps qs _ Hp). lia.
  - apply (first_sync_err_none ps qs _ Hs). lia.
Qed.

(** ** The statements closed in Properties/C16.v *)

(** a page is returned only if no issued call failed: no partial page *)
Theorem xconn_page_no_failure g ps s tc a es info total issued tcn : no_bad ps ->
  xconn current true g ps s tc a = (XPage es info total, issued, tcn) ->
  forall j, (j < length issued)%nat -> call_fails (ps j) = None.
Proof.
  intros Hnb H j Hj.
  destruct (arg_error a) eqn:Ha; [unfold xconn in H; rewrite Ha in H; discriminate|].
  destruct (fetches s a) eqn:Hf.
  - fold (queries_of a) in *.
    destruct (winner ps (queries_of a)) as [[id n]|] eqn:Hw.
    + destruct (xconn_failure current g ps s tc a id n Hnb Ha Hf Hw) as [more [tcn' [Hx _]]].
      rewrite Hx in H. discriminate.
    + rewrite (xconn_no_failure current g ps s tc a Hnb Hw) in H.
      apply (winner_complete ps (queries_of a) Hw).
      unfold with_total in H.
      destruct (conn current g (hand ps) (want_info s) a) as [o qs'] eqn:Hc. cbn [fst snd] in H.
      assert (Hqs : qs' = queries_of a \/ qs' = []).
      { unfold conn in Hc. rewrite Ha in Hc.
        destruct (_ && negb (want_info s)); [inversion Hc; right; reflexivity|].
        fold (queries_of a) in Hc.
        destruct (resolve_edges current g (hand ps) (queries_of a)); [|inversion Hc; left; reflexivity].
        destruct (edges_to_return _ _ _ _ l). inversion Hc. left. reflexivity. }
      destruct o; try discriminate.
      destruct (total_err_of s tc); [|discriminate]. inversion H; subst.
      destruct Hqs as [->| ->]; [exact Hj | cbn in Hj; lia].
  - unfold xconn in H. rewrite Ha in H. unfold fetches in Hf. apply negb_false_iff in Hf.
    fold (lazy_of a) in H. rewrite Hf in H.
    destruct (if want_total s then _ else _); inversion H; subst; cbn in Hj; lia.
Qed.

(** the full result for honouring getters: page = TimeRef, page info exact, totalCount = the
    application's answer, one ResolveTotalCount call iff selected; any mixture of hand-overs *)
Theorem xconn_result E g ps s tc a :
  honours g E -> NoDup E -> representable E -> args_ok a = true ->
  no_bad ps -> (forall j, call_fails (ps j) = None) ->
  match total_err_of s tc with
  | [] => exists info, fst (fst (xconn current true g ps s tc a)) = XPage (TimeRef E a) info (total_of s tc)
                       /\ snd (xconn current true g ps s tc a) = Some (tc_calls_of s)
  | errs => fst (fst (xconn current true g ps s tc a)) = XFieldError errs
  end.
Proof.
  intros Hg HE HR Hok Hnb Hq.
  assert (Hw : winner ps (queries_of a) = None).
  { unfold winner.
    destruct (first_sync_err ps 0 (queries_of a)) as [[id n]|] eqn:Hs.
    - destruct (first_sync_err_bound _ _ _ _ _ Hs) as [_ [Hn _]].
      specialize (Hq (n - 1)%nat). rewrite call_fails_split in Hq.
      pose proof Hn as Hn'. unfold fails_sync in Hn'.
      destruct (by_promise (xp (ps (n - 1)%nat))); [discriminate Hn' | congruence].
    - destruct (first_promise_err ps 0 (queries_of a)) as [id|] eqn:Hp; [|reflexivity].
      destruct (first_promise_err_some _ _ _ _ Hp) as [k [_ [Hk _]]].
      specialize (Hq k). rewrite call_fails_split in Hq.
      pose proof Hk as Hk'. unfold fails_promise in Hk'.
      destruct (by_promise (xp (ps k))); [congruence | discriminate Hk']. }
  rewrite (xconn_no_failure current g ps s tc a Hnb Hw). unfold with_total.
  destruct (time_result_eq E g Hg HE HR (hand ps) a (want_info s) Hok) as [info Hc].
  rewrite Hc. destruct (total_err_of s tc); [|reflexivity].
  exists info. split; reflexivity.
Qed.

(** before the fourth repair: a typed nil error returned synchronously fails the field with a
    made-up error, the same answer through a promise yields the page *)
Definition typed_nil_sync : nat -> xpres := fun _ => {| xp := sync_pres; xerr := TypedNilErr |}.
Definition typed_nil_promise : nat -> xpres :=
  fun _ => {| xp := {| by_promise := true; nil_when_empty := false |}; xerr := TypedNilErr |}.
Definition s_info : sel := {| want_info := true; want_total := false |}.

Theorem typed_nil_error_refuted_before_fix :
  exists E g a,
    honours g E /\ NoDup E /\ representable E /\ args_ok a = true /\
    fst (fst (xconn current false g typed_nil_sync s_info (TCVal 0) a)) = XFieldError [EBogus] /\
    (exists info, fst (fst (xconn current false g typed_nil_promise s_info (TCVal 0) a)) = XPage (TimeRef E a) (Some info) None) /\
    (exists info, fst (fst (xconn current true g typed_nil_sync s_info (TCVal 0) a)) = XPage (TimeRef E a) (Some info) None).
Proof.
  exists E20, (g_exact E20), a20.
  split; [apply g_exact_honours, E20_NoDup|]. split; [exact E20_NoDup|]. split; [exact E20_representable|].
  split; [reflexivity|]. split; [vm_compute; reflexivity|].
  split; eexists; vm_compute; reflexivity.
Qed.

(** ** The order in which the promises resolve does not matter *)

Lemma firstn_S_nth {A} (l : list A) k x : nth_error l k = Some x -> firstn (S k) l = firstn k l ++ [x].
Proof.
  revert k. induction l as [|y l IH]; intros [|k] H; try discriminate.
  - inversion H. reflexivity.
  - cbn [nth_error] in H. change (y :: firstn (S k) l = (y :: firstn k l) ++ [x]).
    rewrite (IH _ H). reflexivity.
Qed.

Lemma first_perr_app a b : first_perr (a ++ b) = match first_perr a with Some id => Some id | None => first_perr b end.
Proof. induction a as [|[r|id|] a IH]; cbn; auto. Qed.
Lemma pvals_app a b : pvals (a ++ b) = pvals a ++ pvals b.
Proof. unfold pvals. apply flat_map_app. Qed.

(** the goroutine's state is always "as far as the deliveries so far allow" *)
Definition jinv (prs : list presult) (mail : list nat) (st : jstate) : Prop :=
  match st with
  | JWait k acc => (k < length prs)%nat /\ existsb (Nat.eqb k) mail = false
                   /\ first_perr (firstn k prs) = None /\ acc = pvals (firstn k prs)
  | JErr id => first_perr prs = Some id
  | JDone vals => first_perr prs = None /\ vals = pvals prs
  end.

Lemma jadvance_inv prs mail : forall fuel k acc,
  (length prs < fuel + k)%nat -> (k <= length prs)%nat ->
  first_perr (firstn k prs) = None -> acc = pvals (firstn k prs) ->
  jinv prs mail (jadvance fuel prs mail k acc).
Proof.
  induction fuel as [|fuel IH]; intros k acc Hf Hk Hn Hacc; [cbn in Hf; lia|].
  cbn [jadvance]. destruct (nth_error prs k) as [r|] eqn:Hnth.
  - assert (Hlt : (k < length prs)%nat) by (apply nth_error_Some; congruence).
    destruct (existsb (Nat.eqb k) mail) eqn:Hm.
    + pose proof (firstn_S_nth prs k r Hnth) as HS.
      destruct r as [v|id|].
      * apply IH; [lia | lia | |].
        -- rewrite HS, first_perr_app, Hn. reflexivity.
        -- rewrite HS, pvals_app, Hacc. reflexivity.
      * cbn [jinv].
        rewrite <- (firstn_skipn (S k) prs), first_perr_app, HS, first_perr_app, Hn. reflexivity.
      * apply IH; [lia | lia | |].
        -- rewrite HS, first_perr_app, Hn. reflexivity.
        -- rewrite HS, pvals_app, Hacc. cbn. rewrite app_nil_r. reflexivity.
    + cbn [jinv]. auto.
  - apply nth_error_None in Hnth. assert (k = length prs) by lia. subst k.
    rewrite firstn_all in *. cbn [jinv]. auto.
Qed.

Lemma existsb_eqb_cons k i mail : existsb (Nat.eqb k) mail = true -> existsb (Nat.eqb k) (i :: mail) = true.
Proof. intro H. cbn. rewrite H. apply orb_true_r. Qed.

Lemma jrun_inv prs : forall sched mail st,
  jinv prs mail st -> jinv prs (rev sched ++ mail) (jrun prs mail st sched).
Proof.
  induction sched as [|i sched IH]; intros mail st H; [exact H|].
  cbn [jrun rev]. rewrite <- app_assoc. cbn [app].
  destruct st as [k acc|id|vals]; apply IH; [|exact H|exact H].
  destruct H as [Hk [_ [Hn Hacc]]].
  apply jadvance_inv; [lia | lia | exact Hn | exact Hacc].
Qed.

(** whatever the order of arrival — once every promise has resolved, [join] has produced the
    error of the first failing promise IN ISSUE ORDER, or all values in issue order *)
Theorem join_schedule_independent prs sched :
  (forall k, (k < length prs)%nat -> In k sched) ->
  join_sched prs sched =
  match first_perr prs with Some id => JErr id | None => JDone (pvals prs) end.
Proof.
  intro Hall. unfold join_sched.
  assert (H0 : jinv prs [] (jadvance (S (length prs)) prs [] 0 [])).
  { apply jadvance_inv; [lia | lia | reflexivity | reflexivity]. }
  pose proof (jrun_inv prs sched [] _ H0) as H. rewrite app_nil_r in H.
  destruct (jrun prs [] _ sched) as [k acc|id|vals]; cbn [jinv] in H.
  - destruct H as [Hk [Hm _]]. exfalso.
    assert (Hin : In k (rev sched)) by (apply in_rev; rewrite rev_involutive; apply Hall, Hk).
    assert (existsb (Nat.eqb k) (rev sched) = true).
    { apply existsb_exists. exists k. split; [exact Hin | apply Nat.eqb_refl]. }
    congruence.
  - rewrite H. reflexivity.
  - destruct H as [H1 H2]. rewrite H1, H2. reflexivity.
Qed.

(** an early error does not even wait for the later promises *)
Theorem join_error_needs_only_prefix prs sched k id :
  nth_error prs k = Some (PErr id) -> first_perr (firstn k prs) = None ->
  (forall j, (j <= k)%nat -> In j sched) ->
  join_sched prs sched = JErr id.
Proof.
  intros Hnth Hn Hall. unfold join_sched.
  assert (H0 : jinv prs [] (jadvance (S (length prs)) prs [] 0 [])).
  { apply jadvance_inv; [lia | lia | reflexivity | reflexivity]. }
  pose proof (jrun_inv prs sched [] _ H0) as H. rewrite app_nil_r in H.
  assert (Hfirst : first_perr prs = Some id).
  { rewrite <- (firstn_skipn (S k) prs), first_perr_app, (firstn_S_nth prs k _ Hnth), first_perr_app, Hn. reflexivity. }
  assert (Hklt : (k < length prs)%nat) by (apply nth_error_Some; congruence).
  destruct (jrun prs [] _ sched) as [k' acc|id'|vals]; cbn [jinv] in H.
  - destruct H as [Hk' [Hm [Hn' _]]]. exfalso.
    assert (Hle : (k' <= k)%nat).
    { destruct (Nat.le_gt_cases k' k) as [|Hgt]; [assumption|]. exfalso.
      assert (Hsk : (S k <= k')%nat) by lia.
      rewrite <- (firstn_skipn (S k) (firstn k' prs)) in Hn'.
      rewrite firstn_firstn, Nat.min_l in Hn' by lia.
      rewrite first_perr_app, (firstn_S_nth prs k _ Hnth), first_perr_app, Hn in Hn'. discriminate. }
    assert (Hin : In k' (rev sched)) by (apply in_rev; rewrite rev_involutive; apply Hall, Hle).
    assert (existsb (Nat.eqb k') (rev sched) = true).
    { apply existsb_exists. exists k'. split; [exact Hin | apply Nat.eqb_refl]. }
    congruence.
  - congruence.
  - destruct H as [H1 _]. congruence.
Qed.

(** ** Answers that are neither nil nor a slice (fifth repair) *)

Lemma xcollect_no_real_err g ps qs : (forall j, call_fails (ps j) = None) -> forall i,
  (exists n, xcollect true g ps i qs = CNonSlice n)
  \/ (exists es prs, xcollect true g ps i qs = COk es prs /\ first_perr prs = None).
Proof.
  intro Hq. induction qs as [|q qs IH]; intro i.
  - right. exists [], []. split; reflexivity.
  - cbn [xcollect]. pose proof (Hq i) as Hi. unfold call_fails in Hi.
    destruct (IH (S i)) as [[n Hn]|[es [prs [Hc Hf]]]].
    + destruct (by_promise (xp (ps i))).
      * rewrite Hn. left. exists n. reflexivity.
      * destruct (xerr (ps i)); try discriminate; rewrite ?Hn; left; eexists; reflexivity.
    + destruct (by_promise (xp (ps i))).
      * rewrite Hc. right. exists es, (promised (ps i) (g q) :: prs). split; [reflexivity|].
        unfold promised. destruct (xerr (ps i)); try discriminate; cbn [first_perr]; exact Hf.
      * destruct (xerr (ps i)); try discriminate; rewrite ?Hc.
        -- right. destruct (present (xp (ps i)) (g q)); eexists; eexists; split; try reflexivity; exact Hf.
        -- right. destruct (present (xp (ps i)) (g q)); eexists; eexists; split; try reflexivity; exact Hf.
        -- left. eexists. reflexivity.
Qed.

Lemma xcollect_bad g ps qs : (forall j, call_fails (ps j) = None) -> forall i,
  (exists k, (i <= k < i + length qs)%nat /\ xerr (ps k) = BadValue) ->
  (exists n, xcollect true g ps i qs = CNonSlice n)
  \/ (exists es prs, xcollect true g ps i qs = COk es prs /\ first_perr prs = None /\ has_pbad prs = true).
Proof.
  intro Hq. induction qs as [|q qs IH]; intros i [k [Hk Hb]]; [cbn in Hk; lia|].
  cbn [xcollect]. pose proof (Hq i) as Hi. unfold call_fails in Hi.
  destruct (Nat.eq_dec k i) as [->|Hne].
  - (* this call answers the bad value *)
    rewrite Hb. destruct (by_promise (xp (ps i))).
    + destruct (xcollect_no_real_err g ps qs Hq (S i)) as [[n Hn]|[es [prs [Hc Hf]]]]; rewrite ?Hn, ?Hc.
      * left. eexists. reflexivity.
      * right. exists es, (promised (ps i) (g q) :: prs). split; [reflexivity|].
        unfold promised. rewrite Hb. cbn [first_perr]. split; [exact Hf | reflexivity].
    + left. eexists. reflexivity.
  - destruct (IH (S i)) as [[n Hn]|[es [prs [Hc [Hf Hp]]]]].
    { exists k. split; [cbn [length] in Hk; lia | exact Hb]. }
    + destruct (by_promise (xp (ps i))).
      * rewrite Hn. left. eexists. reflexivity.
      * destruct (xerr (ps i)); try discriminate; rewrite ?Hn; left; eexists; reflexivity.
    + destruct (by_promise (xp (ps i))).
      * rewrite Hc. right. exists es, (promised (ps i) (g q) :: prs). split; [reflexivity|].
        unfold promised, has_pbad in *. destruct (xerr (ps i)); try discriminate; cbn [first_perr existsb];
          rewrite ?Hp, ?orb_true_r; split; try exact Hf; reflexivity.
      * destruct (xerr (ps i)); try discriminate; rewrite ?Hc.
        -- right. destruct (present (xp (ps i)) (g q)); eexists; eexists; (split; [reflexivity | split; assumption]).
        -- right. destruct (present (xp (ps i)) (g q)); eexists; eexists; (split; [reflexivity | split; assumption]).
        -- left. eexists. reflexivity.
Qed.

(** a non-slice answer of a call that is issued, no real error anywhere: the field is null with
    the "non-slice" error — no page, no crash *)
Theorem xconn_bad_value V g ps s tc a k :
  arg_error a = false -> fetches s a = true ->
  (forall j, call_fails (ps j) = None) ->
  (k < length (range_queries V (cur_of (a_after a)) (cur_of (a_before a)) (a_from a) (a_to a) (limit_of a)))%nat ->
  xerr (ps k) = BadValue ->
  exists more, fst (fst (xconn V true g ps s tc a)) = XFieldError (ENonSlice :: more).
Proof.
  intros Ha Hf Hq Hk Hb. unfold xconn. rewrite Ha. fold (lazy_of a).
  unfold fetches in Hf. apply negb_true_iff in Hf. rewrite Hf.
  set (qs := range_queries V _ _ _ _ _) in *.
  unfold xresolve.
  destruct (xcollect_bad g ps qs Hq 0%nat) as [[n Hn]|[es [prs [Hc [Hfp Hp]]]]].
  { exists k. split; [lia | exact Hb]. }
  - rewrite Hn. eexists. reflexivity.
  - rewrite Hc. destruct prs as [|r prs]; [discriminate|]. rewrite Hfp, Hp. eexists. reflexivity.
Qed.

(** nothing a getter can answer, and no way of handing it over, crashes the adapter any more *)
Lemma xcollect_true_no_panic g ps qs : forall i n, xcollect true g ps i qs <> CPanic n.
Proof.
  induction qs as [|q qs IH]; intros i n; [discriminate|].
  cbn [xcollect]. specialize (IH (S i)).
  destruct (by_promise (xp (ps i))).
  - destruct (xcollect true g ps (S i) qs) eqn:E; try discriminate. intro H. inversion H; subst. exact (IH _ eq_refl).
  - destruct (xerr (ps i)); try discriminate;
      (destruct (xcollect true g ps (S i) qs) eqn:E; try discriminate;
       [intro H; inversion H; subst; exact (IH _ eq_refl)
       | destruct (present (xp (ps i)) (g q)); discriminate]).
Qed.

Lemma join_part_no_panic es prs :
  (match prs with
   | [] => XROk es
   | _ :: _ => match first_perr prs with
               | Some id => XRErr id
               | None => if has_pbad prs then XRNonSlice
                         else match join_cb current es (pvals prs) with
                              | Some l => XROk l | None => XRPanic end
               end
   end) <> XRPanic.
Proof.
  destruct prs as [|p prs]; [discriminate|]. destruct (first_perr _); [discriminate|].
  destruct (has_pbad _); [discriminate|].
  rewrite (join_cb_skip current es (pvals (p :: prs)) eq_refl). discriminate.
Qed.

Theorem xconn_no_panic g ps s tc a : fst (fst (xconn current true g ps s tc a)) <> XPanic.
Proof.
  unfold xconn. destruct (arg_error a); [discriminate|].
  destruct (_ && negb (want_info s)).
  - destruct (if want_total s then _ else _); discriminate.
  - unfold xresolve.
    destruct (xcollect true g ps 0 _) as [id n|n|n|n|es prs] eqn:Hc; cbn [fst snd];
      try discriminate.
    + exfalso. exact (xcollect_true_no_panic g ps _ _ _ Hc).
    + pose proof (join_part_no_panic es prs) as Hres. cbv beta iota in Hres.
      match goal with |- context [match ?x with XRErr _ => _ | _ => _ end] => destruct x eqn:Hx end;
        try discriminate; try congruence.
      destruct (edges_to_return _ _ _ _ l). destruct (if want_total s then _ else _); discriminate.
Qed.

(** before the fifth repair: a promise resolving to a non-slice value (for example to another
    promise) ends the process, a synchronous one panics in the resolver *)
Definition bad_promise : nat -> xpres :=
  fun _ => {| xp := {| by_promise := true; nil_when_empty := false |}; xerr := BadValue |}.
Definition bad_sync : nat -> xpres := fun _ => {| xp := sync_pres; xerr := BadValue |}.

Theorem non_slice_panic_before_fix :
  exists g a,
    args_ok a = true /\
    fst (fst (xconn current false g bad_promise s_info (TCVal 0) a)) = XPanic /\
    fst (fst (xconn current false g bad_sync s_info (TCVal 0) a)) = XPanic /\
    fst (fst (xconn current true g bad_promise s_info (TCVal 0) a)) = XFieldError [ENonSlice] /\
    fst (fst (xconn current true g bad_sync s_info (TCVal 0) a)) = XFieldError [ENonSlice].
Proof.
  exists (g_exact E20), a20. split; [reflexivity|]. repeat split; vm_compute; reflexivity.
Qed.
