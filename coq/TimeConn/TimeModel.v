(** * TimeConn/TimeModel.v — transcription of the time-based connection (C16)

    Go code transcribed (api-fu):
    - pagination/pagination.go  [TimeBasedRangeQueries]            -> [range_queries]
    - pagination/pagination.go  [ApplyCursorsToEdges], [EdgesToReturn] -> [apply_cursors], [edges_to_return]
    - pagination.go             [TimeBasedCursor.LessThan], [timeBasedCursorLess] -> [cursor_ltb]
    - pagination.go             [TimeBasedConnection] (the ResolveEdges adapter, sync and promise
                                 paths) and api.go [join]          -> [collect], [join_cb], [resolve_edges]
    - pagination.go             [Connection] resolver (argument checks, cursor decoding result,
                                 limit = first+1 / -(last+1), lazy zero-edge path) and
                                 [completeConnection]               -> [conn]
    - the client loop that follows endCursor / startCursor          -> [walk_fwd], [walk_bwd]

    Times are [Z] nanoseconds since the Unix epoch ([time.Time] has a far wider range than int64
    nanoseconds, and after the third repair no int64 arithmetic is left in the code, so [Z] is
    exact).  An edge is identified with the cursor [EdgeCursor] assigns to it, (nanoseconds, id).

    No proofs in this file. *)
From Coq Require Import List NArith ZArith Bool.
From ApiFu Require Import Base.Sexp.
Import ListNotations.
Open Scope Z_scope.

(** ** Cursors and their order *)

Definition cursor := (Z * bytes)%type.          (* TimeBasedCursor{Nano int64; Id string} *)
Definition edge := cursor.
Definition nano (c : cursor) : Z := fst c.
Definition cid (c : cursor) : bytes := snd c.

(** [strings.Compare a b < 0]: bytewise lexicographic *)
Fixpoint bytes_ltb (a b : bytes) : bool :=
  match a, b with
  | [], [] => false
  | [], _ :: _ => true
  | _ :: _, [] => false
  | x :: xs, y :: ys => N.ltb x y || (N.eqb x y && bytes_ltb xs ys)
  end.

(** [TimeBasedCursor.LessThan]:
    c.Nano < other.Nano || (c.Nano == other.Nano && strings.Compare(c.Id, other.Id) < 0) *)
Definition cursor_ltb (a b : cursor) : bool :=
  (nano a <? nano b) || ((nano a =? nano b) && bytes_ltb (cid a) (cid b)).

Definition cursor_eqb (a b : cursor) : bool := (nano a =? nano b) && bytes_eqb (cid a) (cid b).

(** ** sort.Slice with [less = Cursor().LessThan]: modelled as insertion sort.  On lists without
    duplicate cursors (the only ones the property speaks about) every correct sort yields the same
    list, see [ssorted_unique] in the proofs. *)
Fixpoint insert (x : edge) (l : list edge) : list edge :=
  match l with
  | [] => [x]
  | y :: ys => if cursor_ltb y x then y :: insert x ys else x :: y :: ys
  end.
Definition sort (l : list edge) : list edge := fold_right insert [] l.

(** [edges[len(edges)-n:]] *)
Definition lastn {A} (n : nat) (l : list A) : list A := skipn (length l - n) l.

(** ** Range queries *)

Record query := mkq { q_min : Z; q_max : Z; q_limit : Z }.

(** [time.Time{}] = 0001-01-01T00:00:00Z and [distantFuture] = 3000-01-01T00:00:00Z *)
Definition zero_time : Z := -62135596800000000000.
Definition distant_future : Z := 32503680000000000000.

Definition wrap64 (x : Z) : Z := (x + 9223372036854775808) mod 18446744073709551616 - 9223372036854775808.

(** The three places where the current code differs from the pinned tree (each a [fix:] commit).
    The theorems are about [current]; [pinned] is kept for the [..._refuted_before_fix] witnesses. *)
Record version := {
  clamp_exact_queries : bool;   (* exact-timestamp queries only inside [atOrAfterTime, beforeTime) *)
  wrap_cursor_arith : bool;     (* afterTime.UnixNano()+1 / beforeTime.UnixNano()-1 in int64 *)
  skip_nil_in_join : bool       (* the join callback skips nil results like the synchronous path *)
}.
Definition current : version :=
  {| clamp_exact_queries := true; wrap_cursor_arith := false; skip_nil_in_join := true |}.
Definition pinned : version :=
  {| clamp_exact_queries := false; wrap_cursor_arith := true; skip_nil_in_join := false |}.

Section Model.
  Variable V : version.

  Definition nano_plus (t d : Z) : Z := if wrap_cursor_arith V then wrap64 (t + d) else t + d.

  (** [TimeBasedRangeQueries(after, before, atOrAfterTimeIn, beforeTimeIn, limit)] *)
  Definition range_queries (after before : option cursor) (from to : option Z) (limit : Z) : list query :=
    let at_or_after_time := match from with Some t => t | None => zero_time end in
    let before_time := match to with Some t => t | None => distant_future end in
    let min0 := at_or_after_time in
    let max0 := before_time - 1 in
    let in_time_range (t : Z) := negb (clamp_exact_queries V) || ((min0 <=? t) && (t <=? max0)) in
    let qa := match after with
              | Some a => if in_time_range (nano a) then [mkq (nano a) (nano a) 0] else []
              | None => []
              end in
    let min1 := match after with
                | Some a => let t := nano_plus (nano a) 1 in if min0 <? t then t else min0
                | None => min0
                end in
    let qb := match before with
              | Some b =>
                  if (match after with None => true | Some a => negb (nano a =? nano b) end)
                     && in_time_range (nano b)
                  then [mkq (nano b) (nano b) 0] else []
              | None => []
              end in
    let max1 := match before with
                | Some b => let t := nano_plus (nano b) (-1) in if t <? max0 then t else max0
                | None => max0
                end in
    qa ++ qb ++ [mkq min1 max1 limit].

  (** ** The adapter: per-query getter calls, concatenation, promises

      The application's [EdgeGetter] is [g]; how the i-th call hands its result over is a
      [pres]: synchronously or through a promise ([apifu.Go]), and whether an empty result is
      the untyped [nil] (a typed nil slice behaves like an empty slice on both paths). *)
  Variable g : query -> list edge.

  Record pres := { by_promise : bool; nil_when_empty : bool }.
  Inductive gresult := GNil | GSlice (l : list edge).
  Definition present (p : pres) (l : list edge) : gresult :=
    match l with
    | [] => if nil_when_empty p then GNil else GSlice []
    | _ => GSlice l
    end.

  (** the [for _, q := range queries] loop: edges appended synchronously, and the promises *)
  Fixpoint collect (ps : nat -> pres) (i : nat) (qs : list query) : list edge * list gresult :=
    match qs with
    | [] => ([], [])
    | q :: qs' =>
        let r := present (ps i) (g q) in
        let (es, prs) := collect ps (S i) qs' in
        if by_promise (ps i) then (es, r :: prs)
        else match r with
             | GNil => (es, prs)                  (* v.Kind() == reflect.Invalid: continue *)
             | GSlice l => (l ++ es, prs)
             end
    end.

  (** the callback given to [join]; [None] = [reflect.Value.Len] on the zero Value panics in
      the goroutine started by [Go] *)
  Fixpoint join_cb (edges : list edge) (vs : list gresult) : option (list edge) :=
    match vs with
    | [] => Some edges
    | GNil :: vs' => if skip_nil_in_join V then join_cb edges vs' else None
    | GSlice l :: vs' => join_cb (edges ++ l) vs'
    end.

  Definition resolve_edges (ps : nat -> pres) (qs : list query) : option (list edge) :=
    let (es, prs) := collect ps 0 qs in
    match prs with
    | [] => Some es
    | _ => join_cb es prs
    end.

  (** ** The generic connection, as far as the time-based one uses it *)

  (** [ApplyCursorsToEdges]; the [after == nil && before == nil] shortcut computes the same *)
  Definition fails_before (before : option cursor) (c : cursor) : bool :=
    match before with Some b => negb (cursor_ltb c b) | None => false end.
  Definition fails_after (after : option cursor) (c : cursor) : bool :=
    match after with Some a => negb (cursor_ltb a c) | None => false end.
  Definition apply_cursors (after before : option cursor) (edges : list edge) : list edge * bool * bool :=
    (filter (fun c => negb (fails_before before c) && negb (fails_after after c)) edges,
     existsb (fun c => negb (fails_before before c) && fails_after after c) edges,   (* hadEdgesBeforeAfter *)
     existsb (fails_before before) edges).                                           (* hadEdgesAfterBefore *)

  Record page_info := { has_prev : bool; has_next : bool; start_c : option cursor; end_c : option cursor }.

  Definition last_error {A} (l : list A) : option A := hd_error (rev l).

  (** [EdgesToReturn] *)
  Definition edges_to_return (after before : option cursor) (first last : option Z) (edges : list edge)
    : list edge * page_info :=
    let '(es, hp, hn) := apply_cursors after before edges in
    let es := sort es in
    let '(es, hn) := match first with
                     | Some f => if f <? Z.of_nat (length es) then (firstn (Z.to_nat f) es, true) else (es, false)
                     | None => (es, hn)
                     end in
    let '(es, hp) := match last with
                     | Some l => if l <? Z.of_nat (length es) then (lastn (Z.to_nat l) es, true) else (es, false)
                     | None => (es, hp)
                     end in
    (es, {| has_prev := hp; has_next := hn; start_c := hd_error es; end_c := last_error es |}).

  (** a cursor argument after [DeserializeCursor]: missing or [""], undecodable, or a value *)
  Inductive cursor_arg := CAbsent | CInvalid | CCursor (c : cursor).
  Definition cur_of (c : cursor_arg) : option cursor :=
    match c with CCursor x => Some x | _ => None end.

  Record args := {
    a_first : option Z; a_last : option Z;
    a_after : cursor_arg; a_before : cursor_arg;
    a_from : option Z;            (* atOrAfterTime *)
    a_to : option Z               (* beforeTime *)
  }.

  Inductive outcome :=
  | OError                                                (* a GraphQL error, the field is null *)
  | OPanic                                                (* the process dies *)
  | OPage (edges : list edge) (info : option page_info).  (* info = None: pageInfo not selected *)

  (** the argument checks at the head of the resolver *)
  Definition arg_error (a : args) : bool :=
    match a_first a, a_last a with
    | Some f, Some _ => true           (* negative, or "cannot provide both" *)
    | Some f, None => f <? 0
    | None, Some l => l <? 0
    | None, None => true
    end
    || match a_after a with CInvalid => true | _ => false end
    || match a_before a with CInvalid => true | _ => false end.

  Definition limit_of (a : args) : Z :=
    match a_first a, a_last a with
    | Some f, _ => f + 1
    | None, Some l => - (l + 1)
    | None, None => 0
    end.

  (** the connection field: the outcome and the range queries the getter received.
      [want_info]: the selection contains [pageInfo] (with first/last = 0 nothing is fetched
      before pageInfo is resolved). *)
  Definition conn (ps : nat -> pres) (want_info : bool) (a : args) : outcome * list query :=
    if arg_error a then (OError, [])
    else
      let after := cur_of (a_after a) in
      let before := cur_of (a_before a) in
      let limit := limit_of a in
      if ((limit =? 1) || (limit =? -1)) && negb want_info then (OPage [] None, [])
      else
        let qs := range_queries after before (a_from a) (a_to a) limit in
        match resolve_edges ps qs with
        | None => (OPanic, qs)
        | Some fetched =>
            let (es, info) := edges_to_return after before (a_first a) (a_last a) fetched in
            (OPage es (if want_info then Some info else None), qs)
        end.

  (** ** Walking the pages by cursor (the client's loop) *)
  Inductive walk_result := WDone (visited : list edge) | WOutOfFuel | WFailed.

  Definition fwd_args (n : Z) (from to : option Z) (after : cursor_arg) : args :=
    {| a_first := Some n; a_last := None; a_after := after; a_before := CAbsent; a_from := from; a_to := to |}.
  Definition bwd_args (n : Z) (from to : option Z) (before : cursor_arg) : args :=
    {| a_first := None; a_last := Some n; a_after := CAbsent; a_before := before; a_from := from; a_to := to |}.

  (** first:n, then first:n after:endCursor while hasNextPage *)
  Fixpoint walk_fwd (fuel : nat) (ps : nat -> pres) (n : Z) (from to : option Z) (after : cursor_arg) : walk_result :=
    match fuel with
    | O => WOutOfFuel
    | S fuel' =>
        match fst (conn ps true (fwd_args n from to after)) with
        | OPage es (Some info) =>
            if has_next info then
              match end_c info with
              | Some c => match walk_fwd fuel' ps n from to (CCursor c) with
                          | WDone rest => WDone (es ++ rest)
                          | r => r
                          end
              | None => WFailed
              end
            else WDone es
        | _ => WFailed
        end
    end.

  (** last:n, then last:n before:startCursor while hasPreviousPage *)
  Fixpoint walk_bwd (fuel : nat) (ps : nat -> pres) (n : Z) (from to : option Z) (before : cursor_arg) : walk_result :=
    match fuel with
    | O => WOutOfFuel
    | S fuel' =>
        match fst (conn ps true (bwd_args n from to before)) with
        | OPage es (Some info) =>
            if has_prev info then
              match start_c info with
              | Some c => match walk_bwd fuel' ps n from to (CCursor c) with
                          | WDone rest => WDone (rest ++ es)
                          | r => r
                          end
              | None => WFailed
              end
            else WDone es
        | _ => WFailed
        end
    end.
End Model.

(** every getter call synchronous, results as slices *)
Definition sync_pres : pres := {| by_promise := false; nil_when_empty := false |}.
Definition all_sync : nat -> pres := fun _ => sync_pres.
