(** * TimeConn/GoTimeModel.v — Go's [time.Time] as the time-based connection uses it (C16, stage B)

    [TimeModel] takes times to be integers (nanoseconds since the Unix epoch).  The real type is

        type Time struct { wall uint64; ext int64; loc *Location }

    i.e. (without a monotonic reading) seconds since January 1, year 1 as an int64, nanoseconds
    within the second in [0, 999999999], and a location that no comparison looks at; with a
    monotonic reading, comparisons between two such values use that reading instead.  This file
    transcribes, at that level, the operations the connection code calls — Go 1.23 time/time.go:
    [Before], [After], [Equal], [Add] (with [addSec]'s saturation), [Unix], [UnixNano], [IsZero] —
    and, with them, pagination.go [NewTimeBasedCursor], [TimeBasedCursor.Time] and
    pagination/pagination.go [TimeBasedRangeQueries] a second time ([range_queries_t]).
    GoTimeProofs.v shows that the integer transcription is exact wherever seconds do not leave
    int64 (years within +-292 billion), and where int64 NANOSECONDS are too small.
    No proofs in this file. *)
From Coq Require Import List NArith ZArith Bool.
From ApiFu Require Import Base.Sexp TimeConn.TimeModel.
Import ListNotations.
Open Scope Z_scope.

Record gtime := {
  gsec : Z;             (* seconds since 0001-01-01T00:00:00Z (an int64) *)
  gnsec : Z;            (* nanoseconds within the second *)
  gmono : option Z;     (* the monotonic clock reading, if the value came from time.Now() *)
  gloc : Z              (* the location (an offset suffices here); never looked at by comparisons *)
}.

Definition unix_to_internal : Z := 62135596800.      (* seconds from year 1 to 1970 *)
Definition giga : Z := 1000000000.

(** the instant a value denotes, as nanoseconds since the Unix epoch *)
Definition inst (t : gtime) : Z := (gsec t - unix_to_internal) * giga + gnsec t.

(** [t.After(u)], [t.Before(u)], [t.Equal(u)] *)
Definition g_after (t u : gtime) : bool :=
  match gmono t, gmono u with
  | Some a, Some b => b <? a
  | _, _ => (gsec u <? gsec t) || ((gsec t =? gsec u) && (gnsec u <? gnsec t))
  end.
Definition g_before (t u : gtime) : bool :=
  match gmono t, gmono u with
  | Some a, Some b => a <? b
  | _, _ => (gsec t <? gsec u) || ((gsec t =? gsec u) && (gnsec t <? gnsec u))
  end.
Definition g_equal (t u : gtime) : bool :=
  match gmono t, gmono u with
  | Some a, Some b => a =? b
  | _, _ => (gsec t =? gsec u) && (gnsec t =? gnsec u)
  end.

Definition max_int64 : Z := 9223372036854775807.

(** [addSec]: int64 addition that saturates instead of wrapping *)
Definition add_sec (s d : Z) : Z :=
  let sum := wrap64 (s + d) in
  if Bool.eqb (s <? sum) (0 <? d) then sum
  else if 0 <? d then max_int64 else - max_int64.

(** [t.Add(d)] for a duration d (an int64 count of nanoseconds); a monotonic reading moves along *)
Definition g_add (t : gtime) (d : Z) : gtime :=
  let dsec := Z.quot d giga in
  let nsec := gnsec t + Z.rem d giga in
  let '(dsec, nsec) := if giga <=? nsec then (dsec + 1, nsec - giga)
                       else if nsec <? 0 then (dsec - 1, nsec + giga)
                       else (dsec, nsec) in
  {| gsec := add_sec (gsec t) dsec; gnsec := nsec;
     gmono := match gmono t with Some m => Some (m + d) | None => None end; gloc := gloc t |}.

(** [time.Unix(0, n)] for an int64 n: no monotonic reading, location Local *)
Definition local_loc : Z := 0.
Definition g_unix_nano_of (n : Z) : gtime :=
  let q := Z.quot n giga in
  let r := n - q * giga in
  let '(q, r) := if r <? 0 then (q - 1, r + giga) else (q, r) in
  {| gsec := q + unix_to_internal; gnsec := r; gmono := None; gloc := local_loc |}.

(** [t.UnixNano()]: int64 arithmetic; "the result is undefined if the Unix time in nanoseconds
    cannot be represented by an int64 (a date before the year 1678 or after 2262)" — it wraps *)
Definition g_unix_nano (t : gtime) : Z := wrap64 ((gsec t - unix_to_internal) * giga + gnsec t).

(** [time.Time{}] and [distantFuture = time.Date(3000, 1, 1, 0, 0, 0, 0, time.UTC)] *)
Definition g_zero : gtime := {| gsec := 0; gnsec := 0; gmono := None; gloc := 0 |}.
Definition g_distant_future : gtime :=
  {| gsec := 32503680000 + unix_to_internal; gnsec := 0; gmono := None; gloc := 0 |}.

(** pagination.go: [NewTimeBasedCursor(t, id)] and [TimeBasedCursor.Time()] *)
Definition new_cursor (t : gtime) (id : bytes) : cursor := (g_unix_nano t, id).
Definition cursor_time (c : cursor) : gtime := g_unix_nano_of (nano c).

(** a range query as the getter receives it *)
Record tquery := mktq { tq_min : gtime; tq_max : gtime; tq_limit : Z }.

(** [TimeBasedRangeQueries] (current code), with [time.Time] values *)
Definition range_queries_t (after before : option cursor) (from to : option gtime) (limit : Z) : list tquery :=
  let at_or_after_time := match from with Some t => t | None => g_zero end in
  let before_time := match to with Some t => t | None => g_distant_future end in
  let min0 := at_or_after_time in
  let max0 := g_add before_time (-1) in
  let in_time_range (t : gtime) := negb (g_before t min0) && negb (g_after t max0) in
  let qa := match after with
            | Some a => let ta := cursor_time a in if in_time_range ta then [mktq ta ta 0] else []
            | None => []
            end in
  let min1 := match after with
              | Some a => let t := g_add (cursor_time a) 1 in if g_after t min0 then t else min0
              | None => min0
              end in
  let qb := match before with
            | Some b =>
                let bt := cursor_time b in
                if (match after with None => true | Some a => negb (g_equal (cursor_time a) bt) end)
                   && in_time_range bt
                then [mktq bt bt 0] else []
            | None => []
            end in
  let max1 := match before with
              | Some b => let t := g_add (cursor_time b) (-1) in if g_before t max0 then t else max0
              | None => max0
              end in
  qa ++ qb ++ [mktq min1 max1 limit].

Definition inst_query (q : tquery) : query := mkq (inst (tq_min q)) (inst (tq_max q)) (tq_limit q).

(** a value as the DateTime scalar or [time.Unix] produces it: nanoseconds in range, no monotonic
    reading, seconds far from the ends of int64 (|year| below 146 billion) *)
Definition g_wf (t : gtime) : Prop :=
  0 <= gnsec t < giga /\ gmono t = None /\ - 4611686018427387904 < gsec t < 4611686018427387904.
