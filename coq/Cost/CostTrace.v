(** * Cost/CostTrace.v — C14 round 4: the calls of cost functions made during the walk.

    [tvisit] is the visitor of validate_cost.go over a document with argument literals ([anode],
    CostArgs.v) that, besides the closure's variables, returns the list of calls
    [def.Cost(FieldCostContext{Context: ctx, Arguments: args})] it made, in order: which field
    selection, under which cost context, with which argument map.  Same control flow as
    [CostModel.visit]; the [*ast.Field] case runs C05's [coerce_argument_values] itself.
    [validate_cost_trace] is the rule on a request, returning outcome and call list.

    No proofs in this file. *)
From Coq Require Import List ZArith Bool.
From ApiFu Require Import Base.Sexp.
From ApiFu Require Val.Values Val.CoerceModel.
From ApiFu Require Import Cost.CostModel Cost.CostSpec Cost.CostArgs.
Import ListNotations.
Open Scope Z_scope.

Section Trace.
  Variable C : Type.
  Variable E : Values.env.
  Variable dt : bytes -> option bytes.

  (** one call of a cost function *)
  Record call := { c_field : afield C; c_ctx : C; c_args : amap }.

  (** what the callback does with a FieldCost: cost, newMultiplier, newCtx (validate_cost.go:108-118) *)
  Definition charge (skip_zero : bool) (st : state C) (multiplier : Z) (ctx : C) (fc : fcost C) : state C * Z * C :=
    (set_cost C st (if skip_zero && (fc_r fc =? 0) then st_cost C st
                    else checked_add (st_cost C st) (checked_mul multiplier (fc_r fc))),
     (if fc_m fc >? 1 then checked_mul multiplier (fc_m fc) else multiplier),
     match fc_ctx fc with Some c => c | None => ctx end).

  (** [fragmentsByName] *)
  Fixpoint alookup_last (frs : list (bytes * anode C)) (n : bytes) : option (anode C) :=
    match frs with
    | [] => None
    | (x, d) :: r =>
        match alookup_last r n with
        | Some d' => Some d'
        | None => if bytes_eqb x n then Some d else None
        end
    end.

  (** the nodes the walk can reach from a root: the root, and the definition of every fragment
      spread somewhere inside a reached node *)
  Inductive spread_in : anode C -> bytes -> Prop :=
  | SI_here : forall name kids, spread_in (ANode (ASpread name) kids) name
  | SI_kid : forall k kids n name, In n kids -> spread_in n name -> spread_in (ANode k kids) name.

  Inductive reached (frs : list (bytes * anode C)) (root : anode C) : anode C -> Prop :=
  | R_root : reached frs root root
  | R_spread : forall n name def, reached frs root n -> spread_in n name -> alookup_last frs name = Some def ->
                                  reached frs root def.

  Section Visit.
    Variable skip_zero : bool.
    Variable default_cost : fcost C.
    Variable vv : CoerceModel.cvars.
    Variable frs : list (bytes * anode C).

    Fixpoint tvisit (fuel : nat) : anode C -> state C -> list call -> res (state C * list call) :=
      fix inspect (n : anode C) (st : state C) (log : list call) {struct n} : res (state C * list call) :=
        match n with
        | ANode k kids =>
            match st_mults C st, st_ctxs C st with
            | multiplier :: _, ctx :: _ =>
                let after_switch : res (state C * Z * C * list call) :=
                  match k with
                  | AField f =>
                      match CoerceModel.coerce_argument_values CoerceModel.all_fixed E dt (af_argdefs f) (af_args f) vv with
                      | Values.Err => Ok (add_err C st ECoerceArgs, multiplier, ctx, log)
                      | Values.Panic => Panic
                      | Values.Ok m =>
                          match af_cost f with
                          | None => Ok (charge skip_zero st multiplier ctx default_cost, log)
                          | Some g =>
                              match g ctx m with
                              | None => Panic
                              | Some fc =>
                                  Ok (charge skip_zero st multiplier ctx fc,
                                      log ++ [{| c_field := f; c_ctx := ctx; c_args := m |}])
                              end
                          end
                      end
                  | ANoDef is_typename =>
                      if is_typename then Ok (st, multiplier, ctx, log)
                      else Ok (add_err C st EUnknownField, multiplier, ctx, log)
                  | ASpread name =>
                      if mem_name name (st_path C st) then Ok (add_err C st ECycle, multiplier, ctx, log)
                      else
                        match alookup_last frs name with
                        | Some def =>
                            match fuel with
                            | O => OutOfFuel
                            | S fuel' =>
                                match tvisit fuel' def (set_path C st (name :: st_path C st)) log with
                                | Ok (st1, log1) => Ok (set_path C st1 (del_name name (st_path C st1)), multiplier, ctx, log1)
                                | Panic => Panic
                                | OutOfFuel => OutOfFuel
                                end
                            end
                        | None => Ok (add_err C st EUndefinedFragment, multiplier, ctx, log)
                        end
                  | AOther => Ok (st, multiplier, ctx, log)
                  end in
                match after_switch with
                | Ok (st1, new_multiplier, new_ctx, log1) =>
                    if negb (is_nil (st_errs C st1)) then Ok (st1, log1)
                    else
                      match (fix inspect_list (l : list (anode C)) (s : state C) (lg : list call) {struct l}
                               : res (state C * list call) :=
                               match l with
                               | [] => Ok (s, lg)
                               | x :: r => match inspect x s lg with
                                           | Ok (s', lg') => inspect_list r s' lg'
                                           | Panic => Panic
                                           | OutOfFuel => OutOfFuel
                                           end
                               end) kids (push C st1 new_multiplier new_ctx) log1 with
                      | Ok (st3, log3) =>
                          match pop C st3 with
                          | Ok st4 => Ok (st4, log3)
                          | Panic => Panic
                          | OutOfFuel => OutOfFuel
                          end
                      | Panic => Panic
                      | OutOfFuel => OutOfFuel
                      end
                | Panic => Panic
                | OutOfFuel => OutOfFuel
                end
            | _, _ => Panic
            end
        end.

    Definition tvisit_list (fuel : nat) : list (anode C) -> state C -> list call -> res (state C * list call) :=
      fix go (l : list (anode C)) (s : state C) (lg : list call) {struct l} : res (state C * list call) :=
        match l with
        | [] => Ok (s, lg)
        | x :: r => match tvisit fuel x s lg with
                    | Ok (s', lg') => go r s' lg'
                    | Panic => Panic
                    | OutOfFuel => OutOfFuel
                    end
        end.
  End Visit.

  (** the operation the loop of validate_cost.go:46-57 settles on, with its variable definitions *)
  Definition chosen_op (ops : list (aop C)) (opname : bytes) : option (aop C) :=
    match filter (fun o => op_matches opname (ao_name o)) ops with
    | [o] => Some o
    | _ => None
    end.

  (** ValidateCost on a request: the outcome and the calls of cost functions, in order *)
  Definition validate_cost_trace (skip_zero : bool) (fuel : nat) (default_cost : fcost C) (ctx0 : C)
             (ops : list (aop C)) (frs : list (bytes * anode C)) (opname : bytes)
             (raw : list (Values.name * Values.jval)) (max : Z) : outcome * list call :=
    match chosen_op ops opname with
    | None => (Done 0 ((max >=? 0) && (0 >? max)), [])          (* no walk: cost 0 (never above a limit >= 0) *)
    | Some o =>
        match CoerceModel.coerce_variable_values CoerceModel.all_fixed E dt (ao_vardefs o) raw with
        | Values.Panic => (RPanic, [])
        | Values.Err => (Secondary [ECoerceVars], [])
        | Values.Ok vv =>
            let st0 := {| st_cost := 0; st_mults := [1]; st_ctxs := [ctx0]; st_path := []; st_errs := [] |} in
            match tvisit skip_zero default_cost vv frs fuel (ao_body o) st0 [] with
            | Ok (st, log) =>
                (if is_nil (st_errs C st) then
                   let cost := st_cost C st in
                   Done (if cost <? 0 then MaxInt else cost) ((max >=? 0) && ((cost <? 0) || (cost >? max)))
                 else Secondary (st_errs C st), log)
            | Panic => (RPanic, [])
            | OutOfFuel => (ROutOfFuel, [])
            end
        end
    end.
End Trace.

Arguments c_field {C}. Arguments c_ctx {C}. Arguments c_args {C}. Arguments Build_call {C}.
