(** * Cost/CostTraceProofs.v — C14 round 4: the traced walk is the walk, and every call it makes is
    a call of a field selection of the request on the result of C05's [coerce_argument_values];
    jointly with C05: every argument map a cost function is called with conforms. *)
From Coq Require Import List ZArith Bool Lia.
From ApiFu Require Import Base.Sexp.
From ApiFu Require Import Val.Values Val.MapFacts Val.CoerceModel Val.CoerceSpec Val.CoerceProofs.
From ApiFu Require Cost.CostModel Cost.CostSpec Cost.CostProofs.
From ApiFu Require Import Cost.CostArgs Cost.CostArgsProofs Cost.CostTrace.
Import ListNotations.

Module M := CostModel.

Section AnodeInd.
  Variable C : Type.
  Variable P : anode C -> Prop.
  Hypothesis HNode : forall k kids, Forall P kids -> P (ANode k kids).
  Fixpoint anode_ind' (n : anode C) : P n :=
    match n with
    | ANode k kids =>
        HNode k kids
          ((fix go (l : list (anode C)) : Forall P l :=
              match l with
              | [] => Forall_nil P
              | x :: rest => Forall_cons x (anode_ind' x) (go rest)
              end) kids)
    end.
End AnodeInd.

Section Proofs.
  Variable C : Type.
  Variable E : env.
  Variable dt : bytes -> option bytes.
  Variable skip_zero : bool.
  Variable dc : M.fcost C.
  Variable vv : cvars.
  Variable frs : list (bytes * anode C).

  Notation cfrs := (compiled_frs C E dt vv frs).
  Notation tv := (tvisit C E dt skip_zero dc vv frs).
  Notation tvl := (tvisit_list C E dt skip_zero dc vv frs).
  Notation vis := (M.visit C skip_zero dc cfrs).
  Notation visl := (M.visit_list C skip_zero dc cfrs).

  (** the switch of the traced callback *)
  Definition tafter (fuel : nat) (k : akind C) (st : M.state C) (multiplier : Z) (ctx : C) (log : list (call C))
    : M.res (M.state C * Z * C * list (call C)) :=
    match k with
    | AField f =>
        match coerce_argument_values all_fixed E dt (af_argdefs f) (af_args f) vv with
        | Err => M.Ok (M.add_err C st M.ECoerceArgs, multiplier, ctx, log)
        | Panic => M.Panic
        | Ok m =>
            match af_cost f with
            | None => M.Ok (charge C skip_zero st multiplier ctx dc, log)
            | Some g =>
                match g ctx m with
                | None => M.Panic
                | Some fc => M.Ok (charge C skip_zero st multiplier ctx fc,
                                   log ++ [{| c_field := f; c_ctx := ctx; c_args := m |}])
                end
            end
        end
    | ANoDef is_typename =>
        if is_typename then M.Ok (st, multiplier, ctx, log)
        else M.Ok (M.add_err C st M.EUnknownField, multiplier, ctx, log)
    | ASpread name =>
        if M.mem_name name (M.st_path C st) then M.Ok (M.add_err C st M.ECycle, multiplier, ctx, log)
        else
          match alookup_last C frs name with
          | Some def =>
              match fuel with
              | O => M.OutOfFuel
              | S fuel' =>
                  match tv fuel' def (M.set_path C st (name :: M.st_path C st)) log with
                  | M.Ok (st1, log1) => M.Ok (M.set_path C st1 (M.del_name name (M.st_path C st1)), multiplier, ctx, log1)
                  | M.Panic => M.Panic
                  | M.OutOfFuel => M.OutOfFuel
                  end
              end
          | None => M.Ok (M.add_err C st M.EUndefinedFragment, multiplier, ctx, log)
          end
    | AOther => M.Ok (st, multiplier, ctx, log)
    end.

  Lemma tvisit_eq fuel k kids st log :
    tv fuel (ANode k kids) st log =
      match M.st_mults C st, M.st_ctxs C st with
      | multiplier :: _, ctx :: _ =>
          match tafter fuel k st multiplier ctx log with
          | M.Ok (st1, new_multiplier, new_ctx, log1) =>
              if negb (M.is_nil (M.st_errs C st1)) then M.Ok (st1, log1)
              else
                match tvl fuel kids (M.push C st1 new_multiplier new_ctx) log1 with
                | M.Ok (st3, log3) =>
                    match M.pop C st3 with
                    | M.Ok st4 => M.Ok (st4, log3)
                    | M.Panic => M.Panic
                    | M.OutOfFuel => M.OutOfFuel
                    end
                | M.Panic => M.Panic
                | M.OutOfFuel => M.OutOfFuel
                end
          | M.Panic => M.Panic
          | M.OutOfFuel => M.OutOfFuel
          end
      | _, _ => M.Panic
      end.
  Proof. destruct fuel; reflexivity. Qed.

  Lemma tvisit_list_cons fuel x l st log :
    tvl fuel (x :: l) st log =
      match tv fuel x st log with
      | M.Ok (s', lg') => tvl fuel l s' lg'
      | M.Panic => M.Panic
      | M.OutOfFuel => M.OutOfFuel
      end.
  Proof. reflexivity. Qed.

  (** the compiled kind *)
  Definition ckind (k : akind C) : M.kind C :=
    match k with
    | AField f => compile_field C E dt vv f
    | ANoDef b => M.KFieldNoDef b
    | ASpread s => M.KSpread s
    | AOther => M.KOther
    end.

  Lemma compile_node k kids : compile C E dt vv (ANode k kids) = M.Node (ckind k) (map (compile C E dt vv) kids).
  Proof. reflexivity. Qed.

  Lemma lookup_compiled name :
    M.lookup_last C cfrs name = option_map (compile C E dt vv) (alookup_last C frs name).
  Proof.
    unfold compiled_frs. induction frs as [|[x d] r IH]; [reflexivity|].
    cbn [map fst snd M.lookup_last alookup_last]. rewrite IH.
    destruct (alookup_last C r name); cbn [option_map]; [reflexivity|].
    destruct (bytes_eqb x name); reflexivity.
  Qed.

  Lemma alookup_last_in (l : list (bytes * anode C)) name d :
    alookup_last C l name = Some d -> exists x, In (x, d) l.
  Proof.
    induction l as [|[x dx] r IH]; cbn [alookup_last]; [discriminate|].
    destruct (alookup_last C r name) as [d'|] eqn:Er.
    - intro H. inversion H; subst. destruct (IH eq_refl) as [y Hy]. exists y. right. exact Hy.
    - destruct (bytes_eqb x name); [|discriminate]. intro H. inversion H; subst. exists x. left. reflexivity.
  Qed.

  (** a call made by the walk: of a field selection of a node REACHED from one of the roots [R] (the
      roots themselves, the definitions of fragments spread inside reached nodes), on what
      CoerceArgumentValues returned for that selection, and the cost function answered *)
  Definition from (R : anode C -> Prop) (f : afield C) : Prop :=
    exists r m, R r /\ reached C frs r m /\ field_in C m f.

  Definition good (R : anode C -> Prop) (c : call C) : Prop :=
    from R (c_field c) /\
    coerce_argument_values all_fixed E dt (af_argdefs (c_field c)) (af_args (c_field c)) vv = Ok (c_args c) /\
    exists g, af_cost (c_field c) = Some g /\ g (c_ctx c) (c_args c) <> None.

  Lemma good_mono (P Q : anode C -> Prop) c : (forall f, from P f -> from Q f) -> good P c -> good Q c.
  Proof. intros H (Hp & H2 & H3). split; [apply H; exact Hp|split; assumption]. Qed.

  Lemma reached_trans a b c : reached C frs a b -> reached C frs b c -> reached C frs a c.
  Proof.
    intros Hab Hbc. induction Hbc as [|n name def Hbn IH Hs Hl]; [exact Hab|].
    eapply R_spread; eassumption.
  Qed.

  Lemma reached_kid k kids x m : In x kids -> reached C frs x m -> m = x \/ reached C frs (ANode k kids) m.
  Proof.
    intros Hx H. induction H as [|n name def Hxn IH Hs Hl]; [left; reflexivity|].
    right. destruct IH as [->|IH].
    - eapply R_spread; [apply R_root|eapply SI_kid; eassumption|exact Hl].
    - eapply R_spread; eassumption.
  Qed.

  Lemma from_kids k kids f : from (fun r => In r kids) f -> from (eq (ANode k kids)) f.
  Proof.
    intros (r & m & Hr & Hm & Hf). exists (ANode k kids). 
    destruct (reached_kid k kids r m Hr Hm) as [->|H].
    - exists (ANode k kids). split; [reflexivity|]. split; [apply R_root|eapply FI_kid; eassumption].
    - exists m. split; [reflexivity|]. split; assumption.
  Qed.

  (** traced result against plain result *)
  Definition agrees (P : anode C -> Prop) (log : list (call C))
             (t : M.res (M.state C * list (call C))) (r : M.res (M.state C)) : Prop :=
    match t with
    | M.Ok (st', log') => r = M.Ok st' /\ exists new, log' = log ++ new /\ Forall (good P) new
    | M.Panic => r = M.Panic
    | M.OutOfFuel => r = M.OutOfFuel
    end.


  Definition node_spec (fuel : nat) (n : anode C) : Prop :=
    forall st log, agrees (eq n) log (tv fuel n st log) (vis fuel (compile C E dt vv n) st).
  Definition list_spec (fuel : nat) (l : list (anode C)) : Prop :=
    forall st log, agrees (fun r => In r l) log (tvl fuel l st log) (visl fuel (map (compile C E dt vv) l) st).

  Lemma list_from_nodes fuel l : Forall (node_spec fuel) l -> list_spec fuel l.
  Proof.
    induction 1 as [|x l Hx Hl IHl]; intros st log.
    - cbn. split; [reflexivity|]. exists []. split; [symmetry; apply app_nil_r|constructor].
    - rewrite tvisit_list_cons. cbn [map]. rewrite CostProofs.visit_list_cons.
      specialize (Hx st log). unfold agrees in Hx.
      destruct (tv fuel x st log) as [[s' lg']| |].
      + destruct Hx as (Hv & new1 & -> & Hg1). rewrite Hv.
        specialize (IHl s' (log ++ new1)). unfold agrees in IHl |- *.
        destruct (tvl fuel l s' (log ++ new1)) as [[s'' lg'']| |]; try exact IHl.
        destruct IHl as (Hv2 & new2 & -> & Hg2). split; [exact Hv2|].
        exists (new1 ++ new2). split; [symmetry; apply app_assoc|].
        apply Forall_app. split.
        * eapply Forall_impl; [|exact Hg1]. intros c Hc. eapply good_mono; [|exact Hc].
          intros f (r & m & <- & Hm & Hf). exists x, m. split; [left; reflexivity|split; assumption].
        * eapply Forall_impl; [|exact Hg2]. intros c Hc. eapply good_mono; [|exact Hc].
          intros f (r & m & Hr & Hm & Hf). exists r, m. split; [right; exact Hr|split; assumption].
      + rewrite Hx. reflexivity.
      + rewrite Hx. reflexivity.
  Qed.

  (** the switch agrees *)
  Definition switch_agrees (P : anode C -> Prop) (log : list (call C))
             (t : M.res (M.state C * Z * C * list (call C))) (r : M.res (M.state C * Z * C)) : Prop :=
    match t with
    | M.Ok (st1, nm, nc, log1) => r = M.Ok (st1, nm, nc) /\ exists new, log1 = log ++ new /\ Forall (good P) new
    | M.Panic => r = M.Panic
    | M.OutOfFuel => r = M.OutOfFuel
    end.

  Lemma nil_new (P : anode C -> Prop) (log : list (call C)) : exists new, log = log ++ new /\ Forall (good P) new.
  Proof. exists []. split; [symmetry; apply app_nil_r|constructor]. Qed.

  Lemma switch_spec fuel :
    (forall fuel', (fuel' < fuel)%nat -> forall n, node_spec fuel' n) ->
    forall k kids st multiplier ctx log,
      switch_agrees (eq (ANode k kids)) log (tafter fuel k st multiplier ctx log)
                    (CostProofs.after_switch C skip_zero dc cfrs fuel (ckind k) st multiplier ctx).
  Proof.
    intros IHfuel k kids st multiplier ctx log.
    destruct k as [f|b|name|]; cbn [tafter ckind].
    - (* a field *)
      unfold compile_field.
      destruct (coerce_argument_values all_fixed E dt (af_argdefs f) (af_args f) vv) as [m| |] eqn:Em;
        cbn [CostProofs.after_switch switch_agrees].
      + destruct (af_cost f) as [g|] eqn:Eg.
        * destruct (g ctx m) as [fc|] eqn:Egc; cbn [switch_agrees]; [|reflexivity].
          split; [reflexivity|].
          exists [{| c_field := f; c_ctx := ctx; c_args := m |}]. split; [reflexivity|].
          constructor; [|constructor].
          split; [exists (ANode (AField f) kids), (ANode (AField f) kids); split; [reflexivity|split; [apply R_root|constructor]]|].
          split; [exact Em|].
          exists g. split; [exact Eg|]. cbn [c_ctx c_args]. rewrite Egc. discriminate.
        * cbn [switch_agrees]. split; [reflexivity|apply nil_new].
      + split; [reflexivity|apply nil_new].
      + reflexivity.
    - cbn [CostProofs.after_switch]. destruct b; cbn [switch_agrees]; (split; [reflexivity|apply nil_new]).
    - cbn [CostProofs.after_switch].
      destruct (M.mem_name name (M.st_path C st)); [cbn [switch_agrees]; split; [reflexivity|apply nil_new]|].
      rewrite lookup_compiled.
      destruct (alookup_last C frs name) as [def|] eqn:El; cbn [option_map];
        [|cbn [switch_agrees]; split; [reflexivity|apply nil_new]].
      destruct fuel as [|fuel']; [reflexivity|].
      pose proof (IHfuel fuel' (Nat.lt_succ_diag_r fuel') def (M.set_path C st (name :: M.st_path C st)) log) as H.
      unfold agrees in H.
      destruct (tv fuel' def (M.set_path C st (name :: M.st_path C st)) log) as [[st1 log1]| |]; cbn [switch_agrees].
      + destruct H as (Hv & new & -> & Hg). rewrite Hv. split; [reflexivity|].
        exists new. split; [reflexivity|].
        eapply Forall_impl; [|exact Hg]. intros c Hc. eapply good_mono; [|exact Hc].
        intros f (r & m & <- & Hm & Hf).
        exists (ANode (ASpread name) kids), m. split; [reflexivity|]. split; [|exact Hf].
        eapply reached_trans; [|exact Hm].
        eapply R_spread; [apply R_root|apply SI_here|exact El].
      + rewrite H. reflexivity.
      + rewrite H. reflexivity.
    - cbn [CostProofs.after_switch switch_agrees]. split; [reflexivity|apply nil_new].
  Qed.

  Theorem tvisit_spec : forall fuel n, node_spec fuel n.
  Proof.
    induction fuel as [fuel IHfuel] using lt_wf_ind.
    intros n. induction n as [k kids IH] using anode_ind'.
    pose proof (list_from_nodes fuel kids IH) as HL.
    intros st log. rewrite tvisit_eq, compile_node, CostProofs.visit_eq.
    destruct (M.st_mults C st) as [|multiplier mrest]; [reflexivity|].
    destruct (M.st_ctxs C st) as [|ctx crest]; [reflexivity|].
    pose proof (switch_spec fuel IHfuel k kids st multiplier ctx log) as Hs.
    unfold switch_agrees in Hs.
    destruct (tafter fuel k st multiplier ctx log) as [[[[st1 nm] nc] log1]| |].
    - destruct Hs as (Ha & new1 & -> & Hg1). rewrite Ha.
      destruct (negb (M.is_nil (M.st_errs C st1))).
      + cbn [agrees]. split; [reflexivity|]. exists new1. split; [reflexivity|exact Hg1].
      + specialize (HL (M.push C st1 nm nc) (log ++ new1)). unfold agrees in HL.
        destruct (tvl fuel kids (M.push C st1 nm nc) (log ++ new1)) as [[st3 log3]| |].
        * destruct HL as (Hv & new2 & -> & Hg2). rewrite Hv.
          destruct (M.pop C st3) as [st4| |]; cbn [agrees]; try reflexivity.
          split; [reflexivity|]. exists (new1 ++ new2). split; [symmetry; apply app_assoc|].
          apply Forall_app. split; [exact Hg1|].
          eapply Forall_impl; [|exact Hg2]. intros c Hc. eapply good_mono; [|exact Hc].
          intros f Hf. apply from_kids. exact Hf.
        * rewrite HL. reflexivity.
        * rewrite HL. reflexivity.
    - rewrite Hs. reflexivity.
    - rewrite Hs. reflexivity.
  Qed.
End Proofs.

(** ** the rule with its trace *)
Section Top.
  Variable C : Type.
  Variable E : env.
  Variable dt : bytes -> option bytes.

  Lemma chosen_op_vardefs (ops : list (aop C)) opname :
    chosen_vardefs C ops opname = option_map ao_vardefs (chosen_op C ops opname).
  Proof.
    unfold chosen_vardefs, chosen_op.
    destruct (filter (fun o => CostSpec.op_matches opname (ao_name o)) ops) as [|o [|o' l]]; reflexivity.
  Qed.

  (** the traced rule computes the outcome of [validate_cost_request] (hence of the compiled
      document: all round-1..3 theorems apply to its first component) *)
  Theorem trace_outcome skip_zero fuel dc ctx0 ops frs opname raw max :
    fst (validate_cost_trace C E dt skip_zero fuel dc ctx0 ops frs opname raw max)
    = validate_cost_request C E dt skip_zero fuel dc ctx0 ops frs opname raw max.
  Proof.
    unfold validate_cost_trace, validate_cost_request, request_variables.
    rewrite chosen_op_vardefs.
    destruct (chosen_op C ops opname) as [o|] eqn:Eo; cbn [option_map].
    - destruct (coerce_variable_values all_fixed E dt (ao_vardefs o) raw) as [vv| |] eqn:Ev.
      + fold (compiled_ops C E dt vv ops). fold (compiled_frs C E dt vv frs).
        unfold M.validate_cost. rewrite CostProofs.select_op_spec, chosen_operation.
        unfold chosen_op in Eo.
        destruct (filter (fun o0 => CostSpec.op_matches opname (ao_name o0)) ops) as [|o1 [|o2 l]]; try discriminate.
        inversion Eo; subst o1. cbn [M.is_nil].
        pose proof (tvisit_spec C E dt skip_zero dc vv frs fuel (ao_body o)
                      {| M.st_cost := 0%Z; M.st_mults := [1%Z]; M.st_ctxs := [ctx0]; M.st_path := []; M.st_errs := [] |} []) as H.
        unfold agrees in H.
        destruct (tvisit C E dt skip_zero dc vv frs fuel (ao_body o) _ []) as [[st log]| |].
        * destruct H as (Hv & _). rewrite Hv. cbn [fst]. destruct (M.is_nil (M.st_errs C st)); reflexivity.
        * rewrite H. reflexivity.
        * rewrite H. reflexivity.
      + fold (compiled_ops C E dt [] ops). fold (compiled_frs C E dt [] frs).
        unfold M.validate_cost. rewrite CostProofs.select_op_spec, chosen_operation.
        unfold chosen_op in Eo.
        destruct (filter (fun o0 => CostSpec.op_matches opname (ao_name o0)) ops) as [|o1 [|o2 l]]; try discriminate.
        reflexivity.
      + reflexivity.
    - unfold M.validate_cost. rewrite CostProofs.select_op_spec.
      fold (compiled_ops C E dt [] ops). rewrite chosen_operation.
      unfold chosen_op in Eo.
      destruct (filter (fun o0 => CostSpec.op_matches opname (ao_name o0)) ops) as [|o1 [|o2 l]]; try discriminate; reflexivity.
  Qed.

  (** every call made during the walk: a field selection of the chosen operation or of a fragment of
      the document, called on what C05's CoerceArgumentValues returned for it under the coerced
      variables of the chosen operation *)
  Theorem trace_calls_are_coerced skip_zero fuel dc ctx0 ops frs opname raw max c :
    In c (snd (validate_cost_trace C E dt skip_zero fuel dc ctx0 ops frs opname raw max)) ->
    exists o vv,
      chosen_op C ops opname = Some o /\
      coerce_variable_values all_fixed E dt (ao_vardefs o) raw = Ok vv /\
      (exists m, reached C frs (ao_body o) m /\ field_in C m (c_field c)) /\
      coerce_argument_values all_fixed E dt (af_argdefs (c_field c)) (af_args (c_field c)) vv = Ok (c_args c) /\
      exists g, af_cost (c_field c) = Some g /\ g (c_ctx c) (c_args c) <> None.
  Proof.
    unfold validate_cost_trace.
    destruct (chosen_op C ops opname) as [o|] eqn:Eo; [|intros []].
    destruct (coerce_variable_values all_fixed E dt (ao_vardefs o) raw) as [vv| |] eqn:Ev; try (intros []).
    pose proof (tvisit_spec C E dt skip_zero dc vv frs fuel (ao_body o)
                  {| M.st_cost := 0%Z; M.st_mults := [1%Z]; M.st_ctxs := [ctx0]; M.st_path := []; M.st_errs := [] |} []) as H.
    unfold agrees in H.
    destruct (tvisit C E dt skip_zero dc vv frs fuel (ao_body o) _ []) as [[st log]| |]; try (intros []).
    destruct H as (_ & new & Hl & Hg). cbn [app] in Hl. subst new. cbn [snd]. intro Hin.
    rewrite Forall_forall in Hg. destruct (Hg c Hin) as ((r & m & <- & Hm & Hf) & Ha & Hc).
    exists o, vv. split; [reflexivity|]. split; [exact Ev|]. split; [exists m; split; assumption|]. split; assumption.
  Qed.

  (** jointly with C05: when the document's field selections passed the variable-usage rule (C05's
      [usage_ok], what validateVariables establishes) over a schema whose defaults are values of
      their types, every argument map any cost function is called with during the walk conforms to
      the declared argument types *)
  Theorem trace_calls_conform skip_zero fuel dc ctx0 ops frs opname raw max o :
    chosen_op C ops opname = Some o ->
    env_ok E = true ->
    has_dup (map vd_name (ao_vardefs o)) = false -> request_ok (ao_vardefs o) raw ->
    (forall f, (exists m, reached C frs (ao_body o) m /\ field_in C m f) ->
               has_dup (map fst (af_argdefs f)) = false /\
               (forall ad, In ad (af_argdefs f) -> default_ok E (snd ad) = true) /\
               field_usage_ok C E (ao_vardefs o) f = true) ->
    forall c, In c (snd (validate_cost_trace C E dt skip_zero fuel dc ctx0 ops frs opname raw max)) ->
              args_conform_b E (af_argdefs (c_field c)) (c_args c) = true.
  Proof.
    intros Ho HE Hnd (Hc & Hr) Hfields c Hin.
    destruct (trace_calls_are_coerced _ _ _ _ _ _ _ _ _ _ Hin) as (o' & vv & Ho' & Hv & Hscope & Ha & _).
    rewrite Ho in Ho'. inversion Ho'; subst o'.
    destruct (Hfields _ Hscope) as (Hd & Hdef & U).
    apply (argument_values_conform_usage E dt (af_argdefs (c_field c)) (ao_vardefs o) (af_args (c_field c)) vv (c_args c) HE Hd Hdef U); [|exact Ha].
    apply (variable_values_ok all_fixed E dt HE eq_refl eq_refl (ao_vardefs o) raw vv Hnd Hc Hr Hv).
  Qed.
End Top.
