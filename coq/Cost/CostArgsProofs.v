(** * Cost/CostArgsProofs.v — C14 round 3: cost functions only ever see spec-coerced arguments
    (composition with C05), and the rule on a request is the rule on the compiled document. *)
From Coq Require Import List ZArith Bool Lia.
From ApiFu Require Import Base.Sexp.
From ApiFu Require Import Val.Values Val.MapFacts Val.CoerceModel Val.CoerceSpec Val.CoerceProofs Val.CoerceRefine Val.CoerceTotal.
From ApiFu Require Cost.CostModel Cost.CostSpec Cost.CostProofs.
From ApiFu Require Import Cost.CostArgs.
Import ListNotations.

(** ** 1. one field selection = C05's [cost_observation] *)
Section Field.
  Variable C : Type.
  Variable E : env.
  Variable dt : bytes -> option bytes.

  (** what [compile_field] can produce *)
  Lemma compile_field_cases vv (f : afield C) :
    (exists m, coerce_argument_values all_fixed E dt (af_argdefs f) (af_args f) vv = Ok m /\
               compile_field C E dt vv f =
               CostModel.KField (match af_cost f with Some g => Some (fun ctx => g ctx m) | None => None end) false)
    \/ (coerce_argument_values all_fixed E dt (af_argdefs f) (af_args f) vv = Err /\
        compile_field C E dt vv f = CostModel.KField None true)
    \/ (coerce_argument_values all_fixed E dt (af_argdefs f) (af_args f) vv = Panic /\
        compile_field C E dt vv f = CostModel.KField (Some (panicking C)) false).
  Proof.
    unfold compile_field.
    destruct (coerce_argument_values all_fixed E dt (af_argdefs f) (af_args f) vv) as [m| |].
    - left. exists m. split; reflexivity.
    - right; left. split; reflexivity.
    - right; right. split; reflexivity.
  Qed.

  (** single-field documents (C05's shape: every variable of the operation is used by this field):
      the cost function is applied to exactly the argument map of C05's [cost_observation], which
      conforms to the declared argument types and is the reference coercion RefCoerce of what the
      client sent. *)
  Theorem field_sees_cost_observation defs raw vv (f : afield C) g :
    schema_ok E (af_argdefs f) -> request_ok defs raw ->
    static_ok all_fixed E dt true (af_argdefs f) defs (af_args f) = true ->
    coerce_variable_values all_fixed E dt defs raw = Ok vv ->
    af_cost f = Some g ->
    (exists m,
        compile_field C E dt vv f = CostModel.KField (Some (fun ctx => g ctx m)) false /\
        cost_observation all_fixed E dt true (af_argdefs f) defs (af_args f) raw = [m] /\
        args_conform_b E (af_argdefs f) m = true /\
        ref_request E dt (af_argdefs f) defs (af_args f) raw = Some m)
    \/ (compile_field C E dt vv f = CostModel.KField None true /\
        cost_observation all_fixed E dt true (af_argdefs f) defs (af_args f) raw = [] /\
        ref_request E dt (af_argdefs f) defs (af_args f) raw = None)
    \/ (compile_field C E dt vv f = CostModel.KField (Some (panicking C)) false /\
        run_request all_fixed E dt true (af_argdefs f) defs (af_args f) raw = OPanic).
  Proof.
    intros Hs Hr St Hv Hg.
    assert (HE : env_ok E = true) by (destruct Hs as (HE & _); exact HE).
    assert (Hraw : forall p, In p raw -> jval_ok (snd p) = true) by (destruct Hr as (_ & Hraw); exact Hraw).
    destruct (compile_field_cases vv f) as [(m & Hm & Hc)|[(Hm & Hc)|(Hm & Hc)]].
    - left. exists m. rewrite Hc, Hg.
      assert (Hobs : cost_observation all_fixed E dt true (af_argdefs f) defs (af_args f) raw = [m]).
      { unfold cost_observation. rewrite St. cbn [fix_rules_gate all_fixed negb andb]. rewrite Hv, Hm. reflexivity. }
      assert (Hrun : run_request all_fixed E dt true (af_argdefs f) defs (af_args f) raw = OCalled m).
      { unfold run_request. rewrite St. cbn [negb]. rewrite Hv, Hm. reflexivity. }
      split; [reflexivity|]. split; [exact Hobs|]. split.
      + apply (cost_args_conform E dt true (af_argdefs f) defs (af_args f) raw m Hs Hr).
        rewrite Hobs. left; reflexivity.
      + apply (called_is_reference E dt HE true (af_argdefs f) defs (af_args f) raw m Hraw Hrun).
    - right; left. split; [exact Hc|]. split.
      + unfold cost_observation. rewrite St. cbn [fix_rules_gate all_fixed negb andb]. rewrite Hv, Hm. reflexivity.
      + assert (Hrun : run_request all_fixed E dt true (af_argdefs f) defs (af_args f) raw = ORuntimeError).
        { unfold run_request. rewrite St. cbn [negb]. rewrite Hv, Hm. reflexivity. }
        pose proof (request_refines E dt HE true (af_argdefs f) defs (af_args f) raw Hraw St) as R.
        rewrite Hrun in R. exact R.
    - right; right. split; [exact Hc|].
      unfold run_request. rewrite St. cbn [negb]. rewrite Hv, Hm. reflexivity.
  Qed.

  (** with a closed schema the coercion code cannot panic (C05_request_no_panic): the third case
      disappears *)
  Corollary field_sees_spec_coerced defs raw vv (f : afield C) g :
    schema_ok E (af_argdefs f) -> request_ok defs raw ->
    env_closed E = true -> (forall ad, In ad (af_argdefs f) -> sty_closed E (in_type (snd ad)) = true) ->
    static_ok all_fixed E dt true (af_argdefs f) defs (af_args f) = true ->
    coerce_variable_values all_fixed E dt defs raw = Ok vv ->
    af_cost f = Some g ->
    match ref_request E dt (af_argdefs f) defs (af_args f) raw with
    | Some m => compile_field C E dt vv f = CostModel.KField (Some (fun ctx => g ctx m)) false /\
                In m (cost_observation all_fixed E dt true (af_argdefs f) defs (af_args f) raw) /\
                args_conform_b E (af_argdefs f) m = true
    | None => compile_field C E dt vv f = CostModel.KField None true        (* an error, nothing is called *)
    end.
  Proof.
    intros Hs Hr Hcl Hty St Hv Hg.
    destruct (field_sees_cost_observation defs raw vv f g Hs Hr St Hv Hg)
      as [(m & Hc & Ho & Hcf & Href)|[(Hc & Ho & Href)|(Hc & Hp)]].
    - rewrite Href. split; [exact Hc|]. split; [rewrite Ho; left; reflexivity|exact Hcf].
    - rewrite Href. exact Hc.
    - exfalso. exact (request_no_panic E dt Hcl all_fixed true (af_argdefs f) defs (af_args f) raw Hty Hp).
  Qed.

  (** ** 2. any document: a field selection among many.  The variables are those of the whole
      operation ([defs]: distinct names, constant defaults; [raw]: Go values), the field's argument
      literals passed the variable-usage rule against them ([field_usage_ok], the eighth conjunct
      of C05's [static_ok]; the other conjuncts are not needed, in particular not "every variable
      is used by this field").  Then whatever map the cost function is applied to conforms to the
      declared argument types.  (The proof is that of [CoerceProofs.argument_values_conform], which
      only uses that conjunct.) *)
  Definition field_usage_ok (defs : list vardef) (f : afield C) : bool :=
    forallb (fun a : name * lit =>
               match aget (fst a) (af_argdefs f) with
               | Some d => usage_ok all_fixed E defs (snd a) (Some (in_type d)) (arg_loc_default true d)
               | None => false
               end) (af_args f).

  Lemma argument_values_conform_usage argdefs defs args vv m :
    env_ok E = true ->
    has_dup (map fst argdefs) = false ->
    (forall ad, In ad argdefs -> default_ok E (snd ad) = true) ->
    forallb (fun a : name * lit =>
               match aget (fst a) argdefs with
               | Some d => usage_ok all_fixed E defs (snd a) (Some (in_type d)) (arg_loc_default true d)
               | None => false
               end) args = true ->
    vv_ok E defs vv ->
    coerce_argument_values all_fixed E dt argdefs args vv = Ok m ->
    args_conform_b E argdefs m = true.
  Proof.
    intros HE Hd Hdef U Hvv H. unfold coerce_argument_values in H.
    set (av := fold_left (fun m (a : name * lit) => mset (fst a) (snd a) m) args []) in H.
    assert (Us : forall aname l d, aget aname av = Some l -> In (aname, d) argdefs ->
                                   usage_ok all_fixed E defs l (Some (in_type d)) (arg_loc_default true d) = true).
    { intros aname l d G Hin. apply aget_fold_mset in G as [G|G]; [|discriminate].
      rewrite forallb_forall in U. specialize (U _ G). simpl in U.
      rewrite (nodup_aget argdefs aname d) in U; [exact U|rewrite dup_names_has_dup; auto|auto]. }
    set (Inv := fun (done : list (name * in_def)) (m : list (name * gval)) =>
                  (forall p, In p m -> exists ad, In ad done /\ fst ad = fst p) /\
                  (forall ad, In ad done ->
                              match aget (fst ad) m with
                              | Some g => conforms E g (in_type (snd ad)) = true
                              | None => is_nonnull (in_type (snd ad)) = false /\ in_default (snd ad) = None
                              end)).
    assert (I : Inv ([] ++ argdefs) m).
    { eapply (fold_res_inv2 _ (fun _ => eq_refl) (fun _ => eq_refl) Inv); [| |exact H].
      - split; [intros p []|intros ad []].
      - intros pre [aname d] suf m1 m2 Heq [K V] Hs. simpl in Heq.
        assert (Hin : In (aname, d) argdefs) by (rewrite Heq; apply in_or_app; right; left; auto).
        assert (Fresh : forall y, In y pre -> fst y <> aname).
        { rewrite Heq in Hd. intros y Hy. apply (nodup_prefix _ _ _ Hd y Hy). }
        assert (G0 : aget aname m1 = None).
        { destruct (aget aname m1) eqn:G; auto. apply aget_In in G. destruct (K _ G) as (ad & Ha & Hb).
          exfalso. apply (Fresh ad Ha). exact Hb. }
        assert (Store : forall c, conforms E c (in_type d) = true -> Inv (pre ++ [(aname, d)]) (mset aname c m1)).
        { intros c Hc. split.
          - intros p Hp. apply In_mset in Hp as [->|Hp].
            + exists (aname, d). split; [apply in_or_app; right; left; auto|auto].
            + destruct (K _ Hp) as (ad & Ha & Hb). exists ad. split; [apply in_or_app; auto|auto].
          - intros ad Ha. apply in_app_or in Ha as [Ha|[<-|[]]].
            + rewrite aget_mset_other; [apply V; auto|]. intro X. apply (Fresh ad Ha). auto.
            + simpl. rewrite aget_mset_same. exact Hc. }
        apply (arg_step_cases all_fixed E dt) in Hs as [(dv & D & ->)|[(l & c & G & Cc & ->)|(-> & N & D)]].
        + apply Store. specialize (Hdef _ Hin). unfold default_ok in Hdef. simpl in Hdef. rewrite D in Hdef.
          rewrite default_value_ref. exact Hdef.
        + apply Store.
          apply (literal_conf all_fixed E dt HE eq_refl eq_refl defs vv Hvv l _ _ _ _ Cc (Us _ _ _ G Hin)).
        + split.
          * intros p Hp. destruct (K _ Hp) as (ad & Ha & Hb). exists ad. split; [apply in_or_app; auto|auto].
          * intros ad Ha. apply in_app_or in Ha as [Ha|[<-|[]]]; [apply V; auto|]. simpl. rewrite G0. auto. }
    destruct I as [K V]. simpl in K, V. unfold args_conform_b. apply andb_true_iff. split.
    - apply forallb_forall. intros [k g] Hp. destruct (K _ Hp) as ([k' d] & Ha & Hb). simpl in *. subst.
      eapply In_ahas; eauto.
    - apply forallb_forall. intros ad Ha. specialize (V _ Ha).
      destruct (aget (fst ad) m); auto. destruct V as [-> ->]. reflexivity.
  Qed.

  Theorem field_args_conform defs raw vv (f : afield C) h :
    schema_ok E (af_argdefs f) ->
    has_dup (map vd_name defs) = false -> request_ok defs raw ->
    coerce_variable_values all_fixed E dt defs raw = Ok vv ->
    field_usage_ok defs f = true ->
    compile_field C E dt vv f = CostModel.KField (Some h) false ->
    h = panicking C \/
    exists g m, af_cost f = Some g /\ h = (fun ctx => g ctx m) /\
                coerce_argument_values all_fixed E dt (af_argdefs f) (af_args f) vv = Ok m /\
                args_conform_b E (af_argdefs f) m = true.
  Proof.
    intros (HE & Hd & Hdef) Hnd (Hc & Hr) Hv U Hk.
    destruct (compile_field_cases vv f) as [(m & Hm & Hcf)|[(Hm & Hcf)|(Hm & Hcf)]]; rewrite Hcf in Hk.
    - destruct (af_cost f) as [g|] eqn:Hg; [|discriminate]. right. exists g, m.
      split; [reflexivity|]. split; [inversion Hk; reflexivity|]. split; [exact Hm|].
      apply (argument_values_conform_usage (af_argdefs f) defs (af_args f) vv m HE Hd Hdef U); [|exact Hm].
      apply (variable_values_ok all_fixed E dt HE eq_refl eq_refl defs raw vv Hnd Hc Hr Hv).
    - discriminate.
    - left. inversion Hk; reflexivity.
  Qed.
End Field.

(** ** 3. the rule on a request is the rule on the compiled document: every theorem about
    [CostModel.validate_cost] applies to [validate_cost_request] *)
Section Request.
  Variable C : Type.
  Variable E : env.
  Variable dt : bytes -> option bytes.

  Definition compiled_ops (vv : cvars) (ops : list (aop C)) :=
    map (fun o => (ao_name o, compile C E dt vv (ao_body o))) ops.
  Definition compiled_frs (vv : cvars) (frs : list (bytes * anode C)) :=
    map (fun p => (fst p, compile C E dt vv (snd p))) frs.

  Theorem request_is_compiled skip_zero fuel dc ctx0 ops frs opname raw max vv :
    request_variables C E dt ops opname raw = Ok vv ->
    validate_cost_request C E dt skip_zero fuel dc ctx0 ops frs opname raw max
    = CostModel.validate_cost C skip_zero fuel dc ctx0 (compiled_ops vv ops) (compiled_frs vv frs) opname false max.
  Proof. intro H. unfold validate_cost_request. rewrite H. reflexivity. Qed.

  Lemma compiled_frs_length vv frs : length (compiled_frs vv frs) = length frs.
  Proof. apply map_length. Qed.

  (** the request-level rule never runs out of fuel either, whatever the document and the variables *)
  Theorem request_never_out_of_fuel skip_zero fuel dc ctx0 ops frs opname raw max :
    (length frs < fuel)%nat ->
    validate_cost_request C E dt skip_zero fuel dc ctx0 ops frs opname raw max <> CostModel.ROutOfFuel.
  Proof.
    intro Hf. unfold validate_cost_request.
    destruct (request_variables C E dt ops opname raw) as [vv| |].
    - apply CostProofs.never_out_of_fuel. fold (compiled_frs vv frs). rewrite compiled_frs_length. exact Hf.
    - apply CostProofs.never_out_of_fuel. fold (compiled_frs [] frs). rewrite compiled_frs_length. exact Hf.
    - discriminate.
  Qed.

  Lemma filter_compiled vv opname (ops : list (aop C)) :
    filter (fun o => CostSpec.op_matches opname (fst o)) (compiled_ops vv ops)
    = compiled_ops vv (filter (fun o => CostSpec.op_matches opname (ao_name o)) ops).
  Proof.
    induction ops as [|o ops IH]; [reflexivity|].
    cbn [compiled_ops map filter fst]. fold (compiled_ops vv ops).
    destruct (CostSpec.op_matches opname (ao_name o)).
    - cbn [map]. fold (compiled_ops vv (filter (fun o0 => CostSpec.op_matches opname (ao_name o0)) ops)).
      rewrite IH. reflexivity.
    - exact IH.
  Qed.

  (** the operation the rule walks is the compiled body of the operation whose variable definitions
      were used for the coercion *)
  Theorem chosen_operation vv ops opname :
    CostSpec.get_operation (compiled_ops vv ops) opname
    = match filter (fun o => CostSpec.op_matches opname (ao_name o)) ops with
      | [o] => Some (compile C E dt vv (ao_body o))
      | _ => None
      end.
  Proof.
    unfold CostSpec.get_operation. rewrite filter_compiled.
    destruct (filter (fun o => CostSpec.op_matches opname (ao_name o)) ops) as [|o [|o' l]]; reflexivity.
  Qed.

  (** variables that cannot be coerced: one secondary error, no cost function is called, nothing is reported *)
  Theorem request_vars_error skip_zero fuel dc ctx0 ops frs opname raw max defs :
    chosen_vardefs C ops opname = Some defs ->
    coerce_variable_values all_fixed E dt defs raw = Err ->
    validate_cost_request C E dt skip_zero fuel dc ctx0 ops frs opname raw max
    = CostModel.Secondary [CostModel.ECoerceVars].
  Proof.
    intros Hd He. unfold validate_cost_request, request_variables. rewrite Hd, He.
    fold (compiled_ops [] ops). fold (compiled_frs [] frs).
    unfold CostModel.validate_cost. rewrite CostProofs.select_op_spec, chosen_operation.
    unfold chosen_vardefs in Hd.
    destruct (filter (fun o => CostSpec.op_matches opname (ao_name o)) ops) as [|o [|o' l]]; try discriminate.
    reflexivity.
  Qed.

  Lemma compiled_frs_names vv frs : map fst (compiled_frs vv frs) = map fst frs.
  Proof. unfold compiled_frs. rewrite map_map. reflexivity. Qed.

  (** ** 4. the main statement of C14 on a request: document with argument literals + raw variable
      values.  The cost forest [ts] is the expansion of the compiled document, i.e. every field
      carries what its cost function answers on the spec-coerced arguments (section 1, 2). *)
  Theorem request_cost_exact dc ctx0 ops frs opname raw max fuel vv op ts :
    request_variables C E dt ops opname raw = Ok vv ->
    NoDup (map fst frs) ->
    CostSpec.get_operation (compiled_ops vv ops) opname = Some op ->
    CostSpec.Expand dc (compiled_frs vv frs) [] ctx0 op ts ->
    forallb CostSpec.costs_ok ts = true ->
    (length frs < fuel)%nat ->
    (max <= CostModel.MaxInt)%Z ->
    validate_cost_request C E dt true fuel dc ctx0 ops frs opname raw max
    = CostModel.Done (Z.min (CostSpec.RefCost ts) CostModel.MaxInt)
                     ((max >=? 0)%Z && (CostSpec.RefCost ts >? max)%Z).
  Proof.
    intros Hv Hnd Hop Hexp Hok Hf Hmax.
    rewrite (request_is_compiled true fuel dc ctx0 ops frs opname raw max vv Hv).
    apply (CostProofs.cost_exact C dc ctx0 (compiled_ops vv ops) (compiled_frs vv frs) opname max fuel op ts); try assumption.
    - rewrite compiled_frs_names. exact Hnd.
    - rewrite compiled_frs_length. exact Hf.
  Qed.
End Request.
