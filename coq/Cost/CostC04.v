(** * Cost/CostC04.v — C14 round 4: the cost rule behind the validator (C04 x C05 x C14).

    1. [trace_calls_reference]: for ANY document, every argument map a cost function is called with
       during the walk is the reference coercion (GraphQL 6.4.1 CoerceArgumentValues over 6.1.2
       CoerceVariableValues, C05's [ref_argument_values] / [ref_variable_values]) of the literals of
       that field selection — given only uniqueness facts: argument names unique per selection
       (5.4.2), input-object field names unique per literal (5.6.3), default values likewise.
       (C05's refinement lemmas [argument_values_refine], [variable_values_refine]; no
       "every variable is used by this field" side condition, no variable-usage rule.)
    2. [accepted_document_cost_calls]: the composed statement.  For a document ACCEPTED by C04's
       [validate_model repaired] over a well-formed schema, C04 gives 5.4 ([valid_5_4]), 5.6
       ([valid_5_6]) and the order-free content of validateVariables ([vars_fine]) — all facts about
       C04's encoding [D] of the document.  The request the cost rule walks is C14's encoding
       ([aop] / [anode] with C05 literals).  [document_bridge] names EXACTLY what is missing between
       the two encodings of one document (gap (c) of C05_C04_coercion_bridge_partial, "the document
       level"): three implications, each from a C04 specification fact about [D] to the fact about
       the request's field selections that sections 1 / trace_calls_conform consume.  Under it,
       every call made during the walk sees reference-coerced AND conforming arguments.
       What the existing bridges discharge of it: for object-free literals the second implication
       holds outright ([obj_free_lit_nodup]); for the rest see the comment at [document_bridge]. *)
From Coq Require Import List ZArith Bool Lia.
From ApiFu Require Import Base.Sexp.
From ApiFu Require Import Val.Values Val.MapFacts Val.CoerceModel Val.CoerceSpec Val.CoerceProofs Val.CoerceRefine Val.BridgeC04 Val.BridgeC04Proofs Val.BridgeC04Doc.
From ApiFu Require Vld.Ast Vld.ValidatorModel Vld.ValidSpec Vld.Hyps Vld.TypeInfoPure Vld.ProofsCommon Vld.ProofsArguments Vld.ProofsValues Vld.ProofsOrder Vld.ValidatorProofs.
From ApiFu Require Cost.CostModel.
From ApiFu Require Import Cost.CostArgs Cost.CostArgsProofs Cost.CostTrace Cost.CostTraceProofs Cost.CostC04Usage.
From ApiFu Require Vld.ProofsTypeInfoValues.
Import ListNotations.

Section Reference.
  Variable C : Type.
  Variable E : env.
  Variable dt : bytes -> option bytes.

  (** the field selections of the request as the walk can meet them *)
  (** the field selections the walk can meet: those of the nodes REACHED from the chosen operation
      (its body, the definitions of the fragments spread inside reached nodes) — not the fragments
      only other operations use *)
  Definition in_request (o : aop C) (frs : list (bytes * anode C)) (f : afield C) : Prop :=
    exists m, reached C frs (ao_body o) m /\ field_in C m f.

  Theorem trace_calls_reference skip_zero fuel dc ctx0 ops frs opname raw max o :
    chosen_op C ops opname = Some o ->
    env_ok E = true ->
    (forall p, In p raw -> jval_ok (snd p) = true) ->
    (forall def dflt, In def (ao_vardefs o) -> vd_default def = Some dflt -> lit_nodup dflt = true) ->
    (forall f, in_request o frs f ->
               dup_names (map fst (af_args f)) = false /\
               forall a l, In (a, l) (af_args f) -> lit_nodup l = true) ->
    forall c, In c (snd (validate_cost_trace C E dt skip_zero fuel dc ctx0 ops frs opname raw max)) ->
      exists vv,
        ref_variable_values E dt (ao_vardefs o) raw = Some vv /\
        ref_argument_values E dt (af_argdefs (c_field c))
          (map (fun p => match p with (k, l) => (k, abs_lit vv l) end) (af_args (c_field c))) = Some (c_args c).
  Proof.
    intros Ho HE Hraw Hdef Hfields c Hin.
    destruct (trace_calls_are_coerced C E dt _ _ _ _ _ _ _ _ _ c Hin) as (o' & vv & Ho' & Hv & Hscope & Ha & _).
    rewrite Ho in Ho'. inversion Ho'; subst o'.
    exists vv. split.
    - pose proof (variable_values_refine E dt HE (ao_vardefs o) raw Hdef Hraw) as V.
      rewrite Hv in V. simpl in V. exact V.
    - destruct (Hfields _ Hscope) as (Da & Hn).
      pose proof (argument_values_refine E dt HE (af_argdefs (c_field c)) (af_args (c_field c)) vv Da Hn) as A.
      rewrite Ha in A. simpl in A. exact A.
  Qed.

  Lemma obj_free_lit_nodup : forall l, obj_free l = true -> lit_nodup l = true.
  Proof.
    induction l as [n|z|m k|s|b| |n|vs IHl|fs IHf] using lit_ind'; intro H; try reflexivity.
    - cbn [lit_nodup]. cbn [obj_free] in H. apply forallb_forall. intros x Hx.
      rewrite forallb_forall in H. rewrite Forall_forall in IHl. apply IHl; [exact Hx|apply H; exact Hx].
    - discriminate.
  Qed.
End Reference.

(** ** the composed statement *)
Section Accepted.
  Variable C : Type.
  Variable E : env.
  Variable dt : bytes -> option bytes.
  (** C04's side: map order, schema, features, document *)
  Variable pi : ValidatorModel.order.
  Variable S : Ast.schema.
  Variable F : Ast.features.
  Variable D : Ast.document.
  (** C14's side: the same document as the cost rule walks it, and the request's raw variables *)
  Variable ops : list (aop C).
  Variable frs : list (bytes * anode C).
  Variable opname : bytes.
  Variable raw : list (name * jval).
  Variable o : aop C.

  Notation A := (TypeInfoPure.pti_doc (ValidatorModel.q_unwrap_obj ValidatorModel.repaired) S F D).

  (** THE GAP (document level): [D] (C04's AST with positions and TypeInfo annotations) and
      ([ops], [frs]) (C14's tree with C05 literals) encode one document over one schema.  Neither C04
      nor C05 defines a translation between the encodings beyond single literals ([BridgeC04.tr_lit]),
      so what such a translation would have to preserve is stated as three implications:
        - 5.4.2 (argument uniqueness, part of [valid_5_4]) of [D] => argument names are unique in
          every field selection of the request;
        - 5.6 of [D] => no input-object literal among the request's arguments, nor among the chosen
          operation's default values, names a field twice  (holds outright for object-free literals:
          [obj_free_lit_nodup]; for object literals it is item (a) of C05's bridge);
        - [vars_fine] for every definition of the annotated [D] (what validateVariables
          establishes, [C04_variables_rule_iff]) => every argument literal of the request passes
          C05's [usage_ok] against the chosen operation's variable definitions, and these have
          distinct names.
      The schema-level facts ([env_ok], [default_ok], unique argument definition names) are facts
      about the schema alone, true of every schema the library builds (C05's [schema_ok]). *)
  Record document_bridge : Prop := {
    db_arguments :
      ProofsArguments.valid_5_4 S F D = true ->
      forall f, in_request C o frs f -> dup_names (map fst (af_args f)) = false;
    db_values :
      ProofsValues.valid_5_6 S F D = true ->
      (forall f, in_request C o frs f -> forall a l, In (a, l) (af_args f) -> lit_nodup l = true) /\
      (forall def dflt, In def (ao_vardefs o) -> vd_default def = Some dflt -> lit_nodup dflt = true /\ lit_vars dflt = []);
    db_variables :
      (forall d, In d A -> ProofsOrder.vars_fine S A d) ->
      has_dup (map vd_name (ao_vardefs o)) = false /\
      forall f, in_request C o frs f -> field_usage_ok C E (ao_vardefs o) f = true
  }.

  Theorem accepted_document_cost_calls skip_zero fuel dc ctx0 max :
    ProofsCommon.order_ok pi -> Hyps.schema_ok S = true ->
    ValidatorModel.validate_model ValidatorModel.repaired pi S F D = Ast.Done [] ->
    Hyps.values_typed_input S F D = true ->
    document_bridge ->
    chosen_op C ops opname = Some o ->
    env_ok E = true ->
    (forall f, in_request C o frs f ->
               has_dup (map fst (af_argdefs f)) = false /\
               forall ad, In ad (af_argdefs f) -> default_ok E (snd ad) = true) ->
    (forall p, In p raw -> jval_ok (snd p) = true) ->
    forall c, In c (snd (validate_cost_trace C E dt skip_zero fuel dc ctx0 ops frs opname raw max)) ->
      (* conforming *)
      args_conform_b E (af_argdefs (c_field c)) (c_args c) = true /\
      (* reference-coerced *)
      exists vv,
        ref_variable_values E dt (ao_vardefs o) raw = Some vv /\
        ref_argument_values E dt (af_argdefs (c_field c))
          (map (fun p => match p with (k, l) => (k, abs_lit vv l) end) (af_args (c_field c))) = Some (c_args c).
  Proof.
    intros Hpi HS Hacc Htyped [Hba Hbv Hbvar] Ho HE Hschema Hraw c Hin.
    (* what C04 proves of an accepted document *)
    pose proof (ValidatorProofs.accepted_arguments_hold pi S F D Hpi HS Hacc) as H54.
    destruct (ValidatorProofs.accepted_rules_hold pi S F D Hpi Hacc) as (_ & _ & _ & H56).
    specialize (H56 HS Htyped).
    assert (Hvars : forall d, In d A -> ProofsOrder.vars_fine S A d).
    { apply (ProofsOrder.rule_variables_fine S A pi Hpi).
      apply ValidatorProofs.validate_model_nil in Hacc. apply ValidatorProofs.all_rules_nil in Hacc.
      destruct Hacc as (_ & _ & _ & _ & _ & _ & Hv). exact Hv. }
    specialize (Hba H54). destruct (Hbv H56) as (Hlits & Hdefs). destruct (Hbvar Hvars) as (Hnd & Husage).
    split.
    - apply (trace_calls_conform C E dt skip_zero fuel dc ctx0 ops frs opname raw max o Ho HE Hnd); [|
        |exact Hin].
      + split; [|exact Hraw]. intros def dflt Hd Hdf. exact (proj2 (Hdefs def dflt Hd Hdf)).
      + intros f Hf. destruct (Hschema f Hf) as (H1 & H2). split; [exact H1|]. split; [exact H2|apply Husage; exact Hf].
    - apply (trace_calls_reference C E dt skip_zero fuel dc ctx0 ops frs opname raw max o Ho HE Hraw); [|
        |exact Hin].
      + intros def dflt Hd Hdf. exact (proj1 (Hdefs def dflt Hd Hdf)).
      + intros f Hf. split; [apply Hba; exact Hf|apply Hlits; exact Hf].
  Qed.
End Accepted.

(** ** round 5: two of the three implications of [document_bridge] discharged through C05's document
    bridge (Val/BridgeC04Doc.v, [C05_C04_accepts_implies_static_ok_partial], and the completed
    literal bridge [C05_C04_coercion_bridge_partial], objects included).

    The premises are now C04's own per-node checks RUN on the translation of each field selection of
    the request ([BridgeC04.tr_args], [tr_argdefs], [tr_lit], [tr_sty], [tr_env]):
      - validateArguments' check on the node ([ValidatorModel.args_node repaired]) is silent;
      - validateCoercion ([c04_accepts] = [ValidatorModel.coercion repaired] on the translation) is
        silent on every argument value at its declared type and on every variable default.
    From them: argument names unique, [lit_nodup] of every literal (so every call is
    reference-coerced) — no hypothesis about the request's uniqueness facts is left.
    What remains (the third implication, validateVariables): [field_usage_ok], i.e. that C04's
    [usage_errs] on the translated value (C04_variable_usages_in_value / C04_typeinfo_arguments /
    _list_items / _object_fields give the visitor's errors as that recursion) is C05's [usage_ok];
    the two leaf functions agree ([C05_C04_types_compatible], [C05_C04_variable_usage]), the
    recursion through list items / object fields / the scalar mark is not related yet; and C05's gap
    (b): that the whole-document verdict [validate_model = Done []] yields these per-node premises
    ([inspect] reaches exactly these nodes). *)
Section Nodes.
  Variable C : Type.
  Variable E : env.
  Variable dt : bytes -> option bytes.
  Variable ops : list (aop C).
  Variable frs : list (bytes * anode C).
  Variable opname : bytes.
  Variable raw : list (name * jval).
  Variable o : aop C.

  (** C04's node-level checks on the translation of one field selection *)
  Definition c04_node_silent (f : afield C) : Prop :=
    (exists p, fst (ValidatorModel.args_node ValidatorModel.repaired ValidatorModel.id_order []
                      (tr_args 0 (af_args f)) (tr_argdefs (af_argdefs f)) p) = []) /\
    (forall a d, In a (af_args f) -> aget (fst a) (af_argdefs f) = Some d -> c04_accepts E (snd a) (in_type d) true = true).
  Definition c04_defaults_silent : Prop :=
    forall def dflt, In def (ao_vardefs o) -> vd_default def = Some dflt ->
                     type_known E (vd_type def) = true /\ c04_accepts E dflt (vd_type def) true = true.

  Lemma node_facts (f : afield C) :
    bridgeable E = true -> (no_float E = true \/ float_leaves_agree dt) ->
    c04_node_silent f -> c04_defaults_silent ->
    dup_names (map fst (af_args f)) = false /\
    (forall a l, In (a, l) (af_args f) -> lit_nodup l = true) /\
    (forall def dflt, In def (ao_vardefs o) -> vd_default def = Some dflt -> lit_nodup dflt = true).
  Proof.
    intros HB HF ((p & Hn) & Hv) Hd.
    pose proof (arguments_values_from_c04 E dt (af_argdefs f) (ao_vardefs o) (af_args f) p HB HF Hn Hv Hd) as St.
    unfold static_ok_arguments_values in St.
    repeat (apply andb_true_iff in St as [St ?]).
    split; [|split].
    - rewrite dup_names_has_dup.
      match goal with X : negb (has_dup (map fst (af_args f))) = true |- _ => apply negb_true_iff in X; exact X end.
    - intros a l Hin.
      match goal with X : forallb (fun a0 => match aget (fst a0) (af_argdefs f) with Some d => validate_coercion _ _ _ _ _ | None => false end) (af_args f) = true |- _ =>
        rewrite forallb_forall in X; specialize (X _ Hin); cbn [fst snd] in X end.
      destruct (aget a (af_argdefs f)); [|discriminate]. eapply validate_nodup; eassumption.
    - intros def dflt Hin Hdf.
      match goal with X : forallb (fun def0 => match vd_default def0 with Some d => _ && validate_coercion _ _ _ _ _ | None => true end) (ao_vardefs o) = true |- _ =>
        rewrite forallb_forall in X; specialize (X _ Hin); rewrite Hdf in X; apply andb_true_iff in X as [_ X] end.
      eapply validate_nodup; eassumption.
  Qed.

  Theorem c04_nodes_cost_calls skip_zero fuel dc ctx0 max :
    bridgeable E = true -> (no_float E = true \/ float_leaves_agree dt) ->
    chosen_op C ops opname = Some o ->
    env_ok E = true ->
    (* C04's per-node checks, silent on the translation of every field selection and default *)
    (forall f, in_request C o frs f -> c04_node_silent f) -> c04_defaults_silent ->
    (* the schema: argument definitions named once, defaults are values of their types *)
    (forall f, in_request C o frs f ->
               has_dup (map fst (af_argdefs f)) = false /\
               forall ad, In ad (af_argdefs f) -> default_ok E (snd ad) = true) ->
    (* the parser: default values are constants; Go: well-formed variable values *)
    (forall def dflt, In def (ao_vardefs o) -> vd_default def = Some dflt -> lit_vars dflt = []) ->
    (forall p, In p raw -> jval_ok (snd p) = true) ->
    forall c, In c (snd (validate_cost_trace C E dt skip_zero fuel dc ctx0 ops frs opname raw max)) ->
      (* reference-coerced: no further hypothesis *)
      (exists vv,
         ref_variable_values E dt (ao_vardefs o) raw = Some vv /\
         ref_argument_values E dt (af_argdefs (c_field c))
           (map (fun p => match p with (k, l) => (k, abs_lit vv l) end) (af_args (c_field c))) = Some (c_args c)) /\
      (* conforming: given what validateVariables establishes (the remaining gap) *)
      (has_dup (map vd_name (ao_vardefs o)) = false ->
       (forall f, in_request C o frs f -> field_usage_ok C E (ao_vardefs o) f = true) ->
       args_conform_b E (af_argdefs (c_field c)) (c_args c) = true).
  Proof.
    intros HB HF Ho HE Hnodes Hdefs Hschema Hclosed Hraw c Hin.
    split.
    - apply (trace_calls_reference C E dt skip_zero fuel dc ctx0 ops frs opname raw max o Ho HE Hraw); [| |exact Hin].
      + destruct (ao_vardefs o) as [|d0 r] eqn:Ed.
        * intros def dflt [].
        * intros def dflt Hd Hdf.
          (* any field's node facts carry the defaults; use the defaults premise directly *)
          destruct (Hdefs def dflt) as (_ & Hc); [rewrite Ed; exact Hd|exact Hdf|].
          rewrite (bridge_bridgeable E dt HB HF) in Hc. eapply validate_nodup; exact Hc.
      + intros f Hf. destruct (node_facts f HB HF (Hnodes f Hf) Hdefs) as (H1 & H2 & _). split; assumption.
    - intros Hnd Husage.
      apply (trace_calls_conform C E dt skip_zero fuel dc ctx0 ops frs opname raw max o Ho HE Hnd); [| |exact Hin].
      + split; [exact Hclosed|exact Hraw].
      + intros f Hf. destruct (Hschema f Hf) as (H1 & H2). split; [exact H1|]. split; [exact H2|apply Husage; exact Hf].
  Qed.
End Nodes.

(** ** round 5, continued: the third implication as well.  [field_usage_ok] follows from C04's
    [usage_errs] (the errors of validateVariables' visitor inside the annotated argument value,
    C04_variable_usages_in_value) being empty on the translation, jointly with the values rule
    ([CostC04Usage.usage_from_c04]).  All three facts the every-call theorems need are now derived from
    C04's per-node functions run on the translation of the request; what is left is C05's gap (b)
    alone: that the whole-document verdict yields these per-node premises. *)
Section Nodes3.
  Variable C : Type.
  Variable E : env.
  Variable dt : bytes -> option bytes.
  Variable ops : list (aop C).
  Variable frs : list (bytes * anode C).
  Variable opname : bytes.
  Variable raw : list (name * jval).
  Variable o : aop C.
  (** C04's annotated variable definitions of the chosen operation *)
  Variable vars' : list Ast.vardef.

  (** validateVariables' visitor is silent inside every argument value of the selection; every
      argument given is defined *)
  Definition c04_usage_silent (f : afield C) : Prop :=
    forall a l, In (a, l) (af_args f) ->
      exists d, aget a (af_argdefs f) = Some d /\
        nil_errs (ProofsTypeInfoValues.usage_errs true (tr_env E) vars' false
                    (Some (tr_sty (in_type d))) (arg_loc_default true d) (tr_lit l)) = true.

  Lemma field_usage_from_c04 (f : afield C) :
    bridgeable E = true -> (no_float E = true \/ float_leaves_agree dt) ->
    Forall2 vardef_rel (ao_vardefs o) vars' ->
    (forall d, In d (ao_vardefs o) -> type_known E (vd_type d) = true) ->
    c04_node_silent C E f -> c04_usage_silent f ->
    field_usage_ok C E (ao_vardefs o) f = true.
  Proof.
    intros HB HF Hv Hk (_ & Hacc) Hu. unfold field_usage_ok. apply forallb_forall. intros [a l] Hin.
    destruct (Hu a l Hin) as (d & Hd & He). cbn [fst snd]. rewrite Hd.
    apply (usage_from_c04 E dt (ao_vardefs o) vars' Hv Hk l (in_type d) true (arg_loc_default true d)); [|exact He].
    rewrite <- (bridge_bridgeable E dt HB HF). apply (Hacc (a, l) d Hin Hd).
  Qed.

  Theorem c04_nodes_cost_calls_all skip_zero fuel dc ctx0 max :
    bridgeable E = true -> (no_float E = true \/ float_leaves_agree dt) ->
    chosen_op C ops opname = Some o ->
    env_ok E = true ->
    (* C04's per-node functions on the translation of the request *)
    (forall f, in_request C o frs f -> c04_node_silent C E f /\ c04_usage_silent f) ->
    c04_defaults_silent C E o ->
    Forall2 vardef_rel (ao_vardefs o) vars' ->
    (* what C04's vardefs_loop reports otherwise (EVarDup, EVarUnknownType) *)
    has_dup (map vd_name (ao_vardefs o)) = false ->
    (forall d, In d (ao_vardefs o) -> type_known E (vd_type d) = true) ->
    (* the schema *)
    (forall f, in_request C o frs f ->
               has_dup (map fst (af_argdefs f)) = false /\
               forall ad, In ad (af_argdefs f) -> default_ok E (snd ad) = true) ->
    (* the parser; Go *)
    (forall def dflt, In def (ao_vardefs o) -> vd_default def = Some dflt -> lit_vars dflt = []) ->
    (forall p, In p raw -> jval_ok (snd p) = true) ->
    forall c, In c (snd (validate_cost_trace C E dt skip_zero fuel dc ctx0 ops frs opname raw max)) ->
      args_conform_b E (af_argdefs (c_field c)) (c_args c) = true /\
      exists vv,
        ref_variable_values E dt (ao_vardefs o) raw = Some vv /\
        ref_argument_values E dt (af_argdefs (c_field c))
          (map (fun p => match p with (k, l) => (k, abs_lit vv l) end) (af_args (c_field c))) = Some (c_args c).
  Proof.
    intros HB HF Ho HE Hnodes Hdefs Hvars Hnd Hknown Hschema Hclosed Hraw c Hin.
    destruct (c04_nodes_cost_calls C E dt ops frs opname raw o skip_zero fuel dc ctx0 max HB HF Ho HE
                (fun f Hf => proj1 (Hnodes f Hf)) Hdefs Hschema Hclosed Hraw c Hin) as (Href & Hconf).
    split; [|exact Href].
    apply Hconf; [exact Hnd|].
    intros f Hf. destruct (Hnodes f Hf) as (Hn & Hu).
    apply (field_usage_from_c04 f HB HF Hvars Hknown Hn Hu).
  Qed.
End Nodes3.
