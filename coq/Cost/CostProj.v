(** * Cost/CostProj.v — the single-field projection of a request at a field selection (definitions
    only; theorems in CostC04Proj.v). *)
From Coq Require Import List Bool.
From ApiFu Require Import Base.Sexp Val.Values Val.CoerceModel Val.BridgeC04.
From ApiFu Require Import Cost.CostArgs.
Import ListNotations.

Section Projection.
  Variable C : Type.
  Variable E : env.
  Variable dt : bytes -> option bytes.

  (** the variable definitions of the operation that the argument literals of [f] mention *)
  Definition mentions (f : afield C) (def : vardef) : bool :=
    existsb (fun a : name * lit => existsb (bytes_eqb (vd_name def)) (lit_vars (snd a))) (af_args f).
  Definition used_defs (defs : list vardef) (f : afield C) : list vardef := filter (mentions f) defs.

  (** C04's ValidateDocument model accepts the single-field projection of the request at [f] *)
  Definition projection_accepted (defs : list vardef) (f : afield C) : bool :=
    c04_document_accepts_r dt E true None (af_argdefs f) (used_defs defs f) (af_args f).
End Projection.
