(** * Cost/CostC04Usage.v — C14 round 5: validateVariables inside an argument value, C04 against C05.

    C04 gives the errors of validateVariables' visitor inside one annotated argument value as the
    recursion [usage_errs] (ProofsTypeInfoValues: C04_variable_usages_in_value, with
    C04_typeinfo_arguments / _list_items / _object_fields).  C05's [static_ok] / this property's
    [field_usage_ok] use the boolean recursion [usage_ok].  They are related here, on the translation
    ([BridgeC04.tr_lit], [tr_sty], [tr_env]) of a literal at its expected type:

      validate_coercion E dt l t a = true  ->                (the values rule is silent on it)
      usage_errs true (tr_env E) vars' false (Some (tr_sty t)) ld (tr_lit l) = []  ->
      usage_ok all_fixed E defs l (Some t) ld = true

    The values rule is needed: where nothing is expected of a nested value C04 marks it as lying
    inside a scalar literal and is then silent about variables, C05 is not; [validate_coercion = true]
    excludes those positions (a list / object literal at a scalar, enum or mismatching type; an
    unknown object field).  [vars'] are C04's annotated variable definitions of the operation:
    same names in the same order, [vd_ann] the translated declared type, the translated default. *)
From Coq Require Import List NArith ZArith Bool.
From ApiFu Require Import Base.Sexp Val.Values Val.MapFacts Val.CoerceModel Val.CoerceSpec Val.CoerceProofs Val.CoerceComplete
     Val.BridgeC04 Val.BridgeC04Proofs Val.BridgeC04Doc.
From ApiFu Require Vld.Ast Vld.ValidatorModel Vld.TypeInfoModel Vld.ProofsTypeInfoValues.
Import ListNotations.

Module PV := ProofsTypeInfoValues.

Definition nil_errs (l : list Ast.verror) : bool := match l with [] => true | _ => false end.

Lemma nil_errs_app a b : nil_errs (a ++ b) = nil_errs a && nil_errs b.
Proof. destruct a; reflexivity. Qed.

Lemma nil_errs_flat_map {A} (f : A -> list Ast.verror) l :
  nil_errs (flat_map f l) = forallb (fun x => nil_errs (f x)) l.
Proof. induction l as [|x r IH]; [reflexivity|]. cbn [flat_map forallb]. rewrite nil_errs_app, IH. reflexivity. Qed.

(** ** translations of the type functions *)
Lemma nullable_tr t : Ast.nullable (tr_sty t) = tr_sty (nullable_type t).
Proof. induction t; simpl; auto. Qed.

Lemma unwrapped_tr t : Ast.StNamed (Ast.unwrapped (tr_sty t)) = tr_sty (leaf_type t).
Proof. induction t; simpl; auto. Qed.

Lemma dflt_is_value_tr fd : TypeInfoModel.dflt_is_value (Ast.in_default (tr_indef fd)) = field_loc_default fd.
Proof. unfold tr_indef, field_loc_default. cbn [Ast.in_default]. destruct (in_default fd) as [g|]; [destruct g|]; reflexivity. Qed.

(** ** the annotated variable definitions *)
Definition vardef_rel (d : vardef) (d' : Ast.vardef) : Prop :=
  Ast.vd_name d' = vd_name d /\ Ast.vd_ann d' = Some (tr_sty (vd_type d)) /\
  Ast.vd_default d' = option_map tr_lit (vd_default d).

Lemma vardef_first_rel n : forall defs vars', Forall2 vardef_rel defs vars' ->
  match find_def n defs, ValidatorModel.vardef_first n vars' with
  | Some d, Some d' => vardef_rel d d' /\ In d defs
  | None, None => True
  | _, _ => False
  end.
Proof.
  induction 1 as [|d d' defs vars' Hr Hrest IH]; [exact I|].
  unfold find_def in *. cbn [find ValidatorModel.vardef_first].
  destruct Hr as (Hn & Ha & Hd). rewrite Hn. unfold Ast.name_eqb.
  destruct (bytes_eqb n (vd_name d)).
  - split; [repeat split; assumption|left; reflexivity].
  - destruct (find (fun d0 => bytes_eqb n (vd_name d0)) defs) as [x|];
      destruct (ValidatorModel.vardef_first n vars') as [x'|]; try exact IH.
    destruct IH as [H1 H2]. split; [exact H1|right; exact H2].
Qed.

(** ** what [validate_coercion = true] says about a list / object literal at a type *)
Lemma vc_list E dt vs : forall t a, validate_coercion E dt (LList vs) t a = true ->
  exists t', nullable_type t = StList t' /\ forallb (fun v => validate_coercion E dt v t' false) vs = true.
Proof.
  induction t as [n|t' IH|t' IH]; intros a H; rewrite vc_eq in H.
  - destruct (aget n E) as [[k|vals|fields h]|]; try discriminate. destruct k; discriminate.
  - exists t'. split; [reflexivity|exact H].
  - cbn [nullable_type]. eapply IH. exact H.
Qed.

Lemma vc_object E dt fs : forall t a, validate_coercion E dt (LObject fs) t a = true ->
  exists n fields h, leaf_type t = StNamed n /\ aget n E = Some (TInput fields h) /\
    forallb (fun p : name * lit => match aget (fst p) fields with
                                   | Some fd => validate_coercion E dt (snd p) (in_type fd) true
                                   | None => false
                                   end) fs = true.
Proof.
  induction t as [n|t' IH|t' IH]; intros a H; rewrite vc_eq in H.
  - destruct (aget n E) as [[k|vals|fields h]|] eqn:G; try discriminate.
    + destruct k; discriminate.
    + exists n, fields, h. split; [reflexivity|]. split; [exact G|].
      apply andb_true_iff in H as [H _]. apply andb_true_iff in H as [_ H]. exact H.
  - destruct a; [|discriminate]. cbn [leaf_type]. eapply IH. exact H.
  - cbn [leaf_type]. eapply IH. exact H.
Qed.

Section Usage.
  Variable E : env.
  Variable dt : bytes -> option bytes.
  Variable defs : list vardef.
  Variable vars' : list Ast.vardef.
  Hypothesis Hvars : Forall2 vardef_rel defs vars'.
  Hypothesis Hknown : forall d, In d defs -> type_known E (vd_type d) = true.

  Notation ue := (PV.usage_errs true (tr_env E) vars').

  Lemma list_item_tr t : PV.list_item (Some (tr_sty t)) =
    match nullable_type t with StList t' => Some (tr_sty t') | _ => None end.
  Proof. unfold PV.list_item. rewrite nullable_tr. destruct (nullable_type t); reflexivity. Qed.

  Lemma object_fields_tr t n fields h : leaf_type t = StNamed n -> aget n E = Some (TInput fields h) ->
    TypeInfoModel.object_fields true (tr_env E) (Some (tr_sty t)) =
    Some (map (fun f : name * in_def => (fst f, tr_indef (snd f))) fields).
  Proof.
    intros Hl Hn. unfold TypeInfoModel.object_fields.
    assert (Hu : Ast.unwrapped (tr_sty t) = n).
    { pose proof (unwrapped_tr t) as U. rewrite Hl in U. cbn [tr_sty] in U. inversion U; reflexivity. }
    rewrite Hu, raw_body_tr, Hn. reflexivity.
  Qed.

  Theorem usage_from_c04 : forall l t a ld,
    validate_coercion E dt l t a = true ->
    nil_errs (ue false (Some (tr_sty t)) ld (tr_lit l)) = true ->
    usage_ok all_fixed E defs l (Some t) ld = true.
  Proof.
    induction l as [n|z|m k|s|b| |n|vs IHl|fs IHf] using lit_ind'; intros t a ld Hvc Hue; try reflexivity.
    - (* a variable *)
      cbn [tr_lit PV.usage_errs] in Hue. cbn [usage_ok].
      pose proof (vardef_first_rel n defs vars' Hvars) as R.
      destruct (find_def n defs) as [d|]; destruct (ValidatorModel.vardef_first n vars') as [d'|]; try contradiction.
      + destruct R as ((Hn & Ha & Hd) & Hin).
        rewrite <- (variable_usage_tr E d d' t ld p0 Ha Hd (Hknown d Hin)).
        unfold nil_b. unfold nil_errs in Hue.
        destruct (ValidatorModel.variable_usage d' _ _); [reflexivity|discriminate].
      + discriminate.
    - (* a list *)
      destruct (vc_list E dt vs t a Hvc) as (t' & Hn & Hall).
      cbn [tr_lit PV.usage_errs] in Hue. cbn [usage_ok]. rewrite Hn.
      rewrite list_item_tr, Hn in Hue. unfold PV.nested_mark in Hue. cbn iota in Hue.
      rewrite nil_errs_flat_map in Hue. rewrite forallb_map_eq in Hue.
      apply forallb_forall. intros x Hx.
      rewrite forallb_forall in Hue, Hall. rewrite Forall_forall in IHl.
      apply (IHl x Hx t' false false (Hall x Hx) (Hue x Hx)).
    - (* an object *)
      destruct (vc_object E dt fs t a Hvc) as (n & fields & h & Hl & Hn & Hall).
      cbn [tr_lit PV.usage_errs] in Hue. cbn [usage_ok fix_item_object all_fixed]. rewrite Hl, Hn.
      rewrite (object_fields_tr t n fields h Hl Hn) in Hue.
      rewrite nil_errs_flat_map in Hue. rewrite forallb_map_eq in Hue.
      apply forallb_forall. intros [k x] Hx.
      rewrite forallb_forall in Hue, Hall. rewrite Forall_forall in IHf.
      specialize (Hue _ Hx). specialize (Hall _ Hx). cbn [fst snd] in Hue, Hall |- *.
      rewrite assoc_tr_fields in Hue.
      destruct (aget k fields) as [fd|]; [|discriminate]. cbn [option_map] in Hue.
      change (Ast.in_type (tr_indef fd)) with (tr_sty (in_type fd)) in Hue.
      rewrite dflt_is_value_tr in Hue.
      apply (IHf (k, x) Hx (in_type fd) true (field_loc_default fd) Hall Hue).
  Qed.
End Usage.

(** C04's annotated variable definitions, as NewTypeInfo leaves them for known types *)
Definition ann_vardefs (defs : list vardef) : list Ast.vardef :=
  map (fun d => let v := tr_vardef 0 d in
                {| Ast.vd_ann := Some (tr_sty (vd_type d)); Ast.vd_name := Ast.vd_name v; Ast.vd_dollar := Ast.vd_dollar v;
                   Ast.vd_npos := Ast.vd_npos v; Ast.vd_type := Ast.vd_type v; Ast.vd_default := Ast.vd_default v |}) defs.

Lemma ann_vardefs_rel defs : Forall2 vardef_rel defs (ann_vardefs defs).
Proof. induction defs as [|d r IH]; constructor; [repeat split|exact IH]. Qed.
