(** * Cost/CostRealDoc.v — C14 round 6: a first piece of the whole-document step on the REAL document.

    C03's composition (Pipe/CostCompose.v) turns C04's annotated document [pti_doc qo VS F D] into the
    request the cost rule walks ([c_ops], [c_frs]: fields at any depth, fragments).  For a document
    ACCEPTED by C04's [validate_model repaired] — any schema, any number of fields — every field
    selection of that request has its arguments named once: the first of the three facts
    [CostC04.document_bridge] asks for, here PROVED from whole-document acceptance by the membership
    argument (validateArguments is a flat map over the nodes of the document; its silence is the
    silence of every node, [InspectProofs.visit_nil_iff]; every field selection of the request is a
    node of the document). *)
From Coq Require Import List NArith ZArith Bool.
From ApiFu Require Import Base.Sexp.
From ApiFu Require Vld.Ast Vld.AstInd Vld.Inspect Vld.InspectProofs Vld.TypeInfoPure Vld.ValidatorModel
     Vld.ProofsCommon Vld.ProofsArguments Vld.ProofsValues Vld.ValidatorProofs.
From ApiFu Require Val.Values Val.CoerceModel Val.CoerceSpec Val.CoerceProofs.
From ApiFu Require Cost.CostTrace Cost.CostTraceProofs Cost.CostC04.
From ApiFu Require Import Cost.CostArgs.
From ApiFu Require Pipe.CostCompose.
Import ListNotations.

Module A := Vld.Ast.
Module I := Vld.Inspect.
Module CC := Pipe.CostCompose.

Lemma forallb_map_eq' {X Y} (f : Y -> bool) (g : X -> Y) l : forallb f (map g l) = forallb (fun x => f (g x)) l.
Proof. induction l; simpl; congruence. Qed.

Lemma bytes_eqb_sym a b : bytes_eqb a b = bytes_eqb b a.
Proof.
  destruct (bytes_eqb a b) eqn:E1; destruct (bytes_eqb b a) eqn:E2; try reflexivity.
  - apply bytes_eqb_eq in E1. subst. rewrite bytes_eqb_refl in E2. discriminate.
  - apply bytes_eqb_eq in E2. subst. rewrite bytes_eqb_refl in E1. discriminate.
Qed.

Lemma nodupb_has_dup l : ValidSpec.nodupb l = negb (CoerceModel.has_dup l).
Proof.
  induction l as [|x r IH]; [reflexivity|]. cbn [ValidSpec.nodupb CoerceModel.has_dup].
  rewrite IH, negb_orb. reflexivity.
Qed.

(** ** every field selection of the request is a node of the document *)
Section Membership.
  Variable ES : ExeA.ArgData.schema.

  Definition is_field_node (f : afield unit) (n : I.node) : Prop :=
    exists a al fname np args dirs sub,
      n = I.NSel (A.SField (Some a) al fname np args dirs sub) /\
      af_args f = map (fun x => (A.a_name x, CC.l_of_vld (A.a_value x))) args.

  Lemma in_tree_nodes_kid n cs c m : In c cs -> In m (I.tree_nodes c) -> In m (I.tree_nodes (I.T n cs)).
  Proof. intros Hc Hm. cbn [I.tree_nodes]. right. apply in_flat_map. exists c. split; assumption. Qed.

  Lemma field_in_c :
    (forall s parent f, field_in unit (CC.c_sel ES parent s) f -> exists n, In n (I.tree_nodes (I.tree_sel s)) /\ is_field_node f n) /\
    (forall ss f, field_in unit (CC.c_ss ES ss) f -> exists n, In n (I.tree_nodes (I.tree_ss ss)) /\ is_field_node f n).
  Proof.
    apply AstInd.sel_ss_ind.
    - (* a field *)
      intros a al n np args dirs sub IH parent f H.
      cbn [CC.c_sel] in H.
      assert (Hkid : forall x, In x (match sub with Some ss => [CC.c_ss ES ss] | None => [] end) -> field_in unit x f ->
                     exists m, In m (I.tree_nodes (I.tree_sel (A.SField a al n np args dirs sub))) /\ is_field_node f m).
      { intros x Hx Hf. destruct sub as [ss|]; [|destruct Hx]. destruct Hx as [<-|[]].
        destruct (IH ss eq_refl f Hf) as (m & Hm & Hfm). exists m. split; [|exact Hfm].
        cbn [I.tree_sel]. eapply in_tree_nodes_kid; [|exact Hm].
        apply in_or_app. right. apply in_or_app. right. apply in_or_app. right. apply in_or_app. right.
        cbn [I.opt_tree]. left. reflexivity. }
      destruct a as [def|].
      + inversion H; subst.
        * eexists. split; [cbn [I.tree_sel I.tree_nodes]; left; reflexivity|].
          exists def, al, n, np, args, dirs, sub. split; reflexivity.
        * eapply Hkid; eassumption.
      + inversion H; subst. eapply Hkid; eassumption.
    - (* a spread *)
      intros n np dirs e parent f H. cbn [CC.c_sel] in H.
      inversion H; subst. match goal with X : In _ [] |- _ => destruct X end.
    - (* an inline fragment *)
      intros cond dirs sub e IH parent f H. cbn [CC.c_sel] in H.
      inversion H; subst.
      match goal with X : In _ [_] |- _ => destruct X as [<-|[]] end.
      match goal with X : field_in _ _ f |- _ => destruct (IH f X) as (m & Hm & Hfm) end.
      exists m. split; [|exact Hfm].
      cbn [I.tree_sel]. eapply in_tree_nodes_kid; [|exact Hm].
      apply in_or_app. right. apply in_or_app. right. left. reflexivity.
    - (* a selection set *)
      intros a sels p IH f H. cbn [CC.c_ss] in H.
      inversion H; subst.
      match goal with X : In _ (map _ sels) |- _ => apply in_map_iff in X as (s & <- & Hs) end.
      rewrite Forall_forall in IH.
      match goal with X : field_in _ _ f |- _ => destruct (IH s Hs a f X) as (m & Hm & Hfm) end.
      exists m. split; [|exact Hfm].
      cbn [I.tree_ss]. eapply in_tree_nodes_kid; [|exact Hm]. apply in_map. exact Hs.
  Qed.

  (** through the wrapper [ANode AOther [c_ss sub]] of an operation / fragment body *)
  Lemma field_in_body ss f :
    field_in unit (ANode AOther [CC.c_ss ES ss]) f -> exists n, In n (I.tree_nodes (I.tree_ss ss)) /\ is_field_node f n.
  Proof.
    intro H. inversion H; subst.
    match goal with X : In _ [_] |- _ => destruct X as [<-|[]] end.
    apply (proj2 field_in_c ss f). assumption.
  Qed.

  Lemma field_of_doc (D : A.document) f :
    (exists o, In o (CC.c_ops ES D) /\ field_in unit (ao_body o) f) \/
    (exists p, In p (CC.c_frs ES D) /\ field_in unit (snd p) f) ->
    exists n, In n (I.tree_nodes (I.tree_doc D)) /\ is_field_node f n.
  Proof.
    intros [(o & Ho & Hf)|(p & Hp & Hf)].
    - unfold CC.c_ops in Ho. apply in_flat_map in Ho as (d & Hd & Ho).
      destruct d as [ot nm vars dirs sub|kw n np cond dirs sub]; [|destruct Ho].
      destruct Ho as [<-|[]]. cbn [ao_body] in Hf.
      destruct (field_in_body sub f Hf) as (m & Hm & Hfm). exists m. split; [|exact Hfm].
      unfold I.tree_doc. eapply in_tree_nodes_kid; [apply in_map; exact Hd|].
      cbn [I.tree_def]. eapply in_tree_nodes_kid; [|exact Hm].
      apply in_or_app. right. apply in_or_app. right. apply in_or_app. right. apply in_or_app. right. left. reflexivity.
    - unfold CC.c_frs in Hp. apply in_flat_map in Hp as (d & Hd & Hp).
      destruct d as [ot nm vars dirs sub|kw n np cond dirs sub]; [destruct Hp|].
      destruct Hp as [<-|[]]. cbn [snd] in Hf.
      destruct (field_in_body sub f Hf) as (m & Hm & Hfm). exists m. split; [|exact Hfm].
      unfold I.tree_doc. eapply in_tree_nodes_kid; [apply in_map; exact Hd|].
      cbn [I.tree_def]. eapply in_tree_nodes_kid; [|exact Hm].
      right. apply in_or_app. right. left. reflexivity.
  Qed.
End Membership.

(** ** validateArguments, silent on the whole document, is silent on every node *)
Section Arguments.
  Variable pi : ValidatorModel.order.
  Hypothesis Hpi : ProofsCommon.order_ok pi.
  Variable S : A.schema.

  Lemma arg_g_true n : ProofsArguments.arg_f pi S n = [] -> ProofsArguments.arg_g S n = true.
  Proof.
    destruct n as [d|d| | | | |d| |s|a| |]; try reflexivity; cbn [ProofsArguments.arg_f ProofsArguments.arg_g].
    - destruct (A.assoc (A.d_name d) (A.s_directives S)); [reflexivity|discriminate].
    - destruct s as [a al n np args dirs sub|n np dirs e|cond dirs sub e]; try reflexivity.
      destruct a as [def|]; [reflexivity|].
      destruct (A.name_eqb n TypeInfoModel.n_typename); [reflexivity|discriminate].
  Qed.

  Lemma rule_arguments_nodes (D : A.document) :
    ValidatorModel.rule_arguments ValidatorModel.repaired pi S D = A.Done [] ->
    forall n, In n (I.tree_nodes (I.tree_doc D)) -> ProofsArguments.arg_f pi S n = [].
  Proof.
    unfold ValidatorModel.rule_arguments. intro H.
    rewrite (InspectProofs.inspect_acc _ (ProofsArguments.arg_f pi S) (ProofsArguments.arg_g S) _
               (ProofsArguments.arguments_enter_eq pi S)) in H.
    cbn [app] in H.
    assert (H' : flat_map (ProofsArguments.arg_f pi S) (InspectProofs.vnodes (ProofsArguments.arg_g S) (I.tree_doc D)) = [])
      by congruence.
    apply (InspectProofs.visit_nil_iff _ (ProofsArguments.arg_f pi S) (ProofsArguments.arg_g S) arg_g_true). exact H'.
  Qed.

  Lemma field_node_names_unique def al fname np args dirs sub :
    ProofsArguments.arg_f pi S (I.NSel (A.SField (Some def) al fname np args dirs sub)) = [] ->
    CoerceModel.has_dup (map A.a_name args) = false.
  Proof.
    cbn [ProofsArguments.arg_f]. intro H.
    assert (P : ProofsCommon.primary (ProofsArguments.args_errs pi args (A.f_args def)
                  (A.sel_pos (A.SField (Some def) al fname np args dirs sub))) = []) by (rewrite H; reflexivity).
    apply (ProofsArguments.args_errs_primary pi Hpi) in P. unfold ProofsArguments.list_ok in P.
    apply andb_true_iff in P as [P _]. apply andb_true_iff in P as [_ P].
    rewrite nodupb_has_dup in P. apply negb_true_iff in P. exact P.
  Qed.
End Arguments.

(** ** the theorem *)
Theorem accepted_document_argument_names_unique pi VS F ES D :
  ProofsCommon.order_ok pi ->
  ValidatorModel.validate_model ValidatorModel.repaired pi VS F D = A.Done [] ->
  let Adoc := TypeInfoPure.pti_doc (ValidatorModel.q_unwrap_obj ValidatorModel.repaired) VS F D in
  forall f,
    (exists o, In o (CC.c_ops ES Adoc) /\ field_in unit (ao_body o) f) \/
    (exists p, In p (CC.c_frs ES Adoc) /\ field_in unit (snd p) f) ->
    CoerceSpec.dup_names (map fst (af_args f)) = false.
Proof.
  intros Hpi Hacc Adoc f Hf.
  apply ValidatorProofs.validate_model_nil in Hacc. apply ValidatorProofs.all_rules_nil in Hacc.
  destruct Hacc as (_ & _ & Hargs & _).
  destruct (field_of_doc ES Adoc f Hf) as (n & Hn & (def & al & fname & np & args & dirs & sub & -> & Hargs_eq)).
  pose proof (rule_arguments_nodes pi VS Adoc Hargs _ Hn) as Hnode.
  rewrite CoerceProofs.dup_names_has_dup, Hargs_eq, map_map. cbn [fst].
  apply (field_node_names_unique pi Hpi VS def al fname np args dirs sub Hnode).
Qed.

(** * the values rule: input-object literals name each field once *)
Module PV := Vld.ProofsValues.
Module VM := Vld.ValidatorModel.

(** a schema whose scalars do not swallow list or object literals (a custom scalar declared to
    accept every kind of literal would: nothing is then said about what the literal contains) *)
Definition scalars_are_leaves (S : A.schema) : Prop :=
  forall tn k, A.raw_body S tn = Some (A.TScalar k) ->
    (forall a vs p, VM.scalar_accepts k (A.VList a vs p) = false) /\
    (forall a fs p, VM.scalar_accepts k (A.VObject a fs p) = false).

Section Values.
  Variable pi : VM.order.
  Variable S : A.schema.
  Hypothesis Hleaves : scalars_are_leaves S.

  Notation co := (VM.coercion VM.repaired pi S).

  Lemma items_loop_nil t : forall vs, VM.items_loop co t vs = VM.VR [] -> forall x, In x vs -> co x t false = VM.VR [].
  Proof.
    induction vs as [|y r IH]; intros H x []; cbn [VM.items_loop] in H.
    - subst y. destruct (co x t false) as [[|e es]|]; [reflexivity|discriminate|discriminate].
    - destruct (co y t false) as [[|e es]|]; [apply IH; assumption|discriminate|discriminate].
  Qed.

  Lemma fields_loop_nil defs p : forall fs seen acc,
    VM.fields_loop pi co defs p fs seen acc = VM.VR [] ->
    acc = [] /\
    (forall f, In f fs -> A.mem (fst (fst f)) seen = false) /\
    ValidSpec.nodupb (map (fun f : A.name * A.pos * A.value => fst (fst f)) fs) = true /\
    (forall n np x, In (n, np, x) fs -> exists def, A.assoc n defs = Some def /\ co x (A.in_type def) true = VM.VR []).
  Proof.
    induction fs as [|[[n np] x] r IH]; intros seen acc H; cbn [VM.fields_loop] in H.
    - injection H as H'. apply app_eq_nil in H' as [Ha _]. split; [exact Ha|]. split; [intros f []|]. split; [reflexivity|intros ? ? ? []].
    - destruct (A.assoc n defs) as [def|] eqn:Ed.
      + destruct (co x (A.in_type def) true) as [[|e es]|] eqn:Ec; try discriminate.
        destruct (IH _ _ H) as (Hacc & Hseen & Hnd & Hall).
        destruct (A.mem n seen) eqn:Em; [destruct acc; discriminate|].
        split; [exact Hacc|]. split; [|split].
        * intros f [<-|Hf]; [exact Em|]. specialize (Hseen f Hf).
          unfold A.mem in Hseen |- *. cbn [existsb] in Hseen. apply orb_false_iff in Hseen as [_ Hs]. exact Hs.
        * cbn [map ValidSpec.nodupb fst]. rewrite Hnd, andb_true_r. apply negb_true_iff.
          destruct (A.mem n (map (fun f : A.name * A.pos * A.value => fst (fst f)) r)) eqn:Emr; [|reflexivity].
          exfalso. unfold A.mem in Emr. apply existsb_exists in Emr as (m & Hm & Hnm).
          apply in_map_iff in Hm as (f & <- & Hf). specialize (Hseen f Hf).
          unfold A.mem in Hseen. cbn [existsb] in Hseen. apply orb_false_iff in Hseen as [Hs _].
          unfold A.name_eqb in *. rewrite bytes_eqb_sym in Hs. rewrite Hs in Hnm. discriminate.
        * intros n' np' x' [E|Hin]; [inversion E; subst; exists def; split; assumption|eapply Hall; exact Hin].
      + destruct (IH _ _ H) as (Hacc & _). destruct (if A.mem n seen then acc ++ [A.err A.EObjDupField np] else acc); discriminate.
  Qed.

  Theorem coercion_nil_nodup : forall v t a, co v t a = VM.VR [] -> CoerceSpec.lit_nodup (CC.l_of_vld v) = true.
  Proof.
    induction v as [an n d np|an l p|an l p|an s p|an b p|an p|an n p|an vs p IHv|an fs p IHf] using AstInd.value_ind';
      intros t a H; try reflexivity.
    - (* float: l_of_vld destructs a pair *)
      cbn [CC.l_of_vld]. destruct (Pipe.Convert.parse_decimal l); reflexivity.
    - (* a list *)
      cbn [CC.l_of_vld CoerceSpec.lit_nodup]. rewrite forallb_map_eq'. apply forallb_forall. intros x Hx.
      rewrite Forall_forall in IHv.
      revert a H. induction t as [tn|t' IHt|t' IHt]; intros a H; rewrite PV.coercion_unfold in H; cbn [A.is_var A.is_null] in H.
      + destruct (A.raw_body S tn) as [[k|vals|defs| | |]|] eqn:Er; try discriminate.
        * destruct (Hleaves tn k Er) as [Hl _]. rewrite Hl in H. discriminate.
      + apply (IHv x Hx t' false). apply (items_loop_nil t' vs H x Hx).
      + apply (IHt a H).
    - (* an object *)
      cbn [CC.l_of_vld CoerceSpec.lit_nodup].
      revert a H. induction t as [tn|t' IHt|t' IHt]; intros a H; rewrite PV.coercion_unfold in H; cbn [A.is_var A.is_null] in H.
      + destruct (A.raw_body S tn) as [[k|vals|defs| | |]|] eqn:Er; try discriminate.
        * destruct (Hleaves tn k Er) as [_ Ho]. rewrite Ho in H. discriminate.
        * destruct (fields_loop_nil defs p fs [] [] H) as (_ & _ & Hnd & Hall).
          apply andb_true_iff. split.
          -- rewrite CoerceProofs.dup_names_has_dup, map_map. cbn [fst].
             rewrite nodupb_has_dup in Hnd. exact Hnd.
          -- rewrite forallb_map_eq'. apply forallb_forall. intros [[n np] x] Hx. cbn [snd].
             rewrite Forall_forall in IHf. destruct (Hall n np x Hx) as (def & _ & Hc).
             apply (IHf (n, np, x) Hx (A.in_type def) true Hc).
      + destruct a; [apply (IHt true H)|discriminate].
      + apply (IHt a H).
  Qed.
End Values.

(** ** every argument literal and every variable default of the request is a value of the document *)
Section ValueMembership.
  Variable ES : ExeA.ArgData.schema.

  Definition lit_in (l : Values.lit) (vals : list A.value) : Prop := exists v, In v vals /\ l = CC.l_of_vld v.

  Lemma lit_in_incl l a b : (forall v, In v a -> In v b) -> lit_in l a -> lit_in l b.
  Proof. intros H (v & Hv & E). exists v. split; [apply H; exact Hv|exact E]. Qed.

  Lemma field_vals_c :
    (forall s parent f, field_in unit (CC.c_sel ES parent s) f ->
       forall a l, In (a, l) (af_args f) -> lit_in l (PV.vals_sel s)) /\
    (forall ss f, field_in unit (CC.c_ss ES ss) f ->
       forall a l, In (a, l) (af_args f) -> lit_in l (PV.vals_ss ss)).
  Proof.
    apply AstInd.sel_ss_ind.
    - intros a al n np args dirs sub IH parent f H x l Hin.
      cbn [CC.c_sel] in H.
      assert (Hkid : forall k, In k (match sub with Some ss => [CC.c_ss ES ss] | None => [] end) -> field_in unit k f ->
                     lit_in l (PV.vals_sel (A.SField a al n np args dirs sub))).
      { intros k Hk Hf. destruct sub as [ss|]; [|destruct Hk]. destruct Hk as [<-|[]].
        eapply lit_in_incl; [|apply (IH ss eq_refl f Hf x l Hin)].
        intros v Hv. cbn [PV.vals_sel]. apply in_or_app. right. apply in_or_app. right. exact Hv. }
      destruct a as [def|].
      + inversion H; subst.
        * cbn [af_args] in Hin. apply in_map_iff in Hin as (arg & E & Harg). inversion E; subst.
          exists (A.a_value arg). split; [|reflexivity].
          cbn [PV.vals_sel]. apply in_or_app. left. unfold PV.arg_vals. apply in_map. exact Harg.
        * eapply Hkid; eassumption.
      + inversion H; subst. eapply Hkid; eassumption.
    - intros n np dirs e parent f H. cbn [CC.c_sel] in H.
      inversion H; subst. match goal with X : In _ [] |- _ => destruct X end.
    - intros cond dirs sub e IH parent f H x l Hin. cbn [CC.c_sel] in H.
      inversion H; subst.
      match goal with X : In _ [_] |- _ => destruct X as [<-|[]] end.
      match goal with X : field_in _ _ f |- _ => pose proof (IH f X x l Hin) as R end.
      eapply lit_in_incl; [|exact R]. intros v Hv. cbn [PV.vals_sel]. apply in_or_app. right. exact Hv.
    - intros a sels p IH f H x l Hin. cbn [CC.c_ss] in H.
      inversion H; subst.
      match goal with X : In _ (map _ sels) |- _ => apply in_map_iff in X as (s & <- & Hs) end.
      rewrite Forall_forall in IH.
      match goal with X : field_in _ _ f |- _ => pose proof (IH s Hs a f X x l Hin) as R end.
      eapply lit_in_incl; [|exact R]. intros v Hv. cbn [PV.vals_ss]. apply in_flat_map. exists s. split; assumption.
  Qed.

  Lemma field_vals_doc (D : A.document) f :
    (exists o, In o (CC.c_ops ES D) /\ field_in unit (ao_body o) f) \/
    (exists p, In p (CC.c_frs ES D) /\ field_in unit (snd p) f) ->
    forall a l, In (a, l) (af_args f) -> lit_in l (flat_map PV.def_vals D).
  Proof.
    intros Hf a l Hin.
    assert (Body : forall ss, field_in unit (ANode AOther [CC.c_ss ES ss]) f -> lit_in l (PV.vals_ss ss)).
    { intros ss H. inversion H; subst. match goal with X : In _ [_] |- _ => destruct X as [<-|[]] end.
      eapply (proj2 field_vals_c); eassumption. }
    destruct Hf as [(o & Ho & Hfo)|(p & Hp & Hfp)].
    - unfold CC.c_ops in Ho. apply in_flat_map in Ho as (d & Hd & Ho).
      destruct d as [ot nm vars dirs sub|kw n np cond dirs sub]; [|destruct Ho].
      destruct Ho as [<-|[]]. cbn [ao_body] in Hfo.
      eapply lit_in_incl; [|apply (Body sub Hfo)].
      intros v Hv. apply in_flat_map. exists (A.DOp ot nm vars dirs sub). split; [exact Hd|].
      cbn [PV.def_vals]. apply in_or_app. right. apply in_or_app. right. exact Hv.
    - unfold CC.c_frs in Hp. apply in_flat_map in Hp as (d & Hd & Hp).
      destruct d as [ot nm vars dirs sub|kw n np cond dirs sub]; [destruct Hp|].
      destruct Hp as [<-|[]]. cbn [snd] in Hfp.
      eapply lit_in_incl; [|apply (Body sub Hfp)].
      intros v Hv. apply in_flat_map. exists (A.DFrag kw n np cond dirs sub). split; [exact Hd|].
      cbn [PV.def_vals]. apply in_or_app. right. exact Hv.
  Qed.

  Lemma default_vals_doc (D : A.document) o def dflt :
    In o (CC.c_ops ES D) -> In def (ao_vardefs o) -> Values.vd_default def = Some dflt ->
    lit_in dflt (flat_map PV.def_vals D).
  Proof.
    intros Ho Hd Hdf. unfold CC.c_ops in Ho. apply in_flat_map in Ho as (d & HdD & Ho).
    destruct d as [ot nm vars dirs sub|kw n np cond dirs sub]; [|destruct Ho].
    destruct Ho as [<-|[]]. cbn [ao_vardefs] in Hd. apply in_map_iff in Hd as (vd & <- & Hvd).
    unfold CC.c_vardef in Hdf. cbn [Values.vd_default] in Hdf.
    destruct (A.vd_default vd) as [x|] eqn:Ex; [|discriminate]. cbn [option_map] in Hdf. inversion Hdf; subst.
    exists x. split; [|reflexivity].
    apply in_flat_map. exists (A.DOp ot nm vars dirs sub). split; [exact HdD|].
    cbn [PV.def_vals]. apply in_or_app. left. apply in_flat_map. exists vd. split; [exact Hvd|].
    unfold PV.vardef_vals. rewrite Ex. right. left. reflexivity.
  Qed.
End ValueMembership.

(** ** validateValues, silent on the whole document, is silent on every value; hence [lit_nodup] *)
Lemma accepted_values_nodup pi S (Adoc : A.document) :
  scalars_are_leaves S ->
  VM.rule_values VM.repaired pi S Adoc = A.Done [] ->
  forall l, lit_in l (flat_map PV.def_vals Adoc) -> CoerceSpec.lit_nodup l = true.
Proof.
  intros Hleaves H l (v & Hv & ->).
  rewrite PV.rule_values_eq in H.
  assert (H' : flat_map (fun v => PV.val_f pi S (I.NValue v)) (flat_map PV.def_vals Adoc) = []) by congruence.
  rewrite InspectProofs.flat_map_nil_iff in H'. specialize (H' v Hv).
  cbn [PV.val_f] in H'.
  destruct (A.is_var v) eqn:Ev.
  - destruct v; try discriminate. reflexivity.
  - destruct (A.va_expected (A.v_ann v)) as [t|]; [|discriminate].
    destruct (PV.coercion_total pi S v t true) as [errs Hc]. rewrite Hc in H'. cbn [PV.vr_errs] in H'. subst errs.
    apply (coercion_nil_nodup pi S Hleaves v t true Hc).
Qed.

(** ** the theorem: for a document ACCEPTED by C04's validator — any schema whose scalars are
    leaves, any features, any number of fields at any depth, fragments — every call a cost function
    receives during the walk of the request C03's composition derives from the annotated document
    is REFERENCE-COERCED: GraphQL 6.4.1 CoerceArgumentValues over 6.1.2 CoerceVariableValues of what
    the client sent.  No bridge hypothesis. *)
Theorem accepted_document_calls_reference_coerced pi VS F ES D opname raw o skip_zero fuel dc ctx0 max :
  ProofsCommon.order_ok pi ->
  scalars_are_leaves VS ->
  VM.validate_model VM.repaired pi VS F D = A.Done [] ->
  let Adoc := TypeInfoPure.pti_doc (VM.q_unwrap_obj VM.repaired) VS F D in
  let E := ExeA.ArgData.s_inputs ES in
  let dt := ExeA.ArgArgs.dt_oracle ES in
  CoerceSpec.env_ok E = true ->
  (forall p, In p raw -> CoerceSpec.jval_ok (snd p) = true) ->
  CostTrace.chosen_op unit (CC.c_ops ES Adoc) opname = Some o ->
  forall c, In c (snd (CostTrace.validate_cost_trace unit E dt skip_zero fuel dc ctx0
                         (CC.c_ops ES Adoc) (CC.c_frs ES Adoc) opname raw max)) ->
    exists vv,
      CoerceSpec.ref_variable_values E dt (ao_vardefs o) raw = Some vv /\
      CoerceSpec.ref_argument_values E dt (af_argdefs (CostTrace.c_field c))
        (map (fun p => match p with (k, l) => (k, CoerceSpec.abs_lit vv l) end) (af_args (CostTrace.c_field c)))
      = Some (CostTrace.c_args c).
Proof.
  intros Hpi Hleaves Hacc Adoc E dt HE Hraw Ho c Hin.
  pose proof Hacc as Hacc'.
  apply ValidatorProofs.validate_model_nil in Hacc'. apply ValidatorProofs.all_rules_nil in Hacc'.
  destruct Hacc' as (_ & _ & _ & _ & Hvals & _).
  assert (Hop : In o (CC.c_ops ES Adoc)).
  { unfold CostTrace.chosen_op in Ho.
    destruct (filter (fun o0 => CostSpec.op_matches opname (ao_name o0)) (CC.c_ops ES Adoc)) as [|o1 [|o2 r]] eqn:Ef; try discriminate.
    inversion Ho; subst o1.
    assert (Hi : In o (filter (fun o0 => CostSpec.op_matches opname (ao_name o0)) (CC.c_ops ES Adoc))) by (rewrite Ef; left; reflexivity).
    apply filter_In in Hi as [Hi _]. exact Hi. }
  apply (CostC04.trace_calls_reference unit E dt skip_zero fuel dc ctx0 (CC.c_ops ES Adoc) (CC.c_frs ES Adoc) opname raw max o Ho HE Hraw); [| |exact Hin].
  - intros def dflt Hd Hdf.
    apply (accepted_values_nodup pi VS Adoc Hleaves Hvals).
    eapply default_vals_doc; eassumption.
  - intros f Hf.
    assert (Hf' : (exists o0, In o0 (CC.c_ops ES Adoc) /\ field_in unit (ao_body o0) f) \/
                  (exists p, In p (CC.c_frs ES Adoc) /\ field_in unit (snd p) f)).
    { destruct Hf as (m & Hm & Hfm).
      destruct Hm as [|n name def Hn Hs Hl].
      - left. exists o. split; assumption.
      - right. destruct (CostTraceProofs.alookup_last_in unit (CC.c_frs ES Adoc) name def Hl) as [x Hx].
        exists (x, def). split; [exact Hx|exact Hfm]. }
    split.
    + apply (accepted_document_argument_names_unique pi VS F ES D Hpi Hacc f Hf').
    + intros a l Hal. apply (accepted_values_nodup pi VS Adoc Hleaves Hvals).
      eapply field_vals_doc; eassumption.
Qed.

(** ** a decidable criterion for [scalars_are_leaves]: every scalar of the schema is a built-in one
    or declares the kinds of literal it accepts, none of them list or object *)
Definition leaf_kinds (ks : list A.vkind) : bool :=
  negb (existsb (A.vkind_eqb A.KList) ks) && negb (existsb (A.vkind_eqb A.KObject) ks).
Definition leaf_scalar (k : A.scalar) : bool :=
  match k with
  | A.SCustom None => false
  | A.SCustom (Some ks) => leaf_kinds ks
  | A.SRefined None _ => false
  | A.SRefined (Some ks) _ => leaf_kinds ks
  | _ => true
  end.
Definition scalars_leavesb (S : A.schema) : bool :=
  forallb (fun nt : A.name * A.type_def => match A.t_body (snd nt) with A.TScalar k => leaf_scalar k | _ => true end) (A.s_types S).

Lemma scalars_leavesb_spec S : scalars_leavesb S = true -> scalars_are_leaves S.
Proof.
  intros H tn k Hr. unfold A.raw_body, A.raw_type in Hr.
  destruct (A.assoc tn (A.s_types S)) as [d|] eqn:Ea; [|discriminate]. inversion Hr as [Hb].
  apply ProofsCommon.assoc_in in Ea. unfold scalars_leavesb in H. rewrite forallb_forall in H.
  specialize (H _ Ea). cbn [snd] in H. rewrite Hb in H.
  destruct k as [| | | | |[ks|]|[ks|] pr]; cbn [leaf_scalar] in H; try discriminate;
    try (split; intros; reflexivity);
    unfold leaf_kinds in H; apply andb_true_iff in H as [Hl Ho];
    apply negb_true_iff in Hl; apply negb_true_iff in Ho;
    split; intros; cbn [VM.scalar_accepts A.v_kind]; rewrite ?Hl, ?Ho; reflexivity.
Qed.
