(** * Cost/CostProofs.v — C14: the cost walk of validate_cost.go computes min(RefCost, MaxInt). *)
From Coq Require Import List ZArith Bool Lia.
From ApiFu Require Import Base.Sexp Cost.CostModel Cost.CostSpec.
Import ListNotations.
Open Scope Z_scope.

(** ** 1. Machine arithmetic *)

Lemma wrap64_id z : in_int z -> wrap64 z = z.
Proof.
  unfold in_int, wrap64, MinInt, MaxInt, two63, two64. intros H.
  rewrite Z.mod_small by lia. lia.
Qed.

Lemma wrap64_range z : in_int (wrap64 z).
Proof.
  unfold in_int, wrap64, MinInt, MaxInt, two63, two64.
  pose proof (Z.mod_pos_bound (z + 9223372036854775808) 18446744073709551616 ltac:(lia)). lia.
Qed.

(** the wrapped value differs from the true one by a multiple of 2^64 *)
Lemma wrap64_cong z : exists k, wrap64 z = z - k * two64.
Proof.
  unfold wrap64. exists ((z + two63) / two64).
  pose proof (Z.div_mod (z + two63) two64 ltac:(unfold two64; lia)). lia.
Qed.

Lemma quot_detects_overflow a b :
  2 <= a <= MaxInt -> 2 <= b <= MaxInt -> MaxInt < a * b ->
  Z.quot (wrap64 (a * b)) b <> a.
Proof.
  intros Ha Hb Hov.
  destruct (wrap64_cong (a * b)) as [k Hk].
  pose proof (wrap64_range (a * b)) as Hr. unfold in_int in Hr.
  set (c := wrap64 (a * b)) in *. clearbody c.
  intros Hq.
  pose proof (Z.quot_rem' c b) as Hqr. rewrite Hq in Hqr.
  assert (Hab : c < a * b).
  { assert (Hkpos : 0 < k * two64) by lia.
    assert (1 <= k) by (unfold two64 in *; lia).
    unfold two64, MaxInt, MinInt in *. lia. }
  destruct (Z_lt_le_dec c 0) as [Hneg|Hpos].
  - pose proof (Z.rem_bound_pos_neg c b ltac:(lia) ltac:(lia)) as Hrem.
    assert (b * a < b) by lia. nia.
  - pose proof (Z.rem_bound_pos_pos c b ltac:(lia) ltac:(lia)) as Hrem.
    assert (b * a <= c) by lia. lia.
Qed.

(** [checkedNonNegativeMultiply]: the exact product when both operands are non-negative and it is
    representable, the marker -1 otherwise (in particular whenever an operand is the marker). *)
Theorem checked_mul_spec a b : in_int a -> in_int b ->
  checked_mul a b =
    if (a <? 0) || (b <? 0) then -1
    else if a * b <=? MaxInt then a * b else -1.
Proof.
  intros Ha Hb. unfold checked_mul.
  destruct ((a <? 0) || (b <? 0)) eqn:Eneg; [reflexivity|].
  apply orb_false_iff in Eneg as [Ea Eb]. apply Z.ltb_ge in Ea, Eb.
  unfold in_int in Ha, Hb.
  destruct ((a =? 0) || (b =? 0) || (a =? 1) || (b =? 1)) eqn:Etriv.
  - (* one operand is 0 or 1: the product is the other operand or 0 *)
    assert (Hprod : 0 <= a * b <= MaxInt).
    { repeat (apply orb_true_iff in Etriv as [Etriv|Etriv]); apply Z.eqb_eq in Etriv; subst; lia. }
    unfold gmul. rewrite wrap64_id by (unfold in_int, MinInt, MaxInt in *; lia).
    destruct (a * b <=? MaxInt) eqn:E; [reflexivity|]. apply Z.leb_gt in E. lia.
  - repeat (apply orb_false_iff in Etriv as [Etriv ?]).
    repeat match goal with H : (_ =? _) = false |- _ => apply Z.eqb_neq in H end.
    assert (Ha2 : 2 <= a <= MaxInt) by lia. assert (Hb2 : 2 <= b <= MaxInt) by lia.
    destruct (a * b <=? MaxInt) eqn:E.
    + apply Z.leb_le in E. unfold gmul, gquot.
      rewrite (wrap64_id (a * b)) by (unfold in_int, MinInt, MaxInt in *; nia).
      rewrite Z.quot_mul by lia. rewrite wrap64_id by (unfold in_int; lia).
      rewrite Z.eqb_refl. reflexivity.
    + apply Z.leb_gt in E. unfold gmul, gquot.
      pose proof (quot_detects_overflow a b Ha2 Hb2 E) as Hne.
      assert (Hq : in_int (Z.quot (wrap64 (a * b)) b)).
      { pose proof (wrap64_range (a * b)) as Hr. unfold in_int in *.
        set (c := wrap64 (a * b)) in *. clearbody c. unfold MinInt, MaxInt in *.
        destruct (Z_lt_le_dec c 0) as [Hneg|Hpos].
        - pose proof (Z.quot_opp_l c b ltac:(lia)) as Ho.
          pose proof (Z.quot_le_upper_bound (- c) b (- c) ltac:(lia) ltac:(nia)).
          pose proof (Z.quot_pos (- c) b ltac:(lia) ltac:(lia)). lia.
        - pose proof (Z.quot_le_upper_bound c b c ltac:(lia) ltac:(nia)).
          pose proof (Z.quot_pos c b ltac:(lia) ltac:(lia)). lia. }
      rewrite (wrap64_id _ Hq).
      destruct (Z.quot (wrap64 (a * b)) b =? a) eqn:Eq; [apply Z.eqb_eq in Eq; contradiction|reflexivity].
Qed.

(** [checkedNonNegativeAdd] *)
Theorem checked_add_spec a b : in_int a -> in_int b ->
  checked_add a b =
    if (a <? 0) || (b <? 0) then -1
    else if a + b <=? MaxInt then a + b else -1.
Proof.
  intros Ha Hb. unfold checked_add, in_int in *.
  destruct (a <? 0) eqn:Ea; [reflexivity|]. destruct (b <? 0) eqn:Eb; [reflexivity|].
  apply Z.ltb_ge in Ea, Eb. cbn [orb].
  unfold gsub, gadd. rewrite (wrap64_id (MaxInt - b)) by (unfold in_int, MinInt, MaxInt in *; lia).
  destruct (a >? MaxInt - b) eqn:E.
  - apply Z.gtb_lt in E. destruct (a + b <=? MaxInt) eqn:E2; [apply Z.leb_le in E2; lia|reflexivity].
  - assert (a + b <= MaxInt) by (pose proof (Zgt_cases a (MaxInt - b)) as G; rewrite E in G; lia).
    rewrite wrap64_id by (unfold in_int, MinInt, MaxInt in *; lia).
    destruct (a + b <=? MaxInt) eqn:E2; [reflexivity|apply Z.leb_gt in E2; lia].
Qed.

(** ** 2. The marker as saturation: [sat v] is the machine representation of the unbounded [v >= 0] *)
Definition sat (v : Z) : Z := if v <=? MaxInt then v else -1.

Lemma sat_in_int v : 0 <= v -> in_int (sat v).
Proof.
  intros H. unfold sat, in_int. destruct (v <=? MaxInt) eqn:E.
  - apply Z.leb_le in E. unfold MinInt. lia.
  - unfold MinInt, MaxInt. lia.
Qed.

Lemma sat_add x y : 0 <= x -> 0 <= y -> checked_add (sat x) (sat y) = sat (x + y).
Proof.
  intros Hx Hy. rewrite checked_add_spec by (apply sat_in_int; assumption).
  unfold sat.
  destruct (x <=? MaxInt) eqn:Ex; destruct (y <=? MaxInt) eqn:Ey;
    repeat match goal with
           | H : (_ <=? _) = true |- _ => apply Z.leb_le in H
           | H : (_ <=? _) = false |- _ => apply Z.leb_gt in H
           end.
  - destruct (x <? 0) eqn:E1; [apply Z.ltb_lt in E1; lia|].
    destruct (y <? 0) eqn:E2; [apply Z.ltb_lt in E2; lia|]. reflexivity.
  - destruct (x <? 0) eqn:E1; [apply Z.ltb_lt in E1; lia|]. cbn.
    destruct (x + y <=? MaxInt) eqn:E; [apply Z.leb_le in E; lia|reflexivity].
  - cbn. destruct (x + y <=? MaxInt) eqn:E; [apply Z.leb_le in E; lia|reflexivity].
  - cbn. destruct (x + y <=? MaxInt) eqn:E; [apply Z.leb_le in E; lia|reflexivity].
Qed.

Lemma sat_mul x y : 0 <= x -> 1 <= y <= MaxInt -> checked_mul (sat x) y = sat (x * y).
Proof.
  intros Hx Hy.
  rewrite checked_mul_spec by (try (apply sat_in_int; assumption); unfold in_int, MinInt; lia).
  unfold sat. destruct (x <=? MaxInt) eqn:Ex.
  - apply Z.leb_le in Ex.
    destruct (x <? 0) eqn:E1; [apply Z.ltb_lt in E1; lia|].
    destruct (y <? 0) eqn:E2; [apply Z.ltb_lt in E2; lia|]. reflexivity.
  - apply Z.leb_gt in Ex. cbn.
    destruct (x * y <=? MaxInt) eqn:E; [apply Z.leb_le in E; nia|reflexivity].
Qed.

(** what is reported: [if cost < 0 { maxInt } else { cost }] *)
Lemma sat_actual v : 0 <= v -> (if sat v <? 0 then MaxInt else sat v) = Z.min v MaxInt.
Proof.
  intros H. unfold sat. destruct (v <=? MaxInt) eqn:E.
  - apply Z.leb_le in E. destruct (v <? 0) eqn:E1; [apply Z.ltb_lt in E1; lia|]. lia.
  - apply Z.leb_gt in E. cbn. lia.
Qed.

Lemma sat_cost_error v max : 0 <= v -> max <= MaxInt ->
  (max >=? 0) && ((sat v <? 0) || (sat v >? max)) = (max >=? 0) && (v >? max).
Proof.
  intros H Hm. destruct (max >=? 0) eqn:Em; [|reflexivity]. cbn [andb].
  unfold sat. destruct (v <=? MaxInt) eqn:E.
  - apply Z.leb_le in E. destruct (v <? 0) eqn:E1; [apply Z.ltb_lt in E1; lia|]. reflexivity.
  - apply Z.leb_gt in E. cbn. symmetry. apply Z.gtb_lt. lia.
Qed.

(** ** 3. The sum of products equals the top-down evaluation *)
Section EtreeInd.
  Variable P : etree -> Prop.
  Hypothesis HNode : forall r m kids, Forall P kids -> P (ENode r m kids).
  Fixpoint etree_ind' (t : etree) : P t :=
    match t with
    | ENode r m kids =>
        HNode r m kids
          ((fix go (l : list etree) : Forall P l :=
              match l with
              | [] => Forall_nil P
              | x :: rest => Forall_cons x (etree_ind' x) (go rest)
              end) kids)
    end.
End EtreeInd.

Definition weight (o : Z * list Z) : Z := fst o * prod (snd o).
Definition hsum (ts : list etree) : Z := sum (map horner ts).

Lemma sum_cons x l : sum (x :: l) = x + sum l.
Proof. reflexivity. Qed.

Lemma sum_app a b : sum (a ++ b) = sum a + sum b.
Proof.
  induction a as [|x a IH]; [reflexivity|].
  rewrite <- app_comm_cons, !sum_cons, IH. lia.
Qed.

Lemma hsum_app a b : hsum (a ++ b) = hsum a + hsum b.
Proof. unfold hsum. rewrite map_app. apply sum_app. Qed.

Lemma hsum_cons t ts : hsum (t :: ts) = horner t + hsum ts.
Proof. reflexivity. Qed.

Lemma occurrences_weight t : forall anc,
  sum (map weight (occurrences anc t)) = prod anc * horner t.
Proof.
  induction t as [r m kids IH] using etree_ind'. intros anc.
  cbn [occurrences horner map]. change (sum (?x :: ?l)) with (x + sum l).
  assert (Hk : forall a, sum (map weight (flat_map (occurrences a) kids)) = prod a * sum (map horner kids)).
  { intros a. induction IH as [|x l Hx Hl IHl]; cbn [flat_map map].
    - unfold sum; cbn. lia.
    - rewrite map_app, sum_app, Hx, IHl. change (sum (?y :: ?l')) with (y + sum l'). lia. }
  rewrite Hk. unfold weight at 1. cbn [fst snd].
  change (prod (eff m :: anc)) with (eff m * prod anc). lia.
Qed.

Theorem RefCost_horner ts : RefCost ts = hsum ts.
Proof.
  unfold RefCost, hsum. fold weight.
  induction ts as [|t ts IH]; cbn [flat_map map]; [reflexivity|].
  rewrite map_app, sum_app, IH, occurrences_weight, sum_cons.
  change (prod []) with 1. lia.
Qed.

Lemma eff_pos m : 0 <= m -> 1 <= eff m.
Proof. intros H. unfold eff. destruct (m =? 0) eqn:E; [lia|apply Z.eqb_neq in E; lia]. Qed.

Lemma costs_ok_inv r m kids : costs_ok (ENode r m kids) = true ->
  0 <= r <= MaxInt /\ 0 <= m <= MaxInt /\ forallb costs_ok kids = true.
Proof.
  cbn [costs_ok]. intros H.
  repeat (apply andb_true_iff in H as [H ?]).
  repeat match goal with X : (_ <=? _) = true |- _ => apply Z.leb_le in X end. auto.
Qed.

Lemma horner_nonneg t : costs_ok t = true -> 0 <= horner t.
Proof.
  induction t as [r m kids IH] using etree_ind'. intros H.
  apply costs_ok_inv in H as (Hr & Hm & Hk). cbn [horner].
  assert (0 <= sum (map horner kids)).
  { induction IH as [|x l Hx Hl IHl]; [unfold sum; cbn; lia|].
    cbn [forallb] in Hk. apply andb_true_iff in Hk as [Hk1 Hk2].
    cbn [map]. change (sum (?y :: ?l')) with (y + sum l'). specialize (Hx Hk1). specialize (IHl Hk2). lia. }
  pose proof (eff_pos m ltac:(lia)). nia.
Qed.

Lemma hsum_nonneg ts : forallb costs_ok ts = true -> 0 <= hsum ts.
Proof.
  induction ts as [|t ts IH]; intros H; [unfold hsum, sum; cbn; lia|].
  cbn [forallb] in H. apply andb_true_iff in H as [H1 H2].
  rewrite hsum_cons. pose proof (horner_nonneg t H1). specialize (IH H2). lia.
Qed.

Lemma forallb_costs_app a b : forallb costs_ok (a ++ b) = true ->
  forallb costs_ok a = true /\ forallb costs_ok b = true.
Proof. rewrite forallb_app. apply andb_true_iff. Qed.

(** ** 4. The visitor *)
Section Visit.
  Variable C : Type.
  Variable skip_zero : bool.
  Variable dc : fcost C.
  Variable frs : list (bytes * node C).

  (** the [switch] of the callback, as written in the model *)
  Definition after_switch (fuel : nat) (k : kind C) (st : state C) (multiplier : Z) (ctx : C)
    : res (state C * Z * C) :=
    match k with
    | KField cost args_err =>
        if args_err then Ok (add_err C st ECoerceArgs, multiplier, ctx)
        else
          match (match cost with None => Some dc | Some f => f ctx end) with
          | None => Panic
          | Some fc =>
              let cost' :=
                if skip_zero && (fc_r fc =? 0) then st_cost C st
                else checked_add (st_cost C st) (checked_mul multiplier (fc_r fc)) in
              let new_multiplier :=
                if fc_m fc >? 1 then checked_mul multiplier (fc_m fc) else multiplier in
              let new_ctx := match fc_ctx fc with Some c => c | None => ctx end in
              Ok (set_cost C st cost', new_multiplier, new_ctx)
          end
    | KFieldNoDef is_typename =>
        if is_typename then Ok (st, multiplier, ctx)
        else Ok (add_err C st EUnknownField, multiplier, ctx)
    | KSpread name =>
        if mem_name name (st_path C st) then Ok (add_err C st ECycle, multiplier, ctx)
        else
          match lookup_last C frs name with
          | Some def =>
              match fuel with
              | O => OutOfFuel
              | S fuel' =>
                  match visit C skip_zero dc frs fuel' def (set_path C st (name :: st_path C st)) with
                  | Ok st1 => Ok (set_path C st1 (del_name name (st_path C st1)), multiplier, ctx)
                  | Panic => Panic
                  | OutOfFuel => OutOfFuel
                  end
              end
          | None => Ok (add_err C st EUndefinedFragment, multiplier, ctx)
          end
    | KOther => Ok (st, multiplier, ctx)
    end.

  Lemma visit_eq fuel k kids st :
    visit C skip_zero dc frs fuel (Node k kids) st =
      match st_mults C st, st_ctxs C st with
      | multiplier :: _, ctx :: _ =>
          match after_switch fuel k st multiplier ctx with
          | Ok (st1, new_multiplier, new_ctx) =>
              if negb (is_nil (st_errs C st1)) then Ok st1
              else
                match visit_list C skip_zero dc frs fuel kids (push C st1 new_multiplier new_ctx) with
                | Ok st3 => pop C st3
                | Panic => Panic
                | OutOfFuel => OutOfFuel
                end
          | Panic => Panic
          | OutOfFuel => OutOfFuel
          end
      | _, _ => Panic
      end.
  Proof. destruct fuel; reflexivity. Qed.

  Lemma visit_list_nil fuel st : visit_list C skip_zero dc frs fuel [] st = Ok st.
  Proof. reflexivity. Qed.

  Lemma visit_list_cons fuel x l st :
    visit_list C skip_zero dc frs fuel (x :: l) st =
      match visit C skip_zero dc frs fuel x st with
      | Ok s' => visit_list C skip_zero dc frs fuel l s'
      | Panic => Panic
      | OutOfFuel => OutOfFuel
      end.
  Proof. reflexivity. Qed.
End Visit.

Scheme Expand_min := Minimality for Expand Sort Prop
  with ExpandL_min := Minimality for ExpandL Sort Prop.
Combined Scheme Expand_mutind from Expand_min, ExpandL_min.

Lemma mem_name_false n l : mem_name n l = false <-> ~ In n l.
Proof.
  unfold mem_name. split.
  - intros H Hin. assert (existsb (bytes_eqb n) l = true) as E.
    { apply existsb_exists. exists n. split; [assumption|apply bytes_eqb_refl]. }
    congruence.
  - intros H. destruct (existsb (bytes_eqb n) l) eqn:E; [|reflexivity].
    apply existsb_exists in E as (x & Hx & Hex). apply bytes_eqb_eq in Hex. subst. contradiction.
Qed.

Lemma del_name_notin n l : ~ In n l -> del_name n l = l.
Proof.
  induction l as [|x l IH]; intros H; [reflexivity|]. cbn [del_name].
  destruct (bytes_eqb n x) eqn:E.
  - apply bytes_eqb_eq in E. subst. exfalso. apply H. left; reflexivity.
  - rewrite IH; [reflexivity|]. intros Hin. apply H. right; assumption.
Qed.

Lemma del_name_head n l : ~ In n l -> del_name n (n :: l) = l.
Proof. intros H. cbn [del_name]. rewrite bytes_eqb_refl. apply del_name_notin; assumption. Qed.

(** ** 5. The walk computes the reference cost *)
Section Main.
  Variable C : Type.
  Variable dc : fcost C.
  Variable frs : list (bytes * node C).
  (** validated documents define every fragment name once *)
  Hypothesis frs_nodup : NoDup (map fst frs).

  Lemma lookup_last_in (l : list (bytes * node C)) n d : lookup_last C l n = Some d -> In n (map fst l).
  Proof.
    revert d. induction l as [|[x dx] l IH]; intros d; cbn [lookup_last map fst]; [discriminate|].
    destruct (lookup_last C l n) as [d'|] eqn:E.
    - intros _. right. apply (IH d'). reflexivity.
    - destruct (bytes_eqb x n) eqn:Ex; [|discriminate]. intros _. apply bytes_eqb_eq in Ex. left; assumption.
  Qed.

  Lemma lookup_last_find_gen (l : list (bytes * node C)) n :
    NoDup (map fst l) -> lookup_last C l n = find_fragment l n.
  Proof.
    induction l as [|[x dx] l IH]; intros Hnd; [reflexivity|].
    cbn [map fst] in Hnd. inversion Hnd as [|? ? Hnotin Hnd']; subst.
    cbn [lookup_last find_fragment]. rewrite (IH Hnd').
    destruct (bytes_eqb x n) eqn:Ex.
    - apply bytes_eqb_eq in Ex. subst x.
      destruct (find_fragment l n) as [d'|] eqn:E; [|reflexivity].
      exfalso. apply Hnotin. apply (lookup_last_in l n d'). exact (IH Hnd').
    - destruct (find_fragment l n); reflexivity.
  Qed.

  Lemma lookup_last_find n : lookup_last C frs n = find_fragment frs n.
  Proof. apply lookup_last_find_gen. exact frs_nodup. Qed.

  Lemma find_fragment_in (l : list (bytes * node C)) n d : find_fragment l n = Some d -> In n (map fst l).
  Proof.
    induction l as [|[x dx] l IH]; cbn [find_fragment map fst]; [discriminate|].
    destruct (bytes_eqb x n) eqn:Ex.
    - intros _. apply bytes_eqb_eq in Ex. left; assumption.
    - intros H. right. apply IH; assumption.
  Qed.

  (** the closure's variables when the cost so far is [c] and the product of the multipliers of the
      enclosing fields is [p] (both unbounded): their saturated images *)
  Definition st_of (c p : Z) (mrest : list Z) (ctx : C) (crest : list C) (path : list bytes) : state C :=
    {| st_cost := sat c; st_mults := sat p :: mrest; st_ctxs := ctx :: crest; st_path := path; st_errs := [] |}.

  Definition walk_pre (fuel : nat) (c p : Z) (ts : list etree) (path : list bytes) : Prop :=
    0 <= c /\ 1 <= p /\ forallb costs_ok ts = true /\
    NoDup path /\ incl path (map fst frs) /\ (length frs < fuel + length path)%nat.

  Definition visit_ok (path : list bytes) (ctx : C) (n : node C) (ts : list etree) : Prop :=
    forall fuel c p mrest crest, walk_pre fuel c p ts path ->
      visit C true dc frs fuel n (st_of c p mrest ctx crest path)
      = Ok (st_of (c + p * hsum ts) p mrest ctx crest path).

  Definition visit_list_ok (path : list bytes) (ctx : C) (l : list (node C)) (ts : list etree) : Prop :=
    forall fuel c p mrest crest, walk_pre fuel c p ts path ->
      visit_list C true dc frs fuel l (st_of c p mrest ctx crest path)
      = Ok (st_of (c + p * hsum ts) p mrest ctx crest path).

  (** entering a node that only pushes and pops *)
  Lemma transparent_node path ctx k kids ts :
    (forall fuel st m c, after_switch C true dc frs fuel k st m c = Ok (st, m, c)) ->
    visit_list_ok path ctx kids ts -> visit_ok path ctx (Node k kids) ts.
  Proof.
    intros Hsw IH fuel c p mrest crest Hpre.
    rewrite visit_eq. cbn [st_of st_mults st_ctxs]. rewrite Hsw. cbn [st_errs is_nil negb].
    change (push C (st_of c p mrest ctx crest path) (sat p) ctx)
      with (st_of c p (sat p :: mrest) ctx (ctx :: crest) path).
    rewrite (IH fuel c p (sat p :: mrest) (ctx :: crest) Hpre). reflexivity.
  Qed.

  Lemma visit_sound :
    (forall path ctx n ts, Expand dc frs path ctx n ts -> visit_ok path ctx n ts) /\
    (forall path ctx l ts, ExpandL dc frs path ctx l ts -> visit_list_ok path ctx l ts).
  Proof.
    apply Expand_mutind.
    - (* other *)
      intros path ctx kids ts _ IH. apply transparent_node; [reflexivity|exact IH].
    - (* __typename *)
      intros path ctx kids ts _ IH fuel c p mrest crest Hpre.
      assert (Hts : hsum [ENode 0 0 ts] = hsum ts).
      { unfold hsum. cbn [map horner]. rewrite sum_cons. change (eff 0) with 1. change (sum []) with 0. lia. }
      rewrite Hts.
      apply (transparent_node path ctx (KFieldNoDef true) kids ts); [reflexivity|exact IH|].
      destruct Hpre as (Hc & Hp & Hok & Hrest). repeat split; try tauto.
      cbn [forallb costs_ok] in Hok. repeat (apply andb_true_iff in Hok as [Hok ?]). assumption.
    - (* field *)
      intros path ctx cost fc kids ts Hfc _ IH fuel c p mrest crest Hpre.
      destruct Hpre as (Hc & Hp & Hok & Hnd & Hincl & Hfuel).
      cbn [forallb] in Hok. apply andb_true_iff in Hok as [Hok _].
      apply costs_ok_inv in Hok as (Hr & Hm & Hkids).
      rewrite visit_eq. cbn [st_of st_mults st_ctxs after_switch].
      unfold field_cost in Hfc. rewrite Hfc. cbn [andb st_cost set_cost st_errs is_nil negb].
      set (r := fc_r fc) in *. set (m := fc_m fc) in *.
      assert (Hcost : (if r =? 0 then sat c else checked_add (sat c) (checked_mul (sat p) r)) = sat (c + p * r)).
      { destruct (r =? 0) eqn:E.
        - apply Z.eqb_eq in E. rewrite E. f_equal. lia.
        - apply Z.eqb_neq in E. rewrite sat_mul by lia. rewrite sat_add by nia. reflexivity. }
      assert (Hmult : (if m >? 1 then checked_mul (sat p) m else sat p) = sat (p * eff m)).
      { unfold eff. destruct (m >? 1) eqn:E.
        - apply Z.gtb_lt in E. rewrite sat_mul by lia.
          destruct (m =? 0) eqn:E0; [apply Z.eqb_eq in E0; lia|reflexivity].
        - assert (m <= 1) by (pose proof (Zgt_cases m 1) as G; rewrite E in G; lia).
          destruct (m =? 0) eqn:E0; [f_equal; lia|]. apply Z.eqb_neq in E0. f_equal. nia. }
      change (st_cost C (st_of c p mrest ctx crest path)) with (sat c).
      change (st_errs C (st_of c p mrest ctx crest path)) with (@nil err).
      rewrite Hcost, Hmult. cbn [is_nil negb].
      pose proof (eff_pos m ltac:(lia)) as Heff.
      match goal with |- context [push C ?s ?a ?b] =>
        change (push C s a b) with (st_of (c + p * r) (p * eff m) (sat p :: mrest) (next_ctx fc ctx) (ctx :: crest) path)
      end.
      rewrite (IH fuel (c + p * r) (p * eff m) (sat p :: mrest) (ctx :: crest)).
      + cbn [pop st_of st_mults st_ctxs st_cost st_path st_errs]. unfold st_of. f_equal. f_equal.
        f_equal. unfold hsum at 2. cbn [map horner]. rewrite sum_cons. change (sum []) with 0. fold (hsum ts). lia.
      + repeat split; try assumption; nia.
    - (* spread *)
      intros path ctx name kids def ts ts' Hnotin Hfind _ IHdef _ IHkids fuel c p mrest crest Hpre.
      destruct Hpre as (Hc & Hp & Hok & Hnd & Hincl & Hfuel).
      apply forallb_costs_app in Hok as [Hok1 Hok2].
      assert (Hnd' : NoDup (name :: path)) by (constructor; assumption).
      assert (Hincl' : incl (name :: path) (map fst frs)).
      { intros x [Hx|Hx]; [subst x; eapply find_fragment_in; eassumption|apply Hincl; assumption]. }
      assert (Hlen : (length (name :: path) <= length frs)%nat).
      { rewrite <- (map_length fst frs). apply NoDup_incl_length; assumption. }
      cbn [length] in Hlen.
      destruct fuel as [|fuel']; [lia|].
      rewrite visit_eq. cbn [st_of st_mults st_ctxs after_switch st_path].
      apply mem_name_false in Hnotin as Hmem. rewrite Hmem.
      rewrite lookup_last_find, Hfind.
      change (set_path C (st_of c p mrest ctx crest path) (name :: path))
        with (st_of c p mrest ctx crest (name :: path)).
      rewrite (IHdef fuel' c p mrest crest).
      2:{ repeat split; try assumption. cbn [length]. lia. }
      cbn [st_path st_of]. rewrite (del_name_head _ _ Hnotin).
      cbn [set_path st_cost st_mults st_ctxs st_errs is_nil negb].
      match goal with |- context [push C ?s ?a ?b] =>
        change (push C s a b) with (st_of (c + p * hsum ts) p (sat p :: mrest) ctx (ctx :: crest) path)
      end.
      rewrite (IHkids (S fuel') (c + p * hsum ts) p (sat p :: mrest) (ctx :: crest)).
      + cbn [pop st_of st_mults st_ctxs st_cost st_path st_errs]. unfold st_of. cbn [is_nil negb].
        f_equal. f_equal. f_equal. rewrite hsum_app. lia.
      + pose proof (hsum_nonneg ts Hok1). repeat split; try assumption. nia.
    - (* nil *)
      intros path ctx fuel c p mrest crest Hpre. rewrite visit_list_nil. unfold st_of. f_equal. f_equal.
      f_equal. change (hsum []) with 0. lia.
    - (* cons *)
      intros path ctx n l ts ts' _ IHn _ IHl fuel c p mrest crest Hpre.
      destruct Hpre as (Hc & Hp & Hok & Hnd & Hincl & Hfuel).
      apply forallb_costs_app in Hok as [Hok1 Hok2].
      rewrite visit_list_cons. rewrite (IHn fuel c p mrest crest) by (repeat split; assumption).
      rewrite (IHl fuel (c + p * hsum ts) p mrest crest).
      + unfold st_of. f_equal. f_equal. f_equal. rewrite hsum_app. lia.
      + pose proof (hsum_nonneg ts Hok1). repeat split; try assumption. nia.
  Qed.
End Main.

(** ** 6. The rule as a whole *)
Section Top.
  Variable C : Type.

  Lemma model_matches_spec_match opname (name : option bytes) :
    is_nil opname || match name with Some n => bytes_eqb n opname | None => false end = op_matches opname name.
  Proof. destruct opname; reflexivity. Qed.

  Lemma select_op_gen (ops : list (option bytes * node C)) opname : forall acc,
    select_op C ops opname acc =
      match acc, filter (fun o => op_matches opname (fst o)) ops with
      | None, [] => None
      | None, [o] => Some (snd o)
      | None, _ => None
      | Some d, [] => Some d
      | Some d, _ => None
      end.
  Proof.
    induction ops as [|[name def] ops IH]; intros acc.
    - destruct acc; reflexivity.
    - cbn [select_op filter fst]. rewrite model_matches_spec_match.
      destruct (op_matches opname name).
      + destruct acc as [d|].
        * reflexivity.
        * rewrite IH. cbn [snd]. destruct (filter _ ops); reflexivity.
      + apply IH.
  Qed.

  (** the operation-choice loop implements GetOperation *)
  Theorem select_op_spec (ops : list (option bytes * node C)) opname :
    select_op C ops opname None = get_operation ops opname.
  Proof.
    rewrite select_op_gen. unfold get_operation.
    destruct (filter _ ops) as [|o [|o' l]]; reflexivity.
  Qed.

  Variable dc : fcost C.
  Variable ctx0 : C.

  Theorem cost_exact : forall ops frs opname max fuel op ts,
    NoDup (map fst frs) ->
    get_operation ops opname = Some op ->
    Expand dc frs [] ctx0 op ts ->
    forallb costs_ok ts = true ->
    (length frs < fuel)%nat ->
    max <= MaxInt ->
    validate_cost C true fuel dc ctx0 ops frs opname false max
    = Done (Z.min (RefCost ts) MaxInt) ((max >=? 0) && (RefCost ts >? max)).
  Proof.
    intros ops frs opname max fuel op ts Hnd Hop Hexp Hok Hfuel Hmax.
    unfold validate_cost. rewrite select_op_spec, Hop. cbn [is_nil].
    change {| st_cost := 0; st_mults := [1]; st_ctxs := [ctx0]; st_path := []; st_errs := [] |}
      with (st_of C 0 1 [] ctx0 [] []).
    pose proof (proj1 (visit_sound C dc frs Hnd) [] ctx0 op ts Hexp) as Hv.
    rewrite (Hv fuel 0 1 [] []).
    2:{ unfold walk_pre. split; [lia|]. split; [lia|]. split; [assumption|]. split; [constructor|].
        split; [intros x Hx; destruct Hx|]. cbn [length]. lia. }
    cbn [st_of st_errs st_cost is_nil].
    pose proof (hsum_nonneg ts Hok) as Hnn.
    replace (0 + 1 * hsum ts) with (hsum ts) by lia.
    rewrite sat_actual by assumption. rewrite sat_cost_error by assumption.
    rewrite RefCost_horner. reflexivity.
  Qed.

  (** no (unique) operation is chosen: nothing would be executed; cost 0, accepted *)
  Theorem cost_no_operation : forall ops frs opname max fuel vars_err,
    get_operation ops opname = None ->
    validate_cost C true fuel dc ctx0 ops frs opname vars_err max = Done 0 false.
  Proof.
    intros ops frs opname max fuel vars_err Hop.
    unfold validate_cost. rewrite select_op_spec, Hop. cbn [is_nil st_errs st_cost].
    change (0 <? 0) with false. cbn [orb].
    destruct (max >=? 0) eqn:E; [|reflexivity]. cbn [andb].
    destruct (0 >? max) eqn:E2; [|reflexivity].
    apply Z.gtb_lt in E2. pose proof (Zge_cases max 0) as G. rewrite E in G. lia.
  Qed.

  (** variables that cannot be coerced: a (secondary) error, no cost is reported *)
  Theorem cost_vars_error : forall ops frs opname max fuel op,
    get_operation ops opname = Some op ->
    validate_cost C true fuel dc ctx0 ops frs opname true max = Secondary [ECoerceVars].
  Proof.
    intros ops frs opname max fuel op Hop.
    unfold validate_cost. rewrite select_op_spec, Hop. reflexivity.
  Qed.

  Theorem cost_accept_iff : forall ops frs opname max fuel op ts,
    NoDup (map fst frs) ->
    get_operation ops opname = Some op ->
    Expand dc frs [] ctx0 op ts ->
    forallb costs_ok ts = true ->
    (length frs < fuel)%nat ->
    -1 <= max <= MaxInt ->
    (accepted (validate_cost C true fuel dc ctx0 ops frs opname false max) = true
     <-> max = -1 \/ RefCost ts <= max).
  Proof.
    intros ops frs opname max fuel op ts Hnd Hop Hexp Hok Hfuel Hmax.
    rewrite (cost_exact ops frs opname max fuel op ts) by (try assumption; lia).
    cbn [accepted].
    destruct (max >=? 0) eqn:E; cbn [andb].
    - pose proof (Zge_cases max 0) as G. rewrite E in G.
      destruct (RefCost ts >? max) eqn:E2.
      + apply Z.gtb_lt in E2. split; [discriminate|]. intros [H|H]; lia.
      + pose proof (Zgt_cases (RefCost ts) max) as G2. rewrite E2 in G2. split; [intros _; right; lia|reflexivity].
    - pose proof (Zge_cases max 0) as G. rewrite E in G. split; [intros _; left; lia|reflexivity].
  Qed.

  (** a sum too large to represent is reported as MaxInt and rejected under every limit *)
  Theorem cost_overflow_rejected : forall ops frs opname max fuel op ts,
    NoDup (map fst frs) ->
    get_operation ops opname = Some op ->
    Expand dc frs [] ctx0 op ts ->
    forallb costs_ok ts = true ->
    (length frs < fuel)%nat ->
    0 <= max <= MaxInt ->
    MaxInt < RefCost ts ->
    validate_cost C true fuel dc ctx0 ops frs opname false max = Done MaxInt true.
  Proof.
    intros ops frs opname max fuel op ts Hnd Hop Hexp Hok Hfuel Hmax Hov.
    rewrite (cost_exact ops frs opname max fuel op ts) by (try assumption; lia).
    f_equal.
    - lia.
    - destruct (max >=? 0) eqn:E.
      + cbn [andb]. apply Z.gtb_lt. lia.
      + pose proof (Zge_cases max 0) as G. rewrite E in G. lia.
  Qed.
End Top.

(** ** 7. The executable expansion used by the oracle is the Spec's expansion *)
Section NodeInd.
  Variable C : Type.
  Variable P : node C -> Prop.
  Hypothesis HNode : forall k kids, Forall P kids -> P (Node k kids).
  Fixpoint node_ind' (n : node C) : P n :=
    match n with
    | Node k kids =>
        HNode k kids
          ((fix go (l : list (node C)) : Forall P l :=
              match l with
              | [] => Forall_nil P
              | x :: rest => Forall_cons x (node_ind' x) (go rest)
              end) kids)
    end.
End NodeInd.

Section ExpandSound.
  Variable C : Type.
  Variable dc : fcost C.
  Variable frs : list (bytes * node C).

  Definition expand_list (fuel : nat) (path : list bytes) (ctx : C) : list (node C) -> option (list etree) :=
    fix gol (l : list (node C)) : option (list etree) :=
      match l with
      | [] => Some []
      | x :: r => match expand dc frs fuel path ctx x, gol r with
                  | Some a, Some b => Some (a ++ b)
                  | _, _ => None
                  end
      end.

  Lemma expand_eq fuel path ctx k kids :
    expand dc frs fuel path ctx (Node k kids) =
      match k with
      | KOther => expand_list fuel path ctx kids
      | KFieldNoDef true => match expand_list fuel path ctx kids with Some ts => Some [ENode 0 0 ts] | None => None end
      | KFieldNoDef false => None
      | KField cost true => None
      | KField cost false =>
          match field_cost dc cost ctx with
          | Some fc => match expand_list fuel path (next_ctx fc ctx) kids with
                       | Some ts => Some [ENode (fc_r fc) (fc_m fc) ts]
                       | None => None
                       end
          | None => None
          end
      | KSpread name =>
          if mem_path name path then None
          else match find_fragment frs name, fuel with
               | Some def, S fuel' =>
                   match expand dc frs fuel' (name :: path) ctx def, expand_list fuel path ctx kids with
                   | Some ts, Some ts' => Some (ts ++ ts')
                   | _, _ => None
                   end
               | _, _ => None
               end
      end.
  Proof. destruct fuel; reflexivity. Qed.

  Lemma mem_path_false n l : mem_path n l = false -> ~ In n l.
  Proof. intros H. apply mem_name_false. exact H. Qed.

  Theorem expand_sound : forall fuel n path ctx ts,
    expand dc frs fuel path ctx n = Some ts -> Expand dc frs path ctx n ts.
  Proof.
    induction fuel as [|fuel IHf].
    - (* no fuel: spreads fail *)
      intros n. induction n as [k kids IH] using node_ind'.
      assert (HL : forall path ctx ts, expand_list 0 path ctx kids = Some ts -> ExpandL dc frs path ctx kids ts).
      { induction IH as [|x l Hx Hl IHl]; intros path ctx ts H; cbn [expand_list] in H.
        - inversion H; subst. constructor.
        - destruct (expand dc frs 0 path ctx x) as [a|] eqn:Ea; [|discriminate].
          fold (expand_list 0 path ctx l) in H.
          destruct (expand_list 0 path ctx l) as [b|] eqn:Eb; [|discriminate].
          inversion H; subst. constructor; [apply Hx; assumption|apply IHl; assumption]. }
      intros path ctx ts H. rewrite expand_eq in H.
      destruct k as [cost [|]|[|]|name|]; try discriminate.
      + destruct (field_cost dc cost ctx) as [fc|] eqn:Efc; [|discriminate].
        destruct (expand_list 0 path (next_ctx fc ctx) kids) as [ts0|] eqn:E; [|discriminate].
        inversion H; subst. apply X_field; [assumption|apply HL; assumption].
      + destruct (expand_list 0 path ctx kids) as [ts0|] eqn:E; [|discriminate].
        inversion H; subst. apply X_typename. apply HL; assumption.
      + destruct (mem_path name path); [discriminate|]. destruct (find_fragment frs name); discriminate.
      + apply X_other. apply HL; assumption.
    - intros n. induction n as [k kids IH] using node_ind'.
      assert (HL : forall path ctx ts, expand_list (S fuel) path ctx kids = Some ts -> ExpandL dc frs path ctx kids ts).
      { induction IH as [|x l Hx Hl IHl]; intros path ctx ts H; cbn [expand_list] in H.
        - inversion H; subst. constructor.
        - destruct (expand dc frs (S fuel) path ctx x) as [a|] eqn:Ea; [|discriminate].
          fold (expand_list (S fuel) path ctx l) in H.
          destruct (expand_list (S fuel) path ctx l) as [b|] eqn:Eb; [|discriminate].
          inversion H; subst. constructor; [apply Hx; assumption|apply IHl; assumption]. }
      intros path ctx ts H. rewrite expand_eq in H.
      destruct k as [cost [|]|[|]|name|]; try discriminate.
      + destruct (field_cost dc cost ctx) as [fc|] eqn:Efc; [|discriminate].
        destruct (expand_list (S fuel) path (next_ctx fc ctx) kids) as [ts0|] eqn:E; [|discriminate].
        inversion H; subst. apply X_field; [assumption|apply HL; assumption].
      + destruct (expand_list (S fuel) path ctx kids) as [ts0|] eqn:E; [|discriminate].
        inversion H; subst. apply X_typename. apply HL; assumption.
      + destruct (mem_path name path) eqn:Em; [discriminate|].
        destruct (find_fragment frs name) as [def|] eqn:Ef; [|discriminate].
        destruct (expand dc frs fuel (name :: path) ctx def) as [ts1|] eqn:E1; [|discriminate].
        destruct (expand_list (S fuel) path ctx kids) as [ts2|] eqn:E2; [|discriminate].
        inversion H; subst.
        eapply X_spread; [apply mem_path_false; assumption|eassumption|apply IHf; assumption|apply HL; assumption].
      + apply X_other. apply HL; assumption.
  Qed.
End ExpandSound.

(** ** 8. Stage 1: the abstract cost tree itself as a (fragment-free) document *)
Section FragmentFree.
  Variable C : Type.
  Variable dc : fcost C.
  Variable ctx0 : C.

  (** every field selection is a field whose cost function returns the node's (r, m) *)
  Fixpoint node_of (t : etree) : node C :=
    match t with
    | ENode r m kids =>
        Node (KField (Some (fun _ => Some {| fc_r := r; fc_m := m; fc_ctx := None |})) false) (map node_of kids)
    end.

  Lemma expand_node_of t : forall frs path ctx, Expand dc frs path ctx (node_of t) [t].
  Proof.
    induction t as [r m kids IH] using etree_ind'. intros frs path ctx.
    cbn [node_of].
    set (fc := {| fc_r := r; fc_m := m; fc_ctx := @None C |}).
    change (ENode r m kids) with (ENode (fc_r fc) (fc_m fc) kids).
    apply X_field; [reflexivity|].
    change (next_ctx fc ctx) with ctx. clear fc.
    induction IH as [|x l Hx Hl IHl]; cbn [map]; [constructor|].
    change (x :: l) with ([x] ++ l). constructor; [apply Hx|apply IHl].
  Qed.

  Lemma expand_forest ts : forall frs path ctx, ExpandL dc frs path ctx (map node_of ts) ts.
  Proof.
    induction ts as [|t ts IH]; intros frs path ctx; cbn [map]; [constructor|].
    change (t :: ts) with ([t] ++ ts). constructor; [apply expand_node_of|apply IH].
  Qed.

  Definition doc_of (ts : list etree) : list (option bytes * node C) := [(None, Node KOther (map node_of ts))].

  Theorem cost_exact_fragment_free : forall ts max,
    forallb costs_ok ts = true -> max <= MaxInt ->
    validate_cost C true 1 dc ctx0 (doc_of ts) [] [] false max
    = Done (Z.min (RefCost ts) MaxInt) ((max >=? 0) && (RefCost ts >? max)).
  Proof.
    intros ts max Hok Hmax.
    apply (cost_exact C dc ctx0 (doc_of ts) [] [] max 1 (Node KOther (map node_of ts)) ts);
      try assumption; [constructor|reflexivity|apply X_other; apply expand_forest|cbn; lia].
  Qed.
End FragmentFree.

(** ** 9. Before the repair (defect 18): a free field beneath multipliers whose product is too large
    to represent made the whole operation "too expensive to calculate". *)
Definition big_zero : list etree :=
  [ENode 0 4611686018427387904 [ENode 0 4611686018427387904 [ENode 0 0 []]]].

Theorem cost_exact_refuted_before_fix :
  exists (ts : list etree),
    forallb costs_ok ts = true /\ RefCost ts = 0 /\
    validate_cost unit false 1 {| fc_r := 1; fc_m := 0; fc_ctx := None |} tt (doc_of unit ts) [] [] false 0
    = Done MaxInt true.
Proof. exists big_zero. vm_compute. repeat split. Qed.

(** ... and the same document on the current code *)
Example big_zero_after_fix :
  validate_cost unit true 1 {| fc_r := 1; fc_m := 0; fc_ctx := None |} tt (doc_of unit big_zero) [] [] false 0
  = Done 0 false.
Proof. vm_compute. reflexivity. Qed.

(** ** 10. Connections with their default costs *)
Theorem connection_edges_le_multiplier (U : Type) (first last : argval) (ctx : kctx U) (n k : Z) :
  0 <= n ->
  connection_edge_count first last n = Some k ->
  exists ctx' fc,
    fc_ctx (default_connection_cost first last ctx) = Some ctx' /\
    edges_cost ctx' = Some fc /\
    fc_r fc = 0 /\ 0 <= fc_m fc /\
    0 <= k <= eff (fc_m fc).
Proof.
  intros Hn H. unfold connection_edge_count in H.
  unfold default_connection_cost, edges_cost. cbn [fc_ctx k_max_edge].
  eexists. eexists. split; [reflexivity|]. split; [reflexivity|]. cbn [fc_r fc_m]. split; [reflexivity|].
  assert (Htr : forall x, 0 <= x -> 0 <= (if n >? x then x else n) <= eff x /\ 0 <= x).
  { intros x Hx. unfold eff. destruct (Z.gtb_spec n x); destruct (Z.eqb_spec x 0); lia. }
  destruct first as [| |f]; destruct last as [| |l]; cbv zeta in H; try discriminate.
  - destruct (l <? 0) eqn:El; [discriminate|]. apply Z.ltb_ge in El.
    inversion H; subst k. destruct (Htr l El). tauto.
  - destruct (l <? 0) eqn:El; [discriminate|]. apply Z.ltb_ge in El.
    inversion H; subst k. destruct (Htr l El). tauto.
  - destruct (f <? 0) eqn:Ef; [discriminate|]. apply Z.ltb_ge in Ef.
    inversion H; subst k. destruct (Htr f Ef). tauto.
  - destruct (f <? 0) eqn:Ef; [discriminate|]. apply Z.ltb_ge in Ef.
    inversion H; subst k. destruct (Htr f Ef). tauto.
  - destruct (f <? 0); discriminate.
Qed.

(** the walk charges exactly that multiplier to the sub-selections of [edges]: for m >= 0 the code's
    rule ([Multiplier > 1], else unchanged) is the Spec's [eff] *)
Lemma charged_is_eff m : 0 <= m -> (if m >? 1 then m else 1) = eff m.
Proof.
  intros H. unfold eff. destruct (Z.gtb_spec m 1); destruct (Z.eqb_spec m 0); lia.
Qed.

(** ** 11. Never under *)
Theorem cost_never_under (C : Type) (dc : fcost C) (ctx0 : C) : forall ops frs opname max fuel op ts,
  NoDup (map fst frs) ->
  get_operation ops opname = Some op ->
  Expand dc frs [] ctx0 op ts ->
  forallb costs_ok ts = true ->
  (length frs < fuel)%nat ->
  max <= MaxInt ->
  exists actual cost_error,
    validate_cost C true fuel dc ctx0 ops frs opname false max = Done actual cost_error /\
    actual >= Z.min (RefCost ts) MaxInt.
Proof.
  intros ops frs opname max fuel op ts Hnd Hop Hexp Hok Hfuel Hmax.
  eexists. eexists. split; [apply (cost_exact C dc ctx0 ops frs opname max fuel op ts); assumption|lia].
Qed.

(** ** 12. Validated documents have an expansion (the hypothesis [Expand ...] of the main theorems is
    met by every document that satisfies the static rules the validator enforces) *)
Section Exists.
  Variable C : Type.
  Variable dc : fcost C.
  Variable frs : list (bytes * node C).

  (** the fragment names spread anywhere below a node *)
  Fixpoint spreads (n : node C) : list bytes :=
    match n with
    | Node k kids => (match k with KSpread name => [name] | _ => [] end) ++ flat_map spreads kids
    end.

  (** what the validator establishes node by node: fields exist (or are [__typename]), their
      arguments coerce, spread fragments are defined; and cost functions return *)
  Fixpoint locally_ok (n : node C) : Prop :=
    match n with
    | Node k kids =>
        match k with
        | KField (Some f) false => forall ctx, f ctx <> None
        | KField None false => True
        | KField _ true => False
        | KFieldNoDef is_typename => is_typename = true
        | KSpread name => find_fragment frs name <> None
        | KOther => True
        end /\
        (fix all (l : list (node C)) : Prop := match l with [] => True | x :: r => locally_ok x /\ all r end) kids
    end.

  (** "fragment spreads must not form cycles": some ranking of the fragment names decreases along
      every spread inside a fragment definition *)
  Definition validated (rank : bytes -> nat) : Prop :=
    forall name def, find_fragment frs name = Some def ->
      locally_ok def /\ forall s, In s (spreads def) -> (rank s < rank name)%nat.

  Lemma locally_ok_kids k kids : locally_ok (Node k kids) -> Forall locally_ok kids.
  Proof.
    cbn [locally_ok]. intros [_ H]. induction kids as [|x l IH]; [constructor|].
    destruct H as [Hx Hl]. constructor; [exact Hx|apply IH; exact Hl].
  Qed.

  Lemma spreads_kid k kids x s : In x kids -> In s (spreads x) -> In s (spreads (Node k kids)).
  Proof.
    intros Hx Hs. cbn [spreads]. apply in_or_app. right. apply in_flat_map. exists x. split; assumption.
  Qed.

  Lemma expand_exists_gen rank : validated rank ->
    forall k n path ctx,
      locally_ok n ->
      (forall s, In s (spreads n) -> (rank s < k)%nat) ->
      (forall q, In q path -> (k <= rank q)%nat) ->
      exists ts, Expand dc frs path ctx n ts.
  Proof.
    intros Hval k. induction k as [k IHk] using lt_wf_ind.
    intros n. induction n as [kd kids IH] using node_ind'.
    intros path ctx Hok Hsp Hpath.
    (* the children, under any context *)
    assert (HL : forall ctx', exists ts, ExpandL dc frs path ctx' kids ts).
    { intros ctx'. pose proof (locally_ok_kids kd kids Hok) as Hkids.
      assert (Hsp' : forall x, In x kids -> forall s, In s (spreads x) -> (rank s < k)%nat).
      { intros x Hx s Hs. apply Hsp. eapply spreads_kid; eassumption. }
      clear Hok Hsp.
      induction IH as [|x l Hx Hl IHl]; [exists []; constructor|].
      inversion Hkids as [|? ? Hkx Hkl]; subst.
      destruct (Hx path ctx' Hkx (Hsp' x (or_introl eq_refl)) Hpath) as [ts1 H1].
      destruct (IHl Hkl) as [ts2 H2]; [intros y Hy; apply Hsp'; right; exact Hy|].
      exists (ts1 ++ ts2). constructor; assumption. }
    destruct kd as [cost [|]|tn|name|].
    - cbn [locally_ok] in Hok. destruct cost; destruct Hok as [[] _].
    - destruct cost as [f|].
      + destruct Hok as [Hf _]. destruct (f ctx) as [fc|] eqn:Efc; [|exfalso; exact (Hf ctx Efc)].
        destruct (HL (next_ctx fc ctx)) as [ts Hts]. eexists. apply X_field; [exact Efc|exact Hts].
      + destruct (HL (next_ctx dc ctx)) as [ts Hts]. eexists. apply X_field; [reflexivity|exact Hts].
    - destruct Hok as [Htn _]. subst tn. destruct (HL ctx) as [ts Hts]. eexists. apply X_typename. exact Hts.
    - destruct Hok as [Hdef _].
      destruct (find_fragment frs name) as [def|] eqn:Ef; [|exfalso; apply Hdef; reflexivity].
      assert (Hrank : (rank name < k)%nat) by (apply Hsp; cbn [spreads]; left; reflexivity).
      assert (Hnotin : ~ In name path) by (intros Hin; specialize (Hpath name Hin); lia).
      destruct (Hval name def Ef) as [Hdok Hdsp].
      destruct (IHk (rank name) Hrank def (name :: path) ctx Hdok Hdsp) as [ts1 H1].
      { intros q [Hq|Hq]; [subst q; lia|specialize (Hpath q Hq); lia]. }
      destruct (HL ctx) as [ts2 H2].
      exists (ts1 ++ ts2). eapply X_spread; eassumption.
    - destruct (HL ctx) as [ts Hts]. exists ts. apply X_other. exact Hts.
  Qed.

  Theorem expand_exists rank : validated rank ->
    forall op ctx, locally_ok op -> exists ts, Expand dc frs [] ctx op ts.
  Proof.
    intros Hval op ctx Hok.
    set (k := S (fold_right Nat.max 0%nat (map rank (spreads op)))).
    apply (expand_exists_gen rank Hval k op [] ctx Hok).
    - intros s Hs. unfold k.
      assert (forall l, In s l -> (rank s <= fold_right Nat.max 0 (map rank l))%nat) as Hmax.
      { induction l as [|y l IHl]; intros Hin; [destruct Hin|].
        cbn [map fold_right]. destruct Hin as [Hy|Hy]; [subst y; lia|specialize (IHl Hy); lia]. }
      specialize (Hmax _ Hs). lia.
    - intros q [].
  Qed.
End Exists.

(** ** 13. The expansion is unique: "the" reference cost of a document is well defined *)
Section Functional.
  Variable C : Type.
  Variable dc : fcost C.
  Variable frs : list (bytes * node C).

  Lemma expand_functional :
    (forall path ctx n ts, Expand dc frs path ctx n ts -> forall ts', Expand dc frs path ctx n ts' -> ts = ts') /\
    (forall path ctx l ts, ExpandL dc frs path ctx l ts -> forall ts', ExpandL dc frs path ctx l ts' -> ts = ts').
  Proof.
    apply Expand_mutind.
    - intros path ctx kids ts _ IH ts' H. inversion H; subst. apply IH; assumption.
    - intros path ctx kids ts _ IH ts' H. inversion H; subst. f_equal. f_equal. apply IH; assumption.
    - intros path ctx cost fc kids ts Hfc _ IH ts' H. inversion H as [| |? ? ? fc' ? ts0 Hfc' Hk|]; subst.
      rewrite Hfc in Hfc'. inversion Hfc'; subst fc'. f_equal. f_equal. apply IH; assumption.
    - intros path ctx name kids def ts ts2 Hnotin Hfind _ IHd _ IHk ts' H.
      inversion H as [| | |? ? ? ? def' tsa tsb Hn' Hfind' Hd' Hk']; subst.
      rewrite Hfind in Hfind'. inversion Hfind'; subst def'.
      f_equal; [apply IHd|apply IHk]; assumption.
    - intros path ctx ts' H. inversion H; subst. reflexivity.
    - intros path ctx n l ts ts2 _ IHn _ IHl ts' H. inversion H; subst.
      f_equal; [apply IHn|apply IHl]; assumption.
  Qed.
End Functional.

(** ** 14. The main statement for validated documents, without mentioning the expansion relation in
    the hypotheses *)
Theorem cost_exact_validated (C : Type) (dc : fcost C) (ctx0 : C) :
  forall ops frs opname max fuel op rank,
    NoDup (map fst frs) ->
    get_operation ops opname = Some op ->
    validated C frs rank -> locally_ok C frs op ->
    (length frs < fuel)%nat ->
    max <= MaxInt ->
    exists ts,
      Expand dc frs [] ctx0 op ts /\
      (forall ts', Expand dc frs [] ctx0 op ts' -> ts' = ts) /\
      (forallb costs_ok ts = true ->
       validate_cost C true fuel dc ctx0 ops frs opname false max
       = Done (Z.min (RefCost ts) MaxInt) ((max >=? 0) && (RefCost ts >? max))).
Proof.
  intros ops frs opname max fuel op rank Hnd Hop Hval Hok Hfuel Hmax.
  destruct (expand_exists C dc frs rank Hval op ctx0 Hok) as [ts Hts].
  exists ts. split; [exact Hts|]. split.
  - intros ts' H'. symmetry. exact (proj1 (expand_functional C dc frs) [] ctx0 op ts Hts ts' H').
  - intros Hc. apply (cost_exact C dc ctx0 ops frs opname max fuel op ts); assumption.
Qed.

(** ** 15. The fuel bound holds for EVERY document (also invalid ones): with more fuel than fragment
    definitions the model never answers [OutOfFuel], and a walk that returns leaves the on-path set
    as it found it.  (The correspondence check runs the model with [S (length frs)].) *)
Section Fuel.
  Variable C : Type.
  Variable skip_zero : bool.
  Variable dc : fcost C.
  Variable frs : list (bytes * node C).

  Definition path_inv (fuel : nat) (st : state C) : Prop :=
    NoDup (st_path C st) /\ incl (st_path C st) (map fst frs) /\ (length frs < fuel + length (st_path C st))%nat.

  Definition fuel_ok (fuel : nat) (r : res (state C)) (st : state C) : Prop :=
    match r with
    | Ok st' => st_path C st' = st_path C st
    | Panic => True
    | OutOfFuel => False
    end.

  Lemma pop_path st : fuel_ok 0 (pop C st) st.
  Proof. unfold pop. destruct (st_mults C st); [exact I|]. destruct (st_ctxs C st); [exact I|]. reflexivity. Qed.

  Lemma visit_fuel_ok : forall fuel n st, path_inv fuel st ->
    fuel_ok fuel (visit C skip_zero dc frs fuel n st) st.
  Proof.
    induction fuel as [fuel IHfuel] using lt_wf_ind.
    intros n. induction n as [k kids IH] using node_ind'.
    intros st Hinv.
    (* the children *)
    assert (HL : forall s, path_inv fuel s -> fuel_ok fuel (visit_list C skip_zero dc frs fuel kids s) s).
    { clear Hinv. induction IH as [|x l Hx Hl IHl]; intros s Hs.
      - rewrite visit_list_nil. reflexivity.
      - rewrite visit_list_cons. specialize (Hx s Hs).
        destruct (visit C skip_zero dc frs fuel x s) as [s'| |] eqn:E; cbn [fuel_ok] in *; try assumption.
        assert (Hs' : path_inv fuel s') by (unfold path_inv in *; rewrite Hx; exact Hs).
        specialize (IHl s' Hs').
        destruct (visit_list C skip_zero dc frs fuel l s') as [s''| |]; cbn [fuel_ok] in *; try assumption.
        congruence. }
    rewrite visit_eq.
    destruct (st_mults C st) as [|multiplier mrest]; [exact I|].
    destruct (st_ctxs C st) as [|ctx crest]; [exact I|].
    (* the switch keeps the path, or fails for a reason other than fuel *)
    assert (Hsw : match after_switch C skip_zero dc frs fuel k st multiplier ctx with
                  | Ok (st1, _, _) => st_path C st1 = st_path C st
                  | Panic => True
                  | OutOfFuel => False
                  end).
    { destruct k as [cost aerr|tn|name|]; cbn [after_switch].
      - destruct aerr; [reflexivity|].
        destruct (match cost with Some f => f ctx | None => Some dc end); [reflexivity|exact I].
      - destruct tn; reflexivity.
      - destruct (mem_name name (st_path C st)) eqn:Emem; [reflexivity|].
        destruct (lookup_last C frs name) as [def|] eqn:Elook; [|reflexivity].
        destruct Hinv as (Hnd & Hincl & Hfuel).
        apply mem_name_false in Emem.
        assert (Hnd' : NoDup (name :: st_path C st)) by (constructor; assumption).
        assert (Hincl' : incl (name :: st_path C st) (map fst frs)).
        { intros x [Hx|Hx]; [subst x; eapply lookup_last_in; eassumption|apply Hincl; assumption]. }
        assert (Hlen : (length (name :: st_path C st) <= length frs)%nat).
        { rewrite <- (map_length fst frs). apply NoDup_incl_length; assumption. }
        cbn [length] in Hlen.
        destruct fuel as [|fuel']; [lia|].
        assert (Hinv' : path_inv fuel' (set_path C st (name :: st_path C st))).
        { unfold path_inv. cbn [set_path st_path]. repeat split; try assumption. cbn [length]. lia. }
        pose proof (IHfuel fuel' ltac:(lia) def _ Hinv') as Hdef.
        destruct (visit C skip_zero dc frs fuel' def (set_path C st (name :: st_path C st))) as [st1| |];
          cbn [fuel_ok] in Hdef; try assumption.
        cbn [set_path st_path] in *. rewrite Hdef. apply del_name_head. assumption.
      - reflexivity. }
    destruct (after_switch C skip_zero dc frs fuel k st multiplier ctx) as [[[st1 nm] nc]| |]; try assumption.
    destruct (negb (is_nil (st_errs C st1))); [exact Hsw|].
    assert (Hpush : path_inv fuel (push C st1 nm nc)).
    { unfold path_inv in *. cbn [push st_path]. rewrite Hsw. exact Hinv. }
    specialize (HL _ Hpush).
    destruct (visit_list C skip_zero dc frs fuel kids (push C st1 nm nc)) as [st3| |]; cbn [fuel_ok] in *; try assumption.
    pose proof (pop_path st3) as Hpop.
    destruct (pop C st3) as [st4| |]; cbn [fuel_ok] in *; try assumption.
    rewrite Hpop, HL. cbn [push st_path]. exact Hsw.
  Qed.
End Fuel.

Theorem never_out_of_fuel (C : Type) (skip_zero : bool) (dc : fcost C) (ctx0 : C) :
  forall ops frs opname vars_err max fuel,
    (length frs < fuel)%nat ->
    validate_cost C skip_zero fuel dc ctx0 ops frs opname vars_err max <> ROutOfFuel.
Proof.
  intros ops frs opname vars_err max fuel Hfuel. unfold validate_cost.
  destruct (select_op C ops opname None) as [op|].
  - destruct vars_err; cbn [is_nil].
    + discriminate.
    + match goal with |- context [visit C skip_zero dc frs fuel op ?s] =>
        pose proof (visit_fuel_ok C skip_zero dc frs fuel op s) as H; set (s0 := s) in *
      end.
      assert (Hinv : path_inv C frs fuel s0).
      { unfold path_inv, s0. cbn [st_path length]. split; [constructor|]. split; [intros x []|lia]. }
      specialize (H Hinv).
      destruct (visit C skip_zero dc frs fuel op s0) as [st| |]; cbn [fuel_ok] in H.
      * destruct (is_nil (st_errs C st)); discriminate.
      * discriminate.
      * contradiction.
  - cbn [is_nil st_errs]. discriminate.
Qed.
