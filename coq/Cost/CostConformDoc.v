(** * Cost/CostConformDoc.v — C14 round 7: TYPE CONFORMANCE of every cost call on the real document.

    For a document accepted by C04's [validate_model repaired], the request C03's composition derives
    from the annotated document ([c_ops], [c_frs] of [pti_doc]) has, at every field selection REACHED
    from the chosen operation, argument literals that pass C05's variable-usage rule [usage_ok] at the
    argument types of the executor-side schema: the third implication of [document_bridge], on the
    real document.  With the first two (CostRealDoc.v) and [trace_calls_conform]: every argument map a
    cost function is called with conforms to the declared argument types. *)
From Coq Require Import List NArith ZArith Bool Lia.
From ApiFu Require Import Base.Sexp.
From ApiFu Require Vld.Ast Vld.AstInd Vld.Inspect Vld.InspectProofs Vld.TypeInfoModel Vld.TypeInfoPure Vld.ValidatorModel
     Vld.ProofsCommon Vld.ProofsArguments Vld.ProofsValues Vld.ProofsVarsOrder Vld.ProofsOrder Vld.ProofsTypeInfoValues
     Vld.ProofsCycles Vld.ValidatorProofs Vld.Hyps Vld.ValidSpec Vld.ProofsSubscription Vld.MemoEquiv Vld.ProofsVerdict.
From ApiFu Require Import Val.Values Val.MapFacts Val.CoerceModel Val.CoerceSpec Val.CoerceProofs
     Val.BridgeC04 Val.BridgeC04Proofs Val.BridgeC04Doc.
From ApiFu Require Val.BridgeC04Full.
From ApiFu Require ExeA.ArgData ExeA.ArgArgs Pipe.Convert Pipe.CostCompose.
From ApiFu Require Import Cost.CostArgs Cost.CostArgsProofs Cost.CostTrace Cost.CostTraceProofs Cost.CostC04Usage
     Cost.CostC04 Cost.CostRealDoc Cost.CostConformU.
Import ListNotations.

Module I := Vld.Inspect.
Module IP := Vld.InspectProofs.
Module TM := Vld.TypeInfoModel.
Module TP := Vld.TypeInfoPure.
Module PVO := Vld.ProofsVarsOrder.

Notation qo := (VM.q_unwrap_obj VM.repaired).

Lemma vnodes_kid g n cs c m : g n = true -> In c cs -> In m (IP.vnodes g c) -> In m (IP.vnodes g (I.T n cs)).
Proof.
  intros Hg Hc Hm. cbn [IP.vnodes]. rewrite Hg. right. apply in_flat_map. exists c. split; assumption.
Qed.

(** ** where a field selection of the request sits in the annotated document *)
Section Sites.
  Variable VS : A.schema.
  Variable F : A.features.
  Variable ES : ExeA.ArgData.schema.

  Definition site_of (tr : I.tree) (vals : list A.value) (f : afield unit) : Prop :=
    exists T n fd args0 al np dirs sub,
      TM.field_of_scope VS F (Some T) n = Some fd /\
      af_argdefs f = ExeA.ArgArgs.argdefs_of ES T n /\
      af_args f = map (fun x => (A.a_name x, CC.l_of_vld (A.a_value x)))
                      (TM.ti_args qo VS (Some (A.f_args fd)) TM.dflt_not_nil args0) /\
      In (I.NSel (A.SField (Some fd) al n np (TM.ti_args qo VS (Some (A.f_args fd)) TM.dflt_not_nil args0) dirs sub))
         (I.tree_nodes tr) /\
      (forall x, In x (TM.ti_args qo VS (Some (A.f_args fd)) TM.dflt_not_nil args0) -> In (A.a_value x) vals) /\
      (forall x m, In x (TM.ti_args qo VS (Some (A.f_args fd)) TM.dflt_not_nil args0) ->
                   In m (IP.vnodes PVO.var_g (I.tree_value (A.a_value x))) -> In m (IP.vnodes PVO.var_g tr)).

  Lemma site_mono tr vals tr' vals' f :
    (forall m, In m (I.tree_nodes tr) -> In m (I.tree_nodes tr')) ->
    (forall v, In v vals -> In v vals') ->
    (forall m, In m (IP.vnodes PVO.var_g tr) -> In m (IP.vnodes PVO.var_g tr')) ->
    site_of tr vals f -> site_of tr' vals' f.
  Proof.
    intros H1 H2 H3 (T & n & fd & args0 & al & np & dirs & sub & Hf & Hd & Ha & Hn & Hv & Hm).
    exists T, n, fd, args0, al, np, dirs, sub.
    split; [exact Hf|]. split; [exact Hd|]. split; [exact Ha|]. split; [apply H1; exact Hn|].
    split; [intros x Hx; apply H2; apply Hv; exact Hx|intros x m Hx Hxm; apply H3; eapply Hm; eassumption].
  Qed.

  Lemma sites :
    (forall s top f, field_in unit (CC.c_sel ES top (TP.pti_sel qo VS F top s)) f ->
       site_of (I.tree_sel (TP.pti_sel qo VS F top s)) (PV.vals_sel (TP.pti_sel qo VS F top s)) f) /\
    (forall ss top f, field_in unit (CC.c_ss ES (TP.pti_ss qo VS F top ss)) f ->
       site_of (I.tree_ss (TP.pti_ss qo VS F top ss)) (PV.vals_ss (TP.pti_ss qo VS F top ss)) f).
  Proof.
    apply AstInd.sel_ss_ind.
    - (* a field *)
      intros a al n np args dirs sub IH top f H.
      cbn [TP.pti_sel] in *. cbn [CC.c_sel] in H.
      set (sub' := match sub with Some ss => Some (TP.pti_ss qo VS F (TP.field_scope VS F top n) ss) | None => None end) in *.
      assert (Hkid : forall k, In k (match sub' with Some ss => [CC.c_ss ES ss] | None => [] end) -> field_in unit k f ->
                     site_of (I.tree_sel (A.SField (TM.field_of_scope VS F top n) al n np (TP.field_args qo VS F top n args)
                                                   (map (TM.ti_dir qo VS) dirs) sub'))
                             (PV.vals_sel (A.SField (TM.field_of_scope VS F top n) al n np (TP.field_args qo VS F top n args)
                                                    (map (TM.ti_dir qo VS) dirs) sub')) f).
      { intros k Hk Hf. unfold sub' in *. destruct sub as [ss|]; [|destruct Hk]. destruct Hk as [<-|[]].
        eapply site_mono; [| | |apply (IH ss eq_refl _ f Hf)].
        - intros m Hm. cbn [I.tree_sel]. eapply in_tree_nodes_kid; [|exact Hm].
          apply in_or_app. right. apply in_or_app. right. apply in_or_app. right. apply in_or_app. right. left. reflexivity.
        - intros v Hv. cbn [PV.vals_sel]. apply in_or_app. right. apply in_or_app. right. exact Hv.
        - intros m Hm. cbn [I.tree_sel]. eapply vnodes_kid; [reflexivity| |exact Hm].
          apply in_or_app. right. apply in_or_app. right. apply in_or_app. right. apply in_or_app. right. left. reflexivity. }
      destruct (TM.field_of_scope VS F top n) as [fd|] eqn:Ef.
      + inversion H; subst.
        * (* this very field *)
          destruct top as [T|]; [|cbn in Ef; discriminate].
          exists T, n, fd, args, al, np, (map (TM.ti_dir qo VS) dirs), sub'.
          split; [exact Ef|]. unfold TP.field_args. rewrite Ef.
          split; [reflexivity|]. split; [reflexivity|]. split; [cbn [I.tree_sel I.tree_nodes]; left; reflexivity|].
          split.
          -- intros x Hx. cbn [PV.vals_sel]. apply in_or_app. left. unfold PV.arg_vals. apply in_map. exact Hx.
          -- intros x m Hx Hm. cbn [I.tree_sel]. eapply vnodes_kid; [reflexivity|apply in_or_app; right; apply in_or_app; right; apply in_or_app; left; apply in_map; exact Hx|].
             unfold I.tree_arg. eapply vnodes_kid; [reflexivity|right; left; reflexivity|exact Hm].
        * eapply Hkid; eassumption.
      + inversion H; subst. eapply Hkid; eassumption.
    - (* a spread *)
      intros n np dirs e top f H. cbn [TP.pti_sel CC.c_sel] in H.
      inversion H; subst. match goal with X : In _ [] |- _ => destruct X end.
    - (* an inline fragment *)
      intros cond dirs sub e IH top f H. cbn [TP.pti_sel] in *. cbn [CC.c_sel] in H.
      inversion H; subst.
      match goal with X : In _ [_] |- _ => destruct X as [<-|[]] end.
      match goal with X : field_in _ _ f |- _ => pose proof (IH _ f X) as R end.
      eapply site_mono; [| | |exact R].
      + intros m Hm. cbn [I.tree_sel]. eapply in_tree_nodes_kid; [|exact Hm].
        apply in_or_app. right. apply in_or_app. right. left. reflexivity.
      + intros v Hv. cbn [PV.vals_sel]. apply in_or_app. right. exact Hv.
      + intros m Hm. cbn [I.tree_sel]. eapply vnodes_kid; [reflexivity| |exact Hm].
        apply in_or_app. right. apply in_or_app. right. left. reflexivity.
    - (* a selection set *)
      intros a sels p IH top f H. cbn [TP.pti_ss] in *. cbn [CC.c_ss] in H.
      inversion H; subst.
      match goal with X : In _ (map _ (map _ sels)) |- _ => rewrite map_map in X; apply in_map_iff in X as (s & <- & Hs) end.
      rewrite Forall_forall in IH.
      match goal with X : field_in _ _ f |- _ => pose proof (IH s Hs top f X) as R end.
      eapply site_mono; [| | |exact R].
      + intros m Hm. cbn [I.tree_ss]. eapply in_tree_nodes_kid; [|exact Hm]. apply in_map. apply in_map. exact Hs.
      + intros v Hv. cbn [PV.vals_ss]. apply in_flat_map. exists (TP.pti_sel qo VS F top s). split; [apply in_map; exact Hs|exact Hv].
      + intros m Hm. cbn [I.tree_ss]. eapply vnodes_kid; [reflexivity| |exact Hm]. apply in_map. apply in_map. exact Hs.
  Qed.
End Sites.

(** ** the walk's reachability is validateVariables' reachability *)
Section Reach.
  Variable ES : ExeA.ArgData.schema.

  Definition spreads_of_tree (t : I.tree) : list A.name := flat_map ProofsCycles.spread_name_of (IP.vnodes PVO.var_g t).

  Lemma spreads_kid n cs c x : PVO.var_g n = true -> In c cs -> In x (spreads_of_tree c) -> In x (spreads_of_tree (I.T n cs)).
  Proof.
    unfold spreads_of_tree. intros Hg Hc Hx. apply in_flat_map in Hx as (m & Hm & Hx).
    apply in_flat_map. exists m. split; [eapply vnodes_kid; eassumption|exact Hx].
  Qed.

  Lemma spread_in_c :
    (forall s parent name, spread_in unit (CC.c_sel ES parent s) name -> In name (spreads_of_tree (I.tree_sel s))) /\
    (forall ss name, spread_in unit (CC.c_ss ES ss) name -> In name (spreads_of_tree (I.tree_ss ss))).
  Proof.
    apply AstInd.sel_ss_ind.
    - intros a al n np args dirs sub IH parent name H. cbn [CC.c_sel] in H.
      assert (Hkid : forall k, In k (match sub with Some ss => [CC.c_ss ES ss] | None => [] end) -> spread_in unit k name ->
                     In name (spreads_of_tree (I.tree_sel (A.SField a al n np args dirs sub)))).
      { intros k Hk Hs. destruct sub as [ss|]; [|destruct Hk]. destruct Hk as [<-|[]].
        cbn [I.tree_sel]. eapply spreads_kid; [reflexivity| |apply (IH ss eq_refl name Hs)].
        apply in_or_app. right. apply in_or_app. right. apply in_or_app. right. apply in_or_app. right. left. reflexivity. }
      destruct a as [def|]; inversion H; subst; eapply Hkid; eassumption.
    - intros n np dirs e parent name H. cbn [CC.c_sel] in H. inversion H; subst.
      + unfold spreads_of_tree. cbn [I.tree_sel IP.vnodes PVO.var_g flat_map ProofsCycles.spread_name_of]. left. reflexivity.
      + match goal with X : In _ [] |- _ => destruct X end.
    - intros cond dirs sub e IH parent name H. cbn [CC.c_sel] in H. inversion H; subst.
      match goal with X : In _ [_] |- _ => destruct X as [<-|[]] end.
      cbn [I.tree_sel]. eapply spreads_kid; [reflexivity| |apply IH; assumption].
      apply in_or_app. right. apply in_or_app. right. left. reflexivity.
    - intros a sels p IH name H. cbn [CC.c_ss] in H. inversion H; subst.
      match goal with X : In _ (map _ sels) |- _ => apply in_map_iff in X as (s & <- & Hs) end.
      rewrite Forall_forall in IH.
      cbn [I.tree_ss]. eapply spreads_kid; [reflexivity|apply in_map; exact Hs|eapply IH; eassumption].
  Qed.

  Lemma spread_in_body ss name :
    spread_in unit (ANode AOther [CC.c_ss ES ss]) name -> In name (spreads_of_tree (I.tree_ss ss)).
  Proof.
    intro H. inversion H; subst. match goal with X : In _ [_] |- _ => destruct X as [<-|[]] end.
    apply (proj2 spread_in_c). assumption.
  Qed.

  Lemma lookup_none (D : A.document) name :
    alookup_last unit (CC.c_frs ES D) name = None -> A.frag_last D name = None.
  Proof.
    induction D as [|d r IH]; [reflexivity|].
    unfold CC.c_frs. cbn [flat_map]. fold (CC.c_frs ES r). cbn [A.frag_last].
    destruct d as [ot nm vars dirs sub|kw n np cond dirs sub]; cbn [app].
    - intro H. rewrite (IH H). reflexivity.
    - cbn [alookup_last]. destruct (alookup_last unit (CC.c_frs ES r) name) eqn:El; [discriminate|].
      intro H. rewrite (IH eq_refl). unfold A.name_eqb. rewrite bytes_eqb_sym.
      destruct (bytes_eqb n name); [discriminate|reflexivity].
  Qed.

  Lemma lookup_fragment (D : A.document) name def :
    alookup_last unit (CC.c_frs ES D) name = Some def ->
    exists kw n np cond dirs sub, A.frag_last D name = Some (A.DFrag kw n np cond dirs sub) /\
                                  def = ANode AOther [CC.c_ss ES sub].
  Proof.
    induction D as [|d r IH]; [discriminate|].
    unfold CC.c_frs. cbn [flat_map]. fold (CC.c_frs ES r). cbn [A.frag_last].
    destruct d as [ot nm vars dirs sub|kw n np cond dirs sub]; cbn [app].
    - intro H. destruct (IH H) as (kw & n & np & cond & dirs' & sub' & Hf & Hd).
      rewrite Hf. exists kw, n, np, cond, dirs', sub'. split; [reflexivity|exact Hd].
    - cbn [alookup_last]. destruct (alookup_last unit (CC.c_frs ES r) name) as [d'|] eqn:El.
      + intro H. inversion H; subst d'. destruct (IH eq_refl) as (kw' & n' & np' & cond' & dirs' & sub' & Hf & Hd).
        rewrite Hf. exists kw', n', np', cond', dirs', sub'. split; [reflexivity|exact Hd].
      + pose proof (lookup_none r name El) as Hnone.
        rewrite Hnone. unfold A.name_eqb. rewrite (bytes_eqb_sym name n).
        destruct (bytes_eqb n name); [|discriminate]. intro H. inversion H; subst.
        exists kw, n, np, cond, dirs, sub. split; reflexivity.
  Qed.

  Lemma ss_in_def_op ot nm vars dirs sub x :
    In x (spreads_of_tree (I.tree_ss sub)) -> In x (PVO.spreads (PVO.body0 (A.DOp ot nm vars dirs sub))).
  Proof.
    intro H. unfold PVO.spreads, PVO.body0. fold (spreads_of_tree (I.tree_def (A.DOp ot nm vars dirs sub))).
    cbn [I.tree_def]. eapply spreads_kid; [reflexivity| |exact H].
    apply in_or_app. right. apply in_or_app. right. apply in_or_app. right. apply in_or_app. right. left. reflexivity.
  Qed.
  Lemma ss_in_def_frag (D : A.document) name kw n np cond dirs sub x :
    A.frag_last D name = Some (A.DFrag kw n np cond dirs sub) ->
    In x (spreads_of_tree (I.tree_ss sub)) -> In x (PVO.spreads (PVO.body D name)).
  Proof.
    intros Hf H. unfold PVO.spreads, PVO.body. rewrite Hf. fold (spreads_of_tree (I.tree_def (A.DFrag kw n np cond dirs sub))).
    cbn [I.tree_def]. eapply spreads_kid; [reflexivity| |exact H].
    right. apply in_or_app. right. left. reflexivity.
  Qed.

  (** a node the walk reaches from the body of an operation of the document: that body, or the
      body of a fragment validateVariables reaches from the operation *)
  Theorem reached_is_reached (D : A.document) ot nm vars dirs sub m :
    reached unit (CC.c_frs ES D) (ANode AOther [CC.c_ss ES sub]) m ->
    m = ANode AOther [CC.c_ss ES sub] \/
    exists x kw n np cond dirs' sub',
      PVO.reached D (A.DOp ot nm vars dirs sub) x /\
      A.frag_last D x = Some (A.DFrag kw n np cond dirs' sub') /\
      m = ANode AOther [CC.c_ss ES sub'].
  Proof.
    intro H. induction H as [|k name def Hk IH Hs Hl]; [left; reflexivity|].
    right. destruct (lookup_fragment D name def Hl) as (kw & n & np & cond & dirs' & sub' & Hf & ->).
    exists name, kw, n, np, cond, dirs', sub'. split; [|split; [exact Hf|reflexivity]].
    destruct IH as [->|(x & kwx & nx & npx & condx & dirsx & subx & Hrx & Hfx & ->)].
    - apply PVO.reached0. apply ss_in_def_op. apply spread_in_body. exact Hs.
    - eapply PVO.reached_step; [exact Hrx|]. eapply ss_in_def_frag; [exact Hfx|]. apply spread_in_body. exact Hs.
  Qed.
End Reach.

(** ** the variable definitions of an operation *)
Lemma schema_type_shape S F : forall ty x, TM.schema_type S F ty = Some x -> x = tr_sty (CC.sty_of_vld_ty ty).
Proof.
  induction ty as [n p|t' IH p|t' IH]; intros x H; cbn [TM.schema_type CC.sty_of_vld_ty tr_sty] in *.
  - destruct (A.named_type S F n); inversion H; reflexivity.
  - destruct (TM.schema_type S F t') as [y|]; inversion H. rewrite (IH y eq_refl). reflexivity.
  - destruct (TM.schema_type S F t') as [y|]; inversion H. rewrite (IH y eq_refl). reflexivity.
Qed.

Lemma has_default_agree v : has_nonnull_default_c04 v = has_nonnull_default_c05 (CC.c_vardef v).
Proof.
  unfold has_nonnull_default_c04, has_nonnull_default_c05, CC.c_vardef. cbn [vd_default].
  destruct (A.vd_default v) as [y|]; [|reflexivity]. cbn [option_map].
  destruct y as [an n d np|an l p|an l p|an s p|an b p|an p|an n p|an vs p|an fs p]; try reflexivity.
  cbn [CC.l_of_vld A.is_null]. destruct (Pipe.Convert.parse_decimal l); reflexivity.
Qed.

Lemma vardefs_loop_facts S : forall vars seen,
  VM.vardefs_loop S vars seen = [] ->
  (forall v, In v vars -> A.mem (A.vd_name v) seen = false) /\
  has_dup (map A.vd_name vars) = false /\
  (forall v, In v vars -> exists t b, A.vd_ann v = Some t /\ A.raw_body S (A.unwrapped t) = Some b /\ A.is_input_body b = true).
Proof.
  induction vars as [|v r IH]; intros seen H; [repeat split; intros ? []|].
  cbn [VM.vardefs_loop] in H. apply app_eq_nil in H as [H1 H2]. apply app_eq_nil in H2 as [H2 H3].
  destruct (IH _ H3) as (Hseen & Hnd & Hty).
  assert (Hm : A.mem (A.vd_name v) seen = false) by (destruct (A.mem (A.vd_name v) seen); [discriminate|reflexivity]).
  split; [|split].
  - intros w [<-|Hw]; [exact Hm|]. specialize (Hseen w Hw). unfold A.mem in Hseen |- *. cbn [existsb] in Hseen.
    apply orb_false_iff in Hseen as [_ Hs]. exact Hs.
  - cbn [map has_dup]. rewrite Hnd, orb_false_r.
    destruct (existsb (bytes_eqb (A.vd_name v)) (map A.vd_name r)) eqn:Ex; [|reflexivity]. exfalso.
    apply existsb_exists in Ex as (nm & Hn & He). apply in_map_iff in Hn as (w & <- & Hw).
    specialize (Hseen w Hw). unfold A.mem in Hseen. cbn [existsb] in Hseen. apply orb_false_iff in Hseen as [Hs _].
    unfold A.name_eqb in Hs. rewrite bytes_eqb_sym in Hs. rewrite Hs in He. discriminate.
  - intros w [<-|Hw]; [|apply Hty; exact Hw].
    destruct (A.vd_ann v) as [t|] eqn:Et; [|discriminate]. destruct (A.raw_body S (A.unwrapped t)) as [b|] eqn:Er; [|discriminate].
    destruct (A.is_input_body b) eqn:Eb; [|discriminate]. exists t, b. split; [reflexivity|]. split; [exact Er|exact Eb].
Qed.

(** ** one field selection *)
(** the argument definitions of a field on both sides: same names, translated types, the same answer
    to "does the location have a default" *)
Definition arg_rel (vdefs : list (A.name * A.input_def)) (edefs : list (name * in_def)) : Prop :=
  forall a vdef, A.assoc a vdefs = Some vdef ->
    exists d, aget a edefs = Some d /\ A.in_type vdef = tr_sty (in_type d) /\
              TM.dflt_not_nil (A.in_default vdef) = arg_loc_default true d.

Section Site.
  Variable pi : VM.order.
  Hypothesis Hpi : ProofsCommon.order_ok pi.
  Variable VS : A.schema.
  Variable F : A.features.
  Variable ES : ExeA.ArgData.schema.
  Notation E := (ExeA.ArgData.s_inputs ES).
  Hypothesis Hleaves : scalars_are_leaves VS.
  Hypothesis Hinputs : forall n defs, A.raw_body VS n = Some (A.TInput defs) ->
    exists fields h, aget n E = Some (TInput fields h) /\ defs = map (fun f : name * in_def => (fst f, tr_indef (snd f))) fields.
  Hypothesis Hargs : forall T n fd, TM.field_of_scope VS F (Some T) n = Some fd ->
    arg_rel (A.f_args fd) (ExeA.ArgArgs.argdefs_of ES T n).
  Variable defs : list vardef.
  Variable vars' : list A.vardef.
  Hypothesis Hvars : Forall2 vrel defs vars'.
  Hypothesis Hknown : forall d, In d defs -> type_known E (vd_type d) = true.

  Lemma site_usage tr vals f :
    (forall v, In v vals -> PV.val_f pi VS (I.NValue v) = []) ->
    flat_map (PVO.var_fe vars') (IP.vnodes PVO.var_g tr) = [] ->
    (forall n, In n (I.tree_nodes tr) -> ProofsArguments.arg_f pi VS n = []) ->
    site_of VS F ES tr vals f ->
    field_usage_ok unit E defs f = true.
  Proof.
    intros Hvals Hvarn Hargn (T & n & fd & args0 & al & np & dirs & sub & Hf & Hd & Ha & Hn & Hv & Hm).
    unfold field_usage_ok. rewrite Ha, Hd. rewrite forallb_map_eq'. apply forallb_forall. intros x Hx. cbn [fst snd].
    (* the node: every argument given is defined *)
    pose proof (Hargn _ Hn) as Hnode. cbn [ProofsArguments.arg_f] in Hnode.
    assert (P : ProofsCommon.primary (ProofsArguments.args_errs pi (TM.ti_args qo VS (Some (A.f_args fd)) TM.dflt_not_nil args0) (A.f_args fd)
                  (A.sel_pos (A.SField (Some fd) al n np (TM.ti_args qo VS (Some (A.f_args fd)) TM.dflt_not_nil args0) dirs sub))) = [])
      by (rewrite Hnode; reflexivity).
    apply (ProofsArguments.args_errs_primary pi Hpi) in P. unfold ProofsArguments.list_ok in P.
    apply andb_true_iff in P as [P _]. apply andb_true_iff in P as [P _]. rewrite forallb_forall in P.
    specialize (P (A.a_name x) (in_map A.a_name _ _ Hx)).
    destruct (A.assoc (A.a_name x) (A.f_args fd)) as [vdef|] eqn:Ev; [|discriminate].
    (* the annotated argument *)
    pose proof Hx as Hx'. rewrite PT.ti_args_spec in Hx'. apply in_map_iff in Hx' as (a0 & Ex & Ha0).
    assert (Ename : A.a_name x = A.a_name a0) by (rewrite <- Ex; reflexivity).
    rewrite Ename in Ev.
    assert (Eval : A.a_value x = TM.ti_value qo VS (Some (A.in_type vdef)) (TM.dflt_not_nil (A.in_default vdef)) (A.a_value a0)).
    { rewrite <- Ex. cbn [A.a_value A.a_name]. rewrite Ev. reflexivity. }
    destruct (Hargs T n fd Hf (A.a_name a0) vdef Ev) as (d & Hed & Hty & Hld).
    rewrite Ename, Hed, Eval. unfold TM.ti_value. rewrite l_of_vld_blind.
    (* validateCoercion on the raw value *)
    assert (Hco : VM.coercion VM.repaired pi VS (A.a_value a0) (A.in_type vdef) true = VM.VR []).
    { pose proof (Hvals _ (Hv x Hx)) as Hvf. rewrite Eval in Hvf. cbn [PV.val_f] in Hvf.
      rewrite PV.ti_value_is_var in Hvf.
      destruct (A.is_var (A.a_value a0)) eqn:Eiv.
      - rewrite PV.coercion_unfold, Eiv. reflexivity.
      - rewrite PV.ti_value_ann in Hvf. cbn [A.va_expected] in Hvf.
        destruct (PV.coercion_total pi VS (TM.ti_value qo VS (Some (A.in_type vdef)) (TM.dflt_not_nil (A.in_default vdef)) (A.a_value a0)) (A.in_type vdef) true) as [errs Hc].
        rewrite Hc in Hvf. cbn [PV.vr_errs] in Hvf. subst errs. rewrite PV.coercion_blind in Hc. exact Hc. }
    (* validateVariables inside the value *)
    assert (Hue : nil_errs (PT.usage_errs true VS vars' false (Some (A.in_type vdef)) (TM.dflt_not_nil (A.in_default vdef)) (A.a_value a0)) = true).
    { rewrite <- (PT.vars_value_errs true VS vars' (A.a_value a0) false (Some (A.in_type vdef)) (TM.dflt_not_nil (A.in_default vdef))).
      assert (Z : flat_map (PVO.var_fe vars') (IP.vnodes PVO.var_g (I.tree_value (TM.ti_value_in true VS false (Some (A.in_type vdef)) (TM.dflt_not_nil (A.in_default vdef)) (A.a_value a0)))) = []).
      { apply IP.flat_map_nil_iff. intros m Hmm. rewrite IP.flat_map_nil_iff in Hvarn. apply Hvarn.
        apply (Hm x m Hx). rewrite Eval. exact Hmm. }
      rewrite Z. reflexivity. }
    rewrite Hty in Hco, Hue. rewrite Hld in Hue.
    apply (usage_real pi VS E Hleaves Hinputs defs vars' Hvars Hknown (A.a_value a0) (in_type d) true (arg_loc_default true d) Hco Hue).
  Qed.
End Site.

(** ** the theorem *)
Lemma vrel_map vars :
  (forall v, In v vars -> A.vd_ann v = Some (tr_sty (CC.sty_of_vld_ty (A.vd_type v)))) ->
  Forall2 vrel (map CC.c_vardef vars) vars.
Proof.
  induction vars as [|v r IH]; intro H; [constructor|]. cbn [map]. constructor.
  - split; [reflexivity|]. split; [apply H; left; reflexivity|apply has_default_agree].
  - apply IH. intros w Hw. apply H. right. exact Hw.
Qed.

Section Final.
  Variable pi : VM.order.
  Hypothesis Hpi : ProofsCommon.order_ok pi.
  Variable VS : A.schema.
  Variable F : A.features.
  Variable ES : ExeA.ArgData.schema.
  Variable D : A.document.
  Notation E := (ExeA.ArgData.s_inputs ES).
  Notation Adoc := (TP.pti_doc qo VS F D).

  (** the two encodings describe one schema, as far as inputs are concerned *)
  Hypothesis Hleaves : scalars_are_leaves VS.
  Hypothesis Hinputs : forall n defs, A.raw_body VS n = Some (A.TInput defs) ->
    exists fields h, aget n E = Some (TInput fields h) /\ defs = map (fun f : name * in_def => (fst f, tr_indef (snd f))) fields.
  Hypothesis Hknown_types : forall n b, A.raw_body VS n = Some b -> A.is_input_body b = true -> ahas n E = true.
  Hypothesis Hargs : forall T n fd, TM.field_of_scope VS F (Some T) n = Some fd ->
    arg_rel (A.f_args fd) (ExeA.ArgArgs.argdefs_of ES T n).

  Hypothesis Hacc : VM.validate_model VM.repaired pi VS F D = A.Done [].

  Lemma def_in_doc_nodes d m : In d Adoc -> In m (I.tree_nodes (I.tree_def d)) -> In m (I.tree_nodes (I.tree_doc Adoc)).
  Proof. intros Hd Hm. unfold I.tree_doc. eapply in_tree_nodes_kid; [apply in_map; exact Hd|exact Hm]. Qed.

  Theorem request_usage o :
    In o (CC.c_ops ES Adoc) ->
    has_dup (map vd_name (ao_vardefs o)) = false /\
    forall f, in_request unit o (CC.c_frs ES Adoc) f ->
      field_usage_ok unit E (ao_vardefs o) f = true /\
      exists T n, af_argdefs f = ExeA.ArgArgs.argdefs_of ES T n.
  Proof.
    intro Ho.
    pose proof Hacc as Hacc'. apply ValidatorProofs.validate_model_nil in Hacc'. apply ValidatorProofs.all_rules_nil in Hacc'.
    destruct Hacc' as (_ & _ & Hrargs & _ & Hrvals & _ & Hrvars).
    pose proof (proj1 (ProofsOrder.rule_variables_fine VS Adoc pi Hpi) Hrvars) as Hfine.
    pose proof (rule_arguments_nodes pi VS Adoc Hrargs) as Hargn.
    rewrite PV.rule_values_eq in Hrvals.
    assert (Hvalsall : forall v, In v (flat_map PV.def_vals Adoc) -> PV.val_f pi VS (I.NValue v) = []).
    { assert (Z : flat_map (fun v => PV.val_f pi VS (I.NValue v)) (flat_map PV.def_vals Adoc) = []) by congruence.
      rewrite IP.flat_map_nil_iff in Z. exact Z. }
    (* the operation *)
    unfold CC.c_ops in Ho. apply in_flat_map in Ho as (d & Hd & Ho).
    destruct d as [ot nm vars dirs sub|kw n np cond dirs sub]; [|destruct Ho]. destruct Ho as [<-|[]].
    cbn [ao_vardefs ao_body].
    pose proof (Hfine _ Hd) as Hvf. cbn [ProofsOrder.vars_fine] in Hvf. destruct Hvf as (Hvl & Hb0 & Hbx & _).
    destruct (vardefs_loop_facts VS vars [] Hvl) as (_ & Hnd & Hty).
    (* the definition comes from NewTypeInfo *)
    pose proof Hd as Hd0. unfold TP.pti_doc in Hd0. apply in_map_iff in Hd0 as (d0 & Ed0 & Hd0).
    destruct d0 as [ot0 nm0 vars0 dirs0 sub0|kw0 n0 np0 cond0 dirs00 sub00]; cbn [TP.pti_def] in Ed0; [|discriminate].
    inversion Ed0; subst ot nm vars dirs sub. clear Ed0.
    set (vars := map (TM.ti_vardef qo VS F) vars0) in *.
    assert (Hann : forall v, In v vars -> A.vd_ann v = Some (tr_sty (CC.sty_of_vld_ty (A.vd_type v)))).
    { intros v Hv. destruct (Hty v Hv) as (t & b & Ht & _). rewrite Ht. f_equal.
      unfold vars in Hv. apply in_map_iff in Hv as (v0 & <- & _). cbn [TM.ti_vardef A.vd_ann A.vd_type] in *.
      apply (schema_type_shape VS F _ _ Ht). }
    assert (Hvrel : Forall2 vrel (map CC.c_vardef vars) vars) by (apply vrel_map; exact Hann).
    assert (Hknown : forall def, In def (map CC.c_vardef vars) -> type_known E (vd_type def) = true).
    { intros def Hdef. apply in_map_iff in Hdef as (v & <- & Hv). cbn [CC.c_vardef vd_type].
      destruct (Hty v Hv) as (t & b & Ht & Hr & Hb). rewrite (Hann v Hv) in Ht. inversion Ht; subst t.
      rewrite BridgeC04Full.type_known_leaf. rewrite BridgeC04Full.unwrapped_tr in Hr. exact (Hknown_types _ _ Hr Hb). }
    split.
    { rewrite map_map. cbn [CC.c_vardef vd_name]. exact Hnd. }
    (* a field selection reached from the operation *)
    intros f (m & Hm & Hf).
    set (dop := A.DOp ot0 nm0 vars (map (TM.ti_dir qo VS) dirs0) (TP.pti_ss qo VS F (TP.op_scope VS ot0) sub0)) in *.
    assert (Huse : forall dd tr0 vals0,
               In dd Adoc ->
               flat_map (PVO.var_fe vars) (IP.vnodes PVO.var_g (I.tree_def dd)) = [] ->
               (forall mm, In mm (I.tree_nodes tr0) -> In mm (I.tree_nodes (I.tree_def dd))) ->
               (forall v, In v vals0 -> In v (PV.def_vals dd)) ->
               (forall mm, In mm (IP.vnodes PVO.var_g tr0) -> In mm (IP.vnodes PVO.var_g (I.tree_def dd))) ->
               site_of VS F ES tr0 vals0 f ->
               field_usage_ok unit E (map CC.c_vardef vars) f = true /\
               exists T n, af_argdefs f = ExeA.ArgArgs.argdefs_of ES T n).
    { intros dd tr0 vals0 Hdd Hvn H1 H2 H3 Hs.
      pose proof (site_mono VS F ES tr0 vals0 (I.tree_def dd) (PV.def_vals dd) f H1 H2 H3 Hs) as Hs'.
      split.
      - apply (site_usage pi Hpi VS F ES Hleaves Hinputs Hargs (map CC.c_vardef vars) vars Hvrel Hknown (I.tree_def dd) (PV.def_vals dd) f).
        + intros v Hv. apply Hvalsall. apply in_flat_map. exists dd. split; assumption.
        + exact Hvn.
        + intros nn Hnn. apply Hargn. eapply def_in_doc_nodes; eassumption.
        + exact Hs'.
      - destruct Hs as (T & nn & fd & args0 & al & np & dirs & sub & _ & Hdf & _). exists T, nn. exact Hdf. }
    destruct (reached_is_reached ES Adoc ot0 nm0 vars (map (TM.ti_dir qo VS) dirs0) (TP.pti_ss qo VS F (TP.op_scope VS ot0) sub0) m Hm)
      as [->|(x & kw & nf & npf & cond & dirs' & sub' & Hrx & Hfx & ->)].
    - (* in the operation's own selection set *)
      inversion Hf; subst. match goal with X : In _ [_] |- _ => destruct X as [<-|[]] end.
      match goal with X : field_in _ _ f |- _ => pose proof (proj2 (sites VS F ES) sub0 (TP.op_scope VS ot0) f X) as Hs end.
      refine (Huse dop _ _ Hd Hb0 _ _ _ Hs).
      + intros mm Hmm. unfold dop. cbn [I.tree_def]. eapply in_tree_nodes_kid; [|exact Hmm].
        apply in_or_app. right. apply in_or_app. right. apply in_or_app. right. apply in_or_app. right. left. reflexivity.
      + intros v Hv. unfold dop. cbn [PV.def_vals]. apply in_or_app. right. apply in_or_app. right. exact Hv.
      + intros mm Hmm. unfold dop. cbn [I.tree_def]. eapply vnodes_kid; [reflexivity| |exact Hmm].
        apply in_or_app. right. apply in_or_app. right. apply in_or_app. right. apply in_or_app. right. left. reflexivity.
    - (* in a fragment validateVariables reaches from the operation *)
      pose proof (ProofsCycles.frag_last_in Adoc x _ Hfx) as Hdx.
      pose proof (Hbx x Hrx) as Hbody. unfold PVO.body in Hbody. rewrite Hfx in Hbody.
      pose proof Hdx as Hdx0. unfold TP.pti_doc in Hdx0. apply in_map_iff in Hdx0 as (dx0 & Edx0 & _).
      destruct dx0 as [ot1 nm1 vars1 dirs1 sub1|kw1 n1 np1 cond1 dirs1 sub1]; cbn [TP.pti_def] in Edx0; [discriminate|].
      inversion Edx0; subst kw nf npf cond dirs' sub'. clear Edx0.
      inversion Hf; subst. match goal with X : In _ [_] |- _ => destruct X as [<-|[]] end.
      match goal with X : field_in _ _ f |- _ => pose proof (proj2 (sites VS F ES) sub1 (TP.frag_scope VS F cond1) f X) as Hs end.
      refine (Huse _ _ _ Hdx Hbody _ _ _ Hs).
      + intros mm Hmm. cbn [I.tree_def]. eapply in_tree_nodes_kid; [|exact Hmm]. right. apply in_or_app. right. left. reflexivity.
      + intros v Hv. cbn [PV.def_vals]. apply in_or_app. right. exact Hv.
      + intros mm Hmm. cbn [I.tree_def]. eapply vnodes_kid; [reflexivity| |exact Hmm]. right. apply in_or_app. right. left. reflexivity.
  Qed.
End Final.

(** what "one schema in two encodings" means for the cost rule's arguments *)
Record inputs_agree (VS : A.schema) (F : A.features) (ES : ExeA.ArgData.schema) : Prop := {
  ia_leaves : scalars_are_leaves VS;
  (** the input-object types of the validator's schema are those of the executor-side environment,
      field by field (names, translated types, default flags) *)
  ia_inputs : forall n defs, A.raw_body VS n = Some (A.TInput defs) ->
    exists fields h, aget n (ExeA.ArgData.s_inputs ES) = Some (TInput fields h) /\
                     defs = map (fun f : name * in_def => (fst f, tr_indef (snd f))) fields;
  (** every input type of the validator's schema is known to the executor-side environment *)
  ia_known : forall n b, A.raw_body VS n = Some b -> A.is_input_body b = true -> ahas n (ExeA.ArgData.s_inputs ES) = true;
  (** the arguments of every field: same names, translated types, the same "has a default" *)
  ia_args : forall T n fd, TM.field_of_scope VS F (Some T) n = Some fd ->
    arg_rel (A.f_args fd) (ExeA.ArgArgs.argdefs_of ES T n);
  (** the executor-side argument definitions: named once, defaults of their types *)
  ia_defs : forall T n, has_dup (map fst (ExeA.ArgArgs.argdefs_of ES T n)) = false /\
                        forall ad, In ad (ExeA.ArgArgs.argdefs_of ES T n) -> default_ok (ExeA.ArgData.s_inputs ES) (snd ad) = true
}.

Theorem accepted_document_calls_conform pi VS F ES D opname raw o skip_zero fuel dc ctx0 max :
  ProofsCommon.order_ok pi ->
  inputs_agree VS F ES ->
  VM.validate_model VM.repaired pi VS F D = A.Done [] ->
  let Adoc := TP.pti_doc qo VS F D in
  let E := ExeA.ArgData.s_inputs ES in
  let dt := ExeA.ArgArgs.dt_oracle ES in
  env_ok E = true ->
  (forall p, In p raw -> jval_ok (snd p) = true) ->
  chosen_op unit (CC.c_ops ES Adoc) opname = Some o ->
  (* the parser: default values are constants *)
  (forall def dflt, In def (ao_vardefs o) -> vd_default def = Some dflt -> lit_vars dflt = []) ->
  forall c, In c (snd (validate_cost_trace unit E dt skip_zero fuel dc ctx0
                         (CC.c_ops ES Adoc) (CC.c_frs ES Adoc) opname raw max)) ->
    args_conform_b E (af_argdefs (c_field c)) (c_args c) = true.
Proof.
  intros Hpi [Hleaves Hinputs Hknown Hargs Hdefs] Hacc Adoc E dt HE Hraw Ho Hclosed c Hin.
  assert (Hop : In o (CC.c_ops ES Adoc)).
  { unfold chosen_op in Ho.
    destruct (filter (fun o0 => CostSpec.op_matches opname (ao_name o0)) (CC.c_ops ES Adoc)) as [|o1 [|o2 r]] eqn:Ef; try discriminate.
    inversion Ho; subst o1.
    assert (Hi : In o (filter (fun o0 => CostSpec.op_matches opname (ao_name o0)) (CC.c_ops ES Adoc))) by (rewrite Ef; left; reflexivity).
    apply filter_In in Hi as [Hi _]. exact Hi. }
  destruct (request_usage pi Hpi VS F ES D Hleaves Hinputs Hknown Hargs Hacc o Hop) as (Hnd & Hf).
  apply (trace_calls_conform unit E dt skip_zero fuel dc ctx0 (CC.c_ops ES Adoc) (CC.c_frs ES Adoc) opname raw max o Ho HE Hnd); [| |exact Hin].
  - split; [exact Hclosed|exact Hraw].
  - intros f Hfr. destruct (Hf f Hfr) as (Hu & T & n & Hd). rewrite Hd. destruct (Hdefs T n) as (H1 & H2).
    split; [exact H1|]. split; [exact H2|exact Hu].
Qed.

(** ** the full statement: behind the validator, cost functions only ever see conforming,
    reference-coerced arguments *)
Theorem accepted_document_cost_calls pi VS F ES D opname raw o skip_zero fuel dc ctx0 max :
  ProofsCommon.order_ok pi ->
  inputs_agree VS F ES ->
  VM.validate_model VM.repaired pi VS F D = A.Done [] ->
  let Adoc := TP.pti_doc qo VS F D in
  let E := ExeA.ArgData.s_inputs ES in
  let dt := ExeA.ArgArgs.dt_oracle ES in
  env_ok E = true ->
  (forall p, In p raw -> jval_ok (snd p) = true) ->
  chosen_op unit (CC.c_ops ES Adoc) opname = Some o ->
  (forall def dflt, In def (ao_vardefs o) -> vd_default def = Some dflt -> lit_vars dflt = []) ->
  forall c, In c (snd (validate_cost_trace unit E dt skip_zero fuel dc ctx0
                         (CC.c_ops ES Adoc) (CC.c_frs ES Adoc) opname raw max)) ->
    args_conform_b E (af_argdefs (c_field c)) (c_args c) = true /\
    exists vv,
      ref_variable_values E dt (ao_vardefs o) raw = Some vv /\
      ref_argument_values E dt (af_argdefs (c_field c))
        (map (fun p => match p with (k, l) => (k, abs_lit vv l) end) (af_args (c_field c))) = Some (c_args c).
Proof.
  intros Hpi Hia Hacc Adoc E dt HE Hraw Ho Hclosed c Hin. split.
  - exact (accepted_document_calls_conform pi VS F ES D opname raw o skip_zero fuel dc ctx0 max Hpi Hia Hacc HE Hraw Ho Hclosed c Hin).
  - exact (accepted_document_calls_reference_coerced pi VS F ES D opname raw o skip_zero fuel dc ctx0 max Hpi (ia_leaves VS F ES Hia) Hacc HE Hraw Ho c Hin).
Qed.

(** the same for every document VALID in the sense of the GraphQL specification, chapter 5 (C04's
    [Valid], which the validator accepts: C04_validate_verdict) *)
Theorem valid_document_cost_calls pi VS F ES D opname raw o skip_zero fuel dc ctx0 max :
  ProofsCommon.order_ok pi ->
  Hyps.schema_ok VS = true -> Hyps.schema_args_ok VS = true -> Hyps.schema_impls_ok VS = true ->
  Hyps.schema_defaults_ok VS = true -> Hyps.schema_types_wf VS = true ->
  ProofsSubscription.doc_set_positions_distinct D -> MemoEquiv.doc_field_positions_distinct D ->
  ValidSpec.Valid VS F D ->
  inputs_agree VS F ES ->
  let Adoc := TP.pti_doc qo VS F D in
  let E := ExeA.ArgData.s_inputs ES in
  let dt := ExeA.ArgArgs.dt_oracle ES in
  env_ok E = true ->
  (forall p, In p raw -> jval_ok (snd p) = true) ->
  chosen_op unit (CC.c_ops ES Adoc) opname = Some o ->
  (forall def dflt, In def (ao_vardefs o) -> vd_default def = Some dflt -> lit_vars dflt = []) ->
  forall c, In c (snd (validate_cost_trace unit E dt skip_zero fuel dc ctx0
                         (CC.c_ops ES Adoc) (CC.c_frs ES Adoc) opname raw max)) ->
    args_conform_b E (af_argdefs (c_field c)) (c_args c) = true /\
    exists vv,
      ref_variable_values E dt (ao_vardefs o) raw = Some vv /\
      ref_argument_values E dt (af_argdefs (c_field c))
        (map (fun p => match p with (k, l) => (k, abs_lit vv l) end) (af_args (c_field c))) = Some (c_args c).
Proof.
  intros Hpi H1 H2 H3 H4 H5 H6 H7 Hvalid Hia.
  apply (accepted_document_cost_calls pi VS F ES D opname raw o skip_zero fuel dc ctx0 max Hpi Hia).
  apply (proj2 (ProofsVerdict.validate_verdict_plain pi VS F D Hpi H1 H2 H3 H4 H5 H6 H7) Hvalid).
Qed.
