(** * Cost/CostConformU.v — C14 round 7: validateVariables inside a value of the REAL document.

    C04's [usage_errs] on a value [v] of the document (the errors of validateVariables' visitor inside
    the annotated value, C04_variable_usages_in_value), jointly with a silent validateCoercion, gives
    C05's [usage_ok] of the literal [l_of_vld v] that C03's composition hands to the cost rule — at the
    argument type of the executor-side schema, whose translation [tr_sty t] is the type the validator
    expected.  What is needed of the two schema encodings is stated on the spot: the input-object
    types of the validator's schema are those of the executor-side environment ([Hinputs]). *)
From Coq Require Import List NArith ZArith Bool.
From ApiFu Require Import Base.Sexp Val.Values Val.MapFacts Val.CoerceModel Val.CoerceSpec Val.CoerceProofs
     Val.BridgeC04 Val.BridgeC04Proofs Val.BridgeC04Doc.
From ApiFu Require Vld.Ast Vld.AstInd Vld.ValidatorModel Vld.TypeInfoModel Vld.ProofsValues Vld.ProofsTypeInfoValues.
From ApiFu Require Pipe.Convert Pipe.CostCompose.
From ApiFu Require Import Cost.CostC04Usage Cost.CostRealDoc.
Import ListNotations.

Module A := Vld.Ast.
Module VM := Vld.ValidatorModel.
Module PV := Vld.ProofsValues.
Module PT := Vld.ProofsTypeInfoValues.
Module CC := Pipe.CostCompose.

(** ** the leaf: validateVariableUsage *)
Definition has_nonnull_default_c04 (d' : A.vardef) : bool :=
  match A.vd_default d' with Some x => negb (A.is_null x) | None => false end.
Definition has_nonnull_default_c05 (d : vardef) : bool :=
  match vd_default d with Some LNull => false | Some _ => true | None => false end.

Lemma variable_usage_real E (def : vardef) (d' : A.vardef) loc ld dollar :
  A.vd_ann d' = Some (tr_sty (vd_type def)) ->
  has_nonnull_default_c04 d' = has_nonnull_default_c05 def ->
  type_known E (vd_type def) = true ->
  nil_errs (VM.variable_usage d' {| A.va_expected := Some (tr_sty loc); A.va_default := ld; A.va_scalar := false |} dollar)
  = var_usage_ok E def loc ld.
Proof.
  intros Ha Hd Tk. unfold VM.variable_usage, var_usage_ok. rewrite Ha, Tk. cbn [A.va_expected A.va_default andb].
  unfold has_nonnull_default_c04, has_nonnull_default_c05 in Hd.
  destruct loc as [ln|lt'|lt']; cbn [tr_sty].
  - change (A.StNamed ln) with (tr_sty (StNamed ln)).
    rewrite types_compatible_tr. destruct (types_compatible (StNamed ln) (vd_type def)); reflexivity.
  - change (A.StList (tr_sty lt')) with (tr_sty (StList lt')).
    rewrite (types_compatible_tr (vd_type def) (StList lt')). destruct (types_compatible (StList lt') (vd_type def)); reflexivity.
  - rewrite is_nonnull_tr. destruct (is_nonnull (vd_type def)); cbn [negb].
    + change (A.StNonNull (tr_sty lt')) with (tr_sty (StNonNull lt')).
      rewrite (types_compatible_tr (vd_type def) (StNonNull lt')). destruct (types_compatible (StNonNull lt') (vd_type def)); reflexivity.
    + rewrite types_compatible_tr. rewrite Hd.
      destruct (vd_default def) as [dl|]; [destruct dl|]; cbn [negb orb andb]; destruct ld; cbn [negb orb andb];
        destruct (types_compatible lt' (vd_type def)); reflexivity.
Qed.

(** the variable definitions of the operation on both sides *)
Definition vrel (d : vardef) (d' : A.vardef) : Prop :=
  A.vd_name d' = vd_name d /\ A.vd_ann d' = Some (tr_sty (vd_type d)) /\
  has_nonnull_default_c04 d' = has_nonnull_default_c05 d.

Lemma vardef_first_vrel n : forall defs vars', Forall2 vrel defs vars' ->
  match find_def n defs, VM.vardef_first n vars' with
  | Some d, Some d' => vrel d d' /\ In d defs
  | None, None => True
  | _, _ => False
  end.
Proof.
  induction 1 as [|d d' defs vars' Hr Hrest IH]; [exact I|].
  unfold find_def in *. cbn [find VM.vardef_first].
  destruct Hr as (Hn & Ha & Hd). rewrite Hn. unfold A.name_eqb.
  destruct (bytes_eqb n (vd_name d)).
  - split; [repeat split; assumption|left; reflexivity].
  - destruct (find (fun d0 => bytes_eqb n (vd_name d0)) defs) as [x|];
      destruct (VM.vardef_first n vars') as [x'|]; try exact IH.
    destruct IH as [H1 H2]. split; [exact H1|right; exact H2].
Qed.

Section U.
  Variable pi : VM.order.
  Variable S : A.schema.
  Variable E : env.
  Hypothesis Hleaves : scalars_are_leaves S.
  (** the input-object types of the validator's schema are those of the executor-side environment *)
  Hypothesis Hinputs : forall n defs, A.raw_body S n = Some (A.TInput defs) ->
    exists fields h, aget n E = Some (TInput fields h) /\ defs = map (fun f : name * in_def => (fst f, tr_indef (snd f))) fields.
  Variable defs : list vardef.
  Variable vars' : list A.vardef.
  Hypothesis Hvars : Forall2 vrel defs vars'.
  Hypothesis Hknown : forall d, In d defs -> type_known E (vd_type d) = true.

  Notation co := (VM.coercion VM.repaired pi S).
  Notation ue := (PT.usage_errs true S vars').

  Lemma co_list a vs p : forall t al, co (A.VList a vs p) (tr_sty t) al = VM.VR [] ->
    exists t', nullable_type t = StList t' /\ forall x, In x vs -> co x (tr_sty t') false = VM.VR [].
  Proof.
    induction t as [n|t' IH|t' IH]; intros al H; cbn [tr_sty] in H; rewrite PV.coercion_unfold in H; cbn [A.is_var A.is_null] in H.
    - destruct (A.raw_body S n) as [[k|vals|dfs| | |]|] eqn:Er; try discriminate.
      destruct (Hleaves n k Er) as [Hl _]. rewrite Hl in H. discriminate.
    - exists t'. split; [reflexivity|]. apply (items_loop_nil pi S (tr_sty t') vs H).
    - cbn [nullable_type]. apply (IH al H).
  Qed.

  Lemma co_object a fs p : forall t al, co (A.VObject a fs p) (tr_sty t) al = VM.VR [] ->
    exists n dfs, leaf_type t = StNamed n /\ A.raw_body S n = Some (A.TInput dfs) /\
      forall k np x, In (k, np, x) fs -> exists def, A.assoc k dfs = Some def /\ co x (A.in_type def) true = VM.VR [].
  Proof.
    induction t as [n|t' IH|t' IH]; intros al H; cbn [tr_sty] in H; rewrite PV.coercion_unfold in H; cbn [A.is_var A.is_null] in H.
    - destruct (A.raw_body S n) as [[k|vals|dfs| | |]|] eqn:Er; try discriminate.
      + destruct (Hleaves n k Er) as [_ Ho]. rewrite Ho in H. discriminate.
      + exists n, dfs. split; [reflexivity|]. split; [exact Er|].
        destruct (fields_loop_nil pi S dfs p fs [] [] H) as (_ & _ & _ & Hall). exact Hall.
    - destruct al; [|discriminate]. cbn [leaf_type]. apply (IH true H).
    - cbn [leaf_type]. apply (IH al H).
  Qed.

  Lemma list_item_tr' t : PT.list_item (Some (tr_sty t)) =
    match nullable_type t with StList t' => Some (tr_sty t') | _ => None end.
  Proof. unfold PT.list_item. rewrite nullable_tr. destruct (nullable_type t); reflexivity. Qed.

  Theorem usage_real : forall v t al ld,
    co v (tr_sty t) al = VM.VR [] ->
    nil_errs (ue false (Some (tr_sty t)) ld v) = true ->
    usage_ok all_fixed E defs (CC.l_of_vld v) (Some t) ld = true.
  Proof.
    induction v as [an n d np|an l p|an l p|an s p|an b p|an p|an n p|an vs p IHv|an fs p IHf] using AstInd.value_ind';
      intros t al ld Hco Hue; try reflexivity.
    - (* a variable *)
      cbn [PT.usage_errs] in Hue. cbn [CC.l_of_vld usage_ok].
      pose proof (vardef_first_vrel n defs vars' Hvars) as R.
      destruct (find_def n defs) as [d0|]; destruct (VM.vardef_first n vars') as [d'|]; try contradiction.
      + destruct R as ((Hn & Ha & Hd) & Hin).
        rewrite <- (variable_usage_real E d0 d' t ld d Ha Hd (Hknown d0 Hin)). exact Hue.
      + discriminate.
    - (* float *)
      cbn [CC.l_of_vld]. destruct (Pipe.Convert.parse_decimal l); reflexivity.
    - (* a list *)
      destruct (co_list an vs p t al Hco) as (t' & Hn & Hall).
      cbn [PT.usage_errs] in Hue. cbn [CC.l_of_vld usage_ok]. rewrite Hn.
      rewrite list_item_tr', Hn in Hue. unfold PT.nested_mark in Hue. cbn iota in Hue.
      rewrite nil_errs_flat_map in Hue.
      rewrite forallb_map_eq'. apply forallb_forall. intros x Hx.
      rewrite forallb_forall in Hue. rewrite Forall_forall in IHv.
      apply (IHv x Hx t' false false (Hall x Hx) (Hue x Hx)).
    - (* an object *)
      destruct (co_object an fs p t al Hco) as (n & dfs & Hl & Hr & Hall).
      destruct (Hinputs n dfs Hr) as (fields & h & HE & ->).
      cbn [PT.usage_errs] in Hue. cbn [CC.l_of_vld usage_ok fix_item_object all_fixed]. rewrite Hl, HE.
      assert (Hof : TypeInfoModel.object_fields true S (Some (tr_sty t)) =
                    Some (map (fun f : name * in_def => (fst f, tr_indef (snd f))) fields)).
      { unfold TypeInfoModel.object_fields.
        assert (Hu : A.unwrapped (tr_sty t) = n).
        { pose proof (unwrapped_tr t) as U. rewrite Hl in U. cbn [tr_sty] in U. inversion U; reflexivity. }
        rewrite Hu, Hr. reflexivity. }
      rewrite Hof in Hue. rewrite nil_errs_flat_map in Hue.
      rewrite forallb_map_eq'. apply forallb_forall. intros [[k np] x] Hx.
      rewrite forallb_forall in Hue. rewrite Forall_forall in IHf.
      specialize (Hue _ Hx). cbn [fst snd] in Hue |- *.
      destruct (Hall k np x Hx) as (def & Hdef & Hcx).
      rewrite assoc_tr_fields in Hue, Hdef.
      destruct (aget k fields) as [fd|]; [|discriminate]. cbn [option_map] in Hue, Hdef. inversion Hdef; subst def.
      change (A.in_type (tr_indef fd)) with (tr_sty (in_type fd)) in Hue, Hcx.
      rewrite dflt_is_value_tr in Hue.
      apply (IHf (k, np, x) Hx (in_type fd) true (field_loc_default fd) Hcx Hue).
  Qed.
End U.

(** ** TypeInfo's slots do not matter to the literal the cost rule sees *)
Lemma l_of_vld_blind qo S : forall v sc e dd, CC.l_of_vld (TypeInfoModel.ti_value_in qo S sc e dd v) = CC.l_of_vld v.
Proof.
  induction v as [an n d np|an l p|an l p|an s p|an b p|an p|an n p|an vs p IHv|an fs p IHf] using AstInd.value_ind';
    intros sc e dd; try reflexivity.
  - cbn [TypeInfoModel.ti_value_in CC.l_of_vld]. f_equal. rewrite map_map. apply map_ext_in. intros x Hx.
    rewrite Forall_forall in IHv. apply IHv. exact Hx.
  - cbn [TypeInfoModel.ti_value_in CC.l_of_vld]. f_equal. rewrite map_map. apply map_ext_in. intros [[k np] x] Hx.
    rewrite Forall_forall in IHf. specialize (IHf _ Hx). cbn [snd] in IHf.
    destruct (match TypeInfoModel.object_fields qo S e with Some l => A.assoc k l | None => None end); cbn [fst snd]; f_equal; apply IHf.
Qed.
