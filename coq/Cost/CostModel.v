(** * Cost/CostModel.v — transcription of graphql/validator/validate_cost.go (C14)

    Go [int] (amd64) is [Z] with an explicit 64-bit two's-complement wrap after every arithmetic
    operation: this property is about overflow.  Transcribed:

      - [checkedNonNegativeMultiply], [checkedNonNegativeAdd]      validate_cost.go:15-37
      - the operation choice loop                                 validate_cost.go:46-57
      - the visitor: [ast.Inspect] + callback, multiplier / context stacks, on-path fragment
        set, nested [visitNode(def)] for spreads                  validate_cost.go:75-143, ast/inspect.go
      - limit / actual reporting                                  validate_cost.go:145-161
      - [defaultConnectionCost], the [edges] cost function and the edge-count part of the
        [Connection] resolver                                     pagination.go:226-235, 264-274, 434-442, 481-497,
                                                                  pagination/pagination.go EdgesToReturn

    No proofs in this file. *)
From Coq Require Import List ZArith Bool.
From ApiFu Require Import Base.Sexp.
Import ListNotations.
Open Scope Z_scope.

(** ** Machine integers *)
Definition MaxInt : Z := 9223372036854775807.        (* maxInt = int(^uint(0) >> 1) *)
Definition MinInt : Z := -9223372036854775808.
Definition two64 : Z := 18446744073709551616.
Definition two63 : Z := 9223372036854775808.

(** the value a Go [int] holds after an operation whose mathematical result is [z] *)
Definition wrap64 (z : Z) : Z := ((z + two63) mod two64) - two63.

Definition in_int (z : Z) : Prop := MinInt <= z <= MaxInt.
Definition in_intb (z : Z) : bool := (MinInt <=? z) && (z <=? MaxInt).

Definition gmul (a b : Z) : Z := wrap64 (a * b).
Definition gadd (a b : Z) : Z := wrap64 (a + b).
Definition gsub (a b : Z) : Z := wrap64 (a - b).
(** Go's [/] truncates towards zero: [Z.quot] *)
Definition gquot (a b : Z) : Z := wrap64 (Z.quot a b).

(** func checkedNonNegativeMultiply(a, b int) int *)
Definition checked_mul (a b : Z) : Z :=
  if (a <? 0) || (b <? 0) then -1
  else if (a =? 0) || (b =? 0) || (a =? 1) || (b =? 1) then gmul a b
  else
    let c := gmul a b in
    if negb (gquot c b =? a) then -1 else c.

(** func checkedNonNegativeAdd(a, b int) int   ([||] is evaluated left to right, so [maxInt-b]
    is only computed for [b >= 0]) *)
Definition checked_add (a b : Z) : Z :=
  if (a <? 0) || (b <? 0) || (a >? gsub MaxInt b) then -1
  else gadd a b.

(** ** The document as [ast.Inspect] sees it

    A rose tree.  Only two kinds of node matter to the callback ([*ast.Field], [*ast.FragmentSpread]);
    every other node (operation / fragment definition, selection set, inline fragment, name, alias,
    argument, directive, value, variable definition ...) is [KOther]: the callback pushes the
    current multiplier and context for it and pops them when [Inspect] leaves it.

    [C] is the cost context ([context.Context]) handed from ancestor to descendant: opaque. *)
Section Model.
  Variable C : Type.

  (** schema.FieldCost *)
  Record fcost := { fc_r : Z; fc_m : Z; fc_ctx : option C }.

  Inductive kind :=
  | KField (cost : option (C -> option fcost)) (args_err : bool)
      (** a field with an entry in [typeInfo.FieldDefinitions].
          [cost = None]: [def.Cost == nil] (the default cost is used);
          [cost = Some f]: [def.Cost] applied to [FieldCostContext{Context: ctx, Arguments: args}] with
          the arguments already coerced ([f ctx = None]: the cost function panics);
          [args_err]: [CoerceArgumentValues] fails for this selection *)
  | KFieldNoDef (is_typename : bool)
      (** a field without an entry in [typeInfo.FieldDefinitions]; [is_typename]: its name is [__typename] *)
  | KSpread (name : bytes)
  | KOther.

  Inductive node := Node (k : kind) (kids : list node).

  Inductive err := ECoerceVars | ECoerceArgs | EUnknownField | ECycle | EUndefinedFragment.

  Inductive res (A : Type) := Ok (a : A) | Panic | OutOfFuel.
  Arguments Ok {A} a. Arguments Panic {A}. Arguments OutOfFuel {A}.

  (** the variables captured by the closure.  The two stacks have their top at the head
      ([multipliers[len(multipliers)-1]] is [hd]).  [st_path] is the map [fragments]. *)
  Record state := { st_cost : Z; st_mults : list Z; st_ctxs : list C; st_path : list bytes; st_errs : list err }.

  Definition add_err (st : state) (e : err) : state :=
    {| st_cost := st_cost st; st_mults := st_mults st; st_ctxs := st_ctxs st; st_path := st_path st;
       st_errs := st_errs st ++ [e] |}.
  Definition set_cost (st : state) (c : Z) : state :=
    {| st_cost := c; st_mults := st_mults st; st_ctxs := st_ctxs st; st_path := st_path st; st_errs := st_errs st |}.
  Definition set_path (st : state) (p : list bytes) : state :=
    {| st_cost := st_cost st; st_mults := st_mults st; st_ctxs := st_ctxs st; st_path := p; st_errs := st_errs st |}.
  Definition push (st : state) (m : Z) (c : C) : state :=
    {| st_cost := st_cost st; st_mults := m :: st_mults st; st_ctxs := c :: st_ctxs st; st_path := st_path st;
       st_errs := st_errs st |}.
  (** [multipliers = multipliers[:len(multipliers)-1]; ctxs = ctxs[:len(ctxs)-1]] — slicing an empty
      slice to [:-1] panics *)
  Definition pop (st : state) : res state :=
    match st_mults st, st_ctxs st with
    | _ :: ms, _ :: cs =>
        Ok {| st_cost := st_cost st; st_mults := ms; st_ctxs := cs; st_path := st_path st; st_errs := st_errs st |}
    | _, _ => Panic
    end.

  Definition mem_name (n : bytes) (l : list bytes) : bool := existsb (bytes_eqb n) l.
  Fixpoint del_name (n : bytes) (l : list bytes) : list bytes :=
    match l with
    | [] => []
    | x :: r => if bytes_eqb n x then del_name n r else x :: del_name n r
    end.

  (** [fragmentsByName]: filled in document order, a later definition replaces an earlier one *)
  Fixpoint lookup_last (frs : list (bytes * node)) (n : bytes) : option node :=
    match frs with
    | [] => None
    | (x, d) :: r =>
        match lookup_last r n with
        | Some d' => Some d'
        | None => if bytes_eqb x n then Some d else None
        end
    end.

  Definition is_nil {A} (l : list A) : bool := match l with [] => true | _ => false end.

  Section Visit.
    (** [skip_zero = true]: the current code, which adds nothing for a resolver cost of 0;
        [false]: the pinned tree before the repair (defect 18). *)
    Variable skip_zero : bool.
    Variable default_cost : fcost.
    Variable frs : list (bytes * node).

    (** [visitNode(node)] = [ast.Inspect(node, callback)].  The outer recursion (on [fuel]) is the
        recursive call [visitNode(def)] made by the callback for a fragment spread; the inner one is
        [Inspect]'s own descent.  [Inspect] calls [f(node)]; if it answers [true] it inspects the
        children and finally calls [f(nil)]; if it answers [false] neither happens. *)
    Fixpoint visit (fuel : nat) : node -> state -> res state :=
      fix inspect (n : node) (st : state) {struct n} : res state :=
        match n with
        | Node k kids =>
            (* multiplier := multipliers[len(multipliers)-1]; ctx := ctxs[len(ctxs)-1] *)
            match st_mults st, st_ctxs st with
            | multiplier :: _, ctx :: _ =>
                (* the switch: yields the state, newMultiplier and newCtx *)
                let after_switch : res (state * Z * C) :=
                  match k with
                  | KField cost args_err =>
                      if args_err then Ok (add_err st ECoerceArgs, multiplier, ctx)
                      else
                        match (match cost with None => Some default_cost | Some f => f ctx end) with
                        | None => Panic
                        | Some fc =>
                            let cost' :=
                              if skip_zero && (fc_r fc =? 0) then st_cost st
                              else checked_add (st_cost st) (checked_mul multiplier (fc_r fc)) in
                            let new_multiplier :=
                              if fc_m fc >? 1 then checked_mul multiplier (fc_m fc) else multiplier in
                            let new_ctx := match fc_ctx fc with Some c => c | None => ctx end in
                            Ok (set_cost st cost', new_multiplier, new_ctx)
                        end
                  | KFieldNoDef is_typename =>
                      if is_typename then Ok (st, multiplier, ctx)
                      else Ok (add_err st EUnknownField, multiplier, ctx)
                  | KSpread name =>
                      if mem_name name (st_path st) then Ok (add_err st ECycle, multiplier, ctx)
                      else
                        match lookup_last frs name with
                        | Some def =>
                            match fuel with
                            | O => OutOfFuel
                            | S fuel' =>
                                match visit fuel' def (set_path st (name :: st_path st)) with
                                | Ok st1 => Ok (set_path st1 (del_name name (st_path st1)), multiplier, ctx)
                                | Panic => Panic
                                | OutOfFuel => OutOfFuel
                                end
                            end
                        | None => Ok (add_err st EUndefinedFragment, multiplier, ctx)
                        end
                  | KOther => Ok (st, multiplier, ctx)
                  end in
                match after_switch with
                | Ok (st1, new_multiplier, new_ctx) =>
                    if negb (is_nil (st_errs st1)) then Ok st1          (* return false *)
                    else
                      let st2 := push st1 new_multiplier new_ctx in     (* return true *)
                      match (fix inspect_list (l : list node) (s : state) {struct l} : res state :=
                               match l with
                               | [] => Ok s
                               | x :: r => match inspect x s with
                                           | Ok s' => inspect_list r s'
                                           | Panic => Panic
                                           | OutOfFuel => OutOfFuel
                                           end
                               end) kids st2 with
                      | Ok st3 => pop st3                               (* f(nil) *)
                      | Panic => Panic
                      | OutOfFuel => OutOfFuel
                      end
                | Panic => Panic
                | OutOfFuel => OutOfFuel
                end
            | _, _ => Panic                                             (* index out of range *)
            end
        end.

    Definition visit_list (fuel : nat) : list node -> state -> res state :=
      fix go (l : list node) (s : state) {struct l} : res state :=
        match l with
        | [] => Ok s
        | x :: r => match visit fuel x s with
                    | Ok s' => go r s'
                    | Panic => Panic
                    | OutOfFuel => OutOfFuel
                    end
        end.
  End Visit.

  (** ** Choice of the operation (validate_cost.go:46-57).  [ops]: the operation definitions in
      document order with their optional names; [opname = []] is [operationName == ""]. *)
  Fixpoint select_op (ops : list (option bytes * node)) (opname : bytes) (op : option node) : option node :=
    match ops with
    | [] => op
    | (name, def) :: rest =>
        if is_nil opname || match name with Some n => bytes_eqb n opname | None => false end then
          match op with
          | Some _ => None                              (* op = nil; break *)
          | None => select_op rest opname (Some def)
          end
        else select_op rest opname op
    end.

  (** ** The rule *)
  Inductive outcome :=
  | Done (actual : Z) (cost_error : bool)     (** no error of the walk; [*actual] set; one primary error iff [cost_error] *)
  | Secondary (errs : list err)               (** only secondary errors; [*actual] untouched *)
  | RPanic
  | ROutOfFuel.

  (** [vars_err]: [CoerceVariableValues] fails for the chosen operation.
      In the visitor the test [coercedVariableValues != nil] is always true: the walk only starts when
      [ret] is empty and [op != nil], i.e. after a successful coercion, which returns a non-nil map. *)
  Definition validate_cost (skip_zero : bool) (fuel : nat) (default_cost : fcost) (ctx0 : C)
             (ops : list (option bytes * node)) (frs : list (bytes * node)) (opname : bytes)
             (vars_err : bool) (max : Z) : outcome :=
    let op := select_op ops opname None in
    let ret0 := match op with Some _ => if vars_err then [ECoerceVars] else [] | None => [] end in
    let st0 := {| st_cost := 0; st_mults := [1]; st_ctxs := [ctx0]; st_path := []; st_errs := ret0 |} in
    let walked :=
      match op with
      | Some def => if is_nil ret0 then visit skip_zero default_cost frs fuel def st0 else Ok st0
      | None => Ok st0
      end in
    match walked with
    | Ok st =>
        if is_nil (st_errs st) then
          let cost := st_cost st in
          let actual := if cost <? 0 then MaxInt else cost in
          let cost_error := (max >=? 0) && ((cost <? 0) || (cost >? max)) in
          Done actual cost_error
        else Secondary (st_errs st)
    | Panic => RPanic
    | OutOfFuel => ROutOfFuel
    end.

  (** the verdict of the rule: no error at all *)
  Definition accepted (o : outcome) : bool :=
    match o with Done _ false => true | _ => false end.
End Model.

Arguments Ok {A} a. Arguments Panic {A}. Arguments OutOfFuel {A}.
Arguments Node {C} k kids.
Arguments KField {C} cost args_err. Arguments KFieldNoDef {C} is_typename.
Arguments KSpread {C} name. Arguments KOther {C}.
Arguments Build_fcost {C}. Arguments fc_r {C}. Arguments fc_m {C}. Arguments fc_ctx {C}.

(** ** Connections with their default costs (pagination.go)

    A [context.Context] seen through the one key the library reads ([maxEdgeCountContextKey]); [U] is
    whatever else the application keeps in it. *)
Record kctx (U : Type) := { k_user : U; k_max_edge : option Z }.
Arguments Build_kctx {U}. Arguments k_user {U}. Arguments k_max_edge {U}.

(** a coerced argument as a cost function or resolver sees it in [Arguments]: missing from the map,
    present as nil, or an [int] *)
Inductive argval := AAbsent | ANull | AInt (z : Z).

Section Connection.
  Variable U : Type.

  (** func defaultConnectionCost(ctx graphql.FieldCostContext) graphql.FieldCost *)
  Definition default_connection_cost (first last : argval) (ctx : kctx U) : fcost (kctx U) :=
    let max_count := match first with AInt n => n | _ => 0 end in          (* maxCount, _ := Arguments["first"].(int) *)
    let max_count := match last with AInt n => n | _ => max_count end in   (* if last, ok := ...; ok { maxCount = last } *)
    {| fc_r := 1; fc_m := 0;
       fc_ctx := Some {| k_user := k_user ctx; k_max_edge := Some max_count |} |}.

  (** the [Cost] of the [edges] field: [Multiplier: ctx.Context.Value(maxEdgeCountContextKey).(int)]
      — the type assertion panics when no ancestor stored the key *)
  Definition edges_cost (ctx : kctx U) : option (fcost (kctx U)) :=
    match k_max_edge ctx with
    | Some n => Some {| fc_r := 0; fc_m := n; fc_ctx := None |}
    | None => None
    end.

  (** How many edges the [Connection] resolver returns when [n] edges lie between the cursors:
      the argument checks at the head of [ret.Resolve] ([None]: the resolver fails, the field is null)
      and the two truncations of [pagination.EdgesToReturn]. *)
  Definition connection_edge_count (first last : argval) (n : Z) : option Z :=
    let truncate :=
      let n1 := match first with AInt f => if n >? f then f else n | _ => n end in
      match last with AInt l => if n1 >? l then l else n1 | _ => n1 end in
    match first with
    | AInt f =>
        if f <? 0 then None
        else match last with AInt _ => None | _ => Some truncate end
    | _ =>
        match last with
        | AInt l => if l <? 0 then None else Some truncate
        | _ => None
        end
    end.
End Connection.
Arguments default_connection_cost {U}. Arguments edges_cost {U}.
