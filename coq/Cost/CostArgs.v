(** * Cost/CostArgs.v — C14, round 3: the arguments a cost function sees.

    validate_cost.go:66-73,96-107:

      coercedVariableValues, err := CoerceVariableValues(s, features, op, variableValues)   (once, for the chosen op)
      ...
      case *ast.Field:
        if def, ok := typeInfo.FieldDefinitions[selection]; ok && coercedVariableValues != nil {
          if args, err := CoerceArgumentValues(selection, def.Arguments, selection.Arguments, coercedVariableValues); err != nil {
            ret = append(ret, newSecondaryError(...))
          } else {
            costContext := schema.FieldCostContext{Context: ctx, Arguments: args}
            fieldCost := defaultCost
            if def.Cost != nil { fieldCost = def.Cost(costContext) }

    [CostModel.v] abstracts a field selection to [KField cost args_err] with the arguments "already
    coerced".  Here the abstraction is opened: a field selection carries the definition's argument
    definitions, the selection's argument literals and the definition's cost function of (context,
    argument map); [compile] runs the transcription of [CoerceArgumentValues] that C05 owns
    ([Val/CoerceModel.v], [coerce_argument_values], with [coerce_variable_values] for the chosen
    operation) and produces the [node] that [CostModel.visit] walks.  [validate_cost_request] is the
    rule on a request: document + raw variable values.

    No proofs in this file. *)
From Coq Require Import List ZArith Bool.
From ApiFu Require Import Base.Sexp.
From ApiFu Require Val.Values Val.CoerceModel.
From ApiFu Require Import Cost.CostModel Cost.CostSpec.
Import ListNotations.
Open Scope Z_scope.

(** [FieldCostContext.Arguments]: map[string]interface{} as a sorted association list of Go values *)
Definition amap := list (Values.name * Values.gval).

Section Args.
  Variable C : Type.
  (** the schema's input types, and time.Time.UnmarshalText (see Val/CoerceModel.v) *)
  Variable E : Values.env.
  Variable dt : bytes -> option bytes.

  (** a field selection with an entry in [typeInfo.FieldDefinitions] *)
  Record afield := {
    af_name : bytes;                                        (* "Type.field": which definition (only a label) *)
    af_argdefs : list (Values.name * Values.in_def);        (* def.Arguments *)
    af_args : list (Values.name * Values.lit);              (* selection.Arguments *)
    af_cost : option (C -> amap -> option (fcost C))        (* def.Cost; [None]: nil; result [None]: it panics *)
  }.

  Inductive akind :=
  | AField (f : afield)
  | ANoDef (is_typename : bool)
  | ASpread (name : bytes)
  | AOther.

  Inductive anode := ANode (k : akind) (kids : list anode).

  (** a Go panic inside the callback (here: inside CoerceArgumentValues) *)
  Definition panicking : C -> option (fcost C) := fun _ => None.

  (** the [*ast.Field] case up to the call of the cost function.  Arguments are coerced before
      [def.Cost != nil] is looked at. *)
  Definition compile_field (vv : CoerceModel.cvars) (f : afield) : kind C :=
    match CoerceModel.coerce_argument_values CoerceModel.all_fixed E dt (af_argdefs f) (af_args f) vv with
    | Values.Ok m =>
        KField (match af_cost f with Some g => Some (fun ctx => g ctx m) | None => None end) false
    | Values.Err => KField None true
    | Values.Panic => KField (Some panicking) false
    end.

  Fixpoint compile (vv : CoerceModel.cvars) (n : anode) : node C :=
    match n with
    | ANode k kids =>
        Node (match k with
              | AField f => compile_field vv f
              | ANoDef b => KFieldNoDef b
              | ASpread s => KSpread s
              | AOther => KOther
              end)
             (map (compile vv) kids)
    end.

  (** an operation definition: name, variable definitions, the node itself *)
  Record aop := { ao_name : option bytes; ao_vardefs : list Values.vardef; ao_body : anode }.

  (** the variable definitions of the operation the loop of validate_cost.go:46-57 settles on
      ([CostProofs.select_op_spec]: that loop is GetOperation) *)
  Definition chosen_vardefs (ops : list aop) (opname : bytes) : option (list Values.vardef) :=
    match filter (fun o => op_matches opname (ao_name o)) ops with
    | [o] => Some (ao_vardefs o)
    | _ => None
    end.

  (** [CoerceVariableValues] for the chosen operation; nothing is coerced when no operation is chosen *)
  Definition request_variables (ops : list aop) (opname : bytes) (raw : list (Values.name * Values.jval))
    : Values.res CoerceModel.cvars :=
    match chosen_vardefs ops opname with
    | Some defs => CoerceModel.coerce_variable_values CoerceModel.all_fixed E dt defs raw
    | None => Values.Ok []
    end.

  (** validator.ValidateCost(operationName, variableValues, max, &actual, defaultCost) on a document *)
  Definition validate_cost_request (skip_zero : bool) (fuel : nat) (default_cost : fcost C) (ctx0 : C)
             (ops : list aop) (frs : list (bytes * anode)) (opname : bytes)
             (raw : list (Values.name * Values.jval)) (max : Z) : outcome :=
    match request_variables ops opname raw with
    | Values.Panic => RPanic
    | Values.Err =>
        validate_cost C skip_zero fuel default_cost ctx0
          (map (fun o => (ao_name o, compile [] (ao_body o))) ops)
          (map (fun p => (fst p, compile [] (snd p))) frs) opname true max
    | Values.Ok vv =>
        validate_cost C skip_zero fuel default_cost ctx0
          (map (fun o => (ao_name o, compile vv (ao_body o))) ops)
          (map (fun p => (fst p, compile vv (snd p))) frs) opname false max
    end.

  (** the field selections of a document *)
  Inductive field_in : anode -> afield -> Prop :=
  | FI_here : forall f kids, field_in (ANode (AField f) kids) f
  | FI_kid : forall k kids n f, In n kids -> field_in n f -> field_in (ANode k kids) f.

  Definition field_of_request (ops : list aop) (frs : list (bytes * anode)) (f : afield) : Prop :=
    (exists o, In o ops /\ field_in (ao_body o) f) \/ (exists p, In p frs /\ field_in (snd p) f).
End Args.

Arguments af_name {C}. Arguments af_argdefs {C}. Arguments af_args {C}. Arguments af_cost {C}.
Arguments Build_afield {C}.
Arguments AField {C} f. Arguments ANoDef {C} is_typename. Arguments ASpread {C} name. Arguments AOther {C}.
Arguments ANode {C} k kids.
Arguments ao_name {C}. Arguments ao_vardefs {C}. Arguments ao_body {C}. Arguments Build_aop {C}.
