(** * Cost/CostC04Proj.v — C14 round 6: the cost rule behind C04's WHOLE ValidateDocument model, field
    selection by field selection, with C05's complete bridge (C05_C04_accepts_implies_static_ok_r: every
    environment, DateTime / LongInt through SRefined, no leaf hypothesis).

    The single-field PROJECTION of a request at a field selection [f]: the operation that declares
    exactly the variables [f]'s argument literals mention ([used_defs]) and selects [f] alone — C05's
    [tr_request_doc] over [tr_request_schema_r].  Premise: C04's ValidateDocument model
    ([validate_model_memo repaired], all eight rule groups, NewTypeInfo, the filter) accepts every
    projection.  Conclusion: every call a cost function receives during the walk of the WHOLE
    multi-field request is conforming and reference-coerced.

    The pieces: C05's bridge gives [static_ok] of the projection; [static_ok]'s variable-usage
    conjunct over the used variables is the one over all variables of the operation
    ([usage_ok_filter]: only the variables a literal mentions are looked up); uniqueness facts and
    [lit_nodup] come from the other conjuncts. *)
From Coq Require Import List NArith ZArith Bool.
From ApiFu Require Import Base.Sexp Val.Values Val.MapFacts Val.CoerceModel Val.CoerceSpec Val.CoerceProofs Val.CoerceRefine
     Val.CoerceComplete Val.BridgeC04 Val.BridgeC04Proofs Val.BridgeC04Doc Val.BridgeC04Full.
From ApiFu Require Cost.CostModel.
From ApiFu Require Import Cost.CostArgs Cost.CostArgsProofs Cost.CostTrace Cost.CostTraceProofs Cost.CostC04 Cost.CostProj.
Import ListNotations.

(** ** only the variables a literal mentions matter to [usage_ok] *)
Lemma find_filter {A} (f p : A -> bool) (l : list A) :
  (forall x, f x = true -> p x = true) -> find f (filter p l) = find f l.
Proof.
  intro H. induction l as [|x r IH]; [reflexivity|]. cbn [filter find].
  destruct (f x) eqn:Fx.
  - rewrite (H x Fx). cbn [find]. rewrite Fx. reflexivity.
  - destruct (p x); [cbn [find]; rewrite Fx|]; exact IH.
Qed.

Section Filter.
  Variable E : env.
  Variable defs : list vardef.
  Variable p : vardef -> bool.

  Lemma usage_ok_filter : forall l e ld,
    (forall n, In n (lit_vars l) -> forall d, bytes_eqb n (vd_name d) = true -> p d = true) ->
    usage_ok all_fixed E (filter p defs) l e ld = usage_ok all_fixed E defs l e ld.
  Proof.
    induction l as [n|z|m k|s|b| |n|vs IHl|fs IHf] using lit_ind'; intros e ld Hp; try reflexivity.
    - cbn [usage_ok]. unfold find_def. rewrite find_filter; [reflexivity|].
      intros d Hd. apply (Hp n); [left; reflexivity|exact Hd].
    - cbn [usage_ok]. apply forallb_ext_in. intros x Hx. rewrite Forall_forall in IHl.
      apply IHl; [exact Hx|]. intros n Hn. apply Hp. cbn [lit_vars]. apply in_flat_map. exists x. split; assumption.
    - cbn [usage_ok]. apply forallb_ext_in. intros [k x] Hx. rewrite Forall_forall in IHf. cbn [fst snd].
      assert (Hsub : forall n, In n (lit_vars x) -> forall d, bytes_eqb n (vd_name d) = true -> p d = true).
      { intros n Hn. apply Hp. cbn [lit_vars]. apply in_flat_map. exists (k, x). split; assumption. }
      destruct (match e with
                | Some t => match leaf_type t with
                            | StNamed n0 => match aget n0 E with Some (TInput fields _) => fields | _ => [] end
                            | _ => []
                            end
                | None => []
                end) as [|fd0 fr] eqn:Ef; cbn [fix_item_object all_fixed] in *; rewrite Ef.
      + cbn [aget]. apply (IHf (k, x) Hx None false Hsub).
      + destruct (aget k (fd0 :: fr)) as [fd|]; [apply (IHf (k, x) Hx _ _ Hsub)|apply (IHf (k, x) Hx None false Hsub)].
  Qed.
End Filter.

(** ** the projection *)
Section Projection.
  Variable C : Type.
  Variable E : env.
  Variable dt : bytes -> option bytes.

  Hypothesis Hq : ahas n_Query E = false.
  Hypothesis Hr : ahas n_Res E = false.
  Hypothesis HC : env_closed E = true.

  Lemma mentions_spec (f : afield C) a l n d :
    In (a, l) (af_args f) -> In n (lit_vars l) -> bytes_eqb n (vd_name d) = true -> mentions C f d = true.
  Proof.
    intros Hin Hn Hd. unfold mentions. apply existsb_exists. exists (a, l). split; [exact Hin|].
    cbn [snd]. apply existsb_exists. exists n. split; [exact Hn|].
    apply bytes_eqb_eq in Hd. subst n. apply bytes_eqb_refl.
  Qed.

  Theorem projection_facts (defs : list vardef) (f : afield C) :
    (forall ad, In ad (af_argdefs f) -> sty_closed E (in_type (snd ad)) = true) ->
    (forall def, In def defs -> leaf_name (vd_type def) <> n_Res) ->
    projection_accepted C E dt defs f = true ->
    dup_names (map fst (af_args f)) = false /\
    (forall a l, In (a, l) (af_args f) -> lit_nodup l = true) /\
    field_usage_ok C E defs f = true.
  Proof.
    intros Hac Hres Acc.
    assert (St : static_ok all_fixed E dt true (af_argdefs f) (used_defs C defs f) (af_args f) = true).
    { apply (accepts_implies_static_ok_final E dt true [102; 108; 116]%N (af_argdefs f) (used_defs C defs f) (af_args f) Hq Hr HC Hac).
      - intros def Hd. apply Hres. unfold used_defs in Hd. apply filter_In in Hd as [Hd _]. exact Hd.
      - left. reflexivity.
      - exact Acc. }
    destruct (static_ok_facts E dt all_fixed true _ _ _ St) as (Da & Hn & _).
    split; [exact Da|]. split; [exact Hn|].
    rewrite static_ok_split in St. repeat (apply andb_true_iff in St as [St ?]).
    match goal with U : forallb (fun a => match aget (fst a) (af_argdefs f) with Some d => usage_ok _ _ _ _ _ _ | None => false end) (af_args f) = true |- _ =>
      rename U into Us end.
    unfold field_usage_ok. apply forallb_forall. intros [a l] Hin.
    rewrite forallb_forall in Us. specialize (Us _ Hin). cbn [fst snd] in Us |- *.
    destruct (aget a (af_argdefs f)) as [d|]; [|discriminate].
    rewrite <- (usage_ok_filter E defs (mentions C f) l (Some (in_type d)) (arg_loc_default true d)); [exact Us|].
    intros n Hn' d0 Hd0. eapply mentions_spec; eassumption.
  Qed.
End Projection.

(** ** every call of the walk of the whole request *)
Section Calls.
  Variable C : Type.
  Variable E : env.
  Variable dt : bytes -> option bytes.
  Variable ops : list (aop C).
  Variable frs : list (bytes * anode C).
  Variable opname : bytes.
  Variable raw : list (name * jval).
  Variable o : aop C.

  Theorem projections_cost_calls skip_zero fuel dc ctx0 max :
    ahas n_Query E = false -> ahas n_Res E = false ->
    env_closed E = true -> env_ok E = true ->
    chosen_op C ops opname = Some o ->
    (* C04's ValidateDocument model accepts the single-field projection at every field selection *)
    (forall f, in_request C o frs f -> projection_accepted C E dt (ao_vardefs o) f = true) ->
    (* ... and validateCoercion the variable defaults (every one, used by an argument or not) *)
    (forall def dflt, In def (ao_vardefs o) -> vd_default def = Some dflt ->
                      sty_closed E (vd_type def) = true /\ c04_accepts_r dt E dflt (vd_type def) true = true) ->
    (* what C04's vardefs_loop reports otherwise *)
    has_dup (map vd_name (ao_vardefs o)) = false ->
    (forall def, In def (ao_vardefs o) -> leaf_name (vd_type def) <> n_Res) ->
    (* the schema: closed argument types, argument definitions named once, defaults of their types *)
    (forall f, in_request C o frs f ->
               (forall ad, In ad (af_argdefs f) -> sty_closed E (in_type (snd ad)) = true) /\
               has_dup (map fst (af_argdefs f)) = false /\
               forall ad, In ad (af_argdefs f) -> default_ok E (snd ad) = true) ->
    (* the parser; Go *)
    (forall def dflt, In def (ao_vardefs o) -> vd_default def = Some dflt -> lit_vars dflt = []) ->
    (forall p, In p raw -> jval_ok (snd p) = true) ->
    forall c, In c (snd (validate_cost_trace C E dt skip_zero fuel dc ctx0 ops frs opname raw max)) ->
      args_conform_b E (af_argdefs (c_field c)) (c_args c) = true /\
      exists vv,
        ref_variable_values E dt (ao_vardefs o) raw = Some vv /\
        ref_argument_values E dt (af_argdefs (c_field c))
          (map (fun p => match p with (k, l) => (k, abs_lit vv l) end) (af_args (c_field c))) = Some (c_args c).
  Proof.
    intros Hq Hr HC HE Ho Hproj Hdefs Hnd Hres Hschema Hclosed Hraw c Hin.
    assert (Hf : forall f, in_request C o frs f ->
                 dup_names (map fst (af_args f)) = false /\
                 (forall a l, In (a, l) (af_args f) -> lit_nodup l = true) /\
                 field_usage_ok C E (ao_vardefs o) f = true).
    { intros f Hfr. destruct (Hschema f Hfr) as (Hac & _).
      apply (projection_facts C E dt Hq Hr HC (ao_vardefs o) f Hac Hres (Hproj f Hfr)). }
    split.
    - apply (trace_calls_conform C E dt skip_zero fuel dc ctx0 ops frs opname raw max o Ho HE Hnd); [| |exact Hin].
      + split; [exact Hclosed|exact Hraw].
      + intros f Hfr. destruct (Hschema f Hfr) as (_ & H1 & H2). destruct (Hf f Hfr) as (_ & _ & H3).
        split; [exact H1|]. split; [exact H2|exact H3].
    - apply (trace_calls_reference C E dt skip_zero fuel dc ctx0 ops frs opname raw max o Ho HE Hraw); [| |exact Hin].
      + intros def dflt Hd Hdf. destruct (Hdefs def dflt Hd Hdf) as (Hcl & Hacc).
        rewrite (bridge_closed_final E dt HC dflt (vd_type def) true Hcl) in Hacc.
        eapply validate_nodup; exact Hacc.
      + intros f Hfr. destruct (Hf f Hfr) as (H1 & H2 & _). split; assumption.
  Qed.
End Calls.
