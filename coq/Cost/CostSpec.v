(** * Cost/CostSpec.v — what C14 demands, written from the property statement.

    "The cost computed for an operation equals the sum, over every field selection reached by
     expanding fragments from the chosen operation, of that field's resolver cost times the
     product of the multipliers declared by its ancestor fields, using the configured default for
     fields without a cost function, the request's coerced variables for arguments and cost
     contexts handed from ancestor to descendant.  When a limit is given the document is accepted
     exactly when this sum does not exceed the limit; a sum too large to represent is reported as
     the maximum value and rejected under every limit."

    Everything here is in unbounded [Z]: no wrap, no marker. *)
From Coq Require Import List ZArith Bool.
From ApiFu Require Import Base.Sexp Cost.CostModel.
Import ListNotations.
Open Scope Z_scope.

(** ** The abstract cost tree: the fragment-expanded selection tree of the chosen operation, each
    field selection carrying the resolver cost [r] and the multiplier [m] its cost function
    returned. *)
Inductive etree := ENode (r m : Z) (kids : list etree).

(** schema.FieldCost.Multiplier: "a multiplier applied to all sub-selections of the current field
    ... Defaults to 1 if not set" — the zero value means "not set". *)
Definition eff (m : Z) : Z := if m =? 0 then 1 else m.

Definition prod (l : list Z) : Z := fold_right Z.mul 1 l.
Definition sum (l : list Z) : Z := fold_right Z.add 0 l.

(** every field selection with the multipliers of its ancestors (innermost first) *)
Fixpoint occurrences (ancestors : list Z) (t : etree) : list (Z * list Z) :=
  match t with
  | ENode r m kids => (r, ancestors) :: flat_map (occurrences (eff m :: ancestors)) kids
  end.

(** the reference cost: Σ resolver cost × Π ancestors' multipliers *)
Definition RefCost (ts : list etree) : Z :=
  sum (map (fun o => fst o * prod (snd o)) (flat_map (occurrences []) ts)).

(** the same number computed top-down (used by the proofs and as a cross-check in the oracle) *)
Fixpoint horner (t : etree) : Z :=
  match t with
  | ENode r m kids => r + eff m * sum (map horner kids)
  end.

(** costs as the property quantifies them: resolver cost and multiplier are non-negative machine
    integers *)
Fixpoint costs_ok (t : etree) : bool :=
  match t with
  | ENode r m kids => (0 <=? r) && (r <=? MaxInt) && (0 <=? m) && (m <=? MaxInt) && forallb costs_ok kids
  end.

(** ** Expansion of a document into its cost tree *)
Section Expand.
  Variable C : Type.
  (** the configured default cost, for fields without a cost function *)
  Variable default_cost : fcost C.
  (** the named fragment definitions of the document *)
  Variable frs : list (bytes * node C).

  Fixpoint find_fragment (l : list (bytes * node C)) (n : bytes) : option (node C) :=
    match l with
    | [] => None
    | (x, d) :: r => if bytes_eqb x n then Some d else find_fragment r n
    end.

  Definition field_cost (cost : option (C -> option (fcost C))) (ctx : C) : option (fcost C) :=
    match cost with None => Some default_cost | Some f => f ctx end.

  (** "cost contexts handed from ancestor to descendant": a field may replace the context for its
      sub-selections *)
  Definition next_ctx (fc : fcost C) (ctx : C) : C :=
    match fc_ctx fc with Some c => c | None => ctx end.

  (** [Expand path ctx n ts]: under cost context [ctx], the part of the document below node [n]
      contributes the field selections [ts].  [path] lists the fragments being expanded: a fragment
      is never expanded inside itself (GraphQL: "fragment spreads must not form cycles"), so a
      derivation exists only for finite expansions.  There is no rule for a field the schema does
      not define, for a selection whose arguments cannot be coerced, for a spread of an undefined
      fragment, or when a cost function fails: such documents are not "validated documents". *)
  Inductive Expand : list bytes -> C -> node C -> list etree -> Prop :=
  | X_other : forall path ctx kids ts,
      ExpandL path ctx kids ts ->
      Expand path ctx (Node KOther kids) ts
  | X_typename : forall path ctx kids ts,
      (** [__typename] has no definition and no resolver: a field selection that costs nothing *)
      ExpandL path ctx kids ts ->
      Expand path ctx (Node (KFieldNoDef true) kids) [ENode 0 0 ts]
  | X_field : forall path ctx cost fc kids ts,
      field_cost cost ctx = Some fc ->
      ExpandL path (next_ctx fc ctx) kids ts ->
      Expand path ctx (Node (KField cost false) kids) [ENode (fc_r fc) (fc_m fc) ts]
  | X_spread : forall path ctx name kids def ts ts',
      ~ In name path ->
      find_fragment frs name = Some def ->
      Expand (name :: path) ctx def ts ->
      ExpandL path ctx kids ts' ->
      Expand path ctx (Node (KSpread name) kids) (ts ++ ts')
  with ExpandL : list bytes -> C -> list (node C) -> list etree -> Prop :=
  | XL_nil : forall path ctx, ExpandL path ctx [] []
  | XL_cons : forall path ctx n l ts ts',
      Expand path ctx n ts -> ExpandL path ctx l ts' -> ExpandL path ctx (n :: l) (ts ++ ts').

  (** the same, executable (this is what the oracle runs).  [fuel] bounds the nesting of fragment
      expansions; it is never exhausted when it exceeds the number of fragment definitions. *)
  Definition mem_path (n : bytes) (path : list bytes) : bool := existsb (bytes_eqb n) path.

  Fixpoint expand (fuel : nat) : list bytes -> C -> node C -> option (list etree) :=
    fix go (path : list bytes) (ctx : C) (n : node C) {struct n} : option (list etree) :=
      match n with
      | Node k kids =>
          let go_list (p : list bytes) (c : C) :=
            (fix gol (l : list (node C)) : option (list etree) :=
               match l with
               | [] => Some []
               | x :: r => match go p c x, gol r with
                           | Some a, Some b => Some (a ++ b)
                           | _, _ => None
                           end
               end) kids in
          match k with
          | KOther => go_list path ctx
          | KFieldNoDef true => match go_list path ctx with Some ts => Some [ENode 0 0 ts] | None => None end
          | KFieldNoDef false => None
          | KField cost true => None
          | KField cost false =>
              match field_cost cost ctx with
              | Some fc => match go_list path (next_ctx fc ctx) with
                           | Some ts => Some [ENode (fc_r fc) (fc_m fc) ts]
                           | None => None
                           end
              | None => None
              end
          | KSpread name =>
              if mem_path name path then None
              else match find_fragment frs name, fuel with
                   | Some def, S fuel' =>
                       match expand fuel' (name :: path) ctx def, go_list path ctx with
                       | Some ts, Some ts' => Some (ts ++ ts')
                       | _, _ => None
                       end
                   | _, _ => None
                   end
          end
      end.
End Expand.
Arguments Expand {C}. Arguments ExpandL {C}. Arguments expand {C}. Arguments find_fragment {C}.
Arguments field_cost {C}. Arguments next_ctx {C}.

(** ** The chosen operation (GraphQL GetOperation): the only operation when no name is given, the
    operation with that name otherwise; nothing is executed (cost 0) when there is no such unique
    operation. *)
Definition op_matches (opname : bytes) (name : option bytes) : bool :=
  match opname with
  | [] => true
  | _ => match name with Some n => bytes_eqb n opname | None => false end
  end.

Definition get_operation {C} (ops : list (option bytes * node C)) (opname : bytes) : option (node C) :=
  match filter (fun o => op_matches opname (fst o)) ops with
  | [o] => Some (snd o)
  | _ => None
  end.

(** the verdict the property demands for a limit [max] ([-1]: no limit) *)
Definition accept_ref (ref max : Z) : bool := (max =? -1) || (ref <=? max).
Definition actual_ref (ref : Z) : Z := Z.min ref MaxInt.

(** ** The request's coerced variables, and arguments (Int only — what the harness' cost functions
    read).  GraphQL CoerceVariableValues / CoerceArgumentValues. *)
Inductive vval := VNull | VInt (z : Z).
Record vardef := { vd_name : bytes; vd_nonnull : bool; vd_default : option vval }.

Fixpoint lookup_var {A} (l : list (bytes * A)) (n : bytes) : option A :=
  match l with
  | [] => None
  | (x, v) :: r => if bytes_eqb x n then Some v else lookup_var r n
  end.

(** [None]: a request error *)
Fixpoint coerce_vars (defs : list vardef) (given : list (bytes * vval)) : option (list (bytes * vval)) :=
  match defs with
  | [] => Some []
  | d :: rest =>
      match coerce_vars rest given with
      | None => None
      | Some tl =>
          match lookup_var given (vd_name d), vd_default d with
          | None, Some dv => Some ((vd_name d, dv) :: tl)
          | None, None => if vd_nonnull d then None else Some tl
          | Some VNull, _ => if vd_nonnull d then None else Some ((vd_name d, VNull) :: tl)
          | Some (VInt z), _ => Some ((vd_name d, VInt z) :: tl)
          end
      end
  end.

(** how an argument is written in the document *)
Inductive argsrc := SAbsent | SNull | SLit (z : Z) | SVar (name : bytes).

Definition argval_of (v : option vval) : argval :=
  match v with None => AAbsent | Some VNull => ANull | Some (VInt z) => AInt z end.

Definition resolve_arg (coerced : list (bytes * vval)) (default : option vval) (src : argsrc) : argval :=
  match src with
  | SAbsent => argval_of default
  | SNull => ANull
  | SLit z => AInt z
  | SVar v => match lookup_var coerced v with
              | Some x => argval_of (Some x)
              | None => argval_of default
              end
  end.
