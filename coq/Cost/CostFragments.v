(** * Cost/CostFragments.v — C14 round 3: what a fragment spread contributes.

    - [fragment_cost_local]: walking a fragment body changes the closure's variables in exactly one
      place, the running cost, and by an amount that is a function of (body, product of the
      enclosing multipliers, cost context) — not of the stacks beneath the top, not of the cost
      so far, not of where else the fragment was spread before;
    - [expand_path_irrelevant]: the cost forest of a body does not depend on the set of fragments
      being expanded around it either (whenever it is defined at all);
    - [spread_sites_agree]: hence two spreads of one fragment under the same context contribute
      p1 * k and p2 * k for one and the same k;
    - [fragment_cost_depends_on_context] / [..._on_multiplier]: and the two parameters matter — a
      cache keyed by the fragment name alone is wrong (witnesses);
    - [expand_complete]: the oracle's fuelled [expand] finds the expansion whenever there is one,
      with fuel > number of fragment definitions (so the oracle never skips a valid document). *)
From Coq Require Import List ZArith Bool Lia.
From ApiFu Require Import Base.Sexp Cost.CostModel Cost.CostSpec Cost.CostProofs.
Import ListNotations.
Open Scope Z_scope.

Section Local.
  Variable C : Type.
  Variable dc : fcost C.
  Variable frs : list (bytes * node C).
  Hypothesis frs_nodup : NoDup (map fst frs).

  Theorem fragment_cost_local : forall path ctx body ts,
    Expand dc frs path ctx body ts -> forallb costs_ok ts = true ->
    forall fuel c p mrest crest,
      0 <= c -> 1 <= p ->
      NoDup path -> incl path (map fst frs) -> (length frs < fuel + length path)%nat ->
      visit C true dc frs fuel body (st_of C c p mrest ctx crest path)
      = Ok (st_of C (c + p * RefCost ts) p mrest ctx crest path).
  Proof.
    intros path ctx body ts Hexp Hok fuel c p mrest crest Hc Hp Hnd Hincl Hfuel.
    rewrite RefCost_horner.
    apply (proj1 (visit_sound C dc frs frs_nodup) path ctx body ts Hexp fuel c p mrest crest).
    repeat split; assumption.
  Qed.

  Lemma expand_path_irrelevant_gen :
    (forall path ctx n ts, Expand dc frs path ctx n ts ->
       forall path' ts', Expand dc frs path' ctx n ts' -> ts = ts') /\
    (forall path ctx l ts, ExpandL dc frs path ctx l ts ->
       forall path' ts', ExpandL dc frs path' ctx l ts' -> ts = ts').
  Proof.
    apply Expand_mutind.
    - intros path ctx kids ts _ IH path' ts' H. inversion H; subst. eapply IH; eassumption.
    - intros path ctx kids ts _ IH path' ts' H. inversion H; subst. f_equal. f_equal. eapply IH; eassumption.
    - intros path ctx cost fc kids ts Hfc _ IH path' ts' H. inversion H as [| |? ? ? fc' ? ts0 Hfc' Hk|]; subst.
      rewrite Hfc in Hfc'. inversion Hfc'; subst fc'. f_equal. f_equal. eapply IH; eassumption.
    - intros path ctx name kids def ts ts2 Hnotin Hfind _ IHd _ IHk path' ts' H.
      inversion H as [| | |? ? ? ? def' tsa tsb Hn' Hfind' Hd' Hk']; subst.
      rewrite Hfind in Hfind'. inversion Hfind'; subst def'.
      f_equal; [eapply IHd|eapply IHk]; eassumption.
    - intros path ctx path' ts' H. inversion H; subst. reflexivity.
    - intros path ctx n l ts ts2 _ IHn _ IHl path' ts' H. inversion H; subst.
      f_equal; [eapply IHn|eapply IHl]; eassumption.
  Qed.

  Theorem expand_path_irrelevant : forall path path' ctx n ts ts',
    Expand dc frs path ctx n ts -> Expand dc frs path' ctx n ts' -> ts = ts'.
  Proof. intros path path' ctx n ts ts' H H'. exact (proj1 expand_path_irrelevant_gen path ctx n ts H path' ts' H'). Qed.

  (** two spread sites of one fragment, anywhere in the document, under the same cost context:
      arbitrary cost so far, arbitrary stacks, arbitrary enclosing fragments — the increments are
      p1 * k and p2 * k with the same k = RefCost of the body's forest *)
  Theorem spread_sites_agree : forall ctx body path1 path2 ts1 ts2,
    Expand dc frs path1 ctx body ts1 -> Expand dc frs path2 ctx body ts2 ->
    forallb costs_ok ts1 = true ->
    ts1 = ts2 /\
    forall fuel1 fuel2 c1 c2 p1 p2 mrest1 mrest2 crest1 crest2,
      0 <= c1 -> 0 <= c2 -> 1 <= p1 -> 1 <= p2 ->
      NoDup path1 -> incl path1 (map fst frs) -> (length frs < fuel1 + length path1)%nat ->
      NoDup path2 -> incl path2 (map fst frs) -> (length frs < fuel2 + length path2)%nat ->
      visit C true dc frs fuel1 body (st_of C c1 p1 mrest1 ctx crest1 path1)
      = Ok (st_of C (c1 + p1 * RefCost ts1) p1 mrest1 ctx crest1 path1) /\
      visit C true dc frs fuel2 body (st_of C c2 p2 mrest2 ctx crest2 path2)
      = Ok (st_of C (c2 + p2 * RefCost ts1) p2 mrest2 ctx crest2 path2).
  Proof.
    intros ctx body path1 path2 ts1 ts2 H1 H2 Hok.
    assert (E : ts1 = ts2) by (eapply expand_path_irrelevant; eassumption).
    split; [exact E|]. subst ts2.
    intros. split; apply fragment_cost_local; assumption.
  Qed.

  (** the oracle's executable expansion is complete *)
  Lemma expand_complete_gen :
    (forall path ctx n ts, Expand dc frs path ctx n ts ->
       forall fuel, NoDup path -> incl path (map fst frs) -> (length frs < fuel + length path)%nat ->
                    expand dc frs fuel path ctx n = Some ts) /\
    (forall path ctx l ts, ExpandL dc frs path ctx l ts ->
       forall fuel, NoDup path -> incl path (map fst frs) -> (length frs < fuel + length path)%nat ->
                    expand_list C dc frs fuel path ctx l = Some ts).
  Proof.
    apply Expand_mutind.
    - intros path ctx kids ts _ IH fuel Hnd Hincl Hf. rewrite expand_eq. apply IH; assumption.
    - intros path ctx kids ts _ IH fuel Hnd Hincl Hf. rewrite expand_eq. rewrite (IH fuel) by assumption. reflexivity.
    - intros path ctx cost fc kids ts Hfc _ IH fuel Hnd Hincl Hf. rewrite expand_eq, Hfc.
      rewrite (IH fuel) by assumption. reflexivity.
    - intros path ctx name kids def ts ts2 Hnotin Hfind _ IHd _ IHk fuel Hnd Hincl Hf.
      rewrite expand_eq.
      assert (Hmem : mem_path name path = false) by (apply mem_name_false; exact Hnotin).
      rewrite Hmem, Hfind.
      assert (Hnd' : NoDup (name :: path)) by (constructor; assumption).
      assert (Hincl' : incl (name :: path) (map fst frs)).
      { intros x [Hx|Hx]; [subst x; eapply find_fragment_in; eassumption|apply Hincl; assumption]. }
      assert (Hlen : (length (name :: path) <= length frs)%nat).
      { rewrite <- (map_length fst frs). apply NoDup_incl_length; assumption. }
      cbn [length] in Hlen.
      destruct fuel as [|fuel']; [lia|].
      rewrite (IHd fuel') by (try assumption; cbn [length]; lia).
      rewrite (IHk (S fuel')) by assumption. reflexivity.
    - intros path ctx fuel _ _ _. reflexivity.
    - intros path ctx n l ts ts2 _ IHn _ IHl fuel Hnd Hincl Hf.
      cbn [expand_list]. rewrite (IHn fuel) by assumption.
      fold (expand_list C dc frs fuel path ctx l). rewrite (IHl fuel) by assumption. reflexivity.
  Qed.

  Theorem expand_complete : forall ctx op ts fuel,
    Expand dc frs [] ctx op ts -> (length frs < fuel)%nat ->
    expand dc frs fuel [] ctx op = Some ts.
  Proof.
    intros ctx op ts fuel H Hf. apply (proj1 expand_complete_gen [] ctx op ts H fuel).
    - constructor.
    - intros x [].
    - cbn [length]. lia.
  Qed.
End Local.

(** ** the two parameters matter: one fragment, two spread sites, two different contributions *)
Definition n_A : bytes := [65%N].

(** fragment A { rc }  where the cost of [rc] is the number in the cost context *)
Definition frag_rc : list (bytes * node Z) :=
  [(n_A, Node KOther [Node (KField (Some (fun ctx : Z => Some {| fc_r := ctx; fc_m := 0; fc_ctx := None |})) false) []])].
Definition set_ctx (v : Z) (kids : list (node Z)) : node Z :=
  Node (KField (Some (fun _ : Z => Some {| fc_r := 0; fc_m := 0; fc_ctx := Some v |})) false) kids.
Definition times (m : Z) (kids : list (node Z)) : node Z :=
  Node (KField (Some (fun _ : Z => Some {| fc_r := 0; fc_m := m; fc_ctx := None |})) false) kids.
Definition dc1 : fcost Z := {| fc_r := 1; fc_m := 0; fc_ctx := None |}.

(** { a { ...A }  b { ...A } } with a, b setting the contexts 5 and 7: 5 + 7, not 5 + 5 *)
Theorem fragment_cost_depends_on_context :
  validate_cost Z true 2 dc1 0
    [(None, Node KOther [set_ctx 5 [Node (KSpread n_A) []]; set_ctx 7 [Node (KSpread n_A) []]])]
    frag_rc [] false (-1)
  = Done 12 false.
Proof. vm_compute. reflexivity. Qed.

(** { ...A  x3 { ...A } } under the context 5: 5 + 3 * 5 *)
Theorem fragment_cost_depends_on_multiplier :
  validate_cost Z true 2 dc1 5
    [(None, Node KOther [Node (KSpread n_A) []; times 3 [Node (KSpread n_A) []]])]
    frag_rc [] false (-1)
  = Done 20 false.
Proof. vm_compute. reflexivity. Qed.
