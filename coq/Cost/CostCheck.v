(** * Cost/CostCheck.v — C14 correspondence: decode a case, run the model and the Spec oracle,
    compare with what the implementation did.  Executable only (extracted / vm_compute).

    A case (one line):
<<
    (case (route direct|apifu) (default R M) (table (z ...)) (opname ..)
          (vars ((v null|(int z)) ...))
          (ops ((op none|(some name) ((v nonnull-bool none|(some null)|(some (int z))) ...) NODE) ...))
          (frags ((name NODE) ...))
          (max z)
          (conns ((ARG-first ARG-last available observed-edges|none) ...))
          (observed panic | (errs0 actual0 errs actual)))       actual: unset | (int z)
    NODE ::= (o NODE...) | (s fragment NODE...) | (t NODE...) | (u NODE...) | (f CFD NODE...)
    CFD  ::= nocost | (const r m) | (direct ARG ARG) | (tbl ARG ARG) | (setc ARG r m) | (rc) | (mc r)
           | (req ARG) | (conn ARG ARG) | (edges)
    ARG  ::= (a DEFAULT SRC)    DEFAULT ::= none | null | (int z)    SRC ::= absent | null | (lit z) | (var v)
>>
    [errs0]/[actual0]: number of errors of ParseAndValidate and the reported cost with the cost
    rule given no limit; [errs]/[actual]: the same with the limit [max]. *)
From Coq Require Import List ZArith Bool String.
From ApiFu Require Val.Values Val.CoerceModel Val.CoerceSpec Val.CoerceCheck.
From ApiFu Require Import Base.Sexp Cost.CostModel Cost.CostSpec Cost.CostArgs Cost.CostTrace.
From ApiFu Require Cost.CostArgsProofs Cost.CostC04Usage Cost.CostProj Val.BridgeC04 Val.BridgeC04Proofs Vld.ValidatorModel Vld.ProofsTypeInfoValues.
Import ListNotations.
Open Scope string_scope.
Open Scope Z_scope.

(** the cost context of the harness schema: its own key (an optional int) + the library's key *)
Definition ctxT := kctx (option Z).
Definition ctx0 : ctxT := {| k_user := None; k_max_edge := None |}.

(** ** decoding *)
Definition dec_vval (s : sexp) : option vval :=
  if is_sym "null" s then Some VNull
  else match tagged "int" s with Some [SZ z] => Some (VInt z) | _ => None end.

Definition dec_default (s : sexp) : option (option vval) :=
  if is_sym "none" s then Some None
  else match dec_vval s with Some v => Some (Some v) | None => None end.

Definition dec_src (s : sexp) : option argsrc :=
  if is_sym "absent" s then Some SAbsent
  else if is_sym "null" s then Some SNull
  else match tagged "lit" s with
       | Some [SZ z] => Some (SLit z)
       | _ => match tagged "var" s with
              | Some [SStr v] => Some (SVar v)
              | _ => None
              end
       end.

(** [(a DEFAULT SRC)] resolved against the coerced variables *)
Definition dec_arg (coerced : list (bytes * vval)) (s : sexp) : option argval :=
  match tagged "a" s with
  | Some (d :: x :: _) =>
      match dec_default d, dec_src x with
      | Some dv, Some src => Some (resolve_arg coerced dv src)
      | _, _ => None
      end
  | _ => None
  end.

(** a generic argument [("name" LIT)] (C05's literal encoding) mentions a variable *)
Fixpoint CoerceCheck_has_var (s : sexp) {struct s} : bool :=
  match s with
  | SL (SSym t :: rest) =>
      String.eqb t "var" ||
      (fix go (l : list sexp) : bool := match l with [] => false | x :: r => CoerceCheck_has_var x || go r end) rest
  | SL l => (fix go (l : list sexp) : bool := match l with [] => false | x :: r => CoerceCheck_has_var x || go r end) l
  | _ => false
  end.

Definition arg_uses_var (s : sexp) : bool :=
  match tagged "a" s with
  | Some (_ :: x :: _) => match tagged "var" x with Some _ => true | None => false end
  | _ => match s with
         | SL [SStr _; l] => CoerceCheck_has_var l
         | _ => false
         end
  end.

Definition int_or (a : argval) (d : Z) : Z := match a with AInt z => z | _ => d end.

Definition nth_tbl (T : list Z) (i : Z) : Z :=
  match T with
  | [] => 0
  | _ => nth (Z.to_nat (i mod Z.of_nat (List.length T))) T 0
  end.

Definition konst (r m : Z) (c : option ctxT) : ctxT -> option (fcost ctxT) :=
  fun _ => Some {| fc_r := r; fc_m := m; fc_ctx := c |}.

(** the cost functions of the harness schema (harness/cmd/c14/main.go, [costFns]) *)
Definition dec_cfd (T : list Z) (coerced : list (bytes * vval)) (s : sexp) : option (kind ctxT) :=
  if is_sym "nocost" s then Some (KField None false)
  else
    match untag s with
    | Some (t, args) =>
        if String.eqb t "const" then
          match args with
          | [SZ r; SZ m] => Some (KField (Some (konst r m None)) false)
          | _ => None
          end
        else if String.eqb t "direct" then
          match args with
          | [a; b] =>
              match dec_arg coerced a, dec_arg coerced b with
              | Some ra, Some ma => Some (KField (Some (konst (int_or ra 1) (int_or ma 0) None)) false)
              | _, _ => None
              end
          | _ => None
          end
        else if String.eqb t "tbl" then
          match args with
          | [a; b] =>
              match dec_arg coerced a, dec_arg coerced b with
              | Some ia, Some ja =>
                  let r := nth_tbl T (int_or ia 0) in
                  let m := match ja with AInt j => nth_tbl T j | _ => 0 end in
                  Some (KField (Some (konst r m None)) false)
              | _, _ => None
              end
          | _ => None
          end
        else if String.eqb t "setc" then
          match args with
          | [a; SZ r; SZ m] =>
              match dec_arg coerced a with
              | Some ca =>
                  Some (KField (Some (fun ctx : ctxT =>
                          Some {| fc_r := r; fc_m := m;
                                  fc_ctx := match ca with
                                            | AInt c => Some {| k_user := Some c; k_max_edge := k_max_edge ctx |}
                                            | _ => None
                                            end |})) false)
              | None => None
              end
          | _ => None
          end
        else if String.eqb t "rc" then
          Some (KField (Some (fun ctx : ctxT =>
                  Some {| fc_r := match k_user ctx with Some c => c | None => 0 end; fc_m := 0; fc_ctx := None |})) false)
        else if String.eqb t "mc" then
          match args with
          | [SZ r] =>
              Some (KField (Some (fun ctx : ctxT =>
                      Some {| fc_r := r; fc_m := match k_user ctx with Some c => c | None => 0 end; fc_ctx := None |})) false)
          | _ => None
          end
        else if String.eqb t "req" then
          match args with
          | [a] =>
              match dec_arg coerced a with
              | Some (AInt n) => Some (KField (Some (konst n 0 None)) false)
              | Some _ => Some (KField (Some (konst 0 0 None)) true)     (* required argument missing *)
              | None => None
              end
          | _ => None
          end
        else if String.eqb t "conn" then
          match args with
          | [a; b] =>
              match dec_arg coerced a, dec_arg coerced b with
              | Some fa, Some la => Some (KField (Some (fun ctx => Some (default_connection_cost fa la ctx))) false)
              | _, _ => None
              end
          | _ => None
          end
        else if String.eqb t "edges" then Some (KField (Some edges_cost) false)
        else None
    | None => None
    end.

Definition cfd_uses_var (s : sexp) : bool :=
  match untag s with
  | Some (t, args) =>
      if String.eqb t "gen" then match args with [_; SL gas; _; _; _] => existsb arg_uses_var gas | _ => false end
      else existsb arg_uses_var args
  | None => false
  end.
Definition cfd_sets_ctx (s : sexp) : bool :=
  match untag s with
  | Some (t, args) =>
      String.eqb t "setc" || String.eqb t "conn" ||
      (String.eqb t "gen" && match args with [_; _; _; _; sc] => negb (is_sym "none" sc) | _ => false end)
  | None => false
  end.

(** the tree [ast.Inspect] walks, generic in what a node is (model: [anode], Spec: [node]) *)
Section DecTree.
  Variables K N : Type.
  Variable mk : K -> list N -> N.
  Variable k_field : sexp -> option K.
  Variables k_other k_typename k_unknown : K.
  Variable k_spread : bytes -> K.

  Fixpoint dec_tree (s : sexp) {struct s} : option N :=
    match s with
    | SL (SSym t :: rest) =>
        let kids (l : list sexp) :=
          (fix go (l : list sexp) : option (list N) :=
             match l with
             | [] => Some []
             | x :: r => match dec_tree x, go r with
                         | Some a, Some b => Some (a :: b)
                         | _, _ => None
                         end
             end) l in
        if String.eqb t "o" then
          match kids rest with Some ks => Some (mk k_other ks) | None => None end
        else if String.eqb t "t" then
          match kids rest with Some ks => Some (mk k_typename ks) | None => None end
        else if String.eqb t "u" then
          match kids rest with Some ks => Some (mk k_unknown ks) | None => None end
        else if String.eqb t "s" then
          match rest with
          | SStr name :: rest' => match kids rest' with Some ks => Some (mk (k_spread name) ks) | None => None end
          | _ => None
          end
        else if String.eqb t "f" then
          match rest with
          | cfd :: rest' =>
              match k_field cfd, kids rest' with
              | Some k, Some ks => Some (mk k ks)
              | _, _ => None
              end
          | _ => None
          end
        else None
    | _ => None
    end.
End DecTree.

(** ** round 3: the arguments.  Model side: every field selection becomes an [afield] (argument
    definitions, argument literals, cost function of (context, argument map)) and goes through
    [CostArgs.compile_field], i.e. through C05's transcription of CoerceArgumentValues.  Spec side:
    the Int-only forms keep [resolve_arg] (CostSpec.v), the generic form [gen] uses C05's reference
    coercion [ref_request]. *)
Definition n_Int : bytes := [73; 110; 116]%N.
Definition default_env : Values.env := [(n_Int, Values.TScalar Values.KInt)].
Definition dt0 : bytes -> option bytes := fun _ => None.
Definition arg_name (i : nat) : bytes := [N.of_nat (48 + i)].

Definition gdefault (v : vval) : Values.gval :=
  match v with VNull => Values.GNullSentinel | VInt z => Values.GInt z end.
Definition lit_of_src (x : argsrc) : option Values.lit :=
  match x with
  | SAbsent => None
  | SNull => Some Values.LNull
  | SLit z => Some (Values.LInt z)
  | SVar v => Some (Values.LVar v)
  end.

(** [(a DEFAULT SRC)] / [(a DEFAULT SRC FLAG)] / [(a DEFAULT SRC FLAG "name")]: default, source,
    non-null ([FLAG] = nn), the argument's name (positional names 0, 1 when not given) *)
Definition dec_aform (s : sexp) : option (option vval * argsrc * bool * option bytes) :=
  match tagged "a" s with
  | Some (d :: x :: rest) =>
      match dec_default d, dec_src x with
      | Some dv, Some src =>
          Some (dv, src,
                match rest with f :: _ => is_sym "nn" f | [] => false end,
                match rest with [_; SStr n] => Some n | _ => None end)
      | _, _ => None
      end
  | _ => None
  end.
Definition is_aform (s : sexp) : bool := match tagged "a" s with Some _ => true | None => false end.

Definition aform_name (i : nat) (o : option bytes) : bytes := match o with Some n => n | None => arg_name i end.

Fixpoint aforms_args (i : nat) (l : list (option vval * argsrc * bool * option bytes))
  : list (Values.name * Values.in_def) * list (Values.name * Values.lit) * list bytes :=
  match l with
  | [] => ([], [], [])
  | (dv, src, nn, nm) :: r =>
      match aforms_args (S i) r with
      | (ds, ls, ns) =>
          let ty := if nn then Values.StNonNull (Values.StNamed n_Int) else Values.StNamed n_Int in
          let n := aform_name i nm in
          ((n, {| Values.in_type := ty; Values.in_default := option_map gdefault dv |}) :: ds,
           match lit_of_src src with Some lt => (n, lt) :: ls | None => ls end,
           n :: ns)
      end
  end.

(** [ctx.Arguments[name]] as the harness' cost functions look at it; [ns]: the names of the
    arguments in the order of the description *)
Definition av (ns : list bytes) (m : amap) (i : nat) : argval :=
  match Values.aget (nth i ns []) m with
  | None => AAbsent
  | Some (Values.GInt z) => AInt z
  | Some _ => ANull
  end.

Definition acost := ctxT -> amap -> option (fcost ctxT).
Definition akonst (r m : Z) : acost := fun _ _ => Some {| fc_r := r; fc_m := m; fc_ctx := None |}.

(** the cost functions of the Int-only forms, over the argument map (arguments named 0, 1) *)
Definition old_cost (T : list Z) (ns : list bytes) (t : string) (others : list sexp) : option (option acost) :=
  if String.eqb t "const" then
    match others with [SZ r; SZ m] => Some (Some (akonst r m)) | _ => None end
  else if String.eqb t "direct" then
    Some (Some (fun _ a => Some {| fc_r := int_or (av ns a 0) 1; fc_m := int_or (av ns a 1) 0; fc_ctx := None |}))
  else if String.eqb t "tbl" then
    Some (Some (fun _ a => Some {| fc_r := nth_tbl T (int_or (av ns a 0) 0);
                                   fc_m := match av ns a 1 with AInt j => nth_tbl T j | _ => 0 end;
                                   fc_ctx := None |}))
  else if String.eqb t "setc" then
    match others with
    | [SZ r; SZ m] =>
        Some (Some (fun ctx a => Some {| fc_r := r; fc_m := m;
                                         fc_ctx := match av ns a 0 with
                                                   | AInt c => Some {| k_user := Some c; k_max_edge := k_max_edge ctx |}
                                                   | _ => None
                                                   end |}))
    | _ => None
    end
  else if String.eqb t "rc" then
    Some (Some (fun ctx _ => Some {| fc_r := match k_user ctx with Some c => c | None => 0 end; fc_m := 0; fc_ctx := None |}))
  else if String.eqb t "mc" then
    match others with
    | [SZ r] => Some (Some (fun ctx _ => Some {| fc_r := r; fc_m := match k_user ctx with Some c => c | None => 0 end; fc_ctx := None |}))
    | _ => None
    end
  else if String.eqb t "req" then
    Some (Some (fun _ a => Some {| fc_r := int_or (av ns a 0) 0; fc_m := 0; fc_ctx := None |}))
  else if String.eqb t "conn" then
    Some (Some (fun ctx a => Some (default_connection_cost (av ns a 0) (av ns a 1) ctx)))
  else if String.eqb t "edges" then Some (Some (fun ctx _ => edges_cost ctx))
  else None.

(** the generic form: [(gen (ARGDEF...) (("name" LIT)...) R M SETC)], R and M integer expressions
    over the argument map, SETC = none | (some "name") *)
Definition gint (g : option Values.gval) : option Z := match g with Some (Values.GInt z) => Some z | _ => None end.

Definition eval_iexp (T : list Z) (ctx : ctxT) (a : amap) (e : sexp) : Z :=
  match untag e with
  | Some (t, args) =>
      if String.eqb t "k" then match args with [SZ z] => z | _ => 0 end
      else if String.eqb t "user" then match k_user ctx with Some c => c | None => 0 end
      else if String.eqb t "int" then
        match args with [SStr n; SZ d] => match gint (Values.aget n a) with Some z => z | None => d end | _ => 0 end
      else if String.eqb t "tbl" then
        match args with [SStr n; SZ d] => match gint (Values.aget n a) with Some z => nth_tbl T z | None => d end | _ => 0 end
      else if String.eqb t "len" then
        match args with
        | [SStr n; SZ d] => match Values.aget n a with Some (Values.GList l) => Z.of_nat (List.length l) | _ => d end
        | _ => 0
        end
      else if String.eqb t "idx" then
        match args with
        | [SStr n; SZ i; SZ d] =>
            match Values.aget n a with
            | Some (Values.GList l) => match gint (nth_error l (Z.to_nat i)) with Some z => z | None => d end
            | _ => d
            end
        | _ => 0
        end
      else if String.eqb t "fld" then
        match args with
        | [SStr n; SStr k; SZ d] =>
            match Values.aget n a with
            | Some (Values.GMap kvs) => match gint (Values.aget k kvs) with Some z => z | None => d end
            | _ => d
            end
        | _ => 0
        end
      else if String.eqb t "fldlen" then
        match args with
        | [SStr n; SStr k; SZ d] =>
            match Values.aget n a with
            | Some (Values.GMap kvs) => match Values.aget k kvs with Some (Values.GList l) => Z.of_nat (List.length l) | _ => d end
            | _ => d
            end
        | _ => 0
        end
      else 0
  | None => 0
  end.

Definition gen_cost (T : list Z) (r m : sexp) (setc : option bytes) : acost :=
  fun ctx a =>
    Some {| fc_r := eval_iexp T ctx a r; fc_m := eval_iexp T ctx a m;
            fc_ctx := match setc with
                      | Some n => match gint (Values.aget n a) with
                                  | Some c => Some {| k_user := Some c; k_max_edge := k_max_edge ctx |}
                                  | None => None
                                  end
                      | None => None
                      end |}.

Definition dec_garg (s : sexp) : option (Values.name * Values.lit) :=
  match s with
  | SL [SStr n; l] => match CoerceCheck.dec_lit l with Some x => Some (n, x) | None => None end
  | _ => None
  end.

Definition is_gen (s : sexp) : bool := match tagged "gen" s with Some _ => true | None => false end.

Definition afield_of_cfd (T : list Z) (s : sexp) : option (afield ctxT) :=
  if is_sym "nocost" s then Some {| af_name := []; af_argdefs := []; af_args := []; af_cost := None |}
  else
    match untag s with
    | Some (t, args) =>
        if String.eqb t "gen" then
          match args with
          | [SL ads; SL gas; r; m; sc] =>
              match map_opt CoerceCheck.dec_indef ads, map_opt dec_garg gas,
                    as_option (fun x => match x with SStr n => Some n | _ => None end) sc with
              | Some argdefs, Some gargs, Some setc =>
                  Some {| af_name := []; af_argdefs := argdefs; af_args := gargs; af_cost := Some (gen_cost T r m setc) |}
              | _, _, _ => None
              end
          | _ => None
          end
        else
          match map_opt dec_aform (filter is_aform args) with
          | Some afs =>
              match aforms_args 0 afs with
              | (argdefs, lits, ns) =>
                  match old_cost T ns t (filter (fun x => negb (is_aform x)) args) with
                  | Some c => Some {| af_name := []; af_argdefs := argdefs; af_args := lits; af_cost := c |}
                  | None => None
                  end
              end
          | None => None
          end
    | None => None
    end.

(** [(named "Type.field" CFD)]: the description with the label of the field definition *)
Definition cfd_core (s : sexp) : sexp := match tagged "named" s with Some [_; c] => c | _ => s end.
Definition cfd_label (s : sexp) : bytes := match tagged "named" s with Some [SStr n; _] => n | _ => [] end.
Definition named_afield (T : list Z) (s : sexp) : option (afield ctxT) :=
  match afield_of_cfd T (cfd_core s) with
  | Some f => Some {| af_name := cfd_label s; af_argdefs := af_argdefs f; af_args := af_args f; af_cost := af_cost f |}
  | None => None
  end.

(** model side *)
Definition dec_anode (T : list Z) : sexp -> option (anode ctxT) :=
  dec_tree (akind ctxT) (anode ctxT) ANode
           (fun cfd => match named_afield T cfd with Some f => Some (AField f) | None => None end)
           AOther (ANoDef true) (ANoDef false) ASpread.

(** Spec side: [resolve_arg] for the Int-only forms, C05's reference coercion for [gen] *)
Definition spec_kind (T : list Z) (E : Values.env) (coerced : list (bytes * vval))
           (defs : list Values.vardef) (raw : list (Values.name * Values.jval)) (cfd0 : sexp) : option (kind ctxT) :=
  let cfd := cfd_core cfd0 in
  if is_gen cfd then
    match afield_of_cfd T cfd with
    | Some f =>
        match CoerceSpec.ref_request E dt0 (af_argdefs f) defs (af_args f) raw with
        | Some m => Some (KField (match af_cost f with Some g => Some (fun ctx => g ctx m) | None => None end) false)
        | None => Some (KField None true)
        end
    | None => None
    end
  else dec_cfd T coerced cfd.

Definition dec_node (T : list Z) (E : Values.env) (coerced : list (bytes * vval))
           (defs : list Values.vardef) (raw : list (Values.name * Values.jval)) : sexp -> option (node ctxT) :=
  dec_tree (kind ctxT) (node ctxT) Node (spec_kind T E coerced defs raw)
           KOther (KFieldNoDef true) (KFieldNoDef false) KSpread.

(** the Int variable definitions / values of the case in C05's vocabulary; values that came through
    JSON (apifu routes) are float64 *)
Definition conv_vardef (d : vardef) : Values.vardef :=
  {| Values.vd_name := vd_name d;
     Values.vd_type := if vd_nonnull d then Values.StNonNull (Values.StNamed n_Int) else Values.StNamed n_Int;
     Values.vd_default := option_map (fun v => match v with VNull => Values.LNull | VInt z => Values.LInt z end) (vd_default d) |}.
Definition conv_value (json : bool) (p : bytes * vval) : Values.name * Values.jval :=
  (fst p, match snd p with
          | VNull => Values.JNull
          | VInt z => if json then Values.JNum (Values.f64_of_Z z) else Values.JInt z
          end).

(** syntactic facts about a case, for the evidence classes *)
Fixpoint sexp_exists (p : sexp -> bool) (s : sexp) {struct s} : bool :=
  p s || match s with
         | SL l => (fix go (l : list sexp) : bool := match l with [] => false | x :: r => sexp_exists p x || go r end) l
         | _ => false
         end.
Definition is_spread (s : sexp) : bool := match tagged "s" s with Some _ => true | None => false end.
Definition is_field_with (p : sexp -> bool) (s : sexp) : bool :=
  match tagged "f" s with Some (cfd :: _) => p (cfd_core cfd) | _ => false end.

Definition dec_vardef (s : sexp) : option vardef :=
  match s with
  | SL [SStr n; nn; d] =>
      match as_bool nn, (if is_sym "none" d then Some None
                         else match tagged "some" d with
                              | Some [v] => match dec_vval v with Some x => Some (Some x) | None => None end
                              | _ => None
                              end) with
      | Some b, Some dv => Some {| vd_name := n; vd_nonnull := b; vd_default := dv |}
      | _, _ => None
      end
  | _ => None
  end.

Definition dec_opname (s : sexp) : option (option bytes) :=
  if is_sym "none" s then Some None
  else match tagged "some" s with Some [SStr n] => Some (Some n) | _ => None end.

(** first pass over an operation: name, variable definitions, undecoded body *)
Definition dec_op_raw (s : sexp) : option (option bytes * list vardef * sexp * list Values.vardef) :=
  match tagged "op" s with
  | Some (n :: SL vds :: body :: rest) =>
      match dec_opname n, map_opt dec_vardef vds,
            (match rest with
             | [] => Some []
             | [SL xs] => map_opt CoerceCheck.dec_vardef xs
             | _ => None
             end) with
      | Some name, Some defs, Some xdefs => Some (name, defs, body, xdefs)
      | _, _, _ => None
      end
  | _ => None
  end.

Definition dec_xvar (s : sexp) : option (Values.name * Values.jval) :=
  match s with
  | SL [SStr n; j] => match CoerceCheck.dec_jval j with Some x => Some (n, x) | None => None end
  | _ => None
  end.

Definition dec_var (s : sexp) : option (bytes * vval) :=
  match s with
  | SL [SStr n; v] => match dec_vval v with Some x => Some (n, x) | None => None end
  | _ => None
  end.

Record conn_obs := { co_first : argval; co_last : argval; co_avail : Z; co_edges : option Z }.
Definition dec_conn (coerced : list (bytes * vval)) (s : sexp) : option conn_obs :=
  match s with
  | SL [f; l; SZ n; e] =>
      match dec_arg coerced f, dec_arg coerced l,
            (if is_sym "none" e then Some None else match e with SZ k => Some (Some k) | _ => None end) with
      | Some fa, Some la, Some eo => Some {| co_first := fa; co_last := la; co_avail := n; co_edges := eo |}
      | _, _, _ => None
      end
  | _ => None
  end.

Inductive obs_actual := Unset | Set_ (z : Z).
Definition dec_actual (s : sexp) : option obs_actual :=
  if is_sym "unset" s then Some Unset
  else match tagged "int" s with Some [SZ z] => Some (Set_ z) | _ => None end.

Inductive observed := ObsPanic | Obs (errs0 : Z) (actual0 : obs_actual) (errs : Z) (actual : obs_actual).
Definition dec_observed (s : sexp) : option observed :=
  if is_sym "panic" s then Some ObsPanic
  else match s with
       | SL [SZ e0; a0; SZ e1; a1] =>
           match dec_actual a0, dec_actual a1 with
           | Some x, Some y => Some (Obs e0 x e1 y)
           | _, _ => None
           end
       | _ => None
       end.

(** ** the Spec oracle *)
Fixpoint nodup_names (l : list bytes) : bool :=
  match l with
  | [] => true
  | x :: r => negb (existsb (bytes_eqb x) r) && nodup_names r
  end.

(** [Some ts]: the request is one the property speaks about (a chosen operation whose expansion is
    finite and defined, unique fragment names, variables coercible, costs non-negative) and [ts] is its
    cost tree; the reference cost of a request without a chosen operation is that of the empty tree *)
Definition spec_tree (dc : fcost ctxT) (ops : list (option bytes * node ctxT)) (frs : list (bytes * node ctxT))
           (opname : bytes) (vars_err : bool) : option (list etree) :=
  match get_operation ops opname with
  | None => Some []
  | Some op =>
      if vars_err || negb (nodup_names (map fst frs)) then None
      else match expand dc frs (S (List.length frs)) [] ctx0 op with
           | Some ts => if forallb costs_ok ts then Some ts else None
           | None => None
           end
  end.

Definition act_eqb (a : obs_actual) (z : Z) : bool := match a with Set_ x => x =? z | Unset => false end.

(** a free field (or any field) whose ancestors' multipliers multiply to more than MaxInt while the
    whole sum is representable: the shape of defect 18 *)
Definition zero_under_overflow (ts : list etree) : bool :=
  existsb (fun o => (fst o =? 0) && (prod (snd o) >? MaxInt)) (flat_map (occurrences []) ts).
Definition has_multiplied_field (ts : list etree) : bool :=
  existsb (fun o => prod (snd o) >? 1) (flat_map (occurrences []) ts).

(** an oracle failure, as (key, details) *)
Definition oracle (ts : list etree) (max : Z) (o : observed) : option sexp :=
  let ref := RefCost ts in
  if negb (ref =? sum (map horner ts)) then Some (v_bad "spec-internal: RefCost <> horner")
  else
  match o with
  | ObsPanic => Some (v_oracle_fail "panic-on-valid-request" [])
  | Obs e0 a0 e1 a1 =>
      let want := actual_ref ref in
      let bad_actual (a : obs_actual) : option string :=
        match a with
        | Unset => Some "cost-not-reported"
        | Set_ x =>
            if x =? want then None
            else if x <? want then Some "undercount"
            else Some "overcount"
        end in
      match bad_actual a0, bad_actual a1 with
      | Some k, _ => Some (v_oracle_fail k [tag "ref" [SZ ref]])
      | None, Some k => Some (v_oracle_fail k [tag "ref" [SZ ref]])
      | None, None =>
          if (e0 =? 0) && (-1 <=? max) then
            (* the document is valid and passes without a limit: the verdict under [max] is the cost rule's *)
            let acc := e1 =? 0 in
            if Bool.eqb acc (accept_ref ref max) then None
            else if acc then Some (v_oracle_fail "accepted-over-limit" [tag "ref" [SZ ref]])
            else Some (v_oracle_fail "rejected-within-limit" [tag "ref" [SZ ref]])
          else None
      end
  end.

(** connections with their default costs: edges resolved <= multiplier charged *)
Definition charged (m : Z) : Z := if m >? 1 then m else 1.
Definition conn_multiplier (c : conn_obs) : option Z :=
  match fc_ctx (default_connection_cost (co_first c) (co_last c) ctx0) with
  | Some ctx' => match edges_cost ctx' with Some fc => Some (charged (fc_m fc)) | None => None end
  | None => None
  end.
Definition conn_oracle (c : conn_obs) : bool :=
  match co_edges c, conn_multiplier c with
  | Some k, Some m => k <=? m
  | None, _ => true
  | Some _, None => false
  end.
Definition conn_agrees (c : conn_obs) : bool :=
  match connection_edge_count (co_first c) (co_last c) (co_avail c), co_edges c with
  | Some k, Some k' => k =? k'
  | None, None => true
  | _, _ => false
  end.

(** ** model vs implementation *)
Definition compare (m : outcome) (m_nolimit : outcome) (o : observed) : option sexp :=
  match m, m_nolimit, o with
  | RPanic, _, ObsPanic => None
  | Done a ce, Done a0 _, Obs e0 x0 e1 x1 =>
      if negb (act_eqb x0 a0) then Some (v_mismatch "actual-without-limit" [tag "model" [SZ a0]])
      else if negb (act_eqb x1 a) then Some (v_mismatch "actual" [tag "model" [SZ a]])
      else if e0 =? 0 then
        if Bool.eqb (e1 =? 0) (negb ce) then None
        else Some (v_mismatch "verdict" [tag "model-cost-error" [of_bool ce]])
      else if e1 =? 0 then Some (v_mismatch "accepted-with-limit-but-not-without" [])
      else None
  | Secondary _, Secondary _, Obs e0 x0 e1 x1 =>
      match x0, x1 with
      | Unset, Unset => if (e0 >? 0) && (e1 >? 0) then None else Some (v_mismatch "secondary-error-expected" [])
      | _, _ => Some (v_mismatch "actual-set-despite-error" [])
      end
  | ROutOfFuel, _, _ => Some (v_mismatch "model-out-of-fuel" [])
  | _, _, _ => Some (v_mismatch "outcome-kind" [])
  end.

Definition classes (route : string) (nops : nat) (has_op : bool) (body : list sexp) (spec : option (list etree))
           (max : Z) (o : observed) (std : Z) : list string :=
  let spread := existsb (sexp_exists is_spread) body in
  let uses_var := existsb (sexp_exists (is_field_with cfd_uses_var)) body in
  let sets_ctx := existsb (sexp_exists (is_field_with cfd_sets_ctx)) body in
  let e0 := match o with Obs e0 _ _ _ => if std >? 0 then std else e0 | ObsPanic => 1 end in
  let e1 := match o with Obs _ _ e1 _ => e1 | ObsPanic => 1 end in
  [route] ++
  (if std >? 0 then ["invalid-document-rule-applied-directly"] else []) ++
  (if spread then ["fragments"] else ["fragment-free"]) ++
  (if uses_var then ["variables"] else []) ++
  (if sets_ctx then ["contexts"] else []) ++
  (if (1 <? Z.of_nat nops) then ["multi-op"] else []) ++
  (if has_op then [] else ["no-operation-chosen"]) ++
  match spec with
  | None => ["outside-property"]
  | Some ts =>
      let ref := RefCost ts in
      (if e0 =? 0 then ["valid"] else ["rejected-by-another-rule"]) ++
      (if ref >? MaxInt then ["overflow"] else []) ++
      (if ref =? MaxInt then ["exactly-maxint"] else []) ++
      (if (MaxInt - 3 <=? ref) && (ref <=? MaxInt + 3) then ["near-maxint"] else []) ++
      (if zero_under_overflow ts then ["free-under-overflowed-multiplier"] else []) ++
      (if max =? -1 then ["no-limit"] else if e1 =? 0 then ["accepted"] else ["rejected"]) ++
      (if ref =? max then ["at-limit"] else []) ++
      (if ref =? max + 1 then ["just-over-limit"] else []) ++
      (if (e0 =? 0) && has_multiplied_field ts then ["nontrivial"] else []) ++
      (if (e0 =? 0) && has_multiplied_field ts && spread then ["multiplied-through-fragment"] else [])
  end.

(** ** the calls the real cost functions received: [(calls ((NAME USER ARGS) ...))], ARGS = (map ...) *)
Record obs_call := { oc_name : bytes; oc_user : option Z; oc_args : Values.gval }.
Definition dec_call (s : sexp) : option obs_call :=
  match s with
  | SL [SStr n; u; a] =>
      match as_option (fun x => match x with SZ z => Some z | _ => None end) u, CoerceCheck.dec_gval a with
      | Some uo, Some g => Some {| oc_name := n; oc_user := uo; oc_args := g |}
      | _, _ => None
      end
  | _ => None
  end.

Definition opt_Z_eqb (a b : option Z) : bool :=
  match a, b with Some x, Some y => x =? y | None, None => true | _, _ => false end.

Definition call_matches (c : call ctxT) (o : obs_call) : bool :=
  bytes_eqb (af_name (c_field c)) (oc_name o) && opt_Z_eqb (k_user (c_ctx c)) (oc_user o)
  && Values.gval_eqb (Values.GMap (c_args c)) (oc_args o).

Fixpoint calls_match (l : list (call ctxT)) (o : list obs_call) : bool :=
  match l, o with
  | [], [] => true
  | c :: l', x :: o' => call_matches c x && calls_match l' o'
  | _, _ => false
  end.

(** the first field selection of a tree carrying a given label *)
Fixpoint find_field (name : bytes) (n : anode ctxT) {struct n} : option (afield ctxT) :=
  match n with
  | ANode k kids =>
      match (match k with AField f => if bytes_eqb (af_name f) name then Some f else None | _ => None end) with
      | Some f => Some f
      | None => (fix go (l : list (anode ctxT)) : option (afield ctxT) :=
                   match l with
                   | [] => None
                   | x :: r => match find_field name x with Some f => Some f | None => go r end
                   end) kids
      end
  end.
Fixpoint find_field_in (name : bytes) (l : list (anode ctxT)) : option (afield ctxT) :=
  match l with
  | [] => None
  | x :: r => match find_field name x with Some f => Some f | None => find_field_in name r end
  end.

(** Spec oracle on the observed calls: every argument map conforms to the declared argument types *)
Definition call_conforms (E : Values.env) (trees : list (anode ctxT)) (o : obs_call) : bool :=
  match find_field_in (oc_name o) trees, oc_args o with
  | Some f, Values.GMap m => CoerceSpec.args_conform_b E (af_argdefs f) m
  | _, _ => false
  end.

(** ** the hypotheses of the every-call theorems, evaluated on the request: for a document the REAL
    validator accepted they must hold of every field selection reachable from the chosen operation
    (this is the request side of [CostC04.document_bridge]) *)
Fixpoint fields_of (n : anode ctxT) {struct n} : list (afield ctxT) :=
  match n with
  | ANode k kids =>
      (match k with AField f => [f] | _ => [] end ++
       (fix go (l : list (anode ctxT)) : list (afield ctxT) :=
          match l with [] => [] | x :: r => fields_of x ++ go r end) kids)%list
  end.
Fixpoint spreads_of (n : anode ctxT) {struct n} : list bytes :=
  match n with
  | ANode k kids =>
      (match k with ASpread x => [x] | _ => [] end ++
       (fix go (l : list (anode ctxT)) : list bytes :=
          match l with [] => [] | x :: r => spreads_of x ++ go r end) kids)%list
  end.
Fixpoint reach_frags (fuel : nat) (frs : list (bytes * anode ctxT)) (names seen : list bytes) : list bytes :=
  match fuel with
  | O => seen
  | S f =>
      match filter (fun x => negb (existsb (bytes_eqb x) seen)) names with
      | [] => seen
      | fresh =>
          reach_frags f frs
            (flat_map (fun x => match alookup_last ctxT frs x with Some d => spreads_of d | None => [] end) fresh)
            (seen ++ fresh)%list
      end
  end.
Definition reachable_fields (frs : list (bytes * anode ctxT)) (body : anode ctxT) : list (afield ctxT) :=
  (fields_of body ++
   flat_map (fun x => match alookup_last ctxT frs x with Some d => fields_of d | None => [] end)
            (reach_frags (S (List.length frs)) frs (spreads_of body) []))%list.

Definition field_facts (E : Values.env) (defs : list Values.vardef) (f : afield ctxT) : bool :=
  negb (CoerceSpec.dup_names (map fst (af_args f)))
  && forallb (fun al => CoerceSpec.lit_nodup (snd al)) (af_args f)
  && negb (CoerceModel.has_dup (map fst (af_argdefs f)))
  && forallb (fun ad => CoerceSpec.default_ok E (snd ad)) (af_argdefs f)
  && CostArgsProofs.field_usage_ok ctxT E defs f.

(** C04's per-node checks on the translation of a field selection ([CostC04.c04_node_silent]) *)
(** validateVariables' visitor inside every argument value ([CostC04.c04_usage_silent]) *)
Definition c04_usage_ok (E : Values.env) (defs : list Values.vardef) (f : afield ctxT) : bool :=
  forallb (fun a : Values.name * Values.lit =>
             match Values.aget (fst a) (af_argdefs f) with
             | Some d =>
                 CostC04Usage.nil_errs
                   (ProofsTypeInfoValues.usage_errs true (BridgeC04.tr_env E) (CostC04Usage.ann_vardefs defs) false
                      (Some (BridgeC04.tr_sty (Values.in_type d))) (CoerceModel.arg_loc_default true d) (BridgeC04.tr_lit (snd a)))
             | None => false
             end) (af_args f).

Definition c04_node_ok (E : Values.env) (f : afield ctxT) : bool :=
  match fst (ValidatorModel.args_node ValidatorModel.repaired ValidatorModel.id_order []
               (BridgeC04.tr_args 0 (af_args f)) (BridgeC04.tr_argdefs (af_argdefs f)) (0%N, 0%N)) with
  | [] => true
  | _ => false
  end
  && forallb (fun a : Values.name * Values.lit =>
                match Values.aget (fst a) (af_argdefs f) with
                | Some d => BridgeC04.c04_accepts E (snd a) (Values.in_type d) true
                | None => true
                end) (af_args f).
Definition c04_defaults_ok (E : Values.env) (defs : list Values.vardef) : bool :=
  forallb (fun d => match Values.vd_default d with
                    | Some l => CoerceModel.type_known E (Values.vd_type d) && BridgeC04.c04_accepts E l (Values.vd_type d) true
                    | None => true
                    end) defs.
Definition c04_nodes_ok (E : Values.env) (defs : list Values.vardef) (frs : list (bytes * anode ctxT)) (body : anode ctxT) : bool :=
  BridgeC04.bridgeable E && BridgeC04Proofs.no_float E && c04_defaults_ok E defs
  && forallb (fun d => CoerceModel.type_known E (Values.vd_type d)) defs
  && forallb (fun f => c04_node_ok E f && c04_usage_ok E defs f) (reachable_fields frs body).

(** C04's whole ValidateDocument model on the single-field projection of the request at every
    reachable field selection that is given arguments ([CostC04Proj.projection_accepted]) *)
Definition projections_ok (E : Values.env) (defs : list Values.vardef) (frs : list (bytes * anode ctxT)) (body : anode ctxT) : bool :=
  forallb (fun f => match af_args f with
                    | [] => true
                    | _ => CostProj.projection_accepted ctxT E dt0 defs f
                    end) (reachable_fields frs body).

Definition request_facts (E : Values.env) (defs : list Values.vardef) (frs : list (bytes * anode ctxT)) (body : anode ctxT) : bool :=
  CoerceSpec.env_ok E
  && negb (CoerceModel.has_dup (map Values.vd_name defs))
  && forallb (fun d => match Values.vd_default d with
                       | Some l => CoerceSpec.lit_nodup l && match CoerceModel.lit_vars l with [] => true | _ => false end
                       | None => true
                       end) defs
  && forallb (field_facts E defs) (reachable_fields frs body).

Definition raw_name (x : option bytes * list vardef * sexp * list Values.vardef) : option bytes := fst (fst (fst x)).
Definition raw_defs (x : option bytes * list vardef * sexp * list Values.vardef) : list vardef := snd (fst (fst x)).
Definition raw_body (x : option bytes * list vardef * sexp * list Values.vardef) : sexp := snd (fst x).
Definition raw_xdefs (x : option bytes * list vardef * sexp * list Values.vardef) : list Values.vardef := snd x.
(** all variable definitions of an operation, in C05's vocabulary *)
Definition raw_alldefs (x : option bytes * list vardef * sexp * list Values.vardef) : list Values.vardef :=
  (map conv_vardef (raw_defs x) ++ raw_xdefs x)%list.

Definition check (c : sexp) : sexp :=
  match tagged "case" c with
  | Some l =>
      match field1 "route" l, field "default" l, field1 "table" l, field1 "opname" l, field1 "vars" l with
      | Some (SSym route), Some [SZ dr; SZ dm], Some (SL tb), Some (SStr opname), Some (SL vs) =>
      match field1 "ops" l, field1 "frags" l, field1 "max" l, field1 "conns" l, field1 "observed" l with
      | Some (SL opsx), Some (SL frx), Some (SZ max), Some (SL cnx), Some obx =>
      match map_opt as_Z tb, map_opt dec_var vs, map_opt dec_op_raw opsx, dec_observed obx with
      | Some T, Some given, Some raws, Some o =>
      match (match field1 "env" l with Some (SL es) => map_opt CoerceCheck.dec_env_entry es | Some _ => None | None => Some default_env end),
            (match field1 "xvars" l with Some (SL xs) => map_opt dec_xvar xs | Some _ => None | None => Some [] end) with
      | Some E, Some xvars =>
          let std := match field1 "std" l with Some (SZ n) => n | _ => 0 end in
          let dc : fcost ctxT := {| fc_r := dr; fc_m := dm; fc_ctx := None |} in
          let json := negb (String.eqb route "direct") in
          let raw := (map (conv_value json) given ++ xvars)%list in
          (* Spec side: the chosen operation decides which variable definitions apply *)
          let chosen := match filter (fun x => op_matches opname (raw_name x)) raws with [x] => Some x | _ => None end in
          let coerced_opt := match chosen with Some x => coerce_vars (raw_defs x) given | None => Some [] end in
          let sdefs := match chosen with Some x => raw_alldefs x | None => [] end in
          let ref_vars_fail := match chosen with
                               | Some x => match CoerceSpec.ref_variable_values E dt0 sdefs raw with None => true | Some _ => false end
                               | None => false
                               end in
          let vars_err := match coerced_opt with None => true | Some _ => ref_vars_fail end in
          let coerced := match coerced_opt with Some cv => cv | None => [] end in
          match map_opt (fun x => match dec_node T E coerced sdefs raw (raw_body x) with
                                  | Some n => Some (raw_name x, n)
                                  | None => None
                                  end) raws,
                map_opt (fun s => match s with
                                  | SL [SStr n; b] => match dec_node T E coerced sdefs raw b with Some d => Some (n, d) | None => None end
                                  | _ => None
                                  end) frx,
                map_opt (dec_conn coerced) cnx,
                (* model side *)
                map_opt (fun x => match dec_anode T (raw_body x) with
                                  | Some n => Some {| ao_name := raw_name x; ao_vardefs := raw_alldefs x; ao_body := n |}
                                  | None => None
                                  end) raws,
                map_opt (fun s => match s with
                                  | SL [SStr n; b] => match dec_anode T b with Some d => Some (n, d) | None => None end
                                  | _ => None
                                  end) frx with
          | Some ops, Some frs, Some conns, Some aops, Some afrs =>
              if negb (forallb in_intb (dr :: dm :: max :: T)) then v_bad "not-an-int"
              else
              let fuel := S (List.length afrs) in
              let m := fst (validate_cost_trace ctxT E dt0 true fuel dc ctx0 aops afrs opname raw max) in
              let mt0 := validate_cost_trace ctxT E dt0 true fuel dc ctx0 aops afrs opname raw (-1) in
              let m0 := fst mt0 in
              let obs_calls := match field1 "calls" l with Some (SL cs) => map_opt dec_call cs | _ => None end in
              let trees := (map (fun a => ao_body a) aops ++ map snd afrs)%list in
              let spec := spec_tree dc ops frs opname vars_err in
              (* [std] > 0: the standard rules reject the document, which is then outside the property's
                 quantifier ("forall validated document"); ValidateDocument does not run the cost rule on
                 it, the harness applied the rule directly and only model = implementation is demanded *)
              match (match spec with Some ts => if std >? 0 then None else oracle ts max o | None => None end) with
              | Some v =>
                  (* classification of defect 18 (repaired): the observation is exactly what the code before
                     the repair computes, on a tree with a free field beneath an overflowed multiplier
                     (only evaluated when the oracle failed) *)
                  let before := fst (validate_cost_trace ctxT E dt0 false fuel dc ctx0 aops afrs opname raw max) in
                  let before0 := fst (validate_cost_trace ctxT E dt0 false fuel dc ctx0 aops afrs opname raw (-1)) in
                  let is_defect18 :=
                    match spec, compare before before0 o with
                    | Some ts, None => zero_under_overflow ts
                    | _, _ => false
                    end in
                  match v with
                  | SL (SSym t :: _ :: details) =>
                      if String.eqb t "oracle-fail" && is_defect18
                      then v_oracle_fail "free-field-under-overflowed-multiplier" details else v
                  | _ => v
                  end
              | None =>
                  if negb (forallb conn_oracle conns) then v_oracle_fail "more-edges-than-multiplier" []
                  else if (std =? 0) && match obs_calls with Some cs => negb (forallb (call_conforms E trees) cs) | None => false end
                  then v_oracle_fail "cost-args-nonconforming" []
                  else
                  match compare m m0 o with
                  | Some v => v
                  | None =>
                      if negb (forallb conn_agrees conns) then v_mismatch "connection-edge-count" []
                      else if (std =? 0) && match chosen_op ctxT aops opname with
                                             | Some ao => negb (request_facts E (ao_vardefs ao) afrs (ao_body ao))
                                             | None => false
                                             end
                      then v_mismatch "validated-document-violates-theorem-hypotheses" []
                      else if (std =? 0) && match chosen_op ctxT aops opname with
                                             | Some ao => negb (c04_nodes_ok E (ao_vardefs ao) afrs (ao_body ao))
                                             | None => false
                                             end
                      then v_mismatch "validated-document-fails-c04-node-checks" []
                      else if (std =? 0) && match field1 "proj" l with Some b => match as_bool b with Some false => false | _ => true end | None => true end
                                    && match chosen_op ctxT aops opname with
                                             | Some ao => negb (projections_ok E (ao_vardefs ao) afrs (ao_body ao))
                                             | None => false
                                             end
                      then v_mismatch "c04-rejects-a-projection-of-a-validated-document" []
                      else if match obs_calls, o with
                              | Some cs, Obs _ _ _ _ => negb (calls_match (snd mt0) cs)
                              | _, _ => false
                              end
                      then v_mismatch "cost-function-calls" [tag "model-calls" [SZ (Z.of_nat (List.length (snd mt0)))]]
                      else
                        let body := (map raw_body raws ++ frx)%list in
                        v_ok (classes route (List.length ops) (match chosen with Some _ => true | None => false end)
                                      body spec max o std
                              ++ (match conns with [] => [] | _ => ["connections"] end)
                              ++ (if existsb (sexp_exists (is_field_with is_gen)) body then ["list-or-object-argument"] else [])
                              ++ (match xvars with [] => [] | _ => ["list-or-object-variable-value-given"] end)
                              ++ (if (std =? 0) && match chosen_op ctxT aops opname with Some _ => true | None => false end
                                  then ["theorem-hypotheses-hold"; "c04-node-checks-silent"] ++
                                       (match field1 "proj" l with
                                        | Some b => match as_bool b with Some false => [] | _ => ["c04-accepts-every-projection"] end
                                        | None => ["c04-accepts-every-projection"]
                                        end)
                                  else [])
                              ++ (match field1 "varshape" l with
                                  | Some (SSym sh) =>
                                      if String.eqb sh "map" then []
                                      else [String.append "variables-" sh] ++
                                           (if existsb (fun x => match raw_defs x with [] => false | _ => true end) raws
                                            then ["no-variable-values-but-variables-declared"] else [])
                                  | _ => []
                                  end)
                              ++ (match field1 "history" l with Some (SSym _) => ["ws-history-subscription-then-start"] | _ => [] end)
                              ++ (match field1 "schemamode" l with
                                  | Some m => if is_sym "cloned" m
                                              then ["schema-built-from-clone"] else []
                                  | None => []
                                  end)
                              ++ (match field1 "timed" l with
                                  | Some b => match as_bool b with Some true => ["time-based-connection"] | _ => [] end
                                  | None => []
                                  end)
                              ++ (match obs_calls with
                                  | Some [] => ["calls-compared"]
                                  | Some _ => ["calls-compared"; "calls-nonempty"]
                                  | None => []
                                  end))
                  end
              end
          | _, _, _, _, _ => v_bad "decode-nodes"
          end
      | _, _ => v_bad "decode-env"
      end
      | _, _, _, _ => v_bad "decode"
      end
      | _, _, _, _, _ => v_bad "fields2"
      end
      | _, _, _, _, _ => v_bad "fields1"
      end
  | None => v_bad "shape"
  end.
