(** * Cost/CostRelay.v — C14 round 3: "for connections with their default costs, the number of
    edges actually resolved never exceeds the multiplier charged", composed with C09's model of the
    connection field (Relay/RelayModel.v: [serve] = the resolver built by [Connection(config)],
    [completeConnection], [pagination.EdgesToReturn]).

    The statement is about EVERY application: [ResolveAllEdges] or [ResolveEdges] (the mode
    [TimeBasedConnection] uses), directly or through a promise, returning any list at all (more
    edges than asked for, unsorted, duplicates) — the page the client receives is never longer than
    the multiplier the [edges] field was charged with, for every argument combination the resolver
    accepts: first >= 0 with last absent or null, last >= 0 with first absent or null; everything
    else ([first] and [last] both integers, a negative count, neither) is answered with an error and
    no edge ([RelayProofs.arg_errors]).  The [edges] cost function of [Connection] and of
    [ConnectionInterface] is the same code ([edges_cost]). *)
From Coq Require Import List ZArith Bool Lia.
From ApiFu Require Import Base.Sexp Cost.CostModel Cost.CostSpec.
From ApiFu Require Relay.RelayModel.
Import ListNotations.
Open Scope Z_scope.

(** [ctx.Arguments["first"].(int)]: the only thing cost function and resolver look at *)
Definition count_of (a : argval) : option Z := match a with AInt n => Some n | _ => None end.

Section Relay.
  Variables Cu Ed : Type.
  Variable ltb : Cu -> Cu -> bool.
  Variable cur : Ed -> Cu.
  Variable encode : Cu -> bytes.
  Variable decode : bytes -> option Cu.

  Notation len := RelayModel.len.

  Lemma cut_first_len edges n hn e1 b : 0 <= n ->
    RelayModel.cut_first Ed edges (Some n) hn = RelayModel.Ret (e1, b) -> len e1 <= n.
  Proof.
    intros Hn H. unfold RelayModel.cut_first in H.
    destruct (len edges >? n) eqn:G.
    - destruct (n <? 0) eqn:L; [discriminate|]. inversion H; subst.
      unfold RelayModel.len. pose proof (firstn_le_length (Z.to_nat n) edges) as F.
      rewrite firstn_length. lia.
    - inversion H; subst. pose proof (Zgt_cases (len e1) n) as Q. rewrite G in Q. exact Q.
  Qed.

  Lemma cut_last_len edges n hp e2 b : 0 <= n ->
    RelayModel.cut_last Ed edges (Some n) hp = RelayModel.Ret (e2, b) -> len e2 <= n.
  Proof.
    intros Hn H. unfold RelayModel.cut_last in H.
    destruct (len edges >? n) eqn:G.
    - destruct (n <? 0) eqn:L; [discriminate|]. inversion H; subst.
      unfold RelayModel.len in *. rewrite skipn_length.
      apply Z.gtb_lt in G. lia.
    - inversion H; subst. pose proof (Zgt_cases (len e2) n) as Q. rewrite G in Q. exact Q.
  Qed.

  (** pagination.EdgesToReturn never returns more than the one count it is given *)
  Lemma edges_to_return_len l af bf first last page pi n :
    RelayModel.edges_to_return Cu Ed ltb cur l af bf first last = RelayModel.Ret (page, pi) ->
    0 <= n ->
    (first = Some n /\ last = None) \/ (first = None /\ last = Some n) ->
    len page <= n.
  Proof.
    intros H Hn Hc. unfold RelayModel.edges_to_return in H.
    destruct (RelayModel.apply_cursors_to_edges Cu Ed ltb cur l af bf) as [[filtered hp] hnx].
    destruct Hc as [[-> ->]|[-> ->]].
    - destruct (RelayModel.cut_first Ed (RelayModel.isort Cu Ed ltb cur filtered) (Some n) hnx) as [[e1 nx]|] eqn:C1; [|discriminate].
      cbn [RelayModel.cut_last] in H. inversion H; subst.
      eapply cut_first_len; eassumption.
    - cbn [RelayModel.cut_first] in H.
      destruct (RelayModel.cut_last Ed (RelayModel.isort Cu Ed ltb cur filtered) (Some n) hp) as [[e2 pv]|] eqn:C2; [|discriminate].
      inversion H; subst. eapply cut_last_len; eassumption.
  Qed.

  Lemma complete_now_len a ar bf af l c n :
    RelayModel.complete_now Cu Ed ltb cur encode a ar bf af l = RelayModel.Ok c ->
    0 <= n ->
    (RelayModel.a_first ar = Some n /\ RelayModel.a_last ar = None) \/
    (RelayModel.a_first ar = None /\ RelayModel.a_last ar = Some n) ->
    len (RelayModel.cn_edges c) <= n.
  Proof.
    intros H Hn Hc. unfold RelayModel.complete_now in H.
    destruct (RelayModel.edges_to_return Cu Ed ltb cur l af bf (RelayModel.a_first ar) (RelayModel.a_last ar))
      as [[edges pi]|] eqn:Er; [|discriminate].
    inversion H; subst. cbn [RelayModel.cn_edges].
    eapply edges_to_return_len; eassumption.
  Qed.

  (** the accepted argument combinations *)
  Lemma check_counts_accepts ar :
    RelayModel.check_counts ar = None ->
    exists n, 0 <= n /\
      ((RelayModel.a_first ar = Some n /\ RelayModel.a_last ar = None) \/
       (RelayModel.a_first ar = None /\ RelayModel.a_last ar = Some n)).
  Proof.
    unfold RelayModel.check_counts. intro H.
    destruct (RelayModel.a_first ar) as [f|]; destruct (RelayModel.a_last ar) as [l|].
    - destruct (f <? 0); discriminate.
    - destruct (f <? 0) eqn:L; [discriminate|]. exists f. apply Z.ltb_ge in L. split; [exact L|left; split; reflexivity].
    - destruct (l <? 0) eqn:L; [discriminate|]. exists l. apply Z.ltb_ge in L. split; [exact L|right; split; reflexivity].
    - discriminate.
  Qed.

  (** whatever the application hands over, an accepted request returns at most the requested count *)
  Theorem served_page_within_count (a : RelayModel.app Cu Ed) ar page pi total :
    RelayModel.serve Cu Ed ltb cur encode decode a ar = RelayModel.RData page pi total ->
    exists n, 0 <= n /\
      ((RelayModel.a_first ar = Some n /\ RelayModel.a_last ar = None) \/
       (RelayModel.a_first ar = None /\ RelayModel.a_last ar = Some n)) /\
      len page <= n.
  Proof.
    unfold RelayModel.serve, RelayModel.observe, RelayModel.resolve. intro H.
    destruct (RelayModel.check_counts ar) as [e|] eqn:Cc; [cbn in H; discriminate|].
    destruct (check_counts_accepts ar Cc) as (n & Hn & Hcase).
    exists n. split; [exact Hn|]. split; [exact Hcase|].
    destruct (RelayModel.decode_arg Cu decode (RelayModel.a_after ar) RelayModel.EInvalidAfter) as [af|e]; [|cbn in H; discriminate].
    destruct (RelayModel.decode_arg Cu decode (RelayModel.a_before ar) RelayModel.EInvalidBefore) as [bf|e]; [|cbn in H; discriminate].
    set (limit := match RelayModel.a_first ar with
                  | Some first => RelayModel.Ret (first + 1)
                  | None => match RelayModel.a_last ar with
                            | Some last => RelayModel.Ret (- (last + 1))
                            | None => RelayModel.Panic
                            end
                  end) in H.
    destruct limit as [lim|]; [|cbn in H; discriminate].
    destruct ((lim =? 1) || (lim =? -1)).
    - (* no edges *)
      cbn in H. inversion H; subst. unfold RelayModel.len. cbn [length]. lia.
    - cbn [fst snd] in H.
      set (got := fst (if RelayModel.app_has_all a
                       then (RelayModel.app_all a, [])
                       else (RelayModel.app_edges a af bf lim,
                             [{| RelayModel.k_after := af; RelayModel.k_before := bf; RelayModel.k_limit := lim |}]))) in H.
      destruct got as [es|e]; [|cbn in H; discriminate].
      unfold RelayModel.complete_connection in H.
      destruct es as [l|p].
      + destruct (RelayModel.complete_now Cu Ed ltb cur encode a ar bf af l) as [c|e] eqn:Cn; [|cbn in H; discriminate].
        cbn in H. inversion H; subst. eapply complete_now_len; eassumption.
      + cbn [fst RelayModel.await] in H. destruct p as [l|e]; [|cbn in H; discriminate].
        cbn [RelayModel.chain] in H.
        destruct (RelayModel.complete_now Cu Ed ltb cur encode a ar bf af l) as [c|e] eqn:Cn; [|discriminate].
        inversion H; subst. eapply complete_now_len; eassumption.
  Qed.

  (** ** edges resolved <= multiplier charged.  [first] / [last]: the coerced arguments as the cost
      function and the resolver see them ([ar] is their reading by the resolver). *)
  Theorem connection_edges_le_multiplier_relay (U : Type) (a : RelayModel.app Cu Ed) ar
          (first last : argval) (ctx : kctx U) page pi total :
    RelayModel.a_first ar = count_of first -> RelayModel.a_last ar = count_of last ->
    RelayModel.serve Cu Ed ltb cur encode decode a ar = RelayModel.RData page pi total ->
    exists ctx' fc,
      fc_ctx (default_connection_cost first last ctx) = Some ctx' /\
      edges_cost ctx' = Some fc /\
      fc_r fc = 0 /\ 0 <= fc_m fc /\
      len page <= fc_m fc /\ len page <= eff (fc_m fc).
  Proof.
    intros Hf Hl H.
    destruct (served_page_within_count a ar page pi total H) as (n & Hn & Hcase & Hlen).
    assert (Heff : forall m, 0 <= m -> m <= eff m) by (intros m Hm; unfold eff; destruct (m =? 0) eqn:Q; [apply Z.eqb_eq in Q; lia|lia]).
    destruct Hcase as [[Ef El]|[Ef El]]; rewrite Hf in Ef; rewrite Hl in El.
    - (* first = n, last is not an int *)
      destruct first as [| |f]; try discriminate. cbn [count_of] in Ef. inversion Ef; subst f.
      destruct last as [| |l]; try discriminate;
        (eexists; eexists; split; [reflexivity|]; split; [reflexivity|];
         cbn [fc_r fc_m]; repeat split; try assumption; try lia;
         eapply Z.le_trans; [exact Hlen|apply Heff; exact Hn]).
    - (* last = n, first is not an int *)
      destruct last as [| |l]; try discriminate. cbn [count_of] in El. inversion El; subst l.
      destruct first as [| |f]; try discriminate;
        (eexists; eexists; split; [reflexivity|]; split; [reflexivity|];
         cbn [fc_r fc_m]; repeat split; try assumption; try lia;
         eapply Z.le_trans; [exact Hlen|apply Heff; exact Hn]).
  Qed.

  (** the model of the edge count used by the correspondence check ([connection_edge_count]) says
      exactly which requests are accepted: the same ones as C09's [check_counts] *)
  Theorem connection_edge_count_accepts first last n :
    (exists k, connection_edge_count first last n = Some k) <->
    RelayModel.check_counts {| RelayModel.a_first := count_of first; RelayModel.a_last := count_of last;
                               RelayModel.a_after := None; RelayModel.a_before := None |} = None.
  Proof.
    unfold connection_edge_count, RelayModel.check_counts. cbn [RelayModel.a_first RelayModel.a_last].
    destruct first as [| |f]; destruct last as [| |l]; cbn [count_of];
      try (destruct (f <? 0)); try (destruct (l <? 0));
      split; intro H; try discriminate; try (destruct H as [k H]; discriminate);
      try reflexivity; eexists; reflexivity.
  Qed.
End Relay.
