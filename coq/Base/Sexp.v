(** * Base/Sexp.v — the exchange format between the Go harness and the models.

    One case per line.  The OCaml driver (ocaml/driver.ml) is generic: it only reads a line into
    this type, calls the extracted [check : sexp -> sexp] of the property, and prints the result.
    All decoding of cases into model inputs is written here in Gallina (so it is the same code
    when a sample of the cases is re-evaluated inside Coq with [vm_compute]). *)
From Coq Require Import List NArith ZArith String Ascii Bool.
Import ListNotations.
Open Scope string_scope.

Inductive sexp :=
| SZ (z : Z)
| SSym (s : string)
| SStr (b : list N)          (* a byte string *)
| SL (l : list sexp).

Definition bytes := list N.

(** ** Decoding helpers (all total, [option]-valued) *)

Definition as_Z (s : sexp) : option Z := match s with SZ z => Some z | _ => None end.
Definition as_N (s : sexp) : option N :=
  match s with SZ z => if Z.ltb z 0 then None else Some (Z.to_N z) | _ => None end.
Definition as_nat (s : sexp) : option nat :=
  match as_N s with Some n => Some (N.to_nat n) | None => None end.
Definition as_bytes (s : sexp) : option bytes := match s with SStr b => Some b | _ => None end.
Definition as_sym (s : sexp) : option string := match s with SSym x => Some x | _ => None end.
Definition as_list (s : sexp) : option (list sexp) := match s with SL l => Some l | _ => None end.
Definition as_bool (s : sexp) : option bool :=
  match s with
  | SSym x => if String.eqb x "true" then Some true else if String.eqb x "false" then Some false else None
  | _ => None
  end.

Definition is_sym (x : string) (s : sexp) : bool :=
  match s with SSym y => String.eqb x y | _ => false end.

(** [(tag a b c)] -> [Some [a;b;c]] when the head symbol is [tag]. *)
Definition tagged (tag : string) (s : sexp) : option (list sexp) :=
  match s with
  | SL (SSym t :: args) => if String.eqb t tag then Some args else None
  | _ => None
  end.

(** head symbol and arguments of a tagged list *)
Definition untag (s : sexp) : option (string * list sexp) :=
  match s with
  | SL (SSym t :: args) => Some (t, args)
  | SSym t => Some (t, [])
  | _ => None
  end.

Fixpoint map_opt {A B} (f : A -> option B) (l : list A) : option (list B) :=
  match l with
  | [] => Some []
  | x :: xs => match f x, map_opt f xs with
               | Some y, Some ys => Some (y :: ys)
               | _, _ => None
               end
  end.

Definition as_list_of {A} (f : sexp -> option A) (s : sexp) : option (list A) :=
  match s with SL l => map_opt f l | _ => None end.

(** [(none)] / [(some x)] *)
Definition as_option {A} (f : sexp -> option A) (s : sexp) : option (option A) :=
  match s with
  | SL [SSym t] => if String.eqb t "none" then Some None else None
  | SSym t => if String.eqb t "none" then Some None else None
  | SL [SSym t; x] => if String.eqb t "some" then
                        match f x with Some y => Some (Some y) | None => None end
                      else None
  | _ => None
  end.

(** association-list lookup of [(key v...)] entries inside a record-like list *)
Fixpoint field (k : string) (l : list sexp) : option (list sexp) :=
  match l with
  | [] => None
  | x :: xs => match tagged k x with Some a => Some a | None => field k xs end
  end.

Definition field1 (k : string) (l : list sexp) : option sexp :=
  match field k l with Some [x] => Some x | _ => None end.

(** ** Encoding helpers *)
Definition of_bool (b : bool) : sexp := SSym (if b then "true" else "false").
Definition of_N (n : N) : sexp := SZ (Z.of_N n).
Definition of_nat (n : nat) : sexp := SZ (Z.of_nat n).
Definition of_option {A} (f : A -> sexp) (o : option A) : sexp :=
  match o with None => SL [SSym "none"] | Some x => SL [SSym "some"; f x] end.
Definition of_list {A} (f : A -> sexp) (l : list A) : sexp := SL (map f l).
Definition tag (t : string) (args : list sexp) : sexp := SL (SSym t :: args).

(** ** Verdicts returned by every property's [check] *)
(** [(ok class ...)]           model and implementation agree (modulo the property's equivalence)
                               and the Spec oracle accepts the implementation's output;
                               the classes describe which branches the case reached (for evidence)
    [(mismatch what ...)]      model and implementation differ on the compared observable
    [(oracle-fail key ...)]    the implementation's output violates the Spec on this case
    [(bad-case why)]           the case line could not be decoded (a harness bug) *)
Definition v_ok (classes : list string) : sexp := tag "ok" (map SSym classes).
Definition v_mismatch (what : string) (details : list sexp) : sexp := tag "mismatch" (SSym what :: details).
Definition v_oracle_fail (key : string) (details : list sexp) : sexp := tag "oracle-fail" (SSym key :: details).
Definition v_bad (why : string) : sexp := tag "bad-case" [SSym why].

(** decidable equality on byte strings and sexps *)
Fixpoint bytes_eqb (a b : bytes) : bool :=
  match a, b with
  | [], [] => true
  | x :: xs, y :: ys => N.eqb x y && bytes_eqb xs ys
  | _, _ => false
  end.

Lemma bytes_eqb_eq a b : bytes_eqb a b = true <-> a = b.
Proof.
  revert b; induction a as [|x xs IH]; intros [|y ys]; simpl; split; intro H; try congruence; try discriminate.
  - apply andb_true_iff in H as [H1 H2]. apply N.eqb_eq in H1. apply IH in H2. congruence.
  - inversion H; subst. apply andb_true_iff; split; [apply N.eqb_refl | apply IH; reflexivity].
Qed.

Lemma bytes_eqb_refl a : bytes_eqb a a = true.
Proof. apply bytes_eqb_eq; reflexivity. Qed.

Fixpoint sexp_eqb (a b : sexp) : bool :=
  match a, b with
  | SZ x, SZ y => Z.eqb x y
  | SSym x, SSym y => String.eqb x y
  | SStr x, SStr y => bytes_eqb x y
  | SL x, SL y =>
      (fix go (x y : list sexp) : bool :=
         match x, y with
         | [], [] => true
         | p :: ps, q :: qs => sexp_eqb p q && go ps qs
         | _, _ => false
         end) x y
  | _, _ => false
  end.
