(** non-vacuity for C03's glue theorems: concrete stage verdicts meeting the hypotheses *)
From Coq Require Import List.
From ApiFu Require Import Pipe.PipelineModel Pipe.PipelineProofs.

Example executed_with_field_error :
  no_crash (Returned 0 : parse_out) /\ no_crash (Returned 0 : validate_out) /\
  no_crash (Returned (true, 1) : exec_out) /\ exec_contract (Returned (true, 1)) /\
  execute (Returned 0) (Returned 0) (Returned (true, 1)) =
    Resp {| has_data := true; data_null := true; nerrors := 1 |}.
Proof. repeat split. Qed.

Example contract_excludes_silent_null : ~ exec_contract (Returned (true, 0)).
Proof. intro H; exact H. Qed.
