(** non-vacuity for C03: the composed model run from BYTES on a concrete schema (both encodings),
    reaching every outcome the theorems speak about; then the round-1 glue examples. *)
From Coq Require Import List NArith ZArith Bool String.
From ApiFu Require Import Base.Sexp.
From ApiFu Require Syn.Ast Vld.Ast Val.Values ExeA.ArgData ExeA.ArgArgs ExeA.ArgModel ExeA.ArgSpec ExeA.ArgHyps.
From ApiFu Require Vld.ValidatorModel Pipe.CostCompose Pipe.SubscribeCompose Pipe.InvariantProofs Pipe.InvariantBridge Pipe.TextBound Pipe.Corollaries.
From ApiFu Require Import Pipe.PipelineModel Pipe.PipelineProofs Pipe.Convert Pipe.Compose Pipe.SchemaAgree Pipe.ComposeProofs Pipe.ComposeCheck.
Import ListNotations.
Open Scope string_scope.

Definition n (s : string) : bytes := Vld.Ast.bs s.

(** type Query { i: Int  nn: Int!  x: Float  o: Obj  f(k: Int = 5): Int }  type Obj { i: Int }
    directive @skip(if: Boolean!), @include(if: Boolean!) on FIELD | FRAGMENT_SPREAD | INLINE_FRAGMENT *)
Definition vfd (t : Vld.Ast.sty) : Vld.Ast.field_def := {| Vld.Ast.f_type := t; Vld.Ast.f_args := []; Vld.Ast.f_req := [] |}.
Definition vty (b : Vld.Ast.type_body) : Vld.Ast.type_def := {| Vld.Ast.t_req := []; Vld.Ast.t_body := b |}.
Definition if_arg : list (Vld.Ast.name * Vld.Ast.input_def) :=
  [(n "if", {| Vld.Ast.in_type := Vld.Ast.StNonNull (Vld.Ast.StNamed (n "Boolean")); Vld.Ast.in_default := Vld.Ast.DNone |})].
Definition cond_dir : Vld.Ast.dir_def :=
  {| Vld.Ast.dd_args := if_arg; Vld.Ast.dd_locs := [Vld.Ast.LField; Vld.Ast.LFragmentSpread; Vld.Ast.LInlineFragment] |}.

Definition ex_VS : Vld.Ast.schema :=
  {| Vld.Ast.s_types :=
       [ (n "Int", vty (Vld.Ast.TScalar Vld.Ast.SInt)); (n "Float", vty (Vld.Ast.TScalar Vld.Ast.SFloat));
         (n "String", vty (Vld.Ast.TScalar Vld.Ast.SString)); (n "Boolean", vty (Vld.Ast.TScalar Vld.Ast.SBoolean));
         (n "Query", vty (Vld.Ast.TObject [ (n "i", vfd (Vld.Ast.StNamed (n "Int")));
                                            (n "nn", vfd (Vld.Ast.StNonNull (Vld.Ast.StNamed (n "Int"))));
                                            (n "x", vfd (Vld.Ast.StNamed (n "Float")));
                                            (n "o", vfd (Vld.Ast.StNamed (n "Obj")));
                                            (n "f", {| Vld.Ast.f_type := Vld.Ast.StNamed (n "Int");
                                                       Vld.Ast.f_args := [(n "k", {| Vld.Ast.in_type := Vld.Ast.StNamed (n "Int"); Vld.Ast.in_default := Vld.Ast.DValue |})];
                                                       Vld.Ast.f_req := [] |}) ] []));
         (n "Obj", vty (Vld.Ast.TObject [ (n "i", vfd (Vld.Ast.StNamed (n "Int"))) ] [])) ];
     Vld.Ast.s_query := n "Query"; Vld.Ast.s_mutation := None; Vld.Ast.s_subscription := None;
     Vld.Ast.s_directives := [ (n "skip", cond_dir); (n "include", cond_dir) ];
     Vld.Ast.s_meta := []; Vld.Ast.s_impls := [] |}.

Definition ex_ES : ExeA.ArgData.schema :=
  {| ExeA.ArgData.types :=
       [ (n "Int", ExeA.ArgData.NScalar ExeA.ArgData.KInt); (n "Float", ExeA.ArgData.NScalar ExeA.ArgData.KFloat);
         (n "String", ExeA.ArgData.NScalar ExeA.ArgData.KString); (n "Boolean", ExeA.ArgData.NScalar ExeA.ArgData.KBoolean);
         (n "Query", ExeA.ArgData.NObject [ (n "i", ExeA.ArgData.StNamed (n "Int"));
                                            (n "nn", ExeA.ArgData.StNonNull (ExeA.ArgData.StNamed (n "Int")));
                                            (n "x", ExeA.ArgData.StNamed (n "Float"));
                                            (n "o", ExeA.ArgData.StNamed (n "Obj"));
                                            (n "f", ExeA.ArgData.StNamed (n "Int")) ] []);
         (n "Obj", ExeA.ArgData.NObject [ (n "i", ExeA.ArgData.StNamed (n "Int")) ] []) ];
     ExeA.ArgData.query := n "Query"; ExeA.ArgData.mutation := None; ExeA.ArgData.subscription := None;
     ExeA.ArgData.s_inputs := [ (n "Boolean", Val.Values.TScalar Val.Values.KBoolean); (n "Float", Val.Values.TScalar Val.Values.KFloat);
                                (n "Int", Val.Values.TScalar Val.Values.KInt); (n "String", Val.Values.TScalar Val.Values.KString) ];
     ExeA.ArgData.s_dt := [];
     ExeA.ArgData.s_argdefs := [ (n "Query", [ (n "f", [ (n "k", {| Val.Values.in_type := Val.Values.StNamed (n "Int");
                                                                      Val.Values.in_default := Some (Val.Values.GInt 5) |}) ]) ]) ] |}.

Example ex_schema_hypothesis : schema_accepted ex_ES = true.
Proof. vm_compute. reflexivity. Qed.
(** the schema hypotheses of C03_pipeline_response are satisfiable *)
Example ex_es_wf : es_wf ex_ES = true. Proof. vm_compute. reflexivity. Qed.
Example ex_vschema_wf : Pipe.InvariantBridge.vschema_wf ex_VS = true. Proof. vm_compute. reflexivity. Qed.
Example ex_cost_schema_accepted : Pipe.CostCompose.cost_schema_accepted ex_ES = true. Proof. vm_compute. reflexivity. Qed.
Example ex_schemas_agree : schemas_agree ex_VS ex_ES = true.
Proof. vm_compute. reflexivity. Qed.

Definition int_ (z : Z) : ExeA.ArgData.outcome := ExeA.ArgData.OLeaf (ExeA.ArgData.GInt ExeA.ArgData.IInt z).
(** the root value: i = 7, nn resolves to nil, x = NaN, o = an Obj with i = 8 *)
Definition ex_W : ExeA.ArgData.outcome :=
  ExeA.ArgData.OObj (n "Query")
    [ (n "i", int_ 7); (n "nn", ExeA.ArgData.ONil);
      (n "x", ExeA.ArgData.OLeaf (ExeA.ArgData.GF64 ExeA.ArgData.NaN));
      (n "o", ExeA.ArgData.OObj (n "Obj") [ (n "i", int_ 8) ]);
      (ExeA.ArgArgs.field_key (n "f") [(n "k", Val.Values.GInt 5)], int_ 50);
      (ExeA.ArgArgs.field_key (n "f") [(n "k", Val.Values.GInt 2)], int_ 20) ].

Definition run_ex (q : string) (op : string) (raw : list (ExeA.ArgData.name * Val.Values.jval)) : presult :=
  pipeline_model ex_VS [] ex_ES (n q) (n op) raw ex_W.

(** executed with data, fragments and a variable condition included *)
Example ex_executed :
  run_ex "query Q($b: Boolean!) { i ...F o @include(if: $b) { i } } fragment F on Query { j: i @skip(if: false) }" ""
         [(n "b", Val.Values.JBool true)]
  = PExecuted (Some (ExeA.ArgData.JObj [ (n "i", ExeA.ArgData.JInt 7); (n "j", ExeA.ArgData.JInt 7);
                                         (n "o", ExeA.ArgData.JObj [ (n "i", ExeA.ArgData.JInt 8) ]) ])) [].
Proof. vm_compute. reflexivity. Qed.

(** a NaN result never reaches the data: null and an error instead (defect 7 repaired) *)
Example ex_nan_is_error :
  exists e, run_ex "{ i x }" "" []
            = PExecuted (Some (ExeA.ArgData.JObj [ (n "i", ExeA.ArgData.JInt 7); (n "x", ExeA.ArgData.JNull) ])) [e].
Proof. eexists. vm_compute. reflexivity. Qed.

(** a null at a non-null root field: no data, one error *)
Example ex_null_data : exists e, run_ex "{ i nn }" "" [] = PExecuted None [e].
Proof. eexists. vm_compute. reflexivity. Qed.

(** syntax error: the text ends inside the selection set; unknown field; unknown operation name;
    variable coercion refused *)
Example ex_syntax : exists e, run_ex "{ i o { i }" "" [] = PSyntax e [].
Proof. eexists. vm_compute. reflexivity. Qed.
Example ex_bytes_garbage : exists e es, pipeline_model ex_VS [] ex_ES [255; 0; 34; 123]%N [] [] ex_W = PSyntax e es.
Proof. eexists. eexists. vm_compute. reflexivity. Qed.
Example ex_invalid : exists e, run_ex "{ i zz }" "" [] = PInvalid e [].
Proof. eexists. vm_compute. reflexivity. Qed.
Example ex_leaf_selection_invalid : exists e es, run_ex "{ i { i } o }" "" [] = PInvalid e es.
Proof. eexists. eexists. vm_compute. reflexivity. Qed.
Example ex_no_operation : exists e, run_ex "query A { i } query B { nn }" "C" [] = PExecuted None [e].
Proof. eexists. vm_compute. reflexivity. Qed.
(** a required variable without value, a value of the wrong kind: CoerceVariableValues refuses *)
Example ex_vars_rejected : exists e, run_ex "query A($b: Boolean!) { i @skip(if: $b) }" "" [] = PExecuted None [e].
Proof. eexists. vm_compute. reflexivity. Qed.
Example ex_vars_rejected_kind :
  exists e, run_ex "query A($b: Boolean!) { i @skip(if: $b) }" "" [(n "b", Val.Values.JStr (n "yes"))] = PExecuted None [e].
Proof. eexists. vm_compute. reflexivity. Qed.

(** field arguments: a literal, the default, a variable (coerced from a JSON number) *)
Example ex_arguments :
  run_ex "query A($k: Int) { a: f(k: 2) b: f c: f(k: $k) }" "" [(n "k", Val.Values.JNum (Val.Values.F64 2 0))]
  = PExecuted (Some (ExeA.ArgData.JObj [ (n "a", ExeA.ArgData.JInt 20); (n "b", ExeA.ArgData.JInt 50); (n "c", ExeA.ArgData.JInt 20) ])) [].
Proof. vm_compute. reflexivity. Qed.

(** a nullable variable with a default, explicitly null: the condition has no boolean value; the
    selection is left out with an error (C01's dirs-free theorems cover the request) *)
Example ex_unevaluable :
  exists data e es, run_ex "query A($b: Boolean = true) { i @skip(if: $b) nn }" "" [(n "b", Val.Values.JNull)]
                    = PExecuted data (e :: es).
Proof. eexists. eexists. eexists. vm_compute. reflexivity. Qed.

(** the hypothesis of C03_pipeline_total is satisfiable, and its conclusion is the first disjunct *)
Example ex_total_instance :
  is_response (run_ex "{ i o { i } }" "" []) = true /\
  data_or_errors_p (run_ex "{ i nn }" "" []) = true /\
  serialisable_p (run_ex "{ i x }" "" []) = true.
Proof. vm_compute. auto. Qed.

(** the stage-contract check is a real check: the executor encoding of a DIFFERENT schema (Obj
    without its field) makes the validated document fail [doc_ok] *)
Definition ex_ES_wrong : ExeA.ArgData.schema :=
  {| ExeA.ArgData.types :=
       [ (n "Int", ExeA.ArgData.NScalar ExeA.ArgData.KInt);
         (n "Query", ExeA.ArgData.NObject [ (n "i", ExeA.ArgData.StNamed (n "Int")); (n "o", ExeA.ArgData.StNamed (n "Obj")) ] []);
         (n "Obj", ExeA.ArgData.NObject [] []) ];
     ExeA.ArgData.query := n "Query"; ExeA.ArgData.mutation := None; ExeA.ArgData.subscription := None;
     ExeA.ArgData.s_inputs := []; ExeA.ArgData.s_dt := []; ExeA.ArgData.s_argdefs := [] |}.
Example ex_contract_broken :
  pipeline_model ex_VS [] ex_ES_wrong (n "{ o { i } }") [] [] ex_W = PContractBroken CDocOk /\
  schemas_agree ex_VS ex_ES_wrong = false.
Proof. vm_compute. auto. Qed.

(** ** the cost rule inside the composition: three fields at default cost 1; the same under a limit
    of 2 is refused; introspection fields cost nothing; a syntax error stays one *)
Example ex_cost_schema : Pipe.CostCompose.cost_schema_accepted ex_ES = true.
Proof. vm_compute. reflexivity. Qed.
Definition cost_ex (q : string) (r max : Z) : Pipe.CostCompose.cost_front :=
  Pipe.CostCompose.parse_validate_cost Vld.ValidatorModel.id_order ex_VS [] ex_ES (n q) [] [] r max.
Example ex_cost_accepted : cost_ex "{ i o { i } }" 1 (-1) = Pipe.CostCompose.CAccepted 3.
Proof. vm_compute. reflexivity. Qed.
Example ex_cost_fragment : cost_ex "{ ...F ...F } fragment F on Query { i x }" 2 100 = Pipe.CostCompose.CAccepted 8.
Proof. vm_compute. reflexivity. Qed.
Example ex_cost_exceeded : cost_ex "{ i o { i } }" 1 2 = Pipe.CostCompose.CInvalid.
Proof. vm_compute. reflexivity. Qed.
Example ex_cost_typename_free : cost_ex "{ __typename i }" 1 (-1) = Pipe.CostCompose.CAccepted 1.
Proof. vm_compute. reflexivity. Qed.
Example ex_cost_syntax : cost_ex "{ i o { i }" 1 (-1) = Pipe.CostCompose.CSyntax.
Proof. vm_compute. reflexivity. Qed.

(** ** graphql.Subscribe inside the composition: the same schema with Query also as the subscription root *)
Definition ex_VS_sub : Vld.Ast.schema :=
  {| Vld.Ast.s_types := Vld.Ast.s_types ex_VS; Vld.Ast.s_query := n "Query"; Vld.Ast.s_mutation := None;
     Vld.Ast.s_subscription := Some (n "Query"); Vld.Ast.s_directives := Vld.Ast.s_directives ex_VS;
     Vld.Ast.s_meta := []; Vld.Ast.s_impls := [] |}.
Definition ex_ES_sub : ExeA.ArgData.schema :=
  {| ExeA.ArgData.types := ExeA.ArgData.types ex_ES; ExeA.ArgData.query := n "Query"; ExeA.ArgData.mutation := None;
     ExeA.ArgData.subscription := Some (n "Query");
     ExeA.ArgData.s_inputs := ExeA.ArgData.s_inputs ex_ES; ExeA.ArgData.s_dt := ExeA.ArgData.s_dt ex_ES;
     ExeA.ArgData.s_argdefs := ExeA.ArgData.s_argdefs ex_ES |}.
Definition sub_ex (q : string) (raw : list (ExeA.ArgData.name * Val.Values.jval)) : Pipe.SubscribeCompose.sub_result :=
  Pipe.SubscribeCompose.subscribe_model ex_VS_sub [] ex_ES_sub (n q) [] raw ex_W.
Example ex_sub_source : sub_ex "subscription { f(k: 2) }" [] = Pipe.SubscribeCompose.SubSource (int_ 20).
Proof. vm_compute. reflexivity. Qed.
Example ex_sub_no_outcome : sub_ex "subscription { f(k: 3) }" [] = Pipe.SubscribeCompose.SubError [ExeA.ArgData.PKey (n "f")].
Proof. vm_compute. reflexivity. Qed.
Example ex_sub_empty_set : sub_ex "subscription { i @skip(if: true) }" [] = Pipe.SubscribeCompose.SubError [].
Proof. vm_compute. reflexivity. Qed.
Example ex_sub_not_a_subscription : sub_ex "{ i }" [] = Pipe.SubscribeCompose.SubError [].
Proof. vm_compute. reflexivity. Qed.
Example ex_sub_invalid : exists e es, sub_ex "subscription { i nn }" [] = Pipe.SubscribeCompose.SubInvalid e es.
Proof. eexists. eexists. vm_compute. reflexivity. Qed.
(** one event of the same subscription, through Execute *)
Example ex_sub_event :
  pipeline_model ex_VS_sub [] ex_ES_sub (n "subscription { f(k: 2) }") [] [] ex_W
  = PExecuted (Some (ExeA.ArgData.JObj [ (n "f", ExeA.ArgData.JInt 20) ])) [].
Proof. vm_compute. reflexivity. Qed.

(** the whole subscription: two events — the world of the examples, and an event without the field's
    entry (the resolver fails: a null with an error) *)
Example ex_subscribe_pipeline :
  exists r2,
  Pipe.Corollaries.subscribe_pipeline Vld.ValidatorModel.id_order ex_VS_sub [] ex_ES_sub (n "subscription { f(k: 2) }") [] [] ex_W
                                      [ex_W; ExeA.ArgData.OObj (n "Query") []]
  = Pipe.Corollaries.SPStream (int_ 20) [PExecuted (Some (ExeA.ArgData.JObj [ (n "f", ExeA.ArgData.JInt 20) ])) []; r2]
  /\ Pipe.Corollaries.event_ok r2 = true.
Proof. eexists. split; vm_compute; reflexivity. Qed.
Example ex_subscribe_pipeline_refused :
  Pipe.Corollaries.subscribe_pipeline Vld.ValidatorModel.id_order ex_VS_sub [] ex_ES_sub (n "{ i }") [] [] ex_W [ex_W]
  = Pipe.Corollaries.SPRefused (Pipe.SubscribeCompose.SubError []).
Proof. vm_compute. reflexivity. Qed.

(** the length bound of C03_pipeline_response is satisfiable, and the glue over the composed stages
    computes *)
Example ex_text_short : Pipe.TextBound.text_short (n "{ i o { i } }").
Proof. vm_compute. reflexivity. Qed.
Example ex_glue_composed :
  execute (Pipe.Corollaries.parse_verdict (n "{ i nn }"))
          (Pipe.Corollaries.validate_verdict Vld.ValidatorModel.id_order ex_VS [] (n "{ i nn }"))
          (Pipe.Corollaries.exec_verdict Vld.ValidatorModel.id_order ex_VS [] ex_ES (n "{ i nn }") [] [] ex_W)
  = Resp {| has_data := true; data_null := true; nerrors := 1 |}      (* nn: nil at a non-null type *)
  /\ Pipe.Corollaries.parse_verdict (n "{ i ") = Returned 1%nat.
Proof. split; vm_compute; reflexivity. Qed.

(** ** round 1: the glue over stage verdicts *)
Example executed_with_field_error :
  no_crash (Returned 0 : parse_out) /\ no_crash (Returned 0 : validate_out) /\
  no_crash (Returned (true, 1) : exec_out) /\ exec_contract (Returned (true, 1)) /\
  execute (Returned 0) (Returned 0) (Returned (true, 1)) =
    Resp {| has_data := true; data_null := true; nerrors := 1 |}.
Proof. repeat split. Qed.

Example contract_excludes_silent_null : ~ exec_contract (Returned (true, 0)).
Proof. intro H; exact H. Qed.

(** the hypotheses of C03_validated_type_conditions_composite are satisfiable (an accepted text
    with fragment and inline type conditions), and a text with a type condition on a scalar is
    rejected by the front half before the executor could panic on it *)
Example ex_conds_instance :
  exists d o,
    parse_and_validate_bytes ex_VS [] (n "{ ...F o { ... on Obj { i } } } fragment F on Query { i }") = FAccepted d /\
    ExeA.ArgModel.get_operation (exe_of_syn d) [] = ExeA.ArgModel.GOp o /\
    ExeA.ArgHyps.dirs_evaluable (ExeA.ArgData.doc_of (exe_of_syn d) o []) [] = true /\
    ExeA.ArgSpec.conds_ok ex_ES (ExeA.ArgData.doc_of (exe_of_syn d) o []) [] = true.
Proof. eexists. eexists. split; [vm_compute; reflexivity|]. split; [vm_compute; reflexivity|]. split; vm_compute; reflexivity. Qed.

Example ex_scalar_condition_rejected :
  exists e es, run_ex "{ i ... on Int { i } }" "" [] = PInvalid e es.
Proof. eexists. eexists. vm_compute. reflexivity. Qed.

(** [es_wf] is a real check: an object type whose field is covariant with the field of the interface
    it declares passes; one whose field returns a type that is not a possible type of the
    interface's field type does not (ObjectType.satisfyInterface refuses such a schema) *)
Definition ex_ES_iface (child_of_A : string) : ExeA.ArgData.schema :=
  {| ExeA.ArgData.types :=
       [ (n "Int", ExeA.ArgData.NScalar ExeA.ArgData.KInt);
         (n "Query", ExeA.ArgData.NObject [ (n "node", ExeA.ArgData.StNamed (n "Node")) ] []);
         (n "Node", ExeA.ArgData.NInterface [ (n "child", ExeA.ArgData.StNamed (n "Node")) ]);
         (n "A", ExeA.ArgData.NObject [ (n "child", ExeA.ArgData.StNamed (n child_of_A)) ] [n "Node"]);
         (n "B", ExeA.ArgData.NObject [ (n "i", ExeA.ArgData.StNamed (n "Int")) ] []) ];
     ExeA.ArgData.query := n "Query"; ExeA.ArgData.mutation := None; ExeA.ArgData.subscription := None;
     ExeA.ArgData.s_inputs := []; ExeA.ArgData.s_dt := []; ExeA.ArgData.s_argdefs := [] |}.
Example ex_es_wf_covariant : es_wf (ex_ES_iface "A") = true /\ es_wf (ex_ES_iface "Node") = true.
Proof. split; vm_compute; reflexivity. Qed.
Example ex_es_wf_not_covariant : es_wf (ex_ES_iface "B") = false.
Proof. vm_compute. reflexivity. Qed.
