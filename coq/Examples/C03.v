(** non-vacuity for C03: the composed model run from BYTES on a concrete schema (both encodings),
    reaching every outcome the theorems speak about; then the round-1 glue examples. *)
From Coq Require Import List NArith ZArith Bool String.
From ApiFu Require Import Base.Sexp.
From ApiFu Require Syn.Ast Vld.Ast Exe.ExecData Exe.ExecModel Exe.ExecSpec Exe.ExecHyps.
From ApiFu Require Import Pipe.PipelineModel Pipe.PipelineProofs Pipe.Convert Pipe.Compose Pipe.SchemaAgree Pipe.ComposeProofs Pipe.ComposeCheck.
Import ListNotations.
Open Scope string_scope.

Definition n (s : string) : bytes := Vld.Ast.bs s.

(** type Query { i: Int  nn: Int!  x: Float  o: Obj }  type Obj { i: Int }
    directive @skip(if: Boolean!), @include(if: Boolean!) on FIELD | FRAGMENT_SPREAD | INLINE_FRAGMENT *)
Definition vfd (t : Vld.Ast.sty) : Vld.Ast.field_def := {| Vld.Ast.f_type := t; Vld.Ast.f_args := []; Vld.Ast.f_req := [] |}.
Definition vty (b : Vld.Ast.type_body) : Vld.Ast.type_def := {| Vld.Ast.t_req := []; Vld.Ast.t_body := b |}.
Definition if_arg : list (Vld.Ast.name * Vld.Ast.input_def) :=
  [(n "if", {| Vld.Ast.in_type := Vld.Ast.StNonNull (Vld.Ast.StNamed (n "Boolean")); Vld.Ast.in_default := Vld.Ast.DNone |})].
Definition cond_dir : Vld.Ast.dir_def :=
  {| Vld.Ast.dd_args := if_arg; Vld.Ast.dd_locs := [Vld.Ast.LField; Vld.Ast.LFragmentSpread; Vld.Ast.LInlineFragment] |}.

Definition ex_VS : Vld.Ast.schema :=
  {| Vld.Ast.s_types :=
       [ (n "Int", vty (Vld.Ast.TScalar Vld.Ast.SInt)); (n "Float", vty (Vld.Ast.TScalar Vld.Ast.SFloat));
         (n "String", vty (Vld.Ast.TScalar Vld.Ast.SString)); (n "Boolean", vty (Vld.Ast.TScalar Vld.Ast.SBoolean));
         (n "Query", vty (Vld.Ast.TObject [ (n "i", vfd (Vld.Ast.StNamed (n "Int")));
                                            (n "nn", vfd (Vld.Ast.StNonNull (Vld.Ast.StNamed (n "Int"))));
                                            (n "x", vfd (Vld.Ast.StNamed (n "Float")));
                                            (n "o", vfd (Vld.Ast.StNamed (n "Obj"))) ] []));
         (n "Obj", vty (Vld.Ast.TObject [ (n "i", vfd (Vld.Ast.StNamed (n "Int"))) ] [])) ];
     Vld.Ast.s_query := n "Query"; Vld.Ast.s_mutation := None; Vld.Ast.s_subscription := None;
     Vld.Ast.s_directives := [ (n "skip", cond_dir); (n "include", cond_dir) ];
     Vld.Ast.s_meta := []; Vld.Ast.s_impls := [] |}.

Definition ex_ES : Exe.ExecData.schema :=
  {| Exe.ExecData.types :=
       [ (n "Int", Exe.ExecData.NScalar Exe.ExecData.KInt); (n "Float", Exe.ExecData.NScalar Exe.ExecData.KFloat);
         (n "String", Exe.ExecData.NScalar Exe.ExecData.KString); (n "Boolean", Exe.ExecData.NScalar Exe.ExecData.KBoolean);
         (n "Query", Exe.ExecData.NObject [ (n "i", Exe.ExecData.StNamed (n "Int"));
                                            (n "nn", Exe.ExecData.StNonNull (Exe.ExecData.StNamed (n "Int")));
                                            (n "x", Exe.ExecData.StNamed (n "Float"));
                                            (n "o", Exe.ExecData.StNamed (n "Obj")) ] []);
         (n "Obj", Exe.ExecData.NObject [ (n "i", Exe.ExecData.StNamed (n "Int")) ] []) ];
     Exe.ExecData.query := n "Query"; Exe.ExecData.mutation := None; Exe.ExecData.subscription := None |}.

Example ex_schema_hypothesis : Exe.ExecHyps.type_names_okb ex_ES = true.
Proof. vm_compute. reflexivity. Qed.
Example ex_schemas_agree : schemas_agree ex_VS ex_ES = true.
Proof. vm_compute. reflexivity. Qed.

Definition int_ (z : Z) : Exe.ExecData.outcome := Exe.ExecData.OLeaf (Exe.ExecData.GInt Exe.ExecData.IInt z).
(** the root value: i = 7, nn resolves to nil, x = NaN, o = an Obj with i = 8 *)
Definition ex_W : Exe.ExecData.outcome :=
  Exe.ExecData.OObj (n "Query")
    [ (n "i", int_ 7); (n "nn", Exe.ExecData.ONil);
      (n "x", Exe.ExecData.OLeaf (Exe.ExecData.GF64 Exe.ExecData.NaN));
      (n "o", Exe.ExecData.OObj (n "Obj") [ (n "i", int_ 8) ]) ].

Definition run_ex (q : string) (op : string) (VE : option Exe.ExecData.env) : presult :=
  pipeline_model ex_VS [] ex_ES (n q) (n op) VE ex_W.

(** executed with data, fragments and a variable condition included *)
Example ex_executed :
  run_ex "query Q($b: Boolean!) { i ...F o @include(if: $b) { i } } fragment F on Query { j: i @skip(if: false) }" ""
         (Some [(n "b", Some true)])
  = PExecuted (Some (Exe.ExecData.JObj [ (n "i", Exe.ExecData.JInt 7); (n "j", Exe.ExecData.JInt 7);
                                         (n "o", Exe.ExecData.JObj [ (n "i", Exe.ExecData.JInt 8) ]) ])) [].
Proof. vm_compute. reflexivity. Qed.

(** a NaN result never reaches the data: null and an error instead (defect 7 repaired) *)
Example ex_nan_is_error :
  exists e, run_ex "{ i x }" "" (Some [])
            = PExecuted (Some (Exe.ExecData.JObj [ (n "i", Exe.ExecData.JInt 7); (n "x", Exe.ExecData.JNull) ])) [e].
Proof. eexists. vm_compute. reflexivity. Qed.

(** a null at a non-null root field: no data, one error *)
Example ex_null_data : exists e, run_ex "{ i nn }" "" (Some []) = PExecuted None [e].
Proof. eexists. vm_compute. reflexivity. Qed.

(** syntax error: the text ends inside the selection set; unknown field; unknown operation name;
    variable coercion refused *)
Example ex_syntax : exists e, run_ex "{ i o { i }" "" (Some []) = PSyntax e [].
Proof. eexists. vm_compute. reflexivity. Qed.
Example ex_bytes_garbage : exists e es, pipeline_model ex_VS [] ex_ES [255; 0; 34; 123]%N [] (Some []) ex_W = PSyntax e es.
Proof. eexists. eexists. vm_compute. reflexivity. Qed.
Example ex_invalid : exists e, run_ex "{ i zz }" "" (Some []) = PInvalid e [].
Proof. eexists. vm_compute. reflexivity. Qed.
Example ex_leaf_selection_invalid : exists e es, run_ex "{ i { i } o }" "" (Some []) = PInvalid e es.
Proof. eexists. eexists. vm_compute. reflexivity. Qed.
Example ex_no_operation : exists e, run_ex "query A { i } query B { nn }" "C" (Some []) = PExecuted None [e].
Proof. eexists. vm_compute. reflexivity. Qed.
Example ex_vars_rejected : run_ex "query A($b: Boolean!) { i @skip(if: $b) }" "" None = PVarsRejected.
Proof. vm_compute. reflexivity. Qed.

(** a nullable variable with a default, explicitly null: outside C01's hypotheses, still answered *)
Example ex_unevaluable :
  exists r, run_ex "query A($b: Boolean = true) { i @skip(if: $b) nn }" "" (Some [(n "b", None)]) = PUnevaluable r.
Proof. eexists. vm_compute. reflexivity. Qed.

(** the hypothesis of C03_pipeline_total is satisfiable, and its conclusion is the first disjunct *)
Example ex_total_instance :
  is_response (run_ex "{ i o { i } }" "" (Some [])) = true /\
  data_or_errors_p (run_ex "{ i nn }" "" (Some [])) = true /\
  serialisable_p (run_ex "{ i x }" "" (Some [])) = true.
Proof. vm_compute. auto. Qed.

(** the stage-contract check is a real check: the executor encoding of a DIFFERENT schema (Obj
    without its field) makes the validated document fail [doc_ok] *)
Definition ex_ES_wrong : Exe.ExecData.schema :=
  {| Exe.ExecData.types :=
       [ (n "Int", Exe.ExecData.NScalar Exe.ExecData.KInt);
         (n "Query", Exe.ExecData.NObject [ (n "i", Exe.ExecData.StNamed (n "Int")); (n "o", Exe.ExecData.StNamed (n "Obj")) ] []);
         (n "Obj", Exe.ExecData.NObject [] []) ];
     Exe.ExecData.query := n "Query"; Exe.ExecData.mutation := None; Exe.ExecData.subscription := None |}.
Example ex_contract_broken :
  pipeline_model ex_VS [] ex_ES_wrong (n "{ o { i } }") [] (Some []) ex_W = PContractBroken CDocOk /\
  schemas_agree ex_VS ex_ES_wrong = false.
Proof. vm_compute. auto. Qed.

(** ** round 1: the glue over stage verdicts *)
Example executed_with_field_error :
  no_crash (Returned 0 : parse_out) /\ no_crash (Returned 0 : validate_out) /\
  no_crash (Returned (true, 1) : exec_out) /\ exec_contract (Returned (true, 1)) /\
  execute (Returned 0) (Returned 0) (Returned (true, 1)) =
    Resp {| has_data := true; data_null := true; nerrors := 1 |}.
Proof. repeat split. Qed.

Example contract_excludes_silent_null : ~ exec_contract (Returned (true, 0)).
Proof. intro H; exact H. Qed.

(** the hypotheses of C03_validated_type_conditions_composite are satisfiable (an accepted text
    with fragment and inline type conditions), and a text with a type condition on a scalar is
    rejected by the front half before the executor could panic on it *)
Example ex_conds_instance :
  exists d o,
    parse_and_validate_bytes ex_VS [] (n "{ ...F o { ... on Obj { i } } } fragment F on Query { i }") = FAccepted d /\
    Exe.ExecModel.get_operation (exe_of_syn d) [] = Exe.ExecModel.GOp o /\
    Exe.ExecHyps.dirs_evaluable (Exe.ExecData.doc_of (exe_of_syn d) o) [] = true /\
    Exe.ExecSpec.conds_ok ex_ES (Exe.ExecData.doc_of (exe_of_syn d) o) [] = true.
Proof. eexists. eexists. split; [vm_compute; reflexivity|]. split; [vm_compute; reflexivity|]. split; vm_compute; reflexivity. Qed.

Example ex_scalar_condition_rejected :
  exists e es, run_ex "{ i ... on Int { i } }" "" (Some []) = PInvalid e es.
Proof. eexists. eexists. vm_compute. reflexivity. Qed.
