(** non-vacuity for C07: concrete texts meeting the hypotheses of the main theorems *)
From Coq Require Import List NArith ZArith Bool.
From ApiFu Require Import Base.Sexp Lex.Utf8 Lex.LexModel Lex.LexSpec Lex.LexRel Lex.LexProgress Lex.LexMode Lex.LexRefine Lex.LexErrors Lex.LexApi Lex.LexApiSpec Lex.LexPrefixSpec.
Import ListNotations.

(** BOM { a(x: "h\u00e9\n<e-acute>", y: <block string over four lines with CRLF, indentation and an
    escaped triple quote>) # <u-umlaut> U+FFFD CRLF ...f -1.5e3 0,1E+2 } CR *)
Definition good_text : bytes := [239; 187; 191; 123; 32; 97; 40; 120; 58; 32; 34; 104; 92; 117; 48; 48; 101; 57; 92; 110; 195; 169; 34; 44; 32; 121; 58; 32; 34; 34; 34; 10; 32; 32; 32; 32; 98; 13; 10; 32; 32; 32; 32; 32; 99; 32; 92; 34; 34; 34; 10; 32; 32; 34; 34; 34; 41; 32; 35; 32; 195; 188; 32; 239; 191; 189; 13; 10; 32; 46; 46; 46; 102; 32; 45; 49; 46; 53; 101; 51; 32; 48; 44; 49; 69; 43; 50; 32; 125; 13]%N.

Definition good_cps : list cp := match utf8_decode good_text with Some l => l | None => [] end.
Definition good_stoks : list stoken := fst (spec_lex good_cps).

(** hypotheses of C07_lex_refines_spec / C07_lex_positions hold, non-trivially: 31 tokens, five
    lines, a quoted string with escapes, a block string, Int and Float, a comment, an ellipsis *)
Example good_text_hypotheses :
  utf8_decode good_text = Some good_cps /\ spec_lex good_cps = (good_stoks, EndOk) /\
  excl_dangling_exponent good_cps good_stoks = false /\ excl_inner_bom good_stoks = false /\
  length good_stoks = 31%nat /\ length (significant good_stoks) = 16%nat /\
  existsb (fun t => (3 <? st_line t)%Z) good_stoks = true.
Proof. vm_compute. repeat split. Qed.

(** the decoded values of its two strings: h e-acute LF e-acute, and the block string value *)
Example good_text_string_values :
  map st_value (filter (fun t => match st_kind t with KString => true | _ => false end) good_stoks) =
  [[104; 233; 10; 233]; [98; 10; 32; 99; 32; 34; 34; 34]]%N.
Proof. vm_compute. reflexivity. Qed.

(** hypothesis of C07_lex_sound holds of it (the model scans it without error) *)
Definition good_result : lex_result := Eval vm_compute in lex true good_text.
Example good_text_scans :
  lex true good_text = good_result /\
  match good_result with Done ts es => length ts = 31%nat /\ es = [] | OutOfFuel => False end.
Proof. vm_compute. repeat split. Qed.

(** hypotheses of C07_lex_error_complete: an unterminated string; a bad escape *)
Definition bad_text : bytes := [123; 32; 97; 58; 32; 34; 117; 110; 116; 101; 114; 109; 105; 110; 97; 116; 101; 100; 10; 32; 125]%N.
Definition bad_cps : list cp := match utf8_decode bad_text with Some l => l | None => [] end.
Example bad_text_hypotheses :
  utf8_decode bad_text = Some bad_cps /\
  match spec_lex bad_cps with (stoks, EndError RUnterminated _ 1%Z 6%Z) => length stoks = 5%nat | _ => False end.
Proof. vm_compute. repeat split. Qed.

Definition bad_text2 : bytes := [34; 92; 120; 34; 32; 35; 0]%N.
Definition bad_cps2 : list cp := match utf8_decode bad_text2 with Some l => l | None => [] end.
Example bad_text2_hypotheses :
  utf8_decode bad_text2 = Some bad_cps2 /\
  match spec_lex bad_cps2 with (_, EndError RBadEscape _ _ _) => True | _ => False end.
Proof. vm_compute. repeat split. Qed.

(** C07_lex_mode / C07_lex_progress on an input that is not valid UTF-8 and has errors *)
Example hostile_scans :
  match lex true [34; 128; 34; 46; 49; 101; 0]%N with
  | Done ts es => length ts = 2%nat /\ length es = 4%nat
  | OutOfFuel => False
  end.
Proof. vm_compute. repeat split. Qed.

(** hypothesis of C07_lex_invalid_utf8_rejected: a stray continuation byte inside a string *)
Example invalid_utf8_hypothesis : utf8_decode [34; 128; 34]%N = None.
Proof. vm_compute. reflexivity. Qed.

(** C07_lex_error_positions on bad_text2 = "\x" #NUL (two errors, both inside the text, the second
    later than the first) and on the unterminated string of bad_text (one error, at the LF) *)
Example bad_text2_error_positions :
  lex true bad_text2 = Done (match lex true bad_text2 with Done ts _ => ts | _ => [] end)
                            (map (fun n => advance_pos (1, 1) n bad_cps2) [2; 6]%nat) /\
  length bad_cps2 = 7%nat.
Proof. vm_compute. repeat split. Qed.

(** C07_lex_error_positions_bytes on an input that is NOT valid UTF-8: the four errors of
    hostile_scans sit at rune boundaries 1, 4, 6 and 6 (the last two at the same place: the
    exponent without digits and the NUL that follows) *)
Example hostile_error_boundaries :
  match lex true [34; 128; 34; 46; 49; 101; 0]%N with
  | Done _ es => es = [(1, 2); (1, 5); (1, 7); (1, 7)]%Z
  | OutOfFuel => False
  end.
Proof. vm_compute. repeat split. Qed.

(** C07_api_call_order on a two-token source in mode 0: observers before the first Scan, repeated
    observers, Scan twice after the end *)
Definition api_src : bytes := [97; 32; 34; 98; 34]%N.   (* a "b" *)
Example api_trace :
  run false api_src [CLiteral; CPosition; CScan; CStringValue; CStringValue; CScan; CLiteral; CStringValue;
                     CScan; CScan; CToken; CPosition; CLiteral; CStringValue; CErrors] =
  [RBytes []; RPos 0 0; RBool true; RBytes [97%N]; RBytes [97%N]; RBool true; RBytes [34; 98; 34]%N; RBytes [98%N];
   RBool false; RBool false; RTok INVALID; RPos 1 6; RBytes []; RBytes []; RErrs []] /\
  end_pos api_src = (1, 6)%Z.
Proof. vm_compute. repeat split. Qed.

(** C07_lex_agrees_before_failure on bad_text = { a: QUOTE unterminated LF }: the grammar yields five
    tokens ({ space a : space) and fails at the string, code point 5; all five are agreed, the
    scanner's tokens begin with them and its only error (at the line feed, code point 18) is not
    before them.  On bad_text2 = QUOTE \x QUOTE space # NUL the failure is at once (nothing agreed);
    on a comment running into NUL the comment is left out of the agreed tokens. *)
Example bad_text_agreed :
  let stoks := fst (spec_lex bad_cps) in
  let ag := agreed bad_cps stoks true in
  length ag = 5%nat /\ agreed_count ag = 5%nat /\
  match lex true bad_text with
  | Done ts es => firstn 5 ts = map token_of_stoken ag /\ es = [advance_pos (1, 1) 18 bad_cps]
  | OutOfFuel => False
  end.
Proof. vm_compute. repeat split. Qed.

Example comment_not_agreed :
  let cps := [97; 32; 35; 98; 0; 99]%N in       (* a space # b NUL c *)
  match spec_lex cps with
  | (stoks, EndError RNonSource 4 _ _) => length stoks = 3%nat /\ agreed_count (agreed cps stoks true) = 2%nat
  | _ => False
  end.
Proof. vm_compute. repeat split. Qed.
