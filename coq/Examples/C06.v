(** non-vacuity for C06: concrete token sequences and trees meeting the hypotheses of the main
    theorems (all by [vm_compute]) *)
From Coq Require Import List NArith ZArith String.
From ApiFu Require Import Base.Sexp Syn.Ast Syn.ParserModel Syn.Printer Syn.ParserProofs Syn.Relabel
     Syn.FrontEnd Syn.FrontEndSpec Syn.FrontEndProofs.
Import ListNotations.
Local Open Scope N_scope.

(** tokens on one line, column = 2 * index + 1 *)
Fixpoint number (i : N) (l : list (kind * string)) : list stoken :=
  match l with
  | [] => []
  | (k, v) :: r => mkst (mktok k (bs v) (mkpos 1 (2 * i + 1))) [] :: number (i + 1) r
  end.

Definition P (v : string) := (KPunct, v).
Definition Nm (v : string) := (KName, v).

(** [{ a : b ( x : 1 ) @ d }] — written by hand on both sides *)
Definition small_toks : list stoken :=
  number 0 [P "{"; Nm "a"; P ":"; Nm "b"; P "("; Nm "x"; P ":"; (KInt, "1"); P ")"; P "@"; Nm "d"; P "}"]%string.
Definition at_ (i : N) : pos := mkpos 1 (2 * i + 1).
Definition small_doc : document :=
  [DOp None None [] []
       (SelSet [SField (Some (mkid (bs "a") (at_ 1))) (mkid (bs "b") (at_ 3))
                       [mkarg (mkid (bs "x") (at_ 5)) (VInt (bs "1") (at_ 7))]
                       [mkdir (mkid (bs "d") (at_ 10)) [] (at_ 9)] None]
               (at_ 0) (at_ 11))].

Example small_hypotheses :
  layout_of (tokens_document small_doc) (map st_tok small_toks) = true /\
  wf_document small_doc = true /\ (depth_document small_doc <= max_recursion)%Z /\
  scanner_errors [] small_toks = [].
Proof. vm_compute. repeat split; congruence. Qed.

Example small_parses : ParseDocument (at_ 12) [] false small_toks = Out (Some small_doc) [].
Proof. vm_compute. reflexivity. Qed.

(** a document using every production:
    query Q ( $ a : [ Int ! ] = [ 1 ] ) @ d { x : f ( k : { o : $ a } ) ... on T { g } ... F }
    fragment F on T { h } *)
Definition big_toks : list stoken :=
  number 0 [Nm "query"; Nm "Q"; P "("; P "$"; Nm "a"; P ":"; P "["; Nm "Int"; P "!"; P "]"; P "="; P "["; (KInt, "1"); P "]"; P ")";
            P "@"; Nm "d"; P "{"; Nm "x"; P ":"; Nm "f"; P "("; Nm "k"; P ":"; P "{"; Nm "o"; P ":"; P "$"; Nm "a"; P "}"; P ")";
            P "..."; Nm "on"; Nm "T"; P "{"; Nm "g"; P "}"; P "..."; Nm "F"; P "}";
            Nm "fragment"; Nm "F"; Nm "on"; Nm "T"; P "{"; Nm "h"; P "}"]%string.
Definition big_eof : pos := at_ 47.
Definition big_doc : document :=
  match ParseDocument big_eof [] false big_toks with Out (Some d) _ => d | _ => [] end.

Example big_parses : ParseDocument big_eof [] false big_toks = Out (Some big_doc) [] /\ List.length big_doc = 2%nat.
Proof. vm_compute. split; reflexivity. Qed.

Example big_hypotheses :
  layout_of (tokens_document big_doc) (map st_tok big_toks) = true /\
  wf_document big_doc = true /\ depth_document big_doc = 12%Z /\
  List.length (positions_document big_doc) = 5%nat.
Proof. vm_compute. repeat split. Qed.

Example big_positions_distinct : NoDup (token_positions big_toks).
Proof.
  unfold token_positions. apply (NoDup_map_inv (fun p => col p)). rewrite map_map.
  vm_compute. repeat (constructor; [simpl; intuition discriminate|]). constructor.
Qed.

(** a rejection: [{ a ( }] fails at the token [}] (column 7) *)
Example reject_located :
  ParseDocument (at_ 4) [] false (number 0 [P "{"; Nm "a"; P "("; P "}"]%string) = Out None [at_ 3].
Proof. vm_compute. reflexivity. Qed.

(** a lexical error beside a complete tree: the tree is returned, the error is the scanner's *)
Example tree_beside_lexical_error :
  exists d, ParseDocument (at_ 3) [] false
              [mkst (mktok KPunct (bs "{") (at_ 0)) []; mkst (mktok KName (bs "x") (at_ 1)) [mkpos 1 2];
               mkst (mktok KPunct (bs "}") (at_ 2)) []] = Out (Some d) [mkpos 1 2].
Proof. eexists. vm_compute. reflexivity. Qed.

(** ParseValue: [[ 1 { k : $ v } ]] *)
Definition val_toks : list stoken :=
  number 0 [P "["; (KInt, "1"); P "{"; Nm "k"; P ":"; P "$"; Nm "v"; P "}"; P "]"]%string.
Definition val_tree : value :=
  VList [VInt (bs "1") (at_ 1);
         VObject [(mkid (bs "k") (at_ 3), VVar (mkvar (mkid (bs "v") (at_ 6)) (at_ 5)))] (at_ 2) (at_ 7)] (at_ 0) (at_ 8).
Example value_parses :
  ParseValue (at_ 9) [] val_toks = Out (Some val_tree) [] /\
  layout_of (tokens_value val_tree) (map st_tok val_toks) = true /\ wf_value false val_tree = true /\
  depth_value val_tree = 5%Z.
Proof. vm_compute. repeat split. Qed.

(** ** from BYTES (Syn/FrontEnd.v) *)

(** a text with a BOM, a comment, commas, CR LF and a block string, in two layouts *)
Definition text1 : bytes :=
  ([239; 187; 191] ++ bs "query Q($a: [Int!] = [1, 2]) @d {  # c" ++ [13; 10] ++
   bs "  x: f(k: {o: $a}, s: """"""hi"""""") ... on T { g }" ++ [10] ++ bs "}")%list.
Definition text2 : bytes :=
  (bs "query,Q ( $a : [ Int ! ] = [ 1 2 ] ) @d" ++ [13] ++ bs "{ x : f ( k : { o : $a } s : ""hi"" ) ... on T { g } }")%list.

Example text1_accepted : exists d, parse_document_bytes text1 = Out (Some d) [] /\ in_grammar_bytes text1 d.
Proof.
  destruct (parse_document_bytes text1) as [[d|] [|e es]|] eqn:E; try (vm_compute in E; discriminate).
  exists d. split; [reflexivity|]. apply parse_bytes_accepts_exactly. exact E.
Qed.

(** the hypotheses of the layout theorem are met by the two texts *)
Example two_layouts : exists r1 r2 d1 d2,
  front_end text1 = Some r1 /\ front_end text2 = Some r2 /\
  Forall2 same_shape (f_toks r1) (f_toks r2) /\ scanner_errors (f_eof_errs r2) (f_toks r2) = [] /\
  parse_document_bytes text1 = Out (Some d1) [] /\ parse_document_bytes text2 = Out (Some d2) [] /\
  erase_document d2 = erase_document d1 /\ d1 <> d2.
Proof.
  do 4 eexists. split; [vm_compute; reflexivity|]. split; [vm_compute; reflexivity|].
  split; [repeat (constructor; [split; reflexivity|]); constructor|].
  split; [vm_compute; reflexivity|]. split; [vm_compute; reflexivity|]. split; [vm_compute; reflexivity|].
  split; [vm_compute; reflexivity|]. vm_compute. discriminate.
Qed.

(** rejected texts: a syntax error on line 2; a lexical error (invalid UTF-8) beside a complete
    tree; text outside the lexical grammar only *)
Definition rej_text : bytes := (bs "{a" ++ [10] ++ bs " ) }")%list.
Definition bad_text : bytes := (bs "{a " ++ [255] ++ bs "}")%list.
Example rejected_inside :
  parse_document_bytes rej_text = Out None [mkpos 2 2] /\
  inside_text rej_text (mkpos 2 2).
Proof. split; [vm_compute; reflexivity|]. vm_compute. repeat split; discriminate. Qed.

Example tree_beside_invalid_utf8 :
  exists d, parse_document_bytes bad_text = Out (Some d) [mkpos 1 4].
Proof. eexists. vm_compute. reflexivity. Qed.

Example value_from_bytes :
  exists v, parse_value_bytes (bs "[1, {k: $v}]") = Out (Some v) [] /\ value_in_grammar_bytes (bs "[1, {k: $v}]") v.
Proof.
  destruct (parse_value_bytes (bs "[1, {k: $v}]")) as [[v|] [|e es]|] eqn:E; try (vm_compute in E; discriminate).
  exists v. split; [reflexivity|]. apply parse_value_bytes_accepts_exactly. exact E.
Qed.
