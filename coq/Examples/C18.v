(** non-vacuity for C18: a concrete history on which the hypotheses of the lookup theorems hold *)
From Coq Require Import String Ascii List NArith.
From ApiFu Require Import Base.Sexp Api.PersistedQueryModel Api.PersistedQuerySpec Api.PersistedQueryProofs Api.Sha256.
Import ListNotations.
Open Scope N_scope.

Definition q_a : bytes := [123; 97; 125].   (* {a} *)
Definition h_a : ext := {| ext_version_one := true; ext_hash := hex_encode (toy_sha q_a) |}.
Definition hist : list request := [ {| rq_query := q_a; rq_ext := Some h_a |} ].

Example toy_sha_len : forall t, length (toy_sha t) = 32%nat.
Proof. intro t. unfold toy_sha. apply repeat_length. Qed.

Example lookup_hits :
  snd (fst (step toy_sha false (fst (run toy_sha false [] hist)) {| rq_query := []; rq_ext := Some h_a |})) = Exec q_a
  /\ In q_a (registered hist) /\ denotes (ext_hash h_a) = Some (toy_sha q_a).
Proof. vm_compute. repeat split. left; reflexivity. Qed.

(** SHA-256 test vectors (FIPS 180-4 / NIST examples): "abc", the empty message, and the 56-byte
    message whose padding spills into a second block; tests of the transcription, not theorems *)
Example sha256_abc : hex_encode (sha256 [97; 98; 99]) =
  map (fun c => N.of_nat (Ascii.nat_of_ascii c))
      (String.list_ascii_of_string "ba7816bf8f01cfea414140de5dae2223b00361a396177a9cb410ff61f20015ad"%string).
Proof. vm_compute. reflexivity. Qed.
Example sha256_empty : hex_encode (sha256 []) =
  map (fun c => N.of_nat (Ascii.nat_of_ascii c))
      (String.list_ascii_of_string "e3b0c44298fc1c149afbf4c8996fb92427ae41e4649b934ca495991b7852b855"%string).
Proof. vm_compute. reflexivity. Qed.
Example sha256_two_blocks :
  hex_encode (sha256 (map (fun c => N.of_nat (Ascii.nat_of_ascii c))
     (String.list_ascii_of_string "abcdbcdecdefdefgefghfghighijhijkijkljklmklmnlmnomnopnopq"%string))) =
  map (fun c => N.of_nat (Ascii.nat_of_ascii c))
      (String.list_ascii_of_string "248d6a61d20638b8e5c026930c3e6039a33ce45964ff2167f6ecedd419db06c1"%string).
Proof. vm_compute. reflexivity. Qed.

(** the lookup theorems' hypotheses are met with the real digest *)
Definition h_a256 : ext := {| ext_version_one := true; ext_hash := hex_encode (sha256 q_a) |}.
Definition hist256 : list request := [ {| rq_query := q_a; rq_ext := Some h_a256 |} ].
Example lookup_hits_sha256 :
  snd (fst (step sha256 false (fst (run sha256 false [] hist256)) {| rq_query := []; rq_ext := Some h_a256 |})) = Exec q_a
  /\ In q_a (registered hist256) /\ denotes (ext_hash h_a256) = Some (sha256 q_a).
Proof. vm_compute. repeat split. left; reflexivity. Qed.
