(** non-vacuity for C18: a concrete history on which the hypotheses of the lookup theorems hold *)
From Coq Require Import List NArith.
From ApiFu Require Import Base.Sexp Api.PersistedQueryModel Api.PersistedQuerySpec Api.PersistedQueryProofs.
Import ListNotations.
Open Scope N_scope.

Definition q_a : bytes := [123; 97; 125].   (* {a} *)
Definition h_a : ext := {| ext_version_one := true; ext_hash := hex_encode (toy_sha q_a) |}.
Definition hist : list request := [ {| rq_query := q_a; rq_ext := Some h_a |} ].

Example toy_sha_len : forall t, length (toy_sha t) = 32%nat.
Proof. intro t. unfold toy_sha. apply repeat_length. Qed.

Example lookup_hits :
  snd (fst (step toy_sha false (fst (run toy_sha false [] hist)) {| rq_query := []; rq_ext := Some h_a |})) = Exec q_a
  /\ In q_a (registered hist) /\ denotes (ext_hash h_a) = Some (toy_sha q_a).
Proof. vm_compute. repeat split. left; reflexivity. Qed.
