(** non-vacuity for C02: concrete plans, schedules and runs meeting the hypotheses of every theorem
    of Properties/C02.v, on which the conclusions say something (two promises of one selection
    set finishing in different rounds, a promise failing beneath a non-null type, promises inside
    a list inside a promise, errors arriving in a different order under a different schedule,
    two different admissible errors for one null, null data). *)
From Coq Require Import List NArith ZArith Bool.
From ApiFu Require Import Base.Sexp Fut.Plan Fut.Future Fut.ExecAsync Fut.ExecSync Fut.Denote Fut.SubPerm
     Fut.AsyncRun Fut.FutSpec Fut.FutProofs.
Import ListNotations.
Open Scope N_scope.

Definition kx : bytes := [120]. Definition ky : bytes := [121].
Definition kz : bytes := [122]. Definition kl : bytes := [108].

(** { a { x y } l { z } c } with a: T (promise), x: Int! (promise, fails), y: Int (promise),
    l: [U]! (promise) of two objects, z: Int (promises, the second fails), c: Int (direct) *)
Definition plan : selset :=
  [ (key_a, FP (Some 0) false (Some (VObj [ (kx, FP (Some 1) true None);
                                            (ky, FP (Some 2) false (Some (VLeaf 2))) ])));
    (kl, FP (Some 3) true (Some (VList false [ VObj [(kz, FP (Some 4) false (Some (VLeaf 7)))];
                                               VObj [(kz, FP (Some 5) false None)] ])));
    (key_c, FP None false (Some (VLeaf 3))) ].

Definition all_at_once : sched := sigma_ranks [0; 0; 0; 0; 0; 0]%nat.
Definition staggered : sched := sigma_ranks [2; 0; 1; 0; 1; 0]%nat.

Definition e_x : err := mkerr [PKey key_a; PKey kx] KResolve.
Definition e_z : err := mkerr [PKey kl; PIdx 1; PKey kz] KResolve.
Definition the_data : json :=
  JObj [(key_a, JNull); (kl, JList [JObj [(kz, JInt 7)]; JObj [(kz, JNull)]]); (key_c, JInt 3)].

(** the hypotheses of the theorems hold *)
Example hyp_wf : wf plan = true.                       Proof. reflexivity. Qed.
Example hyp_fair1 : fair all_at_once.                  Proof. apply sigma_ranks_fair. Qed.
Example hyp_fair2 : fair staggered.                    Proof. apply sigma_ranks_fair. Qed.
Example hyp_fuel : (count_async plan <= 6)%nat.        Proof. vm_compute. repeat constructor. Qed.
Example hyp_depth : (resp_depth plan < 5)%nat.         Proof. vm_compute. repeat constructor. Qed.
Example hyp_same : same_outcomes plan (strip plan).
Proof. reflexivity. Qed.

(** … and the conclusions are about something: 6 promises, 2 vs 5 idle rounds, the two errors in
    opposite orders, the same data *)
Example run_all_at_once :
  exists r, run fixed_flags all_at_once Query 6 5 plan = Done r /\
    r_data r = Some the_data /\ r_errors r = [e_x; e_z] /\ r_rounds r = 2%nat /\ r_promises r = 6%nat.
Proof. eexists. split; [vm_compute; reflexivity|]. repeat split. Qed.

Example run_staggered :
  exists r, run fixed_flags staggered Query 6 5 plan = Done r /\
    r_data r = Some the_data /\ r_errors r = [e_z; e_x] /\ r_rounds r = 5%nat /\ r_promises r = 6%nat.
Proof. eexists. split; [vm_compute; reflexivity|]. repeat split. Qed.

Example run_mutation_staggered :
  exists r, run fixed_flags staggered Mutation 6 5 plan = Done r /\
    r_data r = Some the_data /\ r_errors r = [e_x; e_z] /\ r_rounds r = 5%nat.
Proof. eexists. split; [vm_compute; reflexivity|]. repeat split. Qed.

Example reference : run_sync plan = {| sr_data := Some the_data; sr_errors := [e_x; e_z] |}.
Proof. reflexivity. Qed.

(** [conforms] is not vacuous here: two visible failure-nulls, eight landing sites *)
Example nulls : visible_nulls plan = [([PKey key_a], [e_x]); ([PKey kl; PIdx 1; PKey kz], [e_z])].
Proof. reflexivity. Qed.
Example nsites : length (sites plan) = 8%nat.
Proof. reflexivity. Qed.

(** the main theorem instantiated *)
Example independent_here :
  exists r1 r2,
    run fixed_flags all_at_once Query 6 5 plan = Done r1 /\
    run fixed_flags staggered Query 6 5 (strip plan) = Done r2 /\
    r_data r1 = r_data r2 /\
    conforms plan (r_data r1) (r_errors r1) /\ conforms plan (r_data r2) (r_errors r2).
Proof.
  apply schedule_independent.
  - exact hyp_same.
  - exact hyp_fair1.
  - exact hyp_fair2.
  - exact hyp_fuel.
  - vm_compute. repeat constructor.
  - exact hyp_depth.
Qed.

(** two different admissible errors for one null: { a { x y } } with x: Int!, y: Int! both failing
    promises; whichever is fulfilled first is reported, both responses conform *)
Definition plan2 : selset :=
  [ (key_a, FP None false (Some (VObj [ (kx, FP (Some 0) true None); (ky, FP (Some 1) true None) ]))) ].

Example x_first :
  exists r, run fixed_flags (sigma_ranks [0; 1]%nat) Query 2 4 plan2 = Done r /\
            r_errors r = [mkerr [PKey key_a; PKey kx] KResolve] /\ r_data r = Some (JObj [(key_a, JNull)]).
Proof. eexists. split; [vm_compute; reflexivity|]. split; reflexivity. Qed.

Example y_first :
  exists r, run fixed_flags (sigma_ranks [1; 0]%nat) Query 2 4 plan2 = Done r /\
            r_errors r = [mkerr [PKey key_a; PKey ky] KResolve] /\ r_data r = Some (JObj [(key_a, JNull)]).
Proof. eexists. split; [vm_compute; reflexivity|]. split; reflexivity. Qed.

Example one_site_two_candidates :
  visible_nulls plan2 = [([PKey key_a], [mkerr [PKey key_a; PKey kx] KResolve; mkerr [PKey key_a; PKey ky] KResolve])].
Proof. reflexivity. Qed.

(** null data: the witness plan of the first repaired defect, under the repaired flags *)
Example null_data_has_error :
  exists r, run fixed_flags (sigma_ranks [0]%nat) Query 1 3 w_drop = Done r /\
            r_data r = None /\ r_errors r = [mkerr [PKey key_a] KResolve].
Proof. eexists. split; [vm_compute; reflexivity|]. split; reflexivity. Qed.

(** a schedule that is not fair gets [Stuck], which is why the theorems ask for fairness *)
Example unfair_is_stuck : run fixed_flags (fun _ _ => []) Query 1 3 w_drop = Stuck.
Proof. reflexivity. Qed.

(** stage B.  The literal "same error for every null": [plan] satisfies the exclusion (each of its
    two visible failure-nulls admits exactly one error), [plan2] does not. *)
Example hyp_single : excl_admissible_error_differs plan = false.   Proof. reflexivity. Qed.
Example plan2_excluded : excl_admissible_error_differs plan2 = true. Proof. reflexivity. Qed.

Example same_error_here :
  exists r1 r2,
    run fixed_flags all_at_once Query 6 5 plan = Done r1 /\
    run fixed_flags staggered Query 6 5 (strip plan) = Done r2 /\
    r_data r1 = r_data r2 /\
    forall x, In x (visible_nulls plan) ->
      exists e, snd x = [e] /\ In e (r_errors r1) /\ In e (r_errors r2) /\ (forall e', lands e' x -> e' = e).
Proof.
  apply same_error_when_single_candidate.
  - exact hyp_single.
  - exact hyp_same.
  - exact hyp_fair1.
  - exact hyp_fair2.
  - exact hyp_fuel.
  - vm_compute. repeat constructor.
  - exact hyp_depth.
Qed.

(** the oracle's reading of the data finds exactly the two structural visible nulls among the eight sites *)
Example reading_here :
  filter (visible_failure_null (data_shape plan)) (sites plan) = visible_nulls plan.
Proof. reflexivity. Qed.

(** a promise fulfilled before its resolver returns (tag >= pre_base; round 4: inside the theorems):
    { a } with a: Int a prefilled promise finishes without an idle round, under any handler *)
Example prefilled_needs_no_idle :
  exists r, run fixed_flags (fun _ _ => []) Query 1 3
                [(key_a, FP (Some pre_base) false (Some (VLeaf 5)))] = Done r /\
            r_rounds r = 0%nat /\ r_promises r = 1%nat /\ r_data r = Some (JObj [(key_a, JInt 5)]).
Proof. eexists. split; [vm_compute; reflexivity|]. repeat split. Qed.

(** a prefilled promise next to an ordinary one, a failing prefilled promise beneath a non-null
    type inside: the main theorem applies, one idle round *)
Definition plan_pre : selset :=
  [ (key_a, FP (Some (pre_base + 0)) false (Some (VObj [ (kx, FP (Some (pre_base + 1)) true None);
                                                         (ky, FP (Some 2) false (Some (VLeaf 2))) ])));
    (key_b, FP (Some 3) false (Some (VLeaf 3))) ].
Example prefilled_conforms :
  exists r, run fixed_flags (sigma_ranks [0; 0; 0; 0]%nat) Query 4 4 plan_pre = Done r /\
            conforms plan_pre (r_data r) (r_errors r) /\
            r_data r = Some (JObj [(key_a, JNull); (key_b, JInt 3)]) /\ r_rounds r = 1%nat /\ r_promises r = 4%nat.
Proof.
  destruct (run_conforms Query (sigma_ranks [0; 0; 0; 0]%nat) 4 4 plan_pre (sigma_ranks_fair _)) as (r & E & C & _).
  - vm_compute. repeat constructor.
  - vm_compute. repeat constructor.
  - exists r. split; auto. split; auto.
    assert (R : run fixed_flags (sigma_ranks [0; 0; 0; 0]%nat) Query 4 4 plan_pre = Done r) by exact E.
    vm_compute in R. injection R as <-. repeat split.
Qed.

(** round 3.  The bridge to C01 on C01's own example (a schema with an interface, a union and
    [Int!]!; a document with a merged field, a named fragment, a fragment on an abstract type, an
    alias and @skip; a resolver error under a non-null field and a null list item): the plan,
    the data every schedule yields, and C01's data. *)
From ApiFu Require ExeA.ArgData ExeA.ArgSpec ExeA.ArgModel ExeA.ArgHyps Examples.C01.
From ApiFu Require Import Fut.BridgeC01 Fut.BridgeProofs Fut.BridgeCompose.
From Coq Require Import String.
Open Scope string_scope.

Definition ex_code (j : ArgData.json) : Z :=
  match j with
  | ArgData.JInt z => z
  | ArgData.JStr s => 1000 + Z.of_nat (List.length s)
  | _ => 7
  end.

Definition bridged : selset := plan_of ex_code C01.A.ex_schema C01.A.ex_doc C01.A.ex_env C01.A.ex_fuel C01.A.ex_W.

(** the same request with the resolvers of o and of i answering through promises *)
Definition bridged_async : selset :=
  map (fun kf => match kf with
                 | (k, FP _ nn res) =>
                     if bytes_eqb k (C01.A.nm "o") then (k, FP (Some 0) nn res)
                     else if bytes_eqb k (C01.A.nm "i") then (k, FP (Some 1) nn res)
                     else kf
                 end) bridged.

Example bridged_keys : map fst bridged = [C01.A.nm "o"; C01.A.nm "l"; C01.A.nm "ln"; C01.A.nm "i"; C01.A.nm "u"].
Proof. vm_compute. reflexivity. Qed.
Example bridged_same : same_outcomes bridged_async bridged.
Proof. vm_compute. reflexivity. Qed.
Example bridged_async_has_promises : count_async bridged_async = 2%nat.
Proof. vm_compute. reflexivity. Qed.

Example bridge_here :
  exists r, run fixed_flags (sigma_ranks [1; 0]%nat) Query 2 6 bridged_async = Done r /\
    r_data r = tr_data ex_code (Some (ArgData.JObj
                 [ (C01.A.nm "o", ArgData.JNull); (C01.A.nm "l", ArgData.JNull);
                   (C01.A.nm "ln", ArgData.JArr [ArgData.JInt 1; ArgData.JInt 2]);
                   (C01.A.nm "i", ArgData.JObj [(C01.A.nm "s", ArgData.JStr (C01.A.nm "y")); (C01.A.nm "x", ArgData.JInt 3)]);
                   (C01.A.nm "u", ArgData.JObj [(ArgData.n_typename, ArgData.JStr (C01.A.nm "P"))]) ])) /\
    r_rounds r = 2%nat /\ List.length (r_errors r) = 2%nat.
Proof.
  destruct (schedule_yields_reference_response ex_code C01.A.ex_schema C01.A.ex_doc C01.A.ex_env C01.A.ex_fuel C01.A.ex_fuel
              C01.A.ex_W _ _ Query bridged_async (sigma_ranks [1; 0]%nat) 2 6
              (proj1 (proj2 C01.A.hypotheses_hold)) (proj2 (proj2 C01.A.hypotheses_hold)) (proj1 C01.A.hypotheses_hold)
              C01.A.response bridged_same (sigma_ranks_fair _)) as (r & E & D1 & _ & _).
  - vm_compute. repeat constructor.
  - vm_compute. repeat constructor.
  - exists r. split; auto. split; auto.
    assert (R : run fixed_flags (sigma_ranks [1; 0]%nat) Query 2 6 bridged_async = Done r) by exact E.
    vm_compute in R. injection R as <-. split; reflexivity.
Qed.

(** the two failure-nulls of C01's reference (o and l) are the plan's visible nulls *)
From ApiFu Require Import Fut.BridgeNulls.
Example bridge_nulls_here :
  null_paths (ArgSpec.failure_nulls (ArgSpec.exec_spec C01.A.ex_schema C01.A.ex_doc C01.A.ex_env C01.A.ex_fuel C01.A.ex_W)) =
  [[PKey (C01.A.nm "o")]; [PKey (C01.A.nm "l")]] /\
  site_paths (visible_nulls bridged_async) = [[PKey (C01.A.nm "o")]; [PKey (C01.A.nm "l")]].
Proof. vm_compute. split; reflexivity. Qed.

(** … with their candidates: o is explained by the error at o.n, l by the error at l.1 *)
From ApiFu Require Import Fut.BridgeCands.
Example bridge_candidates_here :
  null_sites (ArgSpec.failure_nulls (ArgSpec.exec_spec C01.A.ex_schema C01.A.ex_doc C01.A.ex_env C01.A.ex_fuel C01.A.ex_W)) =
  [ ([PKey (C01.A.nm "o")], [[PKey (C01.A.nm "o"); PKey (C01.A.nm "n")]]);
    ([PKey (C01.A.nm "l")], [[PKey (C01.A.nm "l"); PIdx 1]]) ] /\
  plan_sites (visible_nulls bridged_async) =
  [ ([PKey (C01.A.nm "o")], [[PKey (C01.A.nm "o"); PKey (C01.A.nm "n")]]);
    ([PKey (C01.A.nm "l")], [[PKey (C01.A.nm "l"); PIdx 1]]) ].
Proof. vm_compute. split; reflexivity. Qed.

(** round 7: [plan] has no prefilled promise, [plan_pre] has — the hypothesis of the NoPrefill
    theorems is satisfiable and not trivially true *)
From ApiFu Require Import Fut.NoPrefill.
Example nopre_plan : nopre plan = true /\ nopre plan_pre = false.
Proof. split; reflexivity. Qed.
Example nopre_build_here :
  exists f s1, exec_sel fixed_flags plan [] st0 = (f, s1) /\ NP st0 s1 /\ NPfut f /\ List.length (s_proms s1) = 2%nat.
Proof.
  destruct (exec_sel fixed_flags plan [] st0) as [f s1] eqn:E. exists f, s1. split; auto.
  destruct (no_prefill_build plan [] st0 f s1 (proj1 nopre_plan) E) as [N F]. split; auto. split; auto.
  assert (X : snd (exec_sel fixed_flags plan [] st0) = s1) by (now rewrite E). rewrite <- X. reflexivity.
Qed.

(** final round: without an idle handler.  A prefilled promise needs none (same response as with
    one, by C02_no_idle_handler_agrees); an ordinary promise yields null data and the path-less error. *)
From ApiFu Require Import Fut.NoIdle.
Example no_handler_not_needed :
  run_nil fixed_flags Query 3 [(key_a, FP (Some pre_base) false (Some (VLeaf 5)))] =
  run fixed_flags (fun _ _ => []) Query 0 3 [(key_a, FP (Some pre_base) false (Some (VLeaf 5)))].
Proof. reflexivity. Qed.
Example no_handler_error :
  exists r, run_nil fixed_flags Query 3 [(key_a, FP (Some 0) false (Some (VLeaf 5)))] = Done r /\
            r_data r = None /\ r_errors r = [no_idle_err] /\ r_rounds r = 0%nat.
Proof. eexists. split; [vm_compute; reflexivity|]. repeat split. Qed.
