(** non-vacuity for C17: a concrete operation with variables and an operation name, a concrete
    (finite) JSON text layer, a concrete pipeline — all hypotheses of the main theorems hold, and the
    conclusions are the expected non-trivial values. *)
From Coq Require Import List NArith ZArith Bool String.
From ApiFu Require Import Base.Sexp Transport.EnvelopeModel Transport.EnvelopeSpec Transport.EnvelopeProofs
  Transport.EnvelopeCheck Properties.C17.
Import ListNotations.
Open Scope string_scope.

Definition b (s : string) : bytes := bytes_of_string s.

(** query Q($i:Int){echoInt(x:$i)} with {"i":7} and operationName Q *)
Definition ex_vars : gomap := [(b "i", JNum 4619567317775286272%N)].     (* 7.0 *)
Definition ex_o : op := {| o_query := b "query Q($i:Int){echoInt(x:$i)}"; o_vars := Some ex_vars; o_opname := b "Q" |}.

(** the three JSON values the transports send for it, with their texts *)
Definition ex_texts : list (json * bytes) :=
  [ (body_json true ex_o, b "{""query"":""query Q($i:Int){echoInt(x:$i)}"",""variables"":{""i"":7},""operationName"":""Q""}");
    (body_json false ex_o, b "{""variables"":{""i"":7},""operationName"":""Q""}");
    (JObj ex_vars, b "{""i"":7}") ].
Definition ex_render (j : json) : bytes :=
  match find (fun p => json_eqb (fst p) j) ex_texts with Some (_, t) => t | None => b "null" end.
Definition ex_parse (t : bytes) : jparse :=
  match find (fun p => bytes_eqb (snd p) t) ex_texts with Some (j, _) => PTree j | None => PBad end.
Definition ex_clean (j : json) : Prop := In j (map fst ex_texts).

Example ex_wf : wf_op ex_o = true.
Proof. reflexivity. Qed.

Example ex_faithful : forall j, ex_clean j -> ex_parse (ex_render j) = PTree j.
Proof. intros j [<-|[<-|[<-|[]]]]; vm_compute; reflexivity. Qed.

Example ex_render_nonempty : forall j, ex_clean j -> is_empty (ex_render j) = false.
Proof.
  intros j _. unfold ex_render. destruct (find (fun p => json_eqb (fst p) j) ex_texts) as [[j' t]|] eqn:E; [|reflexivity].
  apply find_some in E as [[E|[E|[E|[]]]] _]; injection E as _ <-; reflexivity.
Qed.

Example ex_clean_all : forall t j, In j (sent_json t ex_o) -> ex_clean j.
Proof. intros t j H; destruct t; cbn in H; repeat (destruct H as [<-|H]); try contradiction; vm_compute; auto. Qed.

(** every transport except application/graphql carries it, and the decoder reads it back *)
Example ex_roundtrip : forall t, carries t ex_o = true ->
  decode fixed ex_parse ex_parse (encode ex_render t (b "1") ex_o) = Some (ex_o, None).
Proof.
  intros t Ct.
  exact (C17_envelope_roundtrip ex_render ex_parse ex_parse ex_clean ex_faithful ex_faithful ex_render_nonempty
           t (b "1") ex_o ex_wf Ct (ex_clean_all t)).
Qed.

Example ex_carriers : map (fun t => carries t ex_o) [HttpGet; HttpPostJson; HttpPostGraphql; HttpPostUrlQuery; WsGraphqlWs; WsTransportWs]
                      = [true; true; false; true; true; true].
Proof. reflexivity. Qed.

(** a concrete pipeline: features from the context, a validator that computes a cost from the
    default cost, an executor that echoes what it was given *)
Definition Resp := (bytes * option gomap * bytes * list bytes * Z)%type.
Definition ex_pv (s : nat) (f : list bytes) (dc : Z * Z) (q n : bytes) (v : option gomap) : pv_result bytes Resp :=
  if is_empty q then PVErrors ([], None, [], f, 0%Z) else PVOk q (fst dc + 1)%Z.
Definition ex_is_sub (d : bytes) (n : bytes) : bool := false.
Definition ex_exec (h : bool) (s : nat) (x : exec_request (list bytes) bytes) (c : Z) : Resp :=
  (x_query x, x_vars x, x_opname x, x_features x, c).
Definition ex_sub (h : bool) (s : nat) (x : exec_request (list bytes) bytes) (c : Z) : list Resp := [].
Definition ex_pq (ex : request -> Resp * list (event (list bytes) bool bytes)) (r : request) := ex r.
Definition ex_api : api nat (list bytes) bool :=
  {| a_schema := 0%nat; a_features := Some (fun c : bool => if c then [b "beta"] else []);
     a_default_cost := (1, 0)%Z; a_hook := true; a_pq := true |}.

(** a marshaller: query bytes, then the cost as one byte (enough to see both in the payload) *)
Definition ex_marshal (r : Resp) : option bytes :=
  match r with (q, _, _, _, c) => Some (q ++ [Z.to_N c])%list end.

Definition ex_respond := respond [] ex_pv ex_is_sub ex_exec ex_sub ex_pq ex_marshal fixed ex_parse ex_parse ex_render.

(** the hypotheses of C17_transport_same_response hold for GET against graphql-transport-ws ... *)
Example ex_same_response :
  ex_respond HttpGet ex_api true (b "1") ex_o = ex_respond WsTransportWs ex_api true (b "2") ex_o
  /\ exists body, fst (ex_respond HttpGet ex_api true (b "1") ex_o) = Some [body].
Proof.
  refine (C17_transport_same_response ex_render ex_parse ex_parse ex_clean ex_faithful ex_faithful ex_render_nonempty
            nat (list bytes) bool bytes Resp [] ex_pv ex_is_sub ex_exec ex_sub ex_pq ex_marshal (fun _ _ _ => eq_refl)
            HttpGet WsTransportWs ex_api true (b "1") (b "2") ex_o ex_wf eq_refl eq_refl _ (fun _ _ _ => eq_refl) _).
  - intros j [H|H]; [exact (ex_clean_all HttpGet j H)|exact (ex_clean_all WsTransportWs j H)].
  - intros [[[[q v] n] f] c] tr _. discriminate.
Qed.

(** ... and the common value is the executed operation with the feature set and the cost *)
Example ex_response_value :
  fst (ex_respond HttpPostUrlQuery ex_api true (b "1") ex_o) = Some [(o_query ex_o ++ [2%N])%list]
  /\ snd (ex_respond WsGraphqlWs ex_api true (b "1") ex_o) =
     [EvFeatures true; EvValidate [b "beta"] (o_query ex_o) (b "Q") (Some ex_vars);
      EvExecute {| x_query := o_query ex_o; x_doc := o_query ex_o; x_opname := b "Q"; x_vars := Some ex_vars;
                   x_features := [b "beta"]; x_ext := None |} 2%Z].
Proof. split; vm_compute; reflexivity. Qed.

(** a malformed envelope: POST application/json with body "{" *)
Definition ex_bad : envelope := {| e_method := m_post; e_media := mt_json; e_url := [(k_query, o_query ex_o)]; e_body := b "{" |}.
Example ex_bad_malformed : http_well_formed ex_parse ex_bad = false.
Proof. reflexivity. Qed.
Example ex_bad_refused :
  serve_graphql [] ex_pv ex_exec ex_pq ex_marshal fixed ex_parse ex_api true ex_bad = (HttpError 400, []).
Proof. vm_compute. reflexivity. Qed.

(** a malformed socket payload: variables is an array *)
Definition ex_bad_payload : bytes := b "{""variables"":[1]}".
Definition ex_parse2 (t : bytes) : jparse :=
  if bytes_eqb t ex_bad_payload then PTree (JObj [(k_variables, JArr [JNum 4607182418800017408%N])]) else ex_parse t.
Example ex_bad_ws :
  map (fun p => handle_message ex_parse2 p true (Some {| f_type := start_type p; f_id := b "1"; f_payload := Some ex_bad_payload |}))
      [GraphqlWS; TransportWS] = [WsIgnored; WsClosed 4400].
Proof. vm_compute. reflexivity. Qed.

(** the clone path: a preprocess step that changes the definition in a way no request observes *)
Example ex_clone :
  schema_obs_eq ex_pv ex_exec ex_sub ((fun d : nat => d) ((fun d => S d) ((fun d => d) 5%nat))) ((fun d : nat => d) 5%nat).
Proof. repeat split. Qed.

(** a non-canonical object (member names in other letter cases, an explicit null, unsorted
    variables, an extensions member, an unknown member) read as POST body and as socket payload *)
Definition ex_alias : list (bytes * json) :=
  [ (b "QUERY", JStr (b "{a}")); (b "operationname", JNull);
    (b "Variables", JObj [(b "z", JNum 4607182418800017408%N); (b "a", JNull)]);
    (b "extensions", JObj []); (b "zzz", JArr [JBool true]) ].
Example ex_alias_agree :
  option_map body_op (decode_struct StdJson true (JObj ex_alias)) =
  Some {| o_query := b "{a}"; o_vars := Some [(b "a", JNull); (b "z", JNum 4607182418800017408%N)]; o_opname := [] |}
  /\ option_map body_op (decode_struct StdJson false (JObj ex_alias)) = option_map body_op (decode_struct StdJson true (JObj ex_alias)).
Proof. split; vm_compute; reflexivity. Qed.

(** ** stage B: the byte-level theorems.  A number layer that knows one number: 7 *)
Definition seven : N := 4619567317775286272%N.
Definition ex_numprint (b : N) : bytes := [55%N].
Definition ex_numval (t : bytes) : option N := if bytes_eqb t [55%N] then Some seven else None.
Definition ex_numclean (b : N) : Prop := b = seven.

Example ex_num_hyps :
  (forall b, ex_numclean b -> ex_numprint b <> []) /\
  (forall b, ex_numclean b -> forallb JsonText.num_char (ex_numprint b) = true) /\
  (forall b, ex_numclean b -> JsonText.num_ok (ex_numprint b) = true) /\
  (forall b, ex_numclean b -> ex_numval (ex_numprint b) = Some b).
Proof. repeat split; intros b0 Hb; try discriminate; try reflexivity. rewrite Hb. reflexivity. Qed.

Example ex_text_clean : forall t j, In j (sent_json t ex_o) -> JsonTextProofs.text_clean ex_numprint ex_numclean j.
Proof.
  intros t j H. destruct t; cbn in H; repeat (destruct H as [<-|H]); try contradiction;
    (split; [|vm_compute; reflexivity]);
    repeat (first [ apply JsonTextProofs.TCobj; repeat constructor
                  | apply JsonTextProofs.TCstr; vm_compute; reflexivity
                  | apply JsonTextProofs.TCnum; reflexivity ]).
Qed.

(** the bytes of the canonical POST body and what the reader makes of them *)
Example ex_bytes_body :
  JsonText.print ex_numprint (body_json true ex_o) = b "{""query"":""query Q($i:Int){echoInt(x:$i)}"",""variables"":{""i"":7},""operationName"":""Q""}"
  /\ JsonText.parse_text StdJson ex_numval (JsonText.print ex_numprint (body_json true ex_o)) = PTree (body_json true ex_o).
Proof. split; vm_compute; reflexivity. Qed.

Example ex_roundtrip_bytes : forall t, carries t ex_o = true ->
  decode fixed (JsonText.parse_json StdJson ex_numval) (JsonText.parse_json StdJson ex_numval)
         (encode (JsonText.print ex_numprint) t (b "1") ex_o) = Some (ex_o, None).
Proof.
  intros t Ct. destruct ex_num_hyps as (H1 & H2 & H3 & H4).
  exact (C17_envelope_roundtrip_bytes ex_numval ex_numprint ex_numclean H1 H2 H3 H4 t (b "1") ex_o ex_wf Ct (ex_text_clean t)).
Qed.

(** a reading that is not the identity: escapes, white space, a non-ASCII string *)
Example ex_reader :
  JsonText.parse_text StdJson ex_numval (b " { ""aA\n"" : [ 7 , true , null , ""😀"" ] } ")
  = PTree (JObj [([97; 65; 10]%N, JArr [JNum seven; JBool true; JNull; JStr [240; 159; 152; 128]%N])]).
Proof. vm_compute. reflexivity. Qed.

(** valid UTF-8 is clean for encoding/json, a stray continuation byte or a surrogate encoded in UTF-8 is not *)
Example ex_utf8 :
  JsonTextProofs.sclean StdJson (b "é😀 日本") = true /\
  JsonTextProofs.sclean StdJson [97; 255]%N = false /\ JsonTextProofs.sclean StdJson [237; 160; 128]%N = false.
Proof. repeat split; vm_compute; reflexivity. Qed.

(** ** the response side and the frame level: concrete bytes *)
Example ex_ws_frames :
  WireModel.frame_answer WsTransportWs (b "a<1") [b "{""data"":{""x"":1}}"] =
  WireModel.WaFrames [ b "{""id"":""a\u003c1"",""type"":""next"",""payload"":{""data"":{""x"":1}}}";
                       b "{""id"":""a\u003c1"",""type"":""complete""}" ]
  /\ WireModel.frame_answer HttpGet (b "ignored") [b "{""data"":{""x"":1}}"] =
     WireModel.WaHttp {| WireModel.hw_status := 200; WireModel.hw_ctype := b "application/json"; WireModel.hw_body := Some (b "{""data"":{""x"":1}}") |}.
Proof. split; vm_compute; reflexivity. Qed.

(** a frame as json.Unmarshal into Message reads it: names folded, later duplicates win, null keeps
    the string, the payload's raw bytes; a number for the id, or bytes after the value: no message *)
Example ex_frame_split :
  FrameText.frame_of_text ex_numval (b " {""TYPE"":""x"",""payload"": [7 , {""a"":null}] ,""id"":null,""type"":""subscribe"",""extra"":7} ")
  = Some {| f_type := b "subscribe"; f_id := []; f_payload := Some (b "[7 , {""a"":null}]") |}
  /\ FrameText.frame_of_text ex_numval (b "{""id"":5,""type"":""subscribe""}") = None
  /\ FrameText.frame_of_text ex_numval (b "{""type"":""subscribe""}}") = None.
Proof. repeat split; vm_compute; reflexivity. Qed.

(** integer tokens converted by the model: the IEEE-754 bits of 0, -0, 1, 7, 100, -3, 2^53 - 1, 2^31 - 1;
    2^53 and everything that is not a plain integer is left to the token table *)
Example ex_int_bits :
  map (fun s => JsonText.int_bits (b s)) ["0"; "-0"; "1"; "7"; "100"; "-3"; "9007199254740991"; "2147483647"; "9007199254740992"; "1.0"; "-"]
  = [Some 0%N; Some 9223372036854775808%N; Some 4607182418800017408%N; Some 4619567317775286272%N; Some 4636737291354636288%N;
     Some 13837309855095848960%N; Some 4845873199050653695%N; Some 4746794007244308480%N; None; None; None].
Proof. vm_compute. reflexivity. Qed.
