(** non-vacuity for C16: a concrete data set with three edges sharing one timestamp, a getter that
    meets [honours], arguments that meet [args_ok], and non-trivial pages / walks *)
From Coq Require Import List NArith ZArith Bool Lia.
From ApiFu Require Import Base.Sexp TimeConn.TimeModel TimeConn.TimeSpec TimeConn.TimeProofs
  TimeConn.TimeErrModel TimeConn.TimeErrProofs TimeConn.TimeCursorCodec TimeConn.TimeCursorCodecProofs
  TimeConn.GoTimeModel TimeConn.GoTimeProofs TimeConn.DateTimeModel TimeConn.TimeCostProofs TimeConn.TimeVerdictProofs.
From ApiFu Require Cost.CostModel.
Import ListNotations.
Open Scope Z_scope.

(** the hypotheses of every main theorem are met by the data set of DESIGN §6 row 20 and the
    three reference getters *)
Example hypotheses_met :
  honours (g_exact E20) E20 /\ honours (g_reversed E20) E20 /\ honours (g_generous E20) E20
  /\ NoDup E20 /\ representable E20.
Proof.
  pose proof E20_NoDup as H.
  split; [apply g_exact_honours, H|]. split; [apply g_reversed_honours, H|].
  split; [apply g_generous_honours, H|]. split; [exact H | apply E20_representable].
Qed.

(** a page that starts in the middle of a group of edges sharing the cursor's timestamp: the
    exact-timestamp query supplies 100b and 100c, the middle query (limit first+1) supplies the rest *)
Definition a_mid : args :=
  {| a_first := Some 3; a_last := None; a_after := CCursor (100, b_a); a_before := CCursor (300, b_a);
     a_from := Some 100; a_to := Some 300 |}.

Example page_mid :
  args_ok a_mid = true /\
  conn current (g_exact E20) all_sync true a_mid
  = (OPage [(100, b_b); (100, b_c); (200, b_a)]
       (Some {| has_prev := true; has_next := true; start_c := Some (100, b_b); end_c := Some (200, b_a) |}),
     [mkq 100 100 0; mkq 101 299 4])
  /\ TimeRef E20 a_mid = [(100, b_b); (100, b_c); (200, b_a)].
Proof. vm_compute. repeat split. Qed.

(** the input of defect 20 on the current code: the exact-timestamp query is not issued *)
Example page_row20 :
  conn current (g_exact E20) all_sync true a20
  = (OPage [(200, b_a); (200, b_b); (300, b_a)]
       (Some {| has_prev := false; has_next := false; start_c := Some (200, b_a); end_c := Some (300, b_a) |}),
     [mkq 200 32503679999999999999 11])
  /\ TimeRef E20 a20 = [(200, b_a); (200, b_b); (300, b_a)].
Proof. vm_compute. split; reflexivity. Qed.

(** backwards, results through promises, empty ranges as nil, a getter that over-delivers in
    reverse order *)
Definition a_back : args :=
  {| a_first := None; a_last := Some 2; a_after := CAbsent; a_before := CCursor (200, b_b);
     a_from := None; a_to := Some 250 |}.
Example page_back :
  fst (conn current (g_generous E20) nil_promises true a_back)
  = OPage [(100, b_c); (200, b_a)]
      (Some {| has_prev := true; has_next := true; start_c := Some (100, b_c); end_c := Some (200, b_a) |})
  /\ TimeRef E20 a_back = [(100, b_c); (200, b_a)].
Proof. vm_compute. split; reflexivity. Qed.

(** walks of page size 2: three pages forward, three pages backward, all six edges once *)
Example walk_forward :
  walk_fwd current (g_exact E20) 7 all_sync 2 None None CAbsent
  = WDone [(100, b_a); (100, b_b); (100, b_c); (200, b_a); (200, b_b); (300, b_a)].
Proof. vm_compute. reflexivity. Qed.

Example walk_backward_window :
  walk_bwd current (g_reversed E20) 7 nil_promises 2 (Some 100) (Some 300) CAbsent
  = WDone [(100, b_a); (100, b_b); (100, b_c); (200, b_a); (200, b_b)].
Proof. vm_compute. reflexivity. Qed.

(** the fuel bound of the walk theorems (|E|+1 requests; tight for the empty data set, which needs
    one request) is not far off: with |E| = 6 and page size 1, five requests do not suffice, six do *)
Example walk_fuel_tight :
  walk_fwd current (g_exact E20) 5 all_sync 1 None None CAbsent = WOutOfFuel /\
  walk_fwd current (g_exact E20) 6 all_sync 1 None None CAbsent
  = WDone [(100, b_a); (100, b_b); (100, b_c); (200, b_a); (200, b_b); (300, b_a)].
Proof. vm_compute. split; reflexivity. Qed.

(** ** Stage B: failing getter calls, totalCount *)

(** three range queries (after and before cursors on different timestamps) *)
Definition a_three : args :=
  {| a_first := Some 10; a_last := None; a_after := CCursor (100, b_a); a_before := CCursor (300, b_a);
     a_from := None; a_to := None |}.
Definition px (promise : bool) (e : gerr) : xpres :=
  {| xp := {| by_promise := promise; nil_when_empty := false |}; xerr := e |}.
Definition s_both : sel := {| want_info := true; want_total := true |}.

(** call 0 through a promise that fails (error 0), call 1 synchronously and fine, call 2 fails
    synchronously (error 2): the synchronous error wins although the failing promise was obtained
    first, all three queries were issued, ResolveTotalCount is not called, no page *)
Example sync_error_beats_earlier_promise_error :
  let ps := fun i => match i with O => px true (Err 0) | 1%nat => px false NoErr | _ => px false (Err 2) end in
  winner ps (queries_of a_three) = Some (2, 3%nat) /\
  xconn current true (g_exact E20) ps s_both (TCVal 6) a_three
  = (XFieldError [EGetter 2], [mkq 100 100 0; mkq 300 300 0; mkq 101 299 11], Some O).
Proof. vm_compute. split; reflexivity. Qed.

(** call 1 fails synchronously: the middle query is never issued *)
Example sync_error_cuts_the_loop :
  let ps := fun i => match i with 1%nat => px false (Err 1) | _ => px true NoErr end in
  xconn current true (g_exact E20) ps s_both (TCVal 6) a_three
  = (XFieldError [EGetter 1], [mkq 100 100 0; mkq 300 300 0], Some O).
Proof. vm_compute. reflexivity. Qed.

(** two failing promises: the first in issue order wins *)
Example first_promise_error_wins :
  let ps := fun i => match i with O => px false NoErr | 1%nat => px true (Err 1) | _ => px true (Err 2) end in
  fst (fst (xconn current true (g_exact E20) ps s_both (TCVal 6) a_three)) = XFieldError [EGetter 1].
Proof. vm_compute. reflexivity. Qed.

(** a mixed hand-over without failures: synchronous results and promised results both arrive;
    totalCount is the application's answer *)
Example mixed_handover_with_total :
  let ps := fun i => match i with 1%nat => px true NoErr | _ => px false TypedNilErr end in
  fst (fst (xconn current true (g_exact E20) ps s_both (TCVal 6) a_three))
  = XPage [(100, b_b); (100, b_c); (200, b_a); (200, b_b)]
      (Some {| has_prev := true; has_next := false; start_c := Some (100, b_b); end_c := Some (200, b_b) |})
      (Some 6)
  /\ TimeRef E20 a_three = [(100, b_b); (100, b_c); (200, b_a); (200, b_b)].
Proof. vm_compute. split; reflexivity. Qed.

(** a failing totalCount nulls the field; first = 0 without pageInfo fetches nothing *)
Example total_count_error_and_lazy_path :
  fst (fst (xconn current true (g_exact E20) (fun _ => px false NoErr) s_both (TCErr 7) a_three)) = XFieldError [ETotal 7]
  /\ xconn current true (g_exact E20) (fun _ => px false (Err 9)) {| want_info := false; want_total := true |} (TCVal 6)
       {| a_first := Some 0; a_last := None; a_after := CAbsent; a_before := CAbsent; a_from := None; a_to := None |}
     = (XPage [] None (Some 6), [], Some 1%nat).
Proof. vm_compute. split; reflexivity. Qed.

(** promises resolving in the order 2, 0, 1: the error of promise 1 (the first failing one in
    issue order), although promise 2 failed earlier in time *)
Example join_out_of_order :
  join_sched [PVal (GSlice [(100, b_a)]); PErr 1; PErr 2] [2%nat; 0%nat; 1%nat] = JErr 1
  /\ join_sched [PVal (GSlice [(100, b_a)]); PErr 1; PErr 2] [2%nat; 0%nat] = JWait 1 [GSlice [(100, b_a)]]
  /\ join_sched [PVal (GSlice [(100, b_a)]); PVal GNil] [1%nat; 0%nat] = JDone [GSlice [(100, b_a)]; GNil].
Proof. vm_compute. repeat split. Qed.

(** ** Stage B: the strings that travel, time.Time, cost *)

(** the cursor of edge (1577836800000000000, "a") is the string the real server emits for
    2020-01-01T00:00:00Z / "a": gqROYW5v0xXlmjW5igAAoklkoWE *)
Example cursor_string :
  tb_encode (1577836800000000000, b_a)
  = [103;113;82;79;89;87;53;118;48;120;88;108;109;106;87;53;105;103;65;65;111;107;108;107;111;87;69]%N
  /\ tb_decode (tb_encode (1577836800000000000, b_a)) = DCur (1577836800000000000, b_a)
  /\ wire_ok (1577836800000000000, b_a).
Proof.
  split; [vm_compute; reflexivity|]. split; [vm_compute; reflexivity|].
  apply wire_okb_ok. vm_compute. reflexivity.
Qed.

(** hand-made documents: nil is the zero cursor, an array assigns the fields in order, a later
    duplicate key wins, an unknown key is skipped (d.Skip(), modelled since C09's CursorCodec covers
    Decoder.Skip) and leaves the zero cursor, a truncated integer is invalid *)
Example cursor_documents :
  mp_decode_tb [192]%N = DCur (0, [])
  /\ mp_decode_tb [146; 100; 161; 98]%N = DCur (100, b_b)
  /\ mp_decode_tb [131; 164;78;97;110;111; 1; 164;78;97;110;111; 100; 162;73;100; 161; 98]%N = DCur (100, b_b)
  /\ mp_decode_tb [129; 161; 120; 1]%N = DCur (0, [])
  /\ mp_decode_tb [129; 164;78;97;110;111; 211; 0; 0]%N = DNil.
Proof. vm_compute. repeat split. Qed.

(** walking by the strings: the hypotheses of the string-level walk theorems are met by E20 *)
Example walk_by_strings :
  (forall e, In e E20 -> wire_ok e) /\
  walk_fwd_wire (g_exact E20) 7 all_sync 2 None None None
  = WDone [(100, b_a); (100, b_b); (100, b_c); (200, b_a); (200, b_b); (300, b_a)].
Proof.
  split; [|vm_compute; reflexivity].
  intros e He.
  repeat (destruct He as [<-|He]; [apply wire_okb_ok; vm_compute; reflexivity|]).
  destruct He.
Qed.

(** DateTime strings: the zero time, a fraction of more than nine digits, the year -1 through a
    zone offset; a one-digit hour is left to Go's lenient fallback parser (outside the model) *)
Definition ascii_bytes (l : list N) : bytes := l.
Example datetime_strings :
  parse_rfc3339 [48;48;48;49;45;48;49;45;48;49;84;48;48;58;48;48;58;48;48;90]%N = PDTime zero_time
  /\ parse_rfc3339 [50;48;50;48;45;48;49;45;48;49;84;48;48;58;48;48;58;48;48;46;49;50;51;52;53;54;55;56;57;49;90]%N
     = PDTime 1577836800123456789
  /\ parse_rfc3339 [48;48;48;48;45;48;49;45;48;49;84;48;48;58;48;48;58;48;48;43;50;51;58;53;57]%N
     = PDTime (-62167305540000000000)
  /\ parse_rfc3339 [50;48;50;48;45;48;49;45;48;49;84;48;58;48;48;58;48;48;90]%N = PDOut.
Proof. vm_compute. repeat split. Qed.

(** time.Time: a beforeTime of the year 9999 in zone -23:59 and an atOrAfterTime before Go's zero
    time meet [opt_wf]; the time-level queries are the integer ones *)
Definition t_far_to : gtime := {| gsec := 253402300799 + 86340 + unix_to_internal; gnsec := 999999999; gmono := None; gloc := -86340 |}.
Definition t_far_from : gtime := {| gsec := -86340; gnsec := 0; gmono := None; gloc := 86340 |}.
Example far_arguments :
  g_wf t_far_to /\ g_wf t_far_from /\ inst t_far_from < zero_time /\ distant_future < inst t_far_to /\
  map inst_query (range_queries_t (Some (9223372036854775807, b_a)) None (Some t_far_from) (Some t_far_to) 3)
  = [mkq 9223372036854775807 9223372036854775807 0; mkq 9223372036854775808 (inst t_far_to - 1) 3].
Proof.
  split; [unfold g_wf, t_far_to, giga, unix_to_internal; cbn [gsec gnsec gmono]; repeat split; lia|].
  split; [unfold g_wf, t_far_from, giga; cbn [gsec gnsec gmono]; repeat split; lia|].
  split; [vm_compute; reflexivity|]. split; [vm_compute; reflexivity|].
  vm_compute. reflexivity.
Qed.

(** cost: last:2 over E20 — resolver cost 1, edge multiplier 2, two edges returned *)
Example cost_of_a_page :
  let a := {| a_first := None; a_last := Some 2; a_after := CAbsent; a_before := CAbsent; a_from := None; a_to := None |} in
  edges_multiplier a {| CostModel.k_user := tt; CostModel.k_max_edge := None |} = Some 2
  /\ length (TimeRef E20 a) = 2%nat.
Proof. vm_compute. split; reflexivity. Qed.

(** a promise resolving to a non-slice value beside a failing promise: the real error wins (the
    callback that would reject the value is never called); alone it is the non-slice error *)
Example non_slice_answers :
  (let ps := fun i => match i with O => px true BadValue | 1%nat => px true (Err 1) | _ => px false NoErr end in
   fst (fst (xconn current true (g_exact E20) ps s_both (TCVal 6) a_three)) = XFieldError [EGetter 1])
  /\ (let ps := fun i => match i with O => px true BadValue | _ => px false NoErr end in
      fst (fst (xconn current true (g_exact E20) ps s_both (TCVal 6) a_three)) = XFieldError [ENonSlice])
  /\ no_bad (fun _ => px true NoErr).
Proof. split; [vm_compute; reflexivity|]. split; [vm_compute; reflexivity|]. intros j. discriminate. Qed.

(** the verdict: a promised non-slice value (call 0) loses against a later failing promise (call 1),
    a synchronous non-slice value (call 2) beats both and is found before anything else *)
Example verdict_priorities :
  verdict (fun i => match i with O => px true BadValue | 1%nat => px true (Err 1) | _ => px false NoErr end)
          (queries_of a_three) = Some (SErr 1, 3%nat)
  /\ verdict (fun i => match i with O => px true BadValue | 1%nat => px true (Err 1) | _ => px false BadValue end)
             (queries_of a_three) = Some (SNonSlice, 3%nat)
  /\ verdict (fun i => match i with O => px true BadValue | _ => px false TypedNilErr end)
             (queries_of a_three) = Some (SNonSlice, 3%nat)
  /\ verdict (fun _ => px true TypedNilErr) (queries_of a_three) = None.
Proof. vm_compute. repeat split. Qed.
