(** non-vacuity for C09: a concrete connection of five edges with int cursors, inserted in
    shuffled order, served in both modes through the real cursor codec; the hypotheses of every
    main theorem of Properties/C09.v are met by it, and the conclusions are computed. *)
From Coq Require Import List ZArith NArith Bool Lia Sorting.Sorted Sorting.Permutation.
From ApiFu Require Import Base.Sexp Relay.CursorCodec Relay.CursorCodecProofs Relay.CursorCodecTotal
     Relay.RelayModel Relay.RelayModelF Relay.RelaySpec Relay.RelayProofs Relay.RelayInstance Relay.RelaySerFailProofs.
Import ListNotations.
Open Scope Z_scope.

Definition edge := (cursor * Z)%type.
Definition ecur (e : edge) : cursor := fst e.
Definition e (c n : Z) : edge := (CInt c, n).

(** insertion order / cursor order *)
Definition edges : list edge := [e 30 103; e 10 101; e 50 105; e 20 102; e 40 104].
Definition conn : list edge := [e 10 101; e 20 102; e 30 103; e 40 104; e 50 105].

Example conn_is_connection : connection_of cursor edge cursor_ltb ecur edges conn.
Proof.
  split.
  - apply NoDup_Permutation.
    + repeat constructor; simpl; intuition discriminate.
    + repeat constructor; simpl; intuition discriminate.
    + intro x. simpl. tauto.
  - repeat constructor.
Qed.

(** the two applications: all edges through a promise; the minimal window, synchronously *)
Definition app_all_edges : app cursor edge :=
  {| app_has_all := true; app_all := Ok (Promise (Ok edges));
     app_edges := fun _ _ _ => Err EApp; app_total := None |}.
Definition app_window : app cursor edge :=
  {| app_has_all := false; app_all := Err EApp;
     app_edges := fun af bf limit => Ok (Sync (needed cursor edge cursor_ltb ecur conn af bf limit));
     app_total := Some (Ok 5) |}.

Example all_ok : app_ok cursor edge cursor_ltb ecur app_all_edges edges conn.
Proof.
  split; [exact conn_is_connection|]. left. split; [reflexivity|]. split; [right; reflexivity | left; reflexivity].
Qed.

Example window_ok_ex : app_ok cursor edge cursor_ltb ecur app_window edges conn.
Proof.
  split; [exact conn_is_connection|]. right. split; [reflexivity|]. split; [reflexivity|].
  intros af bf limit. eexists. split; [left; reflexivity|].
  apply (needed_window_ok cursor edge cursor_ltb ecur cursor_ltb_irrefl).
  exact (proj2 conn_is_connection).
Qed.

Example cursors_ok : forall x, In x conn -> kind_of (ecur x) = KInt /\ cursor_ok (ecur x).
Proof. intros x Hx. simpl in Hx. repeat destruct Hx as [Hx|Hx]; try contradiction; subst x; (split; [reflexivity | apply cursor_ok_int; unfold ecur, e, fst; lia]). Qed.

Notation srv a := (serve cursor edge cursor_ltb ecur cursor_encode (cursor_decode KInt) a).
Definition cur_str (c : Z) : bytes := cursor_encode (CInt c).

(** first: 2, after: cursor(20), all-edges mode through a promise: edges 30, 40; hasNextPage
    required and true; hasPreviousPage allowed (the edge 10, 20 exist) and true *)
Example page_all :
  srv app_all_edges {| a_first := Some 2; a_last := None; a_after := Some (cur_str 20); a_before := None |}
  = RData [e 30 103; e 40 104]
          (Ok {| sp_prev := true; sp_next := true; sp_start := cur_str 30; sp_end := cur_str 40 |}) (Ok 5).
Proof. vm_compute. reflexivity. Qed.

(** the same request in window mode: same edges, cursors, totalCount, hasNextPage; the optional
    hasPreviousPage is false because the minimal window has no edge before the cursor *)
Example page_window :
  srv app_window {| a_first := Some 2; a_last := None; a_after := Some (cur_str 20); a_before := None |}
  = RData [e 30 103; e 40 104]
          (Ok {| sp_prev := false; sp_next := true; sp_start := cur_str 30; sp_end := cur_str 40 |}) (Ok 5).
Proof. vm_compute. reflexivity. Qed.

(** the limit handed to ResolveEdges is first+1 *)
Example window_call :
  snd (resolve cursor edge cursor_ltb ecur cursor_encode (cursor_decode KInt) app_window
         {| a_first := Some 2; a_last := None; a_after := Some (cur_str 20); a_before := None |})
  = [{| k_after := Some (CInt 20); k_before := None; k_limit := 3 |}].
Proof. vm_compute. reflexivity. Qed.

(** last: 2, before: a foreign cursor (35): edges 20, 30 *)
Example page_backward :
  srv app_window {| a_first := None; a_last := Some 2; a_after := None; a_before := Some (cur_str 35) |}
  = RData [e 20 102; e 30 103]
          (Ok {| sp_prev := true; sp_next := false; sp_start := cur_str 20; sp_end := cur_str 30 |}) (Ok 5).
Proof. vm_compute. reflexivity. Qed.

(** the specification's answers for these requests *)
Example spec_page :
  spec_edges cursor edge cursor_ltb ecur conn None (Some (CInt 20)) (Some 2) None = Some [e 30 103; e 40 104]
  /\ relay_edges_to_return cursor edge cursor_ltb ecur conn None (Some (CInt 20)) (Some 2) None = Some [e 30 103; e 40 104]
  /\ has_next_required cursor edge cursor_ltb ecur conn None (Some (CInt 20)) (Some 2) = true
  /\ has_prev_required cursor edge cursor_ltb ecur conn None (Some (CInt 20)) None = false
  /\ has_prev_allowed cursor edge cursor_ltb ecur conn None (Some (CInt 20)) None = true.
Proof. vm_compute. repeat split; reflexivity. Qed.

(** the lazy zero-edge path *)
Example page_zero :
  srv app_window {| a_first := Some 0; a_last := None; a_after := None; a_before := None |}
  = RData [] (Ok {| sp_prev := false; sp_next := true; sp_start := []; sp_end := [] |}) (Ok 5).
Proof. vm_compute. reflexivity. Qed.

(** argument errors and a rejected cursor string *)
Example errors :
  srv app_all_edges {| a_first := Some (-1); a_last := None; a_after := None; a_before := None |} = RError EFirstNegative
  /\ srv app_all_edges {| a_first := Some 1; a_last := Some 1; a_after := None; a_before := None |} = RError EBothFirstLast
  /\ srv app_all_edges {| a_first := None; a_last := None; a_after := None; a_before := None |} = RError ENoCount
  /\ srv app_all_edges {| a_first := Some 1; a_last := None; a_after := Some [65%N]; a_before := None |} = RError EInvalidAfter.
Proof. vm_compute. repeat split; reflexivity. Qed.

(** walks with page size 2 (three requests) and 1 (five requests), both modes, both directions *)
Notation server a := (as_server cursor edge cursor_ltb ecur cursor_encode (cursor_decode KInt) a).
Example walks :
  walk_forward edge (server app_all_edges) 2 6 None = Done conn
  /\ walk_forward edge (server app_window) 2 6 None = Done conn
  /\ walk_backward edge (server app_window) 2 6 None = Done conn
  /\ walk_forward edge (server app_window) 1 6 None = Done conn
  /\ walk_forward edge (server app_window) 1 4 None = OutOfFuel.
Proof. vm_compute. repeat split; reflexivity. Qed.

(** the general theorem applies to this instance *)
Example walk_by_theorem : forall n, 1 <= n -> walk_forward edge (server app_window) n 6 None = Done conn.
Proof. exact (walk_forward_codec edge ecur KInt app_window edges conn window_ok_ex cursors_ok). Qed.

(** EdgesToReturn with first and last together, and the panic on a negative count *)
Example direct :
  edges_to_return cursor edge cursor_ltb ecur edges None None (Some 4) (Some 2)
  = Ret ([e 30 103; e 40 104], {| pi_prev := true; pi_next := true; pi_start := Some (CInt 30); pi_end := Some (CInt 40) |})
  /\ edges_to_return cursor edge cursor_ltb ecur edges None None (Some (-1)) None = Panic.
Proof. vm_compute. split; reflexivity. Qed.

(** the codec: SerializeCursor(5) = "0wAAAAAAAAAF", a string cursor, and strings that are accepted
    although the server never emitted them *)
Example codec :
  cursor_encode (CInt 5) = [48; 119; 65; 65; 65; 65; 65; 65; 65; 65; 65; 70]%N
  /\ cursor_decode KInt (cursor_encode (CInt (-7))) = Some (CInt (-7))
  /\ cursor_decode KStr (cursor_encode (CStr [107; 49]%N)) = Some (CStr [107; 49]%N)
  /\ cursor_decode KInt [119; 65]%N = Some (CInt 0)          (* "wA" = msgpack nil *)
  /\ cursor_decode KInt [66; 81]%N = Some (CInt 5)           (* "BQ" = positive fixnum 5 *)
  /\ cursor_decode KInt [66; 10; 81]%N = Some (CInt 5)       (* a line break inside *)
  /\ cursor_decode KInt [66]%N = None
  /\ cursor_decode KInt (cursor_encode (CStr [107]%N)) = None.
Proof. vm_compute. repeat split; reflexivity. Qed.

(** ** Stage B *)

(** the struct cursor: SerializeCursor(TimeBasedCursor{5, "ab"}) = "gqROYW5v0wAAAAAAAAAFoklkomFi"; strings the
    server never emitted: an unknown key whose value (nested arrays) is skipped, the array form with a
    surplus element, nil; errors: a map32 claiming 2^32-1 pairs, an array32 claiming 2^32-1 elements,
    the unused code 0xc1 in a skipped position *)
Definition b64s (l : list N) : bytes := b64_encode l.
Example time_codec :
  cursor_encode_f (CTime 5 [97; 98]%N)
  = Some [103; 113; 82; 79; 89; 87; 53; 118; 48; 119; 65; 65; 65; 65; 65; 65; 65; 65; 65; 70; 111; 107; 108; 107; 111; 109; 70; 105]%N
  /\ cursor_decode KTime (cursor_encode (CTime (-7) [97; 98]%N)) = Some (CTime (-7) [97; 98]%N)
  /\ cursor_decode KTime (b64s [129; 161; 120; 145; 145; 192]%N) = Some (CTime 0 [])
  /\ cursor_decode KTime (b64s [147; 5; 161; 105; 145; 192]%N) = Some (CTime 5 [105]%N)
  /\ cursor_decode KTime (b64s [192]%N) = Some (CTime 0 [])
  /\ cursor_decode KTime (b64s [223; 255; 255; 255; 255; 161; 120; 1]%N) = None
  /\ cursor_decode KTime (b64s [221; 255; 255; 255; 255; 5; 161; 105; 1; 2]%N) = None
  /\ cursor_decode KTime (b64s [129; 161; 120; 193]%N) = None.
Proof. vm_compute. repeat split; reflexivity. Qed.

(** the fuel is real: the same string with too little fuel runs out, with fuel = its length (or
    more) it does not — as [C09_cursor_decode_terminates] / [_fuel_irrelevant] say in general *)
Example fuel_is_real :
  let s := b64s [129; 161; 120; 145; 145; 192]%N in
  cursor_decode_f 0 KTime s = DOutOfFuel /\ cursor_decode_f 2 KTime s = DOutOfFuel
  /\ cursor_decode_f (length s) KTime s = DOk (CTime 0 []) /\ cursor_decode_f 1000 KTime s = DOk (CTime 0 []).
Proof. vm_compute. repeat split; reflexivity. Qed.

(** SerializeCursor failing: an application whose cursors cannot be serialised when they are >= 40 *)
Definition enc_small (c : cursor) : option bytes :=
  match c with CInt z => if z <? 40 then Some (cursor_encode c) else None | _ => None end.
Notation srvf sel a := (serve_f cursor edge cursor_ltb ecur enc_small (cursor_decode KInt) sel a).
Example serialize_fails :
  (* page 10,20: fine *)
  srvf true app_all_edges {| a_first := Some 2; a_last := None; a_after := None; a_before := None |}
  = FData [(cur_str 10, e 10 101); (cur_str 20, e 20 102)]
          (Ok {| sp_prev := false; sp_next := true; sp_start := cur_str 10; sp_end := cur_str 20 |}) (Ok 5)
  (* page 10..40: the end cursor cannot be serialised: an error, whatever is selected *)
  /\ srvf false app_all_edges {| a_first := Some 4; a_last := None; a_after := None; a_before := None |} = FError ESerialize
  /\ srvf false app_window {| a_first := None; a_last := Some 1; a_after := None; a_before := None |} = FError ESerialize
  (* zero edges: nothing is serialised *)
  /\ srvf true app_window {| a_first := Some 0; a_last := None; a_after := None; a_before := None |}
     = FData [] (Ok {| sp_prev := false; sp_next := true; sp_start := []; sp_end := [] |}) (Ok 5).
Proof. vm_compute. repeat split; reflexivity. Qed.

(** Direction *)
Notation srvd d a := (serve_dir cursor edge cursor_ltb ecur cursor_encode_f (cursor_decode KInt) d true a).
Example directions :
  let w := {| w_first := WVal 2; w_last := WAbsent; w_after := WVal (cur_str 20); w_before := WAbsent |} in
  srvd ForwardOnly app_window w = srvd Bidirectional app_window w
  /\ (exists p pi t, srvd ForwardOnly app_window w = FData p pi t /\ map snd p = [e 30 103; e 40 104])
  /\ srvd BackwardOnly app_window w = FError EValidation
  /\ srvd ForwardOnly app_window {| w_first := WVal 2; w_last := WNull; w_after := WAbsent; w_before := WAbsent |} = FError EValidation
  /\ srvd ForwardOnly app_window {| w_first := WNull; w_last := WAbsent; w_after := WAbsent; w_before := WAbsent |} = FError EValidation
  /\ srvd Bidirectional app_window {| w_first := WNull; w_last := WAbsent; w_after := WAbsent; w_before := WAbsent |} = FError ENoCount.
Proof. vm_compute. repeat split; try reflexivity. do 3 eexists. split; reflexivity. Qed.

(** the hypotheses of [C09_connection_response_f] are met by this instance with the real codec *)
Example response_f_by_theorem : forall ar af bf sel,
  args_rejected (a_first ar) (a_last ar) = false ->
  decode_arg cursor (cursor_decode KInt) (a_after ar) EInvalidAfter = Ok af ->
  decode_arg cursor (cursor_decode KInt) (a_before ar) EInvalidBefore = Ok bf ->
  serve_f cursor edge cursor_ltb ecur cursor_encode_f (cursor_decode KInt) sel app_window ar
  = lift cursor edge ecur cursor_encode sel (serve cursor edge cursor_ltb ecur cursor_encode (cursor_decode KInt) app_window ar).
Proof.
  intros ar af bf sel H1 H2 H3.
  refine (proj2 (serve_f_ok cursor edge cursor_ltb ecur cursor_ltb_irrefl cursor_ltb_trans cursor_ltb_total
                   cursor_encode cursor_encode_f (cursor_decode KInt) app_window edges conn ar af bf sel window_ok_ex _ H1 H2 H3)).
  intros x Hx. destruct (cursors_ok x Hx) as [_ [_ Hlen]]. unfold enc_ok, cursor_encode_f. cbv zeta. rewrite Hlen. reflexivity.
Qed.

(** struct cursors (two edges per timestamp) through one-directional connections of the model the
    check runs: forward-only walks forwards, backward-only backwards, and the wrong direction is
    rejected before the resolver runs (the client sees an error) *)
Definition te (n : Z) (i : N) (node : Z) : edge := (CTime n [i], node).
Definition tedges : list edge := [te 2000 99 3; te 1000 98 2; te 1000 97 1; te 2000 100 4].
Definition tconn : list edge := [te 1000 97 1; te 1000 98 2; te 2000 99 3; te 2000 100 4].
Definition tapp : app cursor edge :=
  {| app_has_all := true; app_all := Ok (Sync tedges); app_edges := fun _ _ _ => Err EApp; app_total := None |}.
Notation tsrv d := (as_server_dir cursor edge cursor_ltb ecur cursor_encode_f (cursor_decode KTime) d tapp).
Example time_walks :
  walk_forward edge (tsrv ForwardOnly) 1 5 None = Done tconn
  /\ walk_forward edge (tsrv ForwardOnly) 3 5 None = Done tconn
  /\ walk_backward edge (tsrv BackwardOnly) 3 5 None = Done tconn
  /\ walk_backward edge (tsrv Bidirectional) 1 5 None = Done tconn
  /\ walk_backward edge (tsrv ForwardOnly) 3 5 None = ServerError.
Proof. vm_compute. repeat split; reflexivity. Qed.

(** TimeBasedConnection's collection of getter answers: direct, promise, direct — nothing is lost;
    a failing promise is the error *)
Example time_collect_ex :
  time_resolve_edges Z [Ok (Sync [1; 2]); Ok (Promise (Ok [3])); Ok (Sync [4])] = Ok (Promise (Ok [1; 2; 4; 3]))
  /\ time_resolve_edges Z [Ok (Sync [1]); Ok (Sync [])] = Ok (Sync [1])
  /\ time_resolve_edges Z [Ok (Sync [1]); Ok (Promise (Err EApp)); Ok (Promise (Ok [2]))] = Ok (Promise (Err EApp))
  /\ time_resolve_edges Z [Ok (Promise (Ok [2])); Err EApp] = Err EApp.
Proof. vm_compute. repeat split; reflexivity. Qed.

(** the recursive Skip: [[[nil]], 7] is skipped with frames stacked 4 deep (array, array, array,
    nil), the counting transcription gives the same rest; a truncated container is an error in both *)
Example skip_depth_ex :
  skip_depth 10 1 [146; 145; 145; 192; 7; 99]%N = DkOk [99%N] 4
  /\ mp_skip 10 1 [146; 145; 145; 192; 7; 99]%N = SkOk [99%N]
  /\ skip_depth 10 1 [146; 145; 145; 192]%N = DkErr /\ mp_skip 10 1 [146; 145; 145; 192]%N = SkErr
  /\ skip_depth 2 1 [146; 145; 145; 192; 7; 99]%N = DkOutOfFuel.
Proof. vm_compute. repeat split; reflexivity. Qed.

(** [C09_arbitrary_cursor] applies to the five-edge instance: any counts, any strings *)
Example arbitrary_by_theorem : forall ar sel,
  serve_f cursor edge cursor_ltb ecur cursor_encode_f (cursor_decode KInt) sel app_window ar <> FError EPanicked.
Proof.
  intros ar sel.
  exact (proj1 (proj2 (arbitrary_cursor_codec edge ecur KInt app_window edges conn window_ok_ex cursors_ok ar sel))).
Qed.
Example arbitrary_ex :
  (* a hostile string that happens to decode (positive fixnum 25: between the edges 20 and 30) is a position *)
  serve_f cursor edge cursor_ltb ecur cursor_encode_f (cursor_decode KInt) false app_window
    {| a_first := Some 1; a_last := None; a_after := Some [71; 81]%N; a_before := None |}
  = FData [([], e 30 103)] (Ok {| sp_prev := false; sp_next := true; sp_start := cur_str 30; sp_end := cur_str 30 |}) (Ok 5)
  (* one that does not is the error of its argument *)
  /\ serve_f cursor edge cursor_ltb ecur cursor_encode_f (cursor_decode KInt) false app_window
    {| a_first := Some 1; a_last := None; a_after := None; a_before := Some [33]%N |} = FError EInvalidBefore.
Proof. vm_compute. split; reflexivity. Qed.
