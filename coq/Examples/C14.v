(** non-vacuity for C14: concrete instances meeting the hypotheses of each main theorem *)
From Coq Require Import List ZArith Bool Lia.
From ApiFu Require Import Base.Sexp Cost.CostModel Cost.CostSpec Cost.CostProofs.
Import ListNotations.
Open Scope Z_scope.

(** ** the checked operations at the boundary *)
Example mul_below : checked_mul 3037000499 3037000499 = 9223372030926249001.
Proof. vm_compute. reflexivity. Qed.
Example mul_above : checked_mul 3037000500 3037000500 = -1.   (* the product wraps to a negative number *)
Proof. vm_compute. reflexivity. Qed.
Example mul_wraps_negative : wrap64 (3037000500 * 3037000500) = -9223372036709301616.
Proof. vm_compute. reflexivity. Qed.
Example mul_wraps_to_zero : wrap64 (4294967296 * 4294967296) = 0 /\ checked_mul 4294967296 4294967296 = -1.
Proof. vm_compute. split; reflexivity. Qed.
(* a product that wraps to a small POSITIVE number is detected by the division test as well *)
Example mul_wraps_positive : wrap64 (8589934592 * 2147483649) = 8589934592 /\ checked_mul 8589934592 2147483649 = -1.
Proof. vm_compute. split; reflexivity. Qed.
Example mul_marker_zero : checked_mul (-1) 0 = -1.             (* the marker is absorbing even against 0 *)
Proof. vm_compute. reflexivity. Qed.
Example add_max : checked_add MaxInt 0 = MaxInt /\ checked_add MaxInt 1 = -1 /\ checked_add (-1) 0 = -1.
Proof. vm_compute. repeat split. Qed.

(** ** a document with a context-dependent cost inside a fragment that is spread at two depths, under
    two different multipliers and two different contexts; cost contexts are integers here.

      { a: setc(c: 5) { ...F  big { ...F } }  rc }
      fragment F on Obj { one ...G }
      fragment G on Obj { rc }

    setc: r = 1, m = 3, context := 5;  big: r = 0, m = 2^62, context := 7;  one: r = 1;
    rc: r = the context;  default cost 1. *)
Definition fld (f : Z -> option (fcost Z)) (kids : list (node Z)) : node Z := Node (KField (Some f) false) [Node KOther kids].
Definition k (r m : Z) (c : option Z) : Z -> option (fcost Z) := fun _ => Some {| fc_r := r; fc_m := m; fc_ctx := c |}.
Definition rc : node Z := fld (fun ctx => Some {| fc_r := ctx; fc_m := 0; fc_ctx := None |}) [].
Definition nF : bytes := [70%N]. Definition nG : bytes := [71%N].
Definition sp (n : bytes) : node Z := Node (KSpread n) [Node KOther []].
Definition frs : list (bytes * node Z) :=
  [ (nF, Node KOther [Node KOther [fld (k 1 0 None) []; sp nG]]);
    (nG, Node KOther [Node KOther [rc]]) ].
Definition op : node Z :=
  Node KOther [Node KOther [ fld (k 1 3 (Some 5)) [sp nF; fld (k 0 4611686018427387904 (Some 7)) [sp nF]]; rc ]].
Definition ops : list (option bytes * node Z) := [(None, op)].
Definition dflt : fcost Z := {| fc_r := 1; fc_m := 0; fc_ctx := None |}.

Definition the_tree : list etree :=
  [ENode 1 3 [ENode 1 0 []; ENode 5 0 []; ENode 0 4611686018427387904 [ENode 1 0 []; ENode 7 0 []]]; ENode 0 0 []].

Example example_expands : Expand dflt frs [] 0 op the_tree.
Proof. apply (expand_sound Z dflt frs 3). vm_compute. reflexivity. Qed.

Example example_hypotheses :
  NoDup (map fst frs) /\ get_operation ops [] = Some op /\ forallb costs_ok the_tree = true /\ (length frs < 3)%nat.
Proof.
  split; [|vm_compute; repeat split; lia].
  repeat constructor; cbn; intuition discriminate.
Qed.

(** 1 + 3*(1 + 5 + 0 + 2^62*(1 + 7)) = 19 + 3*2^65 > MaxInt: reported as MaxInt, rejected by every limit *)
Example example_ref : RefCost the_tree = 110680464442257309715.
Proof. vm_compute. reflexivity. Qed.
Example example_model : validate_cost Z true 3 dflt 0 ops frs [] false 100 = Done MaxInt true.
Proof. vm_compute. reflexivity. Qed.

(** the same document with a small multiplier instead of 2^62: exact, and accepted at the limit *)
Definition op2 : node Z :=
  Node KOther [Node KOther [ fld (k 1 3 (Some 5)) [sp nF; fld (k 0 10 (Some 7)) [sp nF]]; rc ]].
Example example2 :
  exists ts, Expand dflt frs [] 0 op2 ts /\ RefCost ts = 259 /\
             validate_cost Z true 3 dflt 0 [(None, op2)] frs [] false 259 = Done 259 false /\
             validate_cost Z true 3 dflt 0 [(None, op2)] frs [] false 258 = Done 259 true.
Proof.
  eexists. split; [apply (expand_sound Z dflt frs 3); vm_compute; reflexivity|].
  vm_compute. repeat split.
Qed.

(** the static hypotheses of [cost_exact_validated] on this document *)
Definition rank (n : bytes) : nat := match n with [70%N] => 2 | [71%N] => 1 | _ => 0 end.
Example example_validated : validated Z frs rank /\ locally_ok Z frs op.
Proof.
  split.
  - intros name def H. unfold frs in H. cbn [find_fragment] in H.
    destruct (bytes_eqb nF name) eqn:E1.
    + apply bytes_eqb_eq in E1. subst name. inversion H; subst def. split.
      * cbn. repeat split; try discriminate; try (intros; discriminate).
      * cbn. intros s [Hs|[]]. subst s. cbn. lia.
    + destruct (bytes_eqb nG name) eqn:E2; [|discriminate].
      apply bytes_eqb_eq in E2. subst name. inversion H; subst def. split.
      * cbn. repeat split; try discriminate; try (intros; discriminate).
      * cbn. intros s [].
  - cbn. repeat split; try discriminate; try (intros; discriminate).
Qed.

(** ** the defect-18 tree is a legitimate input (costs in range, reference cost 0) *)
Example big_zero_ok : forallb costs_ok big_zero = true /\ RefCost big_zero = 0.
Proof. vm_compute. split; reflexivity. Qed.

(** ** connections *)
Example conn_first : connection_edge_count (AInt 3) AAbsent 7 = Some 3 /\ connection_edge_count (AInt 0) AAbsent 7 = Some 0
                     /\ connection_edge_count AAbsent (AInt 10) 7 = Some 7 /\ connection_edge_count (AInt 3) (AInt 2) 7 = None.
Proof. vm_compute. repeat split. Qed.

(** * round 3 *)
From ApiFu Require Val.Values Val.CoerceModel Val.CoerceSpec Val.CoerceProofs Relay.RelayModel.
From ApiFu Require Import Cost.CostArgs Cost.CostArgsProofs Cost.CostFragments Cost.CostRelay.

(** ** a cost function over a list argument and an input-object argument with a field default:
    [f(xs: [Int], o: In)] with [input In { r: Int = 2, m: Int }], selection [f(xs: $l, o: {m: $v})],
    variables [$l: [Int] = [4, 5]] (not provided: the default) and [$v: Int] (provided: 3).
    The cost function sees xs = [4, 5] and o = {m: 3, r: 2}: the field default was filled in. *)
Definition nm (l : list N) : bytes := l.
Definition n_Int' := nm [73; 110; 116]%N.   Definition n_In := nm [73; 110]%N.
Definition n_xs := nm [120; 115]%N.          Definition n_o := nm [111]%N.
Definition n_r := nm [114]%N.                Definition n_m := nm [109]%N.
Definition n_l := nm [108]%N.                Definition n_v := nm [118]%N.
Definition EE : Values.env :=
  [(n_Int', Values.TScalar Values.KInt);
   (n_In, Values.TInput [(n_r, {| Values.in_type := Values.StNamed n_Int'; Values.in_default := Some (Values.GInt 2) |});
                         (n_m, {| Values.in_type := Values.StNamed n_Int'; Values.in_default := None |})] Values.HNone)].
Definition the_field : afield Z :=
  {| af_name := []; af_argdefs := [(n_xs, {| Values.in_type := Values.StList (Values.StNamed n_Int'); Values.in_default := None |});
                    (n_o, {| Values.in_type := Values.StNamed n_In; Values.in_default := None |})];
     af_args := [(n_xs, Values.LVar n_l); (n_o, Values.LObject [(n_m, Values.LVar n_v)])];
     af_cost := Some (fun ctx a => Some {| fc_r := match Values.aget n_xs a with Some (Values.GList l) => Z.of_nat (length l) | _ => 0 end;
                                           fc_m := 0; fc_ctx := None |}) |}.
Definition the_defs : list Values.vardef :=
  [{| Values.vd_name := n_l; Values.vd_type := Values.StList (Values.StNamed n_Int');
      Values.vd_default := Some (Values.LList [Values.LInt 4; Values.LInt 5]) |};
   {| Values.vd_name := n_v; Values.vd_type := Values.StNamed n_Int'; Values.vd_default := None |}].
Definition the_raw : list (Values.name * Values.jval) := [(n_v, Values.JInt 3)].
Definition dtn : bytes -> option bytes := fun _ => None.

Example args_hypotheses :
  CoerceModel.static_ok CoerceModel.all_fixed EE dtn true (af_argdefs the_field) the_defs (af_args the_field) = true /\
  CoerceSpec.env_closed EE = true /\ CoerceSpec.env_ok EE = true /\
  CoerceModel.has_dup (map fst (af_argdefs the_field)) = false /\
  forallb (fun ad => CoerceSpec.default_ok EE (snd ad)) (af_argdefs the_field) = true /\
  forallb (fun ad => CoerceSpec.sty_closed EE (Values.in_type (snd ad))) (af_argdefs the_field) = true /\
  field_usage_ok Z EE the_defs the_field = true /\
  CoerceModel.coerce_variable_values CoerceModel.all_fixed EE dtn the_defs the_raw
  = Values.Ok [(n_l, Values.GList [Values.GInt 4; Values.GInt 5]); (n_v, Values.GInt 3)].
Proof. vm_compute. repeat split; reflexivity. Qed.

Example args_seen :
  CoerceSpec.ref_request EE dtn (af_argdefs the_field) the_defs (af_args the_field) the_raw
  = Some [(n_o, Values.GMap [(n_m, Values.GInt 3); (n_r, Values.GInt 2)]);
          (n_xs, Values.GList [Values.GInt 4; Values.GInt 5])].
Proof. vm_compute. reflexivity. Qed.

(** the whole rule on the request { f(xs: $l, o: {m: $v}) }: cost 2 = the length of the default list *)
Example request_costed :
  validate_cost_request Z EE dtn true 1 dflt 0
    [{| ao_name := None; ao_vardefs := the_defs; ao_body := ANode AOther [ANode (AField the_field) []] |}]
    [] [] the_raw 5
  = Done 2 false.
Proof. vm_compute. reflexivity. Qed.

(** ** a connection whose application ignores the limit and hands over 5 edges for [last: 2] with a
    null [first]: 2 edges are served, the multiplier charged is 2 *)
Definition greedy : RelayModel.app Z Z :=
  {| RelayModel.app_has_all := false; RelayModel.app_all := RelayModel.Err RelayModel.EApp;
     RelayModel.app_edges := fun _ _ _ => RelayModel.Ok (RelayModel.Sync [5; 1; 4; 2; 3]);
     RelayModel.app_total := None |}.
Definition the_args : RelayModel.args :=
  {| RelayModel.a_first := count_of ANull; RelayModel.a_last := count_of (AInt 2);
     RelayModel.a_after := None; RelayModel.a_before := None |}.
Example relay_instance :
  exists pi total,
    RelayModel.serve Z Z Z.ltb (fun e => e) (fun _ => [1%N]) (fun _ => None) greedy the_args
    = RelayModel.RData [4; 5] pi total.
Proof. eexists; eexists. vm_compute. reflexivity. Qed.
Example relay_charged :
  match fc_ctx (default_connection_cost (U := unit) ANull (AInt 2) {| k_user := tt; k_max_edge := None |}) with
  | Some c => option_map (fun fc => fc_m fc) (edges_cost c)
  | None => None
  end = Some 2.
Proof. vm_compute. reflexivity. Qed.

(** ** the fragment-locality theorems: the example document above meets their hypotheses (fragment G
    under the contexts 5 and 7, multipliers 3 and 3 * 2^62) *)
Example fragment_body_expands :
  Expand dflt frs [nF] 5 (Node KOther [Node KOther [rc]]) [ENode 5 0 []] /\
  Expand dflt frs [] 7 (Node KOther [Node KOther [rc]]) [ENode 7 0 []].
Proof. split; apply (expand_sound Z dflt frs 3); vm_compute; reflexivity. Qed.

(** * round 4 *)
From ApiFu Require Import Cost.CostTrace Cost.CostTraceProofs Cost.CostC04.

(** the request of [request_costed], traced: one call, of [the_field], under context 0, with the
    argument map of [args_seen] *)
Definition the_op : aop Z :=
  {| ao_name := None; ao_vardefs := the_defs; ao_body := ANode AOther [ANode (AField the_field) []] |}.
Example trace_instance :
  map (fun c => (c_ctx c, c_args c)) (snd (validate_cost_trace Z EE dtn true 1 dflt 0 [the_op] [] [] the_raw 5))
  = [(0, [(n_o, Values.GMap [(n_m, Values.GInt 3); (n_r, Values.GInt 2)]);
          (n_xs, Values.GList [Values.GInt 4; Values.GInt 5])])]
  /\ fst (validate_cost_trace Z EE dtn true 1 dflt 0 [the_op] [] [] the_raw 5) = Done 2 false.
Proof. vm_compute. split; reflexivity. Qed.

(** the hypotheses of the every-call theorems hold of it (the only field selection is [the_field]) *)
Lemma only_field f : in_request Z the_op [] f -> f = the_field.
Proof.
  intros (m & Hm & H).
  assert (Em : m = ao_body the_op).
  { destruct Hm as [|n0 name def _ _ Hl]; [reflexivity|discriminate]. }
  subst m. cbn [ao_body the_op] in H.
  inversion H as [|k kids n f' Hin Hf]; subst.
  destruct Hin as [<-|[]]. inversion Hf as [f'' kids'|k' kids' n' f'' Hin' _]; subst; [reflexivity|destruct Hin'].
Qed.
Example trace_hypotheses :
  chosen_op Z [the_op] [] = Some the_op /\
  CoerceModel.has_dup (map Values.vd_name (ao_vardefs the_op)) = false /\
  (forall f, in_request Z the_op [] f ->
     CoerceSpec.dup_names (map fst (af_args f)) = false /\
     forallb (fun al => CoerceSpec.lit_nodup (snd al)) (af_args f) = true /\
     CoerceModel.has_dup (map fst (af_argdefs f)) = false /\
     forallb (fun ad => CoerceSpec.default_ok EE (snd ad)) (af_argdefs f) = true /\
     field_usage_ok Z EE (ao_vardefs the_op) f = true).
Proof.
  split; [reflexivity|]. split; [reflexivity|].
  intros f Hf. rewrite (only_field f Hf). vm_compute. repeat split; reflexivity.
Qed.

(** * round 5: C04's per-node checks are silent on the translation of [the_field] and on the defaults
    of [the_op], over an environment C04 can express *)
From ApiFu Require Val.BridgeC04 Val.BridgeC04Proofs Vld.ValidatorModel.
Example c04_nodes_instance :
  BridgeC04.bridgeable EE = true /\ BridgeC04Proofs.no_float EE = true /\
  fst (ValidatorModel.args_node ValidatorModel.repaired ValidatorModel.id_order []
         (BridgeC04.tr_args 0 (af_args the_field)) (BridgeC04.tr_argdefs (af_argdefs the_field)) (0%N, 0%N)) = [] /\
  forallb (fun a : Values.name * Values.lit =>
             match Values.aget (fst a) (af_argdefs the_field) with
             | Some d => BridgeC04.c04_accepts EE (snd a) (Values.in_type d) true
             | None => false
             end) (af_args the_field) = true /\
  forallb (fun d => match Values.vd_default d with
                    | Some l => CoerceModel.type_known EE (Values.vd_type d) && BridgeC04.c04_accepts EE l (Values.vd_type d) true
                    | None => true
                    end) the_defs = true.
Proof. vm_compute. repeat split; reflexivity. Qed.

(** validateVariables' visitor (C04's [usage_errs]) is silent inside both argument values of
    [the_field] under C04's annotated variable definitions of [the_op] *)
From ApiFu Require Cost.CostC04Usage Vld.ProofsTypeInfoValues.
Example c04_usage_instance :
  forallb (fun a : Values.name * Values.lit =>
             match Values.aget (fst a) (af_argdefs the_field) with
             | Some d =>
                 CostC04Usage.nil_errs
                   (ProofsTypeInfoValues.usage_errs true (BridgeC04.tr_env EE) (CostC04Usage.ann_vardefs the_defs) false
                      (Some (BridgeC04.tr_sty (Values.in_type d))) (CoerceModel.arg_loc_default true d) (BridgeC04.tr_lit (snd a)))
             | None => false
             end) (af_args the_field) = true
  /\ forallb (fun d => CoerceModel.type_known EE (Values.vd_type d)) the_defs = true.
Proof. vm_compute. split; reflexivity. Qed.

(** * round 6: C04's whole ValidateDocument model accepts the single-field projection of [the_op] at
    [the_field] (both variables are mentioned by its argument literals) *)
From ApiFu Require Cost.CostProj.
Example projection_instance :
  CostProj.projection_accepted Z EE dtn the_defs the_field = true /\
  CostProj.used_defs Z the_defs the_field = the_defs /\
  Values.ahas BridgeC04.n_Query EE = false /\ Values.ahas BridgeC04.n_Res EE = false.
Proof. vm_compute. repeat split; reflexivity. Qed.

(** * round 6: a real document through C03's composition — parsed from bytes, accepted by C04's
    validator over a schema with an input object, walked by the cost rule: the list-typed field [l]
    has a cost function and is called twice (directly and through the fragment), with the argument
    default filled in / the variable's value, and the input-object literal.

      type Query { l(k: Int = 5, o: In): [Int]  q: Query }   input In { a: Int }
      query A($v: Int) { l(o: {a: 1})  q { ...F } }   fragment F on Query { l(k: $v) }      $v = 7 *)
From ApiFu Require Syn.Ast Vld.Ast Vld.ValidatorModel ExeA.ArgData ExeA.ArgArgs Pipe.Convert Pipe.Compose Pipe.CostCompose Cost.CostRealDoc.
From Coq Require Import String.
Open Scope string_scope.
Definition rn (s : String.string) : bytes := Vld.Ast.bs s.
Definition r_vty (b : Vld.Ast.type_body) : Vld.Ast.type_def := {| Vld.Ast.t_req := []; Vld.Ast.t_body := b |}.
Definition r_VS : Vld.Ast.schema :=
  {| Vld.Ast.s_types :=
       [ (rn "Int", r_vty (Vld.Ast.TScalar Vld.Ast.SInt)); (rn "String", r_vty (Vld.Ast.TScalar Vld.Ast.SString));
         (rn "Boolean", r_vty (Vld.Ast.TScalar Vld.Ast.SBoolean));
         (rn "In", r_vty (Vld.Ast.TInput [(rn "a", {| Vld.Ast.in_type := Vld.Ast.StNamed (rn "Int"); Vld.Ast.in_default := Vld.Ast.DNone |})]));
         (rn "Query", r_vty (Vld.Ast.TObject
            [ (rn "l", {| Vld.Ast.f_type := Vld.Ast.StList (Vld.Ast.StNamed (rn "Int"));
                          Vld.Ast.f_args := [(rn "k", {| Vld.Ast.in_type := Vld.Ast.StNamed (rn "Int"); Vld.Ast.in_default := Vld.Ast.DValue |});
                                             (rn "o", {| Vld.Ast.in_type := Vld.Ast.StNamed (rn "In"); Vld.Ast.in_default := Vld.Ast.DNone |})];
                          Vld.Ast.f_req := [] |});
              (rn "q", {| Vld.Ast.f_type := Vld.Ast.StNamed (rn "Query"); Vld.Ast.f_args := []; Vld.Ast.f_req := [] |}) ] [])) ];
     Vld.Ast.s_query := rn "Query"; Vld.Ast.s_mutation := None; Vld.Ast.s_subscription := None;
     Vld.Ast.s_directives := []; Vld.Ast.s_meta := []; Vld.Ast.s_impls := [] |}.
Definition r_E : Values.env :=
  [ (rn "Boolean", Values.TScalar Values.KBoolean);
    (rn "In", Values.TInput [(rn "a", {| Values.in_type := Values.StNamed (rn "Int"); Values.in_default := None |})] Values.HNone);
    (rn "Int", Values.TScalar Values.KInt); (rn "String", Values.TScalar Values.KString) ].
Definition r_ES : ExeA.ArgData.schema :=
  {| ExeA.ArgData.types :=
       [ (rn "Int", ExeA.ArgData.NScalar ExeA.ArgData.KInt);
         (rn "Query", ExeA.ArgData.NObject [ (rn "l", ExeA.ArgData.StList (ExeA.ArgData.StNamed (rn "Int")));
                                             (rn "q", ExeA.ArgData.StNamed (rn "Query")) ] []) ];
     ExeA.ArgData.query := rn "Query"; ExeA.ArgData.mutation := None; ExeA.ArgData.subscription := None;
     ExeA.ArgData.s_inputs := r_E; ExeA.ArgData.s_dt := [];
     ExeA.ArgData.s_argdefs :=
       [ (rn "Query", [ (rn "l", [ (rn "k", {| Values.in_type := Values.StNamed (rn "Int"); Values.in_default := Some (Values.GInt 5) |});
                                   (rn "o", {| Values.in_type := Values.StNamed (rn "In"); Values.in_default := None |}) ]) ]) ] |}.
Definition r_query : bytes := rn "query A($v: Int) { l(o: {a: 1}) q { ...F } } fragment F on Query { l(k: $v) }".

Definition r_front := Eval vm_compute in Pipe.Compose.parse_and_validate_order Vld.ValidatorModel.id_order r_VS [] r_query.
Definition r_D : Vld.Ast.document :=
  match r_front with Pipe.Compose.FAccepted d => Pipe.Convert.vld_of_syn d | _ => [] end.
Definition r_A : Vld.Ast.document := Eval vm_compute in Vld.TypeInfoPure.pti_doc true r_VS [] r_D.

Example real_document_accepted :
  (exists d, r_front = Pipe.Compose.FAccepted d) /\
  Vld.ValidatorModel.validate_model Vld.ValidatorModel.repaired Vld.ValidatorModel.id_order r_VS [] r_D = Vld.Ast.Done [] /\
  CostRealDoc.scalars_leavesb r_VS = true /\ CoerceSpec.env_ok r_E = true.
Proof. split; [eexists; reflexivity|]. vm_compute. repeat split; reflexivity. Qed.

Example real_document_calls :
  map (fun c => c_args c)
      (snd (validate_cost_trace unit r_E (ExeA.ArgArgs.dt_oracle r_ES) true 2 (Pipe.CostCompose.default_cost 1) tt
              (Pipe.CostCompose.c_ops r_ES r_A) (Pipe.CostCompose.c_frs r_ES r_A) [] [(rn "v", Values.JInt 7)] (-1)))
  = [ [(rn "k", Values.GInt 5); (rn "o", Values.GMap [(rn "a", Values.GInt 1)])];
      [(rn "k", Values.GInt 7)] ].
Proof. vm_compute. reflexivity. Qed.

(** * round 7: the hypotheses of [C14_accepted_document_calls_conform] hold of the example schema in its
    two encodings ([r_VS], [r_ES]) and of the example document; the two calls conform *)
From ApiFu Require Cost.CostConformU Cost.CostConformDoc Vld.TypeInfoModel Vld.ProofsCommon Pipe.CondsProofs.

Lemma r_raw_body_in S n b : Vld.Ast.raw_body S n = Some b -> exists d, In (n, d) (Vld.Ast.s_types S) /\ Vld.Ast.t_body d = b.
Proof.
  unfold Vld.Ast.raw_body, Vld.Ast.raw_type. destruct (Vld.Ast.assoc n (Vld.Ast.s_types S)) as [d|] eqn:Ea; [|discriminate].
  intro H. inversion H. exists d. split; [apply ProofsCommon.assoc_in; exact Ea|reflexivity].
Qed.

Ltac r_types H :=
  unfold r_VS in H; cbn [Vld.Ast.s_types In] in H;
  repeat match type of H with _ \/ _ => destruct H as [H|H] end;
  try contradiction; try (inversion H; subst; clear H).

Example r_inputs_agree : CostConformDoc.inputs_agree r_VS [] r_ES.
Proof.
  constructor.
  - apply CostRealDoc.scalars_leavesb_spec. vm_compute. reflexivity.
  - intros n defs H. apply r_raw_body_in in H as (d & Hin & Hb). r_types Hin; cbn [Vld.Ast.t_body r_vty] in Hb; try discriminate.
    injection Hb as <-. eexists. exists Values.HNone. split; vm_compute; reflexivity.
  - intros n b H Hb. apply r_raw_body_in in H as (d & Hin & <-). r_types Hin; cbn [Vld.Ast.t_body r_vty] in Hb;
      try discriminate; vm_compute; reflexivity.
  - intros T n fd H. unfold Vld.TypeInfoModel.field_of_scope in H.
    destruct (Vld.Ast.raw_body r_VS T) as [b|] eqn:Eb; [|discriminate].
    apply r_raw_body_in in Eb as (d & Hin & <-). r_types Hin; cbn [Vld.Ast.t_body r_vty] in H; try discriminate.
    unfold Vld.Ast.get_field in H.
    match type of H with context [Vld.Ast.assoc n ?fs] => destruct (Vld.Ast.assoc n fs) as [f0|] eqn:Ef end.
    + apply ProofsCommon.assoc_in in Ef. cbn [In] in Ef.
      destruct Ef as [Ef|[Ef|[]]]; inversion Ef; subst; cbn [Vld.Ast.f_req Vld.Ast.subset] in H; inversion H; subst fd;
        intros a vdef Ha; apply ProofsCommon.assoc_in in Ha; cbn [Vld.Ast.f_args In] in Ha.
      * destruct Ha as [Ha|[Ha|[]]]; inversion Ha; subst; eexists; (split; [vm_compute; reflexivity|split; vm_compute; reflexivity]).
      * destruct Ha.
    + exfalso. revert H. vm_compute. discriminate.
  - intros T n. unfold ExeA.ArgArgs.argdefs_of.
    destruct (ExeA.ArgData.assoc T (ExeA.ArgData.s_argdefs r_ES)) as [fs|] eqn:Et; [|split; [reflexivity|intros ad []]].
    destruct (ExeA.ArgData.assoc n fs) as [ads|] eqn:En; [|split; [reflexivity|intros ad []]].
    apply Pipe.CondsProofs.exe_assoc_in in Et. unfold r_ES in Et. cbn [ExeA.ArgData.s_argdefs In] in Et.
    destruct Et as [Et|[]]. inversion Et; subst. apply Pipe.CondsProofs.exe_assoc_in in En. cbn [In] in En.
    destruct En as [En|[]]. inversion En; subst.
    split; [vm_compute; reflexivity|]. intros ad [<-|[<-|[]]]; vm_compute; reflexivity.
Qed.

Example real_document_calls_conform :
  forallb (fun c => CoerceSpec.args_conform_b r_E (af_argdefs (c_field c)) (c_args c))
          (snd (validate_cost_trace unit r_E (ExeA.ArgArgs.dt_oracle r_ES) true 2 (Pipe.CostCompose.default_cost 1) tt
                  (Pipe.CostCompose.c_ops r_ES r_A) (Pipe.CostCompose.c_frs r_ES r_A) [] [(rn "v", Values.JInt 7)] (-1)))
  = true.
Proof. vm_compute. reflexivity. Qed.

(** * final round: the example document is VALID in the sense of the specification, over a schema that
    meets the hypotheses of C04's verdict theorem — the premises of [C14_valid_document_cost_calls] *)
From ApiFu Require Vld.Hyps Vld.ValidSpec Vld.ProofsSubscription Vld.MemoEquiv.
Example r_valid_instance :
  Vld.Hyps.schema_ok r_VS = true /\ Vld.Hyps.schema_args_ok r_VS = true /\ Vld.Hyps.schema_impls_ok r_VS = true /\
  Vld.Hyps.schema_defaults_ok r_VS = true /\ Vld.Hyps.schema_types_wf r_VS = true /\
  Vld.ValidSpec.Valid r_VS [] r_D.
Proof. unfold Vld.ValidSpec.Valid. vm_compute. repeat split; reflexivity. Qed.

Example r_positions_distinct :
  Vld.ProofsSubscription.doc_set_positions_distinct r_D /\ Vld.MemoEquiv.doc_field_positions_distinct r_D.
Proof.
  unfold Vld.ProofsSubscription.doc_set_positions_distinct, Vld.MemoEquiv.doc_field_positions_distinct.
  split.
  - match goal with |- NoDup ?l => let l' := eval vm_compute in l in change (NoDup l') end.
    repeat (constructor; [cbn [In]; intuition discriminate|]). constructor.
  - match goal with |- NoDup ?l => let l' := eval vm_compute in l in change (NoDup l') end.
    repeat (constructor; [cbn [In]; intuition discriminate|]). constructor.
Qed.
