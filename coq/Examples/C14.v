(** non-vacuity for C14: concrete instances meeting the hypotheses of each main theorem *)
From Coq Require Import List ZArith Bool Lia.
From ApiFu Require Import Base.Sexp Cost.CostModel Cost.CostSpec Cost.CostProofs.
Import ListNotations.
Open Scope Z_scope.

(** ** the checked operations at the boundary *)
Example mul_below : checked_mul 3037000499 3037000499 = 9223372030926249001.
Proof. vm_compute. reflexivity. Qed.
Example mul_above : checked_mul 3037000500 3037000500 = -1.   (* the product wraps to a negative number *)
Proof. vm_compute. reflexivity. Qed.
Example mul_wraps_negative : wrap64 (3037000500 * 3037000500) = -9223372036709301616.
Proof. vm_compute. reflexivity. Qed.
Example mul_wraps_to_zero : wrap64 (4294967296 * 4294967296) = 0 /\ checked_mul 4294967296 4294967296 = -1.
Proof. vm_compute. split; reflexivity. Qed.
(* a product that wraps to a small POSITIVE number is detected by the division test as well *)
Example mul_wraps_positive : wrap64 (8589934592 * 2147483649) = 8589934592 /\ checked_mul 8589934592 2147483649 = -1.
Proof. vm_compute. split; reflexivity. Qed.
Example mul_marker_zero : checked_mul (-1) 0 = -1.             (* the marker is absorbing even against 0 *)
Proof. vm_compute. reflexivity. Qed.
Example add_max : checked_add MaxInt 0 = MaxInt /\ checked_add MaxInt 1 = -1 /\ checked_add (-1) 0 = -1.
Proof. vm_compute. repeat split. Qed.

(** ** a document with a context-dependent cost inside a fragment that is spread at two depths, under
    two different multipliers and two different contexts; cost contexts are integers here.

      { a: setc(c: 5) { ...F  big { ...F } }  rc }
      fragment F on Obj { one ...G }
      fragment G on Obj { rc }

    setc: r = 1, m = 3, context := 5;  big: r = 0, m = 2^62, context := 7;  one: r = 1;
    rc: r = the context;  default cost 1. *)
Definition fld (f : Z -> option (fcost Z)) (kids : list (node Z)) : node Z := Node (KField (Some f) false) [Node KOther kids].
Definition k (r m : Z) (c : option Z) : Z -> option (fcost Z) := fun _ => Some {| fc_r := r; fc_m := m; fc_ctx := c |}.
Definition rc : node Z := fld (fun ctx => Some {| fc_r := ctx; fc_m := 0; fc_ctx := None |}) [].
Definition nF : bytes := [70%N]. Definition nG : bytes := [71%N].
Definition sp (n : bytes) : node Z := Node (KSpread n) [Node KOther []].
Definition frs : list (bytes * node Z) :=
  [ (nF, Node KOther [Node KOther [fld (k 1 0 None) []; sp nG]]);
    (nG, Node KOther [Node KOther [rc]]) ].
Definition op : node Z :=
  Node KOther [Node KOther [ fld (k 1 3 (Some 5)) [sp nF; fld (k 0 4611686018427387904 (Some 7)) [sp nF]]; rc ]].
Definition ops : list (option bytes * node Z) := [(None, op)].
Definition dflt : fcost Z := {| fc_r := 1; fc_m := 0; fc_ctx := None |}.

Definition the_tree : list etree :=
  [ENode 1 3 [ENode 1 0 []; ENode 5 0 []; ENode 0 4611686018427387904 [ENode 1 0 []; ENode 7 0 []]]; ENode 0 0 []].

Example example_expands : Expand dflt frs [] 0 op the_tree.
Proof. apply (expand_sound Z dflt frs 3). vm_compute. reflexivity. Qed.

Example example_hypotheses :
  NoDup (map fst frs) /\ get_operation ops [] = Some op /\ forallb costs_ok the_tree = true /\ (length frs < 3)%nat.
Proof.
  split; [|vm_compute; repeat split; lia].
  repeat constructor; cbn; intuition discriminate.
Qed.

(** 1 + 3*(1 + 5 + 0 + 2^62*(1 + 7)) = 19 + 3*2^65 > MaxInt: reported as MaxInt, rejected by every limit *)
Example example_ref : RefCost the_tree = 110680464442257309715.
Proof. vm_compute. reflexivity. Qed.
Example example_model : validate_cost Z true 3 dflt 0 ops frs [] false 100 = Done MaxInt true.
Proof. vm_compute. reflexivity. Qed.

(** the same document with a small multiplier instead of 2^62: exact, and accepted at the limit *)
Definition op2 : node Z :=
  Node KOther [Node KOther [ fld (k 1 3 (Some 5)) [sp nF; fld (k 0 10 (Some 7)) [sp nF]]; rc ]].
Example example2 :
  exists ts, Expand dflt frs [] 0 op2 ts /\ RefCost ts = 259 /\
             validate_cost Z true 3 dflt 0 [(None, op2)] frs [] false 259 = Done 259 false /\
             validate_cost Z true 3 dflt 0 [(None, op2)] frs [] false 258 = Done 259 true.
Proof.
  eexists. split; [apply (expand_sound Z dflt frs 3); vm_compute; reflexivity|].
  vm_compute. repeat split.
Qed.

(** the static hypotheses of [cost_exact_validated] on this document *)
Definition rank (n : bytes) : nat := match n with [70%N] => 2 | [71%N] => 1 | _ => 0 end.
Example example_validated : validated Z frs rank /\ locally_ok Z frs op.
Proof.
  split.
  - intros name def H. unfold frs in H. cbn [find_fragment] in H.
    destruct (bytes_eqb nF name) eqn:E1.
    + apply bytes_eqb_eq in E1. subst name. inversion H; subst def. split.
      * cbn. repeat split; try discriminate; try (intros; discriminate).
      * cbn. intros s [Hs|[]]. subst s. cbn. lia.
    + destruct (bytes_eqb nG name) eqn:E2; [|discriminate].
      apply bytes_eqb_eq in E2. subst name. inversion H; subst def. split.
      * cbn. repeat split; try discriminate; try (intros; discriminate).
      * cbn. intros s [].
  - cbn. repeat split; try discriminate; try (intros; discriminate).
Qed.

(** ** the defect-18 tree is a legitimate input (costs in range, reference cost 0) *)
Example big_zero_ok : forallb costs_ok big_zero = true /\ RefCost big_zero = 0.
Proof. vm_compute. split; reflexivity. Qed.

(** ** connections *)
Example conn_first : connection_edge_count (AInt 3) AAbsent 7 = Some 3 /\ connection_edge_count (AInt 0) AAbsent 7 = Some 0
                     /\ connection_edge_count AAbsent (AInt 10) 7 = Some 7 /\ connection_edge_count (AInt 3) (AInt 2) 7 = None.
Proof. vm_compute. repeat split. Qed.
