(** non-vacuity for C12: concrete instances meeting the hypotheses of each main theorem *)
From Coq Require Import List NArith ZArith Bool Lia.
From ApiFu Require Import Cplx.Tables Cplx.ParserDepthModel Cplx.MergeCountModel Cplx.CostWalkCount
     Cplx.ComplexityDecode Cplx.ComplexitySpec Cplx.ParserDepthProofs Cplx.CostWalkProofs Cplx.MergeFamily
     Cplx.FragmentWalkCount Cplx.SpreadLists Cplx.MergeLowerBound Cplx.CostWalkPaths.
From ApiFu Require Base.Sexp Lex.LexModel Cplx.TokenClass Cplx.ParseFromBytes.
From ApiFu Require Vld.Ast Vld.Inspect Cplx.InspectSteps Cplx.ParserStackDepth Cplx.ScanSteps.
Import ListNotations.
Open Scope Z_scope.

Fixpoint rep {A} (n : nat) (l : list A) : list A := match n with O => [] | S k => l ++ rep k l end.

(** {a{a{...{i}...}}} with n+1 braces open at the innermost field *)
Definition deep (n : nat) : list tok := TLBrace :: rep n [TName; TLBrace] ++ [TName] ++ repeat TRBrace (S n).

Definition summary (r : res) : Z * Z * Z * Z :=
  match r with
  | Ok s => (0, steps s, rec_ s, maxrec s)
  | Err SyntaxErr s => (1, steps s, rec_ s, maxrec s)
  | Err DepthErr s => (2, steps s, rec_ s, maxrec s)
  | OutOfFuel => (3, 0, 0, 0)
  end.

(** ** recursion_balanced: [sel_exit go_cfg = true]; a production that returns normally from a state
    in the middle of a document, with the counter at a non-zero value *)
Example balanced_instance :
  let s := {| toks := [TName; TLBrace; TEllipsis; TName; TName; TLParen; TName; TColon; TInt; TRParen; TRBrace; TName];
              done := [TLBrace]; rec_ := 5; steps := 0; maxrec := 5 |} in
  exists s', run_production go_cfg PSelection 100 s = Ok s' /\ rec_ s' = 5 /\ toks s' = [TName] /\ steps s' = 19 /\ maxrec s' = 14.
Proof. eexists. split; [vm_compute; reflexivity|]. repeat split. Qed.

(** ** parse_steps_linear: accepted, syntax error and depth error all occur, with non-trivial counts *)
Example steps_instances :
  summary (parse go_cfg (deep 2)) = (0, 26, 0, 16)            (* 8 tokens *)
  /\ summary (parse go_cfg [TLBrace; TName; TLParen; TRBrace]) = (1, 12, 10, 10)
  /\ summary (parse go_cfg (flat_selection_set 5000)) = (0, 30006, 0, 8)   (* 5002 tokens *)
  /\ 8 * Z.of_nat (length (flat_selection_set 5000)) + 6 = 40022.
Proof. vm_compute. repeat split. Qed.

(** ** depth_limit_iff: the boundary.  249 braces open at once are accepted with p.recursion reaching
    exactly 1000; 250 give the depth error (6 + 4 * 250 > 1000); beyond 1000 open brackets the
    second clause applies *)
Example depth_instances :
  map (fun n => (maxnest (deep n), summary (parse go_cfg (deep n)))) [248; 249; 1000; 1001]%nat
  = [ (249, (0, 1748, 0, 1000)); (250, (2, 1749, 1001, 1001));
      (1001, (2, 1749, 1001, 1001)); (1002, (2, 1749, 1001, 1001)) ].
Proof. vm_compute. reflexivity. Qed.

(** a deep document that fails with a syntax error before reaching the depth: "error k" of the
    second clause is not always the depth error *)
Example deep_but_syntax_error_first :
  1000 < maxnest (TRBrace :: deep 1001) /\ exists s', parse go_cfg (TRBrace :: deep 1001) = Err SyntaxErr s'.
Proof. split; [vm_compute; reflexivity|]. eexists. vm_compute. reflexivity. Qed.

(** ** flat_documents_never_hit_the_limit: hypothesis met by a document of 5002 tokens *)
Example flat_instance : maxnest (flat_selection_set 5000) = 1.
Proof. vm_compute. reflexivity. Qed.

(** ** cost_walk_exponential: the walk on a member of the family *)
Example cost_family_3 :
  exists st, cost_run (cost_family 3) = COk st /\ c_expansions st = 15 /\ c_fields st = 8 /\ c_steps st = 98.
Proof. eexists. split; [vm_compute; reflexivity|]. repeat split. Qed.

(** the abstract document the harness built from the real AST of
    "{...F0} fragment F0 on T{...F1 ...F1} fragment F1 on T{...F2 ...F2} fragment F2 on T{i}"
    (names interned differently), and [cost_family 2]: same walk.  On this document the real
    ValidateCost reported cost 4 = 2^2 with default resolver cost 1. *)
Definition harness_cost_chain_flat_2 : doc :=
  {| d_fields := [{| f_key := 4; f_name := 4; f_args := 5;
                     f_ty := Some {| t_wraps := []; t_name := 2; t_leaf := true |};
                     f_ptype := Some (1%N, true); f_sub := None; f_weight := 2 |}];
     d_sets := [[ISpread 1]; [ISpread 2; ISpread 2]; [ISpread 3; ISpread 3]; [IField 0]]%N;
     d_order := [(0, O); (1, O); (2, O); (3, O)]%N;
     d_frags := [ {| fr_name := 1; fr_root := 1; fr_nodes := 7; fr_hdr := 2 |};
                  {| fr_name := 2; fr_root := 2; fr_nodes := 7; fr_hdr := 2 |};
                  {| fr_name := 3; fr_root := 3; fr_nodes := 5; fr_hdr := 2 |} ]%N;
     d_ops := [{| op_root := 0; op_nodes := 4; op_hdr := 1 |}];
     d_nodes := 24 |}.
Example harness_document_same_walk :
  cost_run harness_cost_chain_flat_2 = cost_run (cost_family 2)
  /\ d_nodes (cost_family 2) = 24
  /\ exists st, cost_run (cost_family 2) = COk st /\ c_expansions st = 7 /\ c_fields st = 4.
Proof. split; [vm_compute; reflexivity|]. split; [reflexivity|]. eexists. split; [vm_compute; reflexivity|]. split; reflexivity. Qed.

(** ** the merge family: the count model with and without the checked pairs on n = 3 *)
Example merge_family_3 :
  shape_calls false 3 = 632 /\ shape_calls true 3 = 47 /\ msteps false 3 = 6760 /\ msteps true 3 = 481
  /\ merge_steps_bound (merge_family 3) = 11180802.
Proof. vm_compute. repeat split. Qed.

(** ** merge_steps_poly: holds without hypotheses; instances where the pass reports a conflict
    ({x:i x:j}: same response key, different field names) and where the sets of checked pairs are
    used and emptied *)
Definition conflict_doc : doc :=
  let leaf nm := {| f_key := 1; f_name := nm; f_args := 0; f_ty := Some int_ty; f_ptype := Some (1%N, true);
                    f_sub := None; f_weight := 2 |} in
  {| d_fields := [leaf 2%N; leaf 3%N]; d_sets := [[IField 0; IField 1]]%N; d_order := [(0%N, O)];
     d_frags := []; d_ops := [{| op_root := 0; op_nodes := 6; op_hdr := 1 |}]; d_nodes := 8 |}.
Example conflict_instance :
  exists st, merge_run true conflict_doc = MOk st /\ m_errors st = 1 /\ m_steps st = 8
             /\ merge_steps_bound conflict_doc = 3470.
Proof. eexists. split; [vm_compute; reflexivity|]. repeat split. Qed.

Example merge_family_inserts :
  match merge_run true (merge_family 4) with MOk st => m_inserts st = 26 /\ n_can st = 31 | _ => False end.
Proof. vm_compute. split; reflexivity. Qed.

(** ** stage B *)

(** [mfam] (function-indexed tables, used for the all-n theorem) and [merge_family] (the harness's
    numbering) are the same document up to renumbering: same call counts with and without the sets *)
Example mfam_same_counts :
  map (fun n => match merge_run false (mfam n) with MOk st => n_shape st | _ => -1 end) (seq 1 5) = [6; 71; 632; 5027; 37574]
  /\ map (fun n => match merge_run true (mfam n) with MOk st => n_shape st | _ => -1 end) (seq 1 5) = [3; 19; 47; 75; 103]
  /\ map pw (seq 0 6) = [1; 2; 13; 79; 475; 2851].
Proof. vm_compute. repeat split; reflexivity. Qed.

(** [spreads_ok] holds on the families (as on every harness-built document), and the two fragment walks
    with their bounds *)
Example spreads_ok_instances :
  forallb (fun n => spreads_ok (merge_family n) && spreads_ok (cost_family n)) (seq 0 8) = true
  /\ map (fun n => (match cycle_search_run (merge_family n) with Some w => w_steps w | None => -1 end,
                    cycle_steps_bound (merge_family n),
                    match var_walk_run (merge_family n) with Some k => k | None => -1 end,
                    var_steps_bound (merge_family n))) [2; 10]%nat
     = [(12, 39, 38, 44); (132, 495, 150, 172)].
Proof. vm_compute. split; reflexivity. Qed.

(** a table in which two definitions share a selection set is not a syntax tree: [spreads_ok] rejects it *)
Example spreads_ok_rejects_shared_sets :
  spreads_ok {| d_fields := []; d_sets := [[ISpread 1]; [ISpread 1; ISpread 1]]%N; d_order := [];
                d_frags := [ {| fr_name := 1; fr_root := 1; fr_nodes := 3; fr_hdr := 2 |};
                             {| fr_name := 2; fr_root := 1; fr_nodes := 3; fr_hdr := 2 |} ]%N;
                d_ops := [{| op_root := 0; op_nodes := 3; op_hdr := 1 |}]; d_nodes := 9 |} = false.
Proof. vm_compute. reflexivity. Qed.

(** spread paths: the chain with two spreads per level, and a document whose fragment bodies are flat *)
Example paths_instances :
  let D := cost_family 3 in
  paths (arr_of_list (d_fields D)) (arr_of_list (d_sets D)) (frag_table D) (cost_fuel D) 0%N = 15
  /\ occurrences (arr_of_list (d_fields D)) (arr_of_list (d_sets D)) (cost_fuel D) 0%N = 1
  /\ (let D0 := cost_family 0 in
      paths (arr_of_list (d_fields D0)) (arr_of_list (d_sets D0)) (frag_table D0) (cost_fuel D0) 0%N = 1
      /\ occurrences (arr_of_list (d_fields D0)) (arr_of_list (d_sets D0)) 5 1%N = 0).
Proof. vm_compute. repeat split; reflexivity. Qed.

(** from bytes: "{a ...on}" *)
Example from_bytes_instance :
  let bs := [123; 97; 32; 46; 46; 46; 111; 110; 125]%N in
  match Lex.LexModel.lex false bs with
  | Lex.LexModel.Done ts es => map TokenClass.tok_class ts = [TLBrace; TName; TEllipsis; TOn; TRBrace] /\ es = []
  | _ => False
  end.
Proof. vm_compute. split; reflexivity. Qed.

(** ** round 3 *)

(** runes: "{a é}" with a two-byte rune, and two invalid bytes (each a rune of its own) *)
Example runes_instances :
  TokenClass.runes [123; 97; 32; 195; 169; 125]%N = 5%nat /\ TokenClass.runes [255; 254]%N = 2%nat.
Proof. vm_compute. split; reflexivity. Qed.

(** the high-water mark of p.recursion at the boundary: 1000 when accepted, 1001 in the depth error *)
Example stack_instances :
  map (fun n => match parse go_cfg (deep n) with Ok s => maxrec s | Err _ s => maxrec s | OutOfFuel => -1 end)
      [2; 248; 249; 1500]%nat = [16; 1000; 1001; 1001].
Proof. vm_compute. reflexivity. Qed.

(** counting wrapper around a visitor that descends only below the first node it sees: 3 of the 4
    nodes entered, one nil call; a visitor that never prunes sees all 4 and is called with nil 4 times *)
Example inspect_count_instance :
  let nm := fun k => Inspect.T (Inspect.NName [k] (1, 1)%N) [] in
  let t := Inspect.T (Inspect.NName [0%N] (1, 1)%N) [Inspect.T (Inspect.NName [1%N] (1, 1)%N) [nm 2%N]; nm 3%N] in
  snd (Inspect.inspect (InspectSteps.enter_c nat (fun d _ => (S d, Nat.ltb d 1))) (InspectSteps.leave_c nat (fun d => d)) t (0%nat, (0, 0)%nat))
  = (3, 1)%nat
  /\ snd (Inspect.inspect (InspectSteps.enter_c nat (fun d _ => (d, true))) (InspectSteps.leave_c nat (fun d => d)) t (0%nat, (0, 0)%nat))
     = (4, 4)%nat
  /\ InspectSteps.nodes t = 4%nat.
Proof. vm_compute. repeat split; reflexivity. Qed.
