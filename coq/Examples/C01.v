(** non-vacuity for C01: a schema with an interface, a union and a [Int!]! field; a document with
    a field merged through a named fragment, a fragment on an abstract type, an alias and @skip;
    an outcome tree with a resolver error under a non-null field and a null list item.  All
    hypotheses of the C01 theorems hold of it, and the response shows propagation. *)
(** Everything lives in [Module A] (the names [Examples.C01.A.…] are used by Examples/C02.v). *)
From Coq Require Import List NArith ZArith Bool String Ascii.
From ApiFu Require Import Base.Sexp.
Import ListNotations.
Open Scope string_scope.
From ApiFu Require Val.Values.
From ApiFu Require ExeA.ArgCollectProofs.
From ApiFu Require ExeA.ArgData ExeA.ArgArgs ExeA.ArgModel ExeA.ArgSpec ExeA.ArgHyps ExeA.ArgProofs
     ExeA.ArgKeyOrder ExeA.ArgKeyOrderProofs.
Module A.
Import ExeA.ArgData ExeA.ArgArgs ExeA.ArgModel ExeA.ArgSpec ExeA.ArgHyps ExeA.ArgProofs
       ExeA.ArgKeyOrder ExeA.ArgKeyOrderProofs.
Definition nm (s : string) : name := map (fun c => N.of_nat (nat_of_ascii c)) (list_ascii_of_string s).
Definition at_ (l c : N) : pos := {| line := l; col := c |}.

(** the field ln takes an argument: ln(k: Int): [Int!]! *)
Definition ex_inputs : Values.env :=
  [ (nm "Boolean", Values.TScalar Values.KBoolean); (nm "Int", Values.TScalar Values.KInt) ].
Definition ex_argdefs : list (name * list (name * argdefs)) :=
  [ (nm "Q", [ (nm "ln", [ (nm "k", {| Values.in_type := Values.StNamed (nm "Int"); Values.in_default := None |}) ]) ]) ].

Definition ex_schema : schema :=
  {| types := [ (nm "Int", NScalar KInt); (nm "String", NScalar KString);
                (nm "Q", NObject [ (nm "o", StNamed (nm "O")); (nm "l", StList (StNonNull (StNamed (nm "Int"))));
                                   (nm "ln", StNonNull (StList (StNonNull (StNamed (nm "Int")))));
                                   (nm "i", StNamed (nm "I")); (nm "u", StNamed (nm "U")) ] []);
                (nm "O", NObject [ (nm "n", StNonNull (StNamed (nm "Int"))); (nm "s", StNamed (nm "String")) ] [nm "I"]);
                (nm "P", NObject [ (nm "s", StNamed (nm "String")) ] [nm "I"]);
                (nm "I", NInterface [ (nm "s", StNamed (nm "String")) ]);
                (nm "U", NUnion [nm "O"; nm "P"]) ];
     query := nm "Q"; mutation := None; subscription := None;
     s_inputs := ex_inputs; s_dt := []; s_argdefs := ex_argdefs |}.

(** query ($v: Boolean!) {
      o { n } ...F l ln(k: 3)
      i { s ... on O { x: n } } u @skip(if: $v) { __typename }
    }
    fragment F on Q { o { s } } *)
Definition ex_doc : document :=
  {| op_kind := OpQuery; op_pos := at_ 1 1;
     op_sels := [ SField None (nm "o") (at_ 2 3) [] [SField None (nm "n") (at_ 2 7) [] []];
                  SSpread (nm "F") (at_ 2 11) [];
                  SField None (nm "l") (at_ 2 16) [] [];
                  SField None (nm "ln") (at_ 2 18) [] [];
                  SField None (nm "i") (at_ 3 3) []
                         [ SField None (nm "s") (at_ 3 7) [] [];
                           SInline (Some (nm "O")) (at_ 3 9) [] [SField (Some (nm "x")) (nm "n") (at_ 3 20) [] []] ];
                  SField None (nm "u") (at_ 3 29) [DSkip (CVar (nm "v")) (at_ 3 31) (at_ 3 41)] [SField None n_typename (at_ 3 46) [] []] ];
     frags := [ {| fr_name := nm "F"; fr_cond := nm "Q";
                   fr_sels := [SField None (nm "o") (at_ 5 19) [] [SField None (nm "s") (at_ 5 23) [] []]] |} ];
     d_args := [ (at_ 2 18, [ (nm "k", Values.LInt 3) ]) ];
     d_vars := [ (nm "v", Values.GBool false) ] |}.

Definition ex_env : env := [(nm "v", Some false)].

Definition ex_W : outcome :=
  OObj (nm "Q")
       [ (nm "o", OObj (nm "O") [ (nm "n", OErr); (nm "s", OLeaf (GString (nm "x"))) ]);
         (nm "l", OList [OLeaf (GInt IInt 1); ONil]);
         (* the resolver of ln answers differently for k = 3 and k = 4 *)
         (field_key (nm "ln") [(nm "k", Values.GInt 3)], OList [OLeaf (GInt IInt 1); OLeaf (GF64 (Fin 2 0))]);
         (field_key (nm "ln") [(nm "k", Values.GInt 4)], OErr);
         (nm "i", OObj (nm "O") [ (nm "s", OLeaf (GString (nm "y"))); (nm "n", OLeaf (GInt I64 3)) ]);
         (nm "u", OObj (nm "P") []) ].

Definition ex_fuel : nat := default_fuel ex_doc.

Example hypotheses_hold :
  doc_ok ex_schema ex_doc ex_env ex_fuel ex_fuel = true /\
  type_names_okb ex_schema = true /\ doc_positions_okb ex_doc = true.
Proof. vm_compute. repeat split. Qed.

(** o is nulled by the failing non-null n (resolver error: located at the one field node n);
    l is nulled by its null item (error at path l.1); everything else is delivered, in document
    order, o appearing once although it is selected twice. *)
Example response :
  run fixed ex_schema ex_doc ex_env ex_fuel ex_W =
  Done (Some (JObj [ (nm "o", JNull); (nm "l", JNull); (nm "ln", JArr [JInt 1; JInt 2]);
                     (nm "i", JObj [(nm "s", JStr (nm "y")); (nm "x", JInt 3)]);
                     (nm "u", JObj [(n_typename, JStr (nm "P"))]) ]))
       [ {| e_path := [PKey (nm "o"); PKey (nm "n")]; e_locs := [at_ 2 7] |};
         {| e_path := [PKey (nm "l"); PIdx 1]; e_locs := [at_ 2 16] |} ].
Proof. vm_compute. reflexivity. Qed.

Example reference :
  let r := exec_spec ex_schema ex_doc ex_env ex_fuel ex_W in
  List.length (all_errors r) = 2%nat /\
  failure_nulls r =
  [ ([PKey (nm "o")], [ {| e_path := [PKey (nm "o"); PKey (nm "n")]; e_locs := [at_ 2 7] |} ]);
    ([PKey (nm "l")], [ {| e_path := [PKey (nm "l"); PIdx 1]; e_locs := [at_ 2 16] |} ]) ].
Proof. vm_compute. split; reflexivity. Qed.

(** the theorems of Properties/C01.v instantiated *)
Example instance_total : exists d errs, run fixed ex_schema ex_doc ex_env ex_fuel ex_W = Done d errs.
Proof.
  destruct hypotheses_hold as [Hd [Hn Hp]].
  exact (exec_total ex_schema ex_doc ex_env ex_fuel Hn Hp ex_fuel Hd ex_W).
Qed.

(** stage B: the hypothesis [dirs_evaluable] holds of the example (and fails without a value for $v) *)
Example dirs_evaluable_holds : dirs_evaluable ex_doc ex_env = true /\ dirs_evaluable ex_doc [] = false.
Proof. vm_compute. split; reflexivity. Qed.

(** stage B: several operations.  query A {...ex_doc...}  query B { __typename } *)
Definition ex_opA : operation :=
  {| o_name := Some (nm "A"); o_kind := OpQuery; o_pos := at_ 1 1; o_sels := op_sels ex_doc;
     o_vardefs := [ ({| Values.vd_name := nm "v"; Values.vd_type := Values.StNonNull (Values.StNamed (nm "Boolean"));
                        Values.vd_default := None |}, at_ 1 10) ] |}.
Definition ex_opB : operation :=
  {| o_name := Some (nm "B"); o_kind := OpQuery; o_pos := at_ 7 1;
     o_sels := [SField None n_typename (at_ 7 11) [] []]; o_vardefs := [] |}.
Definition ex_request : request_doc :=
  {| r_ops := [ex_opA; ex_opB]; r_frags := frags ex_doc; r_args := d_args ex_doc |}.
Definition ex_raw : list (name * Values.jval) := [ (nm "v", Values.JBool false) ].

Example request_selects :
  s_get_operation ex_request (opname_of (nm "A")) = Some ex_opA /\
  get_operation ex_request (nm "B") = GOp ex_opB /\
  s_get_operation ex_request (opname_of []) = None /\
  coerce_request_vars ex_schema ex_opA ex_raw = Values.Ok (d_vars ex_doc) /\
  env_of_vars (d_vars ex_doc) = ex_env /\
  run_request fixed ex_schema ex_request [] ex_raw ex_fuel ex_W = Done None [ {| e_path := []; e_locs := [at_ 7 1] |} ] /\
  run_request fixed ex_schema ex_request (nm "C") ex_raw ex_fuel ex_W = Done None [ {| e_path := []; e_locs := [] |} ] /\
  (* the required variable $v is missing: refused, located at its definition *)
  run_request fixed ex_schema ex_request (nm "A") [] ex_fuel ex_W = Done None [ {| e_path := []; e_locs := [at_ 1 10] |} ] /\
  run_request fixed ex_schema ex_request (nm "A") ex_raw ex_fuel ex_W = run fixed ex_schema ex_doc ex_env ex_fuel ex_W.
Proof. vm_compute. repeat split; reflexivity. Qed.

(** the outcome of ln depends on its coerced argument: with k: 4 the resolver fails *)
Example argument_matters :
  let D4 := {| op_kind := op_kind ex_doc; op_pos := op_pos ex_doc; op_sels := op_sels ex_doc; frags := frags ex_doc;
               d_args := [ (at_ 2 18, [ (nm "k", Values.LInt 4) ]) ]; d_vars := d_vars ex_doc |} in
  run fixed ex_schema D4 ex_env ex_fuel ex_W <> run fixed ex_schema ex_doc ex_env ex_fuel ex_W.
Proof. vm_compute. discriminate. Qed.


(** stage B: the recursive key-order predicate is inhabited by the example's data *)
Example instance_ordered :
  exists kvs, ordered_obj ex_schema ex_doc ex_env ex_fuel (nm "Q") (op_sels ex_doc) kvs /\ List.length kvs = 5%nat.
Proof.
  destruct hypotheses_hold as [Hd [Hn Hp]].
  destruct (exec_data_ordered ex_schema ex_doc ex_env ex_fuel ex_fuel ex_W _ _ Hn Hp Hd response) as [rt [kvs [Hrt [Hj Ho]]]].
  vm_compute in Hrt. inversion Hrt; subst rt. inversion Hj; subst kvs.
  eexists. split; [exact Ho|reflexivity].
Qed.


(** round 7: the example has no fragment cycle, and its level count is defined and small *)
Example acyclic_holds : acyclic_frags ex_doc.
Proof.
  intros F fr l Hf Hc. rewrite <- ArgCollectProofs.find_frag_eq in Hf. apply ArgCollectProofs.find_frag_in in Hf.
  destruct Hf as [<-|[]].
  inversion Hc as [|? G fr' l' HG _ _]; subst; [intros []|].
  vm_compute in HG. destruct HG.
Qed.

Example levels_value : levels ex_doc 2 (op_sels ex_doc) = Some 2%nat /\ default_fuel ex_doc = 8%nat.
Proof. vm_compute. split; reflexivity. Qed.

(** round 8: without a value for $v the condition of @skip cannot be evaluated: [doc_ok] fails,
    [doc_ok_nodirs] holds, and the executor still finishes (u is left out, the directive reported) *)
Example nodirs_instance :
  doc_ok ex_schema ex_doc [] ex_fuel ex_fuel = false /\
  doc_ok_nodirs ex_schema ex_doc [] ex_fuel ex_fuel = true /\
  exists d e1 e2 e3, run fixed ex_schema ex_doc [] ex_fuel ex_W = Done (Some d) [e1; e2; e3] /\
                     e_path e1 = [] /\ d = JObj [ (nm "o", JNull); (nm "l", JNull); (nm "ln", JArr [JInt 1; JInt 2]);
                                                  (nm "i", JObj [(nm "s", JStr (nm "y")); (nm "x", JInt 3)]) ].
Proof.
  split; [vm_compute; reflexivity|]. split; [vm_compute; reflexivity|].
  eexists. eexists. eexists. eexists. vm_compute. repeat split; reflexivity.
Qed.
End A.
