(** non-vacuity for C13: concrete schemas meeting the hypotheses of the main theorems, on which
    erasure really deletes something and consumer programs really reach the gated mechanisms *)
From Coq Require Import String List NArith.
From ApiFu Require Import Base.Sexp Feat.FeaturesModel Feat.FeaturesSpec Feat.FeaturesProofs Feat.FeaturesReach
  Feat.FeaturesDocModel Feat.FeaturesDocProofs Feat.FeaturesFuelProofs.
Import ListNotations.
Open Scope string_scope.
Open Scope list_scope.

(** the witness schema W (interfaces I, J sharing only the gated implementation G; A implementing
    the gated interface GI) is accepted, and a request without fa loses two types, two
    implementation links and nothing else *)
Example W_ok : schema_ok W = true.
Proof. vm_compute. reflexivity. Qed.

Example W_erased :
  map fst (types (erase W [])) = map nm ["Int"; "I"; "J"; "A"; "B"; "Query"] /\
  lookup (erase W []) (nm "A") = Some (NObject [(nm "x", wfield "Int" "")] [nm "I"] []) /\
  subset [] [fa] = true /\ subset (all_features W) [fa] = true /\ erase W [fa] = W.
Proof. vm_compute. repeat split; reflexivity. Qed.

(** premises of [C13_view_erase_eq] / [C13_view_closed] hold for lookups that meet the gate:
    possible types of the visible interface I (the gated G is filtered), interfaces of A *)
Example W_lookups :
  visible W [] (nm "I") = true /\
  ask fixed W [] (QPossibleV (nm "I")) = ANames (Some [nm "A"]) /\
  ask fixed W [fa] (QPossibleV (nm "I")) = ANames (Some [nm "G"; nm "A"]) /\
  ask fixed W [] (QIntroInterfaces (nm "A")) = ANames (Some [nm "I"]) /\
  ask fixed W [] (QIntroType (nm "G")) = AHandle None /\
  ask fixed W [fa] (QIntroType (nm "G")) = AHandle (Some (nm "G")).
Proof. vm_compute. repeat split; reflexivity. Qed.

(** consumer programs that are disciplined (never [Forged]) and reach the mechanisms:
    { i { ... on J { y } } } is rejected at the spread (node 1) without fa and valid with it;
    { i { x } } cannot determine the object type without fa and invokes G.x with it;
    { j { ... on B { y } } } validates and invokes Query.j and B.y *)
Example W_programs :
  snd (run fixed W [] [] (chain_prog spread_chain)) = Done ([1%nat], None) /\
  snd (run fixed W [fa] [] (chain_prog spread_chain)) = Done ([], Some ([(nm "Query", nm "i"); (nm "G", nm "y")], FLeaf)) /\
  snd (run fixed W [] [] (chain_prog resolve_chain)) = Done ([], Some ([(nm "Query", nm "i")], FUnresolved)) /\
  snd (run fixed W [fa] [] (chain_prog resolve_chain)) = Done ([], Some ([(nm "Query", nm "i"); (nm "G", nm "x")], FLeaf)) /\
  snd (run fixed W [] [] (chain_prog [CField (nm "j"); CFrag (nm "B"); CField (nm "y")]))
  = Done ([], Some ([(nm "Query", nm "j"); (nm "B", nm "y")], FLeaf)).
Proof. vm_compute. repeat split; reflexivity. Qed.

(** the premise of [C13_gated_never_called] is met by a run that resolves fields *)
Example W_resolved :
  map (fun x => fst x) (resolved_fields (fst (run fixed W [] [] (chain_prog [CField (nm "j"); CFrag (nm "B"); CField (nm "y")]))))
  = [(nm "Query", nm "j"); (nm "B", nm "y"); (nm "Query", nm "j"); (nm "B", nm "y")].   (* validator, then executor *)
Proof. vm_compute. reflexivity. Qed.

(** a schema with gated fields, a gated union, enum and input type, gated arguments *)
Definition fb : name := nm "fb".
Definition W2 : schema :=
  {| types := [
       (nm "Int", NScalar []); (nm "String", NScalar []);
       (nm "E", NEnum [(nm "V0", false); (nm "V1", true)] [fb]);
       (nm "In", NInput [(nm "x", StNamed (nm "E")); (nm "n", StNamed (nm "Int"))] [fb]);
       (nm "O", NObject [(nm "name", wfield "String" "");
                         (nm "ge", {| f_type := StNamed (nm "E"); f_args := []; f_req := [fb]; f_dep := false; f_ret := [] |})] [] []);
       (nm "U", NUnion [nm "O"] [fa]);
       (nm "Query", NObject [
          (nm "u", {| f_type := StNamed (nm "U"); f_args := []; f_req := [fa]; f_dep := false; f_ret := nm "O" |});
          (nm "e", {| f_type := StNonNull (StNamed (nm "E")); f_args := [(nm "in", StNamed (nm "In"))];
                      f_req := [fb]; f_dep := false; f_ret := [] |});
          (nm "o", wfield "O" "O")] [] [])];
     query := nm "Query"; mutation := None; subscription := None; directives := []; additional := [] |}.

Example W2_ok :
  schema_ok W2 = true /\
  map fst (types (erase W2 [fa])) = map nm ["Int"; "String"; "O"; "U"; "Query"] /\
  map fst (fields_of (match lookup (erase W2 [fa]) (nm "Query") with Some t => t | None => NScalar [] end)) = map nm ["u"; "o"] /\
  schema_ok (erase W2 [fa]) = true.
Proof. vm_compute. repeat split; reflexivity. Qed.

(** the exclusion hypothesis of [C13_noninterference_physical] is satisfiable with something erased
    (W: every surviving type stays reachable), and false on the orphan witness *)
Example W_no_orphans :
  excl_orphaned_type W [] = false /\ erase_physical W [] = erase W [] /\ excl_orphaned_type W_orphan [] = true.
Proof. vm_compute. repeat split; reflexivity. Qed.

(** a document of selection sets over W: the named fragment F1 on J is spread twice inside
    { i { .. } } (I and J share only the gated implementation G), next to an inline fragment:

      2  k1: i {            6  k4: j {                 7  fragment F1 on J {
      3    ...F1            9    ... on B {            8    k3: y
      4    ...F1           10      k5: y }  }             }
      5    k2: __typename }

    without fa the spread is impossible (reported at the definition, line 7, once per spread) and
    nothing is executed; with fa the document runs, F1 is collected once (visitedFragments), the
    resolvers Query.i, G.y, Query.j, B.y are invoked in that order; the pinned getPossibleTypes
    accepted the document without fa, and the executor then could not determine the object type
    behind the nullable field i.  The fuel [sdoc_fuel] is enough (no [Some None]). *)
Definition D1 : sdoc :=
  {| d_frags := [ {| fr_name := nm "F1"; fr_id := 7; fr_tc := nm "J";
                     fr_sels := SCons (SField 8 (nm "k3") (nm "y") SNil) SNil |} ];
     d_sels := SCons (SField 2 (nm "k1") (nm "i")
                 (SCons (SSpread 3 (nm "F1")) (SCons (SSpread 4 (nm "F1")) (SCons (STypename 5 (nm "k2")) SNil))))
               (SCons (SField 6 (nm "k4") (nm "j")
                 (SCons (SInline 9 (Some (nm "B")) (SCons (SField 10 (nm "k5") (nm "y") SNil) SNil)) SNil)) SNil) |}.

Example W_selection_sets :
  snd (run fixed W [] [] (sdoc_prog (sdoc_fuel D1) D1)) = Done ([7; 7]%nat, None) /\
  snd (run fixed (erase W []) [fa] [] (sdoc_prog (sdoc_fuel D1) D1)) = Done ([7; 7]%nat, None) /\
  snd (run fixed W [fa] [] (sdoc_prog (sdoc_fuel D1) D1))
  = Done ([], Some (Some ([(nm "Query", nm "i"); (nm "G", nm "y"); (nm "Query", nm "j"); (nm "B", nm "y")],
                          Some (RObj [(nm "k1", RObj [(nm "k3", RLeaf); (nm "k2", RTypename (nm "G"))]);
                                      (nm "k4", RObj [(nm "k5", RLeaf)])])))) /\
  snd (run pinned_spread W [] [] (sdoc_prog (sdoc_fuel D1) D1))
  = Done ([], Some (Some ([(nm "Query", nm "i"); (nm "Query", nm "j"); (nm "B", nm "y")],
                          Some (RObj [(nm "k1", RNull); (nm "k4", RObj [(nm "k5", RLeaf)])])))).
Proof. vm_compute. repeat split; reflexivity. Qed.

(** reachability: in W every registered type is reached from the roots, in the orphan witness T is
    reached only through the gated field (premises of [C13_reachable_fuel_suffices],
    [C13_exclusion_means_still_reached]) *)
Example W_reachable :
  reachable (erase W []) = map nm ["Query"; "A"; "B"; "I"; "J"; "Int"] /\
  reachable W_orphan = map nm ["Query"; "Int"; "T"] /\
  reachable (erase W_orphan []) = map nm ["Query"; "Int"].
Proof. vm_compute. repeat split; reflexivity. Qed.

(** composition with C04: the hypotheses of [C13_C04_type_info_eq] hold on C04's own example schema
    and on the C13 witness in C04's encoding; NewTypeInfo succeeds on C04's example document (so the
    equation is not None = None) and erasure really deletes something on the witness *)
From ApiFu Require Vld.Ast Vld.TypeInfoModel Vld.Witness Feat.FeaturesVld.
Example C04_hypotheses :
  FeaturesVld.vok Witness.ex_schema = true /\
  (match TypeInfoModel.type_info true Witness.ex_schema nil Witness.ex_valid with Some _ => true | None => false end) = true /\
  FeaturesVld.vok FeaturesVld.VW = true /\
  List.length (Vld.Ast.s_types (FeaturesVld.verase FeaturesVld.VW nil)) = 6%nat /\
  List.length (Vld.Ast.s_types FeaturesVld.VW) = 7%nat /\
  (match TypeInfoModel.type_info true FeaturesVld.VW nil FeaturesVld.VD with Some _ => true | None => false end) = true.
Proof. vm_compute. repeat split; reflexivity. Qed.

(** the premise of [C13_selection_set_fuel_suffices] holds for D1 with n = 3 (field, spread, field)
    and with the bound the check uses; a fragment that spreads itself fits no height *)
Definition D_cyclic : sdoc :=
  {| d_frags := [ {| fr_name := nm "A"; fr_id := 3; fr_tc := nm "Query";
                     fr_sels := SCons (SSpread 4 (nm "A")) SNil |} ];
     d_sels := SCons (SSpread 2 (nm "A")) SNil |}.
Example D1_fits :
  fitsb (d_frags D1) 3 (d_sels D1) = true /\ fitsb (d_frags D1) 2 (d_sels D1) = false /\
  fitsb (d_frags D1) (sdoc_fuel D1 - 2) (d_sels D1) = true /\
  fitsb (d_frags D_cyclic) 50 (d_sels D_cyclic) = false.
Proof. vm_compute. repeat split; reflexivity. Qed.

(** [C13_C04_validate_eq] / [C13_C04_validate_eq_no_gated_impls]: hypotheses met by a schema on which erasure deletes a field
    and a type (no interfaces, so no implementation can be gated); the common verdict of
    { a g h { x } } without fa is two "field does not exist" errors, with fa it is valid *)
From ApiFu Require Vld.ValidatorModel Vld.ProofsCommon Feat.FeaturesVldRules.
Definition VW3 : Vld.Ast.schema :=
  let gf t := {| Vld.Ast.f_type := Vld.Ast.StNamed (FeaturesVld.vn t); Vld.Ast.f_args := nil; Vld.Ast.f_req := cons FeaturesVld.vfa nil |} in
  {| Vld.Ast.s_types := [
       (FeaturesVld.vn "Int", FeaturesVld.vty nil (Vld.Ast.TScalar Vld.Ast.SInt));
       (FeaturesVld.vn "H", FeaturesVld.vty (cons FeaturesVld.vfa nil) (Vld.Ast.TObject [(FeaturesVld.vn "x", FeaturesVld.vfd "Int")] nil));
       (FeaturesVld.vn "Query", FeaturesVld.vty nil
          (Vld.Ast.TObject [(FeaturesVld.vn "a", FeaturesVld.vfd "Int"); (FeaturesVld.vn "g", gf "Int"); (FeaturesVld.vn "h", gf "H")] nil))];
     Vld.Ast.s_query := FeaturesVld.vn "Query"; Vld.Ast.s_mutation := None; Vld.Ast.s_subscription := None;
     Vld.Ast.s_directives := nil; Vld.Ast.s_meta := nil; Vld.Ast.s_impls := nil |}.
Definition VD3 : Vld.Ast.document :=
  let fld n c sub := Vld.Ast.SField None None (FeaturesVld.vn n) (FeaturesVld.vp 1 c) nil nil sub in
  [ Vld.Ast.DOp None None nil nil
      (Vld.Ast.SelSet None
         [ fld "a" 3%N None; fld "g" 5%N None;
           fld "h" 7%N (Some (Vld.Ast.SelSet None [fld "x" 11%N None] (FeaturesVld.vp 1 9))) ]
         (FeaturesVld.vp 1 1)) ].
Example C04_validate_eq_hypotheses :
  FeaturesVld.vok VW3 = true /\ FeaturesVldRules.impls_visible VW3 nil /\
  ValidatorModel.q_impl_features ValidatorModel.repaired = true /\
  List.length (Vld.Ast.s_types (FeaturesVld.verase VW3 nil)) = 2%nat /\
  (match ValidatorModel.validate_model ValidatorModel.repaired ValidatorModel.id_order VW3 nil VD3 with
   | Vld.Ast.Done errs => List.length errs | _ => 0%nat end) = 2%nat /\
  ValidatorModel.validate_model ValidatorModel.repaired ValidatorModel.id_order VW3 (cons FeaturesVld.vfa nil) VD3 = Vld.Ast.Done nil.
Proof.
  split; [vm_compute; reflexivity|]. split; [intros i l H; discriminate H|].
  vm_compute. repeat split; reflexivity.
Qed.

(** the F-view handed to C01's executor: for W without fa, six types; A implements I only (GI is
    gated), I's implementations in the view are A alone; with fa the view has all eight; the
    argument definitions listed are those of the visible object types *)
From ApiFu Require Val.Values ExeA.ArgData Feat.FeaturesExe.
Example C01_view_of_W :
  let leaf := fun (_ : name) (_ : named_type) => ArgData.NScalar ArgData.KInt in
  let inp := fun (_ : name) (_ : named_type) => Some (Values.TScalar Values.KInt) in
  let adefs := fun (_ _ : name) (_ : list (name * sty)) => (nil : ArgData.argdefs) in
  let view := FeaturesExe.view leaf inp adefs nil in
  map fst (ArgData.types (view W [])) = map nm ["Int"; "I"; "J"; "A"; "B"; "Query"] /\
  ArgData.lookup_type (view W []) (nm "A") = Some (ArgData.NObject [(nm "x", ArgData.StNamed (nm "Int"))] [nm "I"]) /\
  ArgData.impls_of (view W []) (nm "I") = [nm "A"] /\
  map fst (ArgData.s_argdefs (view W [])) = map nm ["A"; "B"; "Query"] /\
  map fst (ArgData.s_inputs (view W [])) = [nm "Int"] /\
  List.length (ArgData.types (view W [fa])) = 8%nat /\
  view (erase W []) [fa] = view W [].
Proof. vm_compute. repeat split; reflexivity. Qed.

(** [C13_feature_pipeline_eq] / [C13_feature_subscription_eq]: the premises hold for the witness in
    C04's encoding (VW) and in C13's (W); the front half of the composed pipeline on the text
    "{i{...on J{y}}}" rejects it without fa (impossible spread) and accepts it with fa *)
From ApiFu Require Vld.ProofsCommon Pipe.Compose.
Example pipeline_premises :
  ProofsCommon.order_ok ValidatorModel.id_order /\
  FeaturesVld.vok FeaturesVld.VW = true /\ schema_ok W = true /\ subset [] [fa] = true /\
  (match Compose.parse_and_validate_order ValidatorModel.id_order FeaturesVld.VW [] (nm "{i{...on J{y}}}") with
   | Compose.FInvalid _ _ => true | _ => false end) = true /\
  (match Compose.parse_and_validate_order ValidatorModel.id_order FeaturesVld.VW [fa] (nm "{i{...on J{y}}}") with
   | Compose.FAccepted _ => true | _ => false end) = true.
Proof. split; [exact ProofsCommon.id_order_ok|]. vm_compute. repeat split; reflexivity. Qed.
