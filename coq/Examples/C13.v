(** non-vacuity for C13: concrete schemas meeting the hypotheses of the main theorems, on which
    erasure really deletes something and consumer programs really reach the gated mechanisms *)
From Coq Require Import String List NArith.
From ApiFu Require Import Base.Sexp Feat.FeaturesModel Feat.FeaturesSpec Feat.FeaturesProofs.
Import ListNotations.
Open Scope string_scope.
Open Scope list_scope.

(** the witness schema W (interfaces I, J sharing only the gated implementation G; A implementing
    the gated interface GI) is accepted, and a request without fa loses two types, two
    implementation links and nothing else *)
Example W_ok : schema_ok W = true.
Proof. vm_compute. reflexivity. Qed.

Example W_erased :
  map fst (types (erase W [])) = map nm ["Int"; "I"; "J"; "A"; "B"; "Query"] /\
  lookup (erase W []) (nm "A") = Some (NObject [(nm "x", wfield "Int" "")] [nm "I"] []) /\
  subset [] [fa] = true /\ subset (all_features W) [fa] = true /\ erase W [fa] = W.
Proof. vm_compute. repeat split; reflexivity. Qed.

(** premises of [C13_view_erase_eq] / [C13_view_closed] hold for lookups that meet the gate:
    possible types of the visible interface I (the gated G is filtered), interfaces of A *)
Example W_lookups :
  visible W [] (nm "I") = true /\
  ask fixed W [] (QPossibleV (nm "I")) = ANames (Some [nm "A"]) /\
  ask fixed W [fa] (QPossibleV (nm "I")) = ANames (Some [nm "G"; nm "A"]) /\
  ask fixed W [] (QIntroInterfaces (nm "A")) = ANames (Some [nm "I"]) /\
  ask fixed W [] (QIntroType (nm "G")) = AHandle None /\
  ask fixed W [fa] (QIntroType (nm "G")) = AHandle (Some (nm "G")).
Proof. vm_compute. repeat split; reflexivity. Qed.

(** consumer programs that are disciplined (never [Forged]) and reach the mechanisms:
    { i { ... on J { y } } } is rejected at the spread (node 1) without fa and valid with it;
    { i { x } } cannot determine the object type without fa and invokes G.x with it;
    { j { ... on B { y } } } validates and invokes Query.j and B.y *)
Example W_programs :
  snd (run fixed W [] [] (chain_prog spread_chain)) = Done ([1%nat], None) /\
  snd (run fixed W [fa] [] (chain_prog spread_chain)) = Done ([], Some ([(nm "Query", nm "i"); (nm "G", nm "y")], FLeaf)) /\
  snd (run fixed W [] [] (chain_prog resolve_chain)) = Done ([], Some ([(nm "Query", nm "i")], FUnresolved)) /\
  snd (run fixed W [fa] [] (chain_prog resolve_chain)) = Done ([], Some ([(nm "Query", nm "i"); (nm "G", nm "x")], FLeaf)) /\
  snd (run fixed W [] [] (chain_prog [CField (nm "j"); CFrag (nm "B"); CField (nm "y")]))
  = Done ([], Some ([(nm "Query", nm "j"); (nm "B", nm "y")], FLeaf)).
Proof. vm_compute. repeat split; reflexivity. Qed.

(** the premise of [C13_gated_never_called] is met by a run that resolves fields *)
Example W_resolved :
  map (fun x => fst x) (resolved_fields (fst (run fixed W [] [] (chain_prog [CField (nm "j"); CFrag (nm "B"); CField (nm "y")]))))
  = [(nm "Query", nm "j"); (nm "B", nm "y"); (nm "Query", nm "j"); (nm "B", nm "y")].   (* validator, then executor *)
Proof. vm_compute. reflexivity. Qed.

(** a schema with gated fields, a gated union, enum and input type, gated arguments *)
Definition fb : name := nm "fb".
Definition W2 : schema :=
  {| types := [
       (nm "Int", NScalar []); (nm "String", NScalar []);
       (nm "E", NEnum [(nm "V0", false); (nm "V1", true)] [fb]);
       (nm "In", NInput [(nm "x", StNamed (nm "E")); (nm "n", StNamed (nm "Int"))] [fb]);
       (nm "O", NObject [(nm "name", wfield "String" "");
                         (nm "ge", {| f_type := StNamed (nm "E"); f_args := []; f_req := [fb]; f_dep := false; f_ret := [] |})] [] []);
       (nm "U", NUnion [nm "O"] [fa]);
       (nm "Query", NObject [
          (nm "u", {| f_type := StNamed (nm "U"); f_args := []; f_req := [fa]; f_dep := false; f_ret := nm "O" |});
          (nm "e", {| f_type := StNonNull (StNamed (nm "E")); f_args := [(nm "in", StNamed (nm "In"))];
                      f_req := [fb]; f_dep := false; f_ret := [] |});
          (nm "o", wfield "O" "O")] [] [])];
     query := nm "Query"; mutation := None; subscription := None; directives := []; additional := [] |}.

Example W2_ok :
  schema_ok W2 = true /\
  map fst (types (erase W2 [fa])) = map nm ["Int"; "String"; "O"; "U"; "Query"] /\
  map fst (fields_of (match lookup (erase W2 [fa]) (nm "Query") with Some t => t | None => NScalar [] end)) = map nm ["u"; "o"] /\
  schema_ok (erase W2 [fa]) = true.
Proof. vm_compute. repeat split; reflexivity. Qed.

(** the exclusion hypothesis of [C13_noninterference_physical] is satisfiable with something erased
    (W: every surviving type stays reachable), and false on the orphan witness *)
Example W_no_orphans :
  excl_orphaned_type W [] = false /\ erase_physical W [] = erase W [] /\ excl_orphaned_type W_orphan [] = true.
Proof. vm_compute. repeat split; reflexivity. Qed.
