(** non-vacuity for C15: a concrete request (a Go field, two invocations of one batch resolver of
    which one fails, a chain over a Go getter, a child revealed in a second wave) and a concrete
    interleaving of it on which the hypotheses of every theorem of Properties/C15.v hold *)
From Coq Require Import List ZArith Arith.
From ApiFu Require Import Idle.IdleModel Idle.IdleSpec Idle.IdleProofs Idle.IdleLive Idle.IdleHist Idle.IdleCheck.
From ApiFu Require Idle.IdleFair.
Import ListNotations.
Open Scope Z_scope.

Definition ex_items : list item :=
  [ mkItem KGo None false (ROk 10);               (* 0: Go field *)
    mkItem (KBatch 0) None false (ROk 11);        (* 1: batch field, resolver 0 *)
    mkItem (KBatch 0) None false (RErr 12);       (* 2: batch field, resolver 0, fails *)
    mkItem KGo None true (ROk 13);                (* 3: a connection's getter promise (read by 4) *)
    mkItem (KChain [3%nat]) None false (ROk 14);  (* 4: chain over 3 *)
    mkItem KSync (Some 0%nat) false (ROk 15) ].   (* 5: child of 0, revealed in the second wave *)

Definition ex_prog : prog := mk_prog ex_items.

Example ex_wf : wf_items ex_prog = true.
Proof. vm_compute. reflexivity. Qed.

Example ex_bf : bfun_ok ex_prog.
Proof. intros k l. simpl. apply map_length. Qed.

Open Scope nat_scope.

Definition ex_pre : list label := [LCreate 0; LCreate 1; LCreate 2; LCreate 3; LCreate 4].
Definition ex_mid : list label := [LFlush 0 [1; 2]; LFlushDone; LFinish 0; LArrive 0; LRecv 0].
Definition ex_rest : list label :=
  [LConsume 1; LConsume 2; LConsume 0; LCreate 5; LIdleEnter; LFinish 3; LArrive 3; LRecv 3; LRead 4;
   LArrive 4; LRecv 4; LIdleExit; LConsume 4; LEnd].
Definition ex_round : list label := ex_pre ++ LIdleEnter :: ex_mid ++ [LIdleExit].
Definition ex_trace : list label := ex_round ++ ex_rest.

(** the same request under the rewrite that does not loop after a chained delivery: the handler
    returns after [recv 3] and is entered again *)
Definition ex_rest_noloop : list label :=
  [LConsume 1; LConsume 2; LConsume 0; LCreate 5; LIdleEnter; LFinish 3; LArrive 3; LRecv 3; LIdleExit;
   LIdleEnter; LRead 4; LArrive 4; LRecv 4; LIdleExit; LConsume 4; LEnd].
Definition ex_trace_noloop : list label := ex_round ++ ex_rest_noloop.

(** the same interleaving with the request context cancelled while the handler is blocked in its
    receive and two functions are still running (second wave) *)
Definition ex_rest_cancel : list label :=
  [LConsume 1; LConsume 2; LConsume 0; LCreate 5; LIdleEnter; LCancel; LFinish 3; LArrive 3; LRecv 3; LRead 4;
   LArrive 4; LRecv 4; LIdleExit; LConsume 4; LEnd].
Definition ex_trace_cancel : list label := ex_round ++ ex_rest_cancel.

Definition phase_after (fx : variant) (tr : list label) : option phase :=
  match run fx ex_prog init tr with Some s => Some (st_phase s) | None => None end.

(** the whole interleaving is a run of the model (pinned and repaired) and ends the request *)
Example ex_runs : phase_after current ex_trace = Some PEnded /\ phase_after pinned ex_trace = Some PEnded /\
  phase_after (mkVariant true false) ex_trace_noloop = Some PEnded /\
  phase_after current ex_trace_cancel = Some PEnded /\ phase_after current (LCancel :: ex_trace) = Some PEnded.
Proof. vm_compute. repeat split; reflexivity. Qed.

(** hypotheses of C15_batch_coalesced: an idle round with a pending batch of two invocations *)
Example ex_round_runs :
  phase_after current ex_round = Some PPoll /\ ~ In LIdleExit ex_mid /\
  pending_after ex_prog 0 ex_pre = [1; 2] /\ calls_of 0 ex_mid = [(0, [1; 2])].
Proof.
  split; [vm_compute; reflexivity|]. split; [|split; vm_compute; reflexivity].
  intro H. simpl in H. repeat (destruct H as [H|H]; [discriminate|]). exact H.
Qed.

(** hypotheses of C15_delivery_exact: after the round the batch promises hold the positional
    results and the Go promise holds its function's result *)
Example ex_delivered :
  match run current ex_prog init ex_round with
  | Some s => (st_chan s 0, st_chan s 1, st_chan s 2)
  | None => (None, None, None)
  end = (Some (ROk 10%Z), Some (ROk 11%Z), Some (RErr 12%Z)).
Proof. vm_compute. reflexivity. Qed.

(** hypotheses of C15_deadlock_free: a reachable state inside the idle handler, blocked in the
    receive with no batch pending and nothing parked yet (the second wave) *)
Definition ex_blocked : list label := ex_round ++ [LConsume 1; LConsume 2; LConsume 0; LCreate 5; LIdleEnter].
Example ex_blocked_state :
  match run current ex_prog init ex_blocked with
  | Some s => (st_phase s, st_pend s, st_gor s 3, st_gor s 4)
  | None => (PPanic, [], GNone, GNone)
  end = (PTop, [], GComputing, GWaiting 0 []).
Proof. vm_compute. reflexivity. Qed.

(** hypotheses of C15_no_leak / C15_drains: the request returned while a goroutine is still inside
    f() (its promise was abandoned) *)
Definition ex_abandon : list label := [LCreate 0; LAbandon 0; LEnd].
Example ex_abandon_state :
  match run current ex_prog init ex_abandon with
  | Some s => (st_phase s, st_gor s 0)
  | None => (PPanic, GNone)
  end = (PEnded, GComputing).
Proof. vm_compute. reflexivity. Qed.

(** the theorems instantiated *)
Example ex_coalesced_instance : calls_of 0 ex_mid = [(0, [1; 2])].
Proof.
  assert (R : exists s, run current ex_prog init (ex_pre ++ LIdleEnter :: ex_mid ++ [LIdleExit]) = Some s).
  { vm_compute. eexists. reflexivity. }
  destruct R as [s R].
  rewrite (batch_coalesced ex_prog ex_wf ex_bf current ex_pre ex_mid s R).
  - vm_compute. reflexivity.
  - intro H. simpl in H. repeat (destruct H as [H|H]; [discriminate|]). exact H.
Qed.

Example ex_terminates_instance : length ex_trace <= 36 * 6 + 5.
Proof.
  assert (R : exists s, run current ex_prog init ex_trace = Some s) by (vm_compute; eexists; reflexivity).
  destruct R as [s R]. exact (terminates ex_prog ex_wf ex_bf current ex_trace s R).
Qed.

(** hypotheses of C15_idle_round_fair_unchained: a request without chaining and one of its rounds *)
Definition ex2_prog : prog := mk_prog [mkItem KGo None false (ROk 1%Z); mkItem (KBatch 0) None false (ROk 2%Z)].
Definition ex2_pre : list label := [LCreate 0; LCreate 1].
Definition ex2_mid : list label := [LFlush 0 [1]; LFlushDone; LFinish 0; LArrive 0; LRecv 0].

Example ex2_no_chaining : IdleFair.no_chaining ex2_prog.
Proof.
  intros w it L. destruct w as [|[|w]]; simpl in L.
  - inversion L; reflexivity.
  - inversion L; reflexivity.
  - unfold lookup in L. simpl in L. destruct w; discriminate.
Qed.

Example ex2_round_runs :
  wf_items ex2_prog = true /\
  match run current ex2_prog init (ex2_pre ++ LIdleEnter :: ex2_mid ++ [LIdleExit]) with
  | Some s => Some (st_phase s) | None => None end = Some PPoll /\
  deliveries ex2_mid = [1; 0].
Proof. vm_compute. repeat split; reflexivity. Qed.

(** C15_idle_rounds_bounded on the main example: two idle rounds, five promise items *)
Example ex_rounds_bounded_instance :
  IdleFair.exits ex_trace = 2 /\ length (filter (promise_item ex_prog) (ids ex_prog)) = 5.
Proof. vm_compute. split; reflexivity. Qed.

(** the handler record of the main example as a C02 scheduler: round 0 fills 1, 2, 0; round 1 fills 3, 4 *)
Example ex_sched_agrees :
  IdleFair.sched_of_rounds [[1; 2; 0]; [3; 4]] 1 [(3, 0%N); (4, 0%N)] = [3; 4].
Proof. reflexivity. Qed.

(** hypotheses of the coupling theorems: the initial states are coupled, [ex2_prog] is flat *)
From ApiFu Require Idle.IdleJoint Fut.ExecAsync.
Example ex_K0 : IdleJoint.K ExecAsync.st0 init.
Proof.
  constructor; simpl.
  - intros i pr N. destruct i; discriminate.
  - intro w. split; [discriminate|intro H; inversion H].
  - intros w pr N. destruct w; discriminate.
  - intro w. split; [intros [ok []]|congruence].
Qed.

Example ex2_flat : IdleJoint.flat_async ex2_prog.
Proof.
  intros w it L. destruct w as [|[|w]]; simpl in L.
  - inversion L; auto.
  - inversion L; auto.
  - unfold lookup in L. simpl in L. destruct w; discriminate.
Qed.

(** hypotheses of C15_response_eq_sync: a joint run exists (the plan without asynchronous fields:
    the root future is ready at once, no idle round); the coupling theorems of IdleJoint.v say that
    the joint system's steps are forced for plans with Go/Batch fields *)
From ApiFu Require Idle.IdleJointRun Fut.Plan Fut.Future Fut.AsyncWrap.
Example ex_jrun_exists :
  exists resp, IdleJointRun.JRun ex2_prog current [] 3 [] resp.
Proof.
  unfold IdleJointRun.JRun.
  destruct (ExecAsync.exec_sel ExecAsync.fixed_flags [] [] ExecAsync.st0) as [f st0'] eqn:E.
  vm_compute in E. inversion E; subst f st0'; clear E.
  eexists. exists (Future.Ready (Plan.ROk (Plan.GMap 0))). eexists. exists [], init. eexists. eexists.
  split; [intros sigma fuel; destruct fuel; reflexivity|].
  split; [reflexivity|]. split; [reflexivity|]. split; [apply IdleJointRun.JL_ready|].
  vm_compute. reflexivity.
Qed.

(** the joint system on a request with one Go field: {a} with a: apifu.Go(...) resolving to 7.
    The plan has no prefilled promise, one asynchronous field, [ex2_prog] (a Go and a Batch item)
    has an item for it; the root future is pending after construction and still pending after the
    first poll, so the joint run goes through the idle handler (at least one LTS round); it exists
    and its response is the all-synchronous one. *)
From ApiFu Require Idle.IdleJointTotal Fut.NoPrefill Fut.FutProofs Fut.ExecSync Fut.FutSpec.
Definition go_plan : Plan.selset := [([97%N], Plan.FP (Some 0%N) false (Some (Plan.VLeaf 7%Z)))].

Example go_plan_hyps :
  NoPrefill.nopre go_plan = true /\ Plan.count_async go_plan = 1 /\
  Plan.count_async go_plan <= length (p_items ex2_prog) /\ FutProofs.resp_depth go_plan < 5.
Proof. vm_compute. repeat split; repeat constructor. Qed.

Example go_plan_needs_the_handler :
  match ExecAsync.exec_sel ExecAsync.fixed_flags go_plan [] ExecAsync.st0 with
  | (Future.Pending c, s1) =>
      match ExecAsync.invoke ExecAsync.fixed_flags (Future.CMap ExecAsync.wait_fn c) s1 with
      | (_, None, _) => True
      | _ => False
      end
  | _ => False
  end.
Proof. vm_compute. exact I. Qed.

Example go_plan_joint_run :
  (exists cs resp, IdleJointRun.JRun ex2_prog current go_plan 5 cs resp) /\
  forall cs resp, IdleJointRun.JRun ex2_prog current go_plan 5 cs resp ->
    ExecAsync.r_data resp = ExecSync.sr_data (ExecSync.run_sync go_plan) /\
    FutSpec.conforms go_plan (ExecAsync.r_data resp) (ExecAsync.r_errors resp).
Proof.
  destruct go_plan_hyps as [H1 [_ [H3 H4]]].
  destruct ex2_round_runs as [WFX _].
  split.
  - apply (IdleJointTotal.joint_run_exists ex2_prog WFX); auto.
    + intros k l. simpl. apply map_length.
    + exact ex2_no_chaining.
    + exact ex2_flat.
  - intros cs resp. apply IdleJointRun.response_eq_sync. exact H4.
Qed.
