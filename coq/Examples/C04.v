(** non-vacuity for C04 (filled in below) *)
From Coq Require Import List NArith.
From ApiFu Require Import Base.Sexp Vld.Ast.
