(** non-vacuity for C04: a concrete schema and documents on which the hypotheses of the theorems of
    Properties/C04.v hold, and on which model and Spec compute the expected verdicts *)
From Coq Require Import List NArith ZArith Bool String.
From ApiFu Require Import Base.Sexp Vld.Ast Vld.Inspect Vld.TypeInfoModel Vld.ValidatorModel Vld.ValidSpec Vld.Hyps
     Vld.ProofsCommon Vld.ProofsDirectives Vld.ProofsArguments Vld.ProofsFragDecl Vld.ProofsValues Vld.ProofsCycles Vld.ValidatorProofs Vld.ProofsTotal Vld.MemoEquiv Vld.ProofsSubscription Vld.Witness.
Import ListNotations.
Open Scope N_scope.
Open Scope string_scope.

(** the hypotheses of the rule theorems hold of the example *)
Example ex_schema_args_ok : schema_args_ok ex_schema = true.
Proof. vm_compute. reflexivity. Qed.
Example ex_schema_impls_ok : schema_impls_ok ex_schema = true.
Proof. vm_compute. reflexivity. Qed.
Example ex_schema_defaults_ok : schema_defaults_ok ex_schema = true.
Proof. vm_compute. reflexivity. Qed.
Example ex_schema_ifaces_ok : schema_ifaces_ok ex_schema = true.
Proof. vm_compute. reflexivity. Qed.
Example ex_schema_types_wf : schema_types_wf ex_schema = true.
Proof. vm_compute. reflexivity. Qed.
Example ex_schema_ok : schema_ok ex_schema = true.
Proof. vm_compute. reflexivity. Qed.
Example ex_fields_defined : fields_defined ex_schema [] ex_valid = true.
Proof. vm_compute. reflexivity. Qed.
Example ex_values_typed : values_typed_input ex_schema [] ex_valid = true.
Proof. vm_compute. reflexivity. Qed.
(** the positional hypotheses hold of the example document (as of any parsed one) *)
Example ex_positions_ok : doc_positions_ok ex_valid = true.
Proof. vm_compute. reflexivity. Qed.
Example ex_sets_distinct : doc_set_positions_distinct ex_valid.
Proof. unfold doc_set_positions_distinct. vm_compute. repeat constructor; cbn; intuition discriminate. Qed.
Example ex_fields_distinct : doc_field_positions_distinct ex_valid.
Proof. unfold doc_field_positions_distinct, field_positions. vm_compute. repeat constructor; cbn; intuition discriminate. Qed.
Example ex_orders_ok : order_ok id_order /\ order_ok rev_order.
Proof. split; [exact id_order_ok | exact rev_order_ok]. Qed.

(** the valid document: accepted under both orders, and valid by the Spec *)
Example ex_valid_accepted :
  validate_model repaired id_order ex_schema [] ex_valid = Done [] /\
  validate_model repaired rev_order ex_schema [] ex_valid = Done [].
Proof. vm_compute. split; reflexivity. Qed.
Example ex_valid_spec : Valid ex_schema [] ex_valid.
Proof. vm_compute. reflexivity. Qed.

(** a violation of 5.4.2.1 under the hypotheses of [violation_rejected]: rejected with a primary error
    located at the field *)
Example ex_missing_arg_hyps :
  schema_ok ex_schema = true /\ fields_defined ex_schema [] ex_missing_arg = true /\ valid_5_4 ex_schema [] ex_missing_arg = false.
Proof. vm_compute. repeat split. Qed.
Example ex_missing_arg_rejected :
  validate_model repaired id_order ex_schema [] ex_missing_arg = Done [err EArgRequired (p 3)].
Proof. vm_compute. reflexivity. Qed.

(** a spread cycle: the search finds it whatever the order, the Spec's 5.5.2.2 is violated, the
    document is rejected with the error at the fragment definitions *)
Example ex_cycle_found :
  cycle_search id_order ex_cycle (graph_fuel ex_cycle) (n "A") [n "A"] [] = Some true /\
  cycle_search rev_order ex_cycle (graph_fuel ex_cycle) (n "A") [n "A"] [] = Some true /\
  valid_5_5_2_2 ex_cycle = false.
Proof. vm_compute. repeat split. Qed.
Example ex_cycle_rejected :
  validate_model repaired id_order ex_schema [] ex_cycle = Done [err EFragCycle (p 10); err EFragCycle (p 40)].
Proof. vm_compute. reflexivity. Qed.


(** a refined custom scalar (apifu's LongInt: Int literals within +-(2^53 - 1)); model and Spec agree *)
Definition long_schema : schema :=
  {| s_types := [ (n "LongInt", ty_ (TScalar (SRefined (Some [KInt]) (PIntRange (Z.opp 9007199254740991%Z) 9007199254740991%Z)))) ];
     s_query := n "Query"; s_mutation := None; s_subscription := None; s_directives := []; s_meta := []; s_impls := [] |}.
Example ex_longint :
  coercion repaired id_order long_schema (VInt no_vann (n "9007199254740991") (p 1)) (StNamed (n "LongInt")) true = VR [] /\
  coercion repaired id_order long_schema (VInt no_vann (n "9007199254740992") (p 1)) (StNamed (n "LongInt")) true = VR [err ECoerceScalar (p 1)] /\
  coercion repaired id_order long_schema (VString no_vann (n "1") (p 1)) (StNamed (n "LongInt")) true = VR [err ECoerceScalar (p 1)] /\
  value_facts long_schema (VInt no_vann (n "9007199254740991") (p 1)) (StNamed (n "LongInt")) true = [] /\
  value_facts long_schema (VInt no_vann (n "-9007199254740992") (p 1)) (StNamed (n "LongInt")) true = [FMismatch].
Proof. vm_compute. repeat split. Qed.
