(** non-vacuity for C20: a concrete schema (interface, union, enum, lists), a document (aliased
    __typename, two inline fragments on one type, response keys selected twice (a leaf and a
    composite field with different sub-selections), an inline fragment without type condition, a
    named fragment with a nested fragment, a union type condition on an object field) and a
    response (two concrete types and null in a list, null at a nullable leaf, a non-integral
    float) that meet every hypothesis of C20_gen_wf_partial and C20_gen_decodes. *)
From Coq Require Import List NArith Bool String.
From ApiFu Require Import Base.Sexp Gen.GoTypes Gen.ClientGenModel Gen.DecodeModel Gen.ClientGenSpec
     Gen.ClientGenMain Gen.ClientGenWitness Gen.ClientGenDeclSafe Gen.LoadSchemaModel Gen.LoadSchemaProofs Gen.ClientGenAgree Gen.ClientGenClauses Gen.ClientGenTopS Gen.ClientGenWfS.
Import ListNotations.
Open Scope string_scope.

(** User.login, Node.id and the enum value Color.dark_blue are deprecated (all three are selected /
    returned in the example) *)
Definition ex_deprecations : deprecations :=
  {| dep_fields := [(bs "User", bs "login"); (bs "Node", bs "id")]; dep_values := [(bs "Color", bs "dark_blue")] |}.

Example c20_hypotheses_hold :
  env ex_schema ex_doc = true /\ schema_loadable ex_schema = true /\
  no_sel_names ex_schema ex_doc = true /\ no_digit_types ex_schema = true /\ lex_names ex_schema ex_doc = true /\
  In ex_op_linked (d_ops ex_doc) /\ op_name ex_op_linked = Some (bs "Q") /\
  conforms ex_schema ex_op_linked ex_resp = true.
Proof. repeat split; try (vm_compute; reflexivity). left. reflexivity. Qed.

(** the theorems instantiated: a program is generated, is well formed, and decodes the response *)
Example c20_instance :
  exists p, generate_real ex_deprecations ex_schema (doc_valid ex_schema ex_doc) ex_doc = GOk p /\ wf_program p = true /\
    exists n v, (forall fuel, (n <= fuel)%nat -> decode_op p fuel (bs "Q") (json_of ex_resp) = DOk v) /\
                (forall pl, In pl (leaves v) <-> In pl (expected ex_schema ex_op_linked ex_resp)).
Proof.
  destruct c20_hypotheses_hold as (H1 & HL & R1 & R2 & R3 & H4 & H5 & H6).
  destruct (real_s_wf ex_deprecations ex_schema ex_doc H1 HL R1 R2 R3) as [p [Hg Hw]].
  exists p. split; [exact Hg|]. split; [exact Hw|].
  apply (real_s_decodes ex_deprecations ex_schema ex_doc H1 HL p ex_op_linked (bs "Q") ex_resp Hg H4 H5 H6).
Qed.

(** the decoding theorem applies to a selection set WITH a member-name clash (K1: the response key
    [user] next to a fragment on [User]; the fragment's field is spelled User_) *)
Example c20_instance_clash :
  excl_member_clash ex_schema docK1 = true /\
  exists p, generate_real ex_deprecations ex_schema (doc_valid ex_schema docK1) docK1 = GOk p /\ wf_program p = true /\
    exists n v, (forall fuel, (n <= fuel)%nat -> decode_op p fuel (bs "K") (json_of respK1) = DOk v) /\
                (forall pl, In pl (leaves v) <-> In pl (expected ex_schema (hd opM (d_ops docK1)) respK1)).
Proof.
  assert (H1 : env ex_schema docK1 = true) by (vm_compute; reflexivity).
  assert (HL : schema_loadable ex_schema = true) by (vm_compute; reflexivity).
  split; [vm_compute; reflexivity|].
  destruct (real_s_wf ex_deprecations ex_schema docK1 H1 HL) as [p [Hg Hw]]; try (vm_compute; reflexivity).
  exists p. split; [exact Hg|]. split; [exact Hw|].
  apply (real_s_decodes ex_deprecations ex_schema docK1 H1 HL p (hd opM (d_ops docK1)) (bs "K") respK1 Hg);
    [left; reflexivity | vm_compute; reflexivity | vm_compute; reflexivity].
Qed.

(** the residue is what fails on the remaining known finding: on K8 (an enum named selQuery0) exactly
    [no_sel_names] is false; on K5-like declaration clashes that are repaired (K2: constants RED / red)
    the residue holds and [C20_gen_wf] applies *)
Example c20_residue_on_witnesses :
  no_sel_names schemaK8 docK8 = false /\ no_digit_types schemaK8 = true /\ lex_names schemaK8 docK8 = true /\
  excl_decl_clash schemaK2 docK2 = true /\
  no_sel_names schemaK2 docK2 = true /\ no_digit_types schemaK2 = true /\ lex_names schemaK2 docK2 = true.
Proof. repeat split; vm_compute; reflexivity. Qed.

(** the instance is not trivial: the response has leaves below fragments of both concrete types *)
Example c20_instance_nontrivial :
  generated_and (generate no_quirks ex_schema (doc_valid ex_schema ex_doc) ex_doc)
    (fun p => wf_program p && leaves_agree p ex_schema ex_op_linked "Q" ex_resp &&
              Nat.leb 15 (List.length (expected ex_schema ex_op_linked ex_resp))) = true /\
  existsb (fun pl => existsb (fun s => match s with PFrag f => bytes_eqb f (bs "user") | _ => false end) (fst pl))
          (expected ex_schema ex_op_linked ex_resp) = true /\
  existsb (fun pl => existsb (fun s => match s with PFrag f => bytes_eqb f (bs "f") | _ => false end) (fst pl))
          (expected ex_schema ex_op_linked ex_resp) = true.
Proof. repeat split; vm_compute; reflexivity. Qed.

(** LoadSchema: a chain of seven wrappers in mixed order is rebuilt exactly; [T]! and [T!] stay
    apart; with an eighth wrapper loading fails *)
Example c20_load_types :
  let t7 := TNonNull (TList (TNonNull (TList (TList (TNonNull (TList (TNamed (bs "Int")))))))) in
  let t8 := TList t7 in
  wrappers t7 = 7%nat /\ load_type ex_schema t7 = Some t7 /\
  load_type ex_schema (TNonNull (TList (TNamed (bs "User")))) = Some (TNonNull (TList (TNamed (bs "User")))) /\
  load_type ex_schema (TList (TNonNull (TNamed (bs "User")))) = Some (TList (TNonNull (TNamed (bs "User")))) /\
  load_type ex_schema t8 = None.
Proof. repeat split; vm_compute; reflexivity. Qed.

(** without includeDeprecated the example's loaded schema would lack User.login *)
Example c20_deprecated_dropped :
  load_schema_q the_query ex_deprecations ex_schema = Some ex_schema /\
  match load_schema_q {| iq_fields_deprecated := false; iq_values_deprecated := true |} ex_deprecations ex_schema with
  | Some S' => match field_type S' (bs "User") (bs "login") with None => true | Some _ => false end
  | None => false
  end = true.
Proof. split; vm_compute; reflexivity. Qed.
