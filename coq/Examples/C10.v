(** non-vacuity for C10: one definition with an interface, an object implementing it, a union, an
    enum with a deprecated value, an input object, a gated type and a gated field, a [T!]! field,
    arguments with defaults of every kind (an Int! that is only optional because of its default,
    a string with quote, backslash, line feed, a non-ASCII and a U+2028 character, an enum value,
    a nested list with a null), a directive with an argument — on which every hypothesis of the
    main theorems holds, and the conclusions are recomputed by [vm_compute]. *)
From Coq Require Import List NArith ZArith Bool String.
From ApiFu Require Import Base.Sexp Intro.Utf8 Intro.IntrospectModel Intro.MarshalValue Intro.LiteralSpec
     Intro.IntrospectSpec Intro.Rebuild Intro.RebuildSpec Intro.Clone
     Intro.GraphProofs Intro.IntrospectProofs Intro.RefsProofs Intro.MarshalProofs Intro.RebuildProofs Intro.CloneProofs.
Import ListNotations.
Open Scope N_scope.
Open Scope string_scope.

Definition nm (s : string) : name := s2b s.
Definition iv (t : sty) (d : option gval) : input_def := {| in_type := t; in_default := d; in_desc := [] |}.
Definition fd (t : sty) (args : list (name * input_def)) (req : features) (depr : text) : field_def :=
  {| f_type := t; f_args := args; f_features := req; f_deprecation := depr; f_desc := nm "a field" |}.

Definition hard_string : list N := [34; 92; 10; 233; 8232; 97].

Definition S_ex : schema :=
  {| types :=
       [ (nm "Int", NScalar true false [] []); (nm "String", NScalar true false [] []);
         (nm "Boolean", NScalar true false [] []); (nm "Float", NScalar true false [] []);
         (nm "Date", NScalar false true [] (nm "a custom scalar"));
         (nm "E", NEnum [ (nm "A", {| ev_value := GInt 1; ev_desc := []; ev_deprecation := [] |});
                          (nm "B", {| ev_value := GInt 2; ev_desc := []; ev_deprecation := nm "old" |}) ] [] []);
         (nm "In", NInput [ (nm "a", iv (StNonNull (StNamed (nm "Int"))) (Some (GInt 7)));
                            (nm "s", iv (StNamed (nm "String")) None) ] [] true []);
         (nm "Node", NInterface [ (nm "id", fd (StNonNull (StNamed (nm "Int"))) [] [] []) ] [] []);
         (nm "Query", NObject
            [ (nm "a", fd (StNamed (nm "Int"))
                          [ (nm "x", iv (StNonNull (StNamed (nm "Int"))) (Some (GInt 5)));
                            (nm "s", iv (StNamed (nm "String")) (Some (GString hard_string)));
                            (nm "e", iv (StNamed (nm "E")) (Some (GInt 2)));
                            (nm "l", iv (StList (StList (StNamed (nm "Int")))) (Some (GList [GList [GInt 1; GInt 2]; GNull])));
                            (nm "f", iv (StNamed (nm "Float")) (Some (GFloat 5 0 [53])));
                            (nm "i", iv (StNamed (nm "In")) (Some GNull)) ] [] []);
              (nm "items", fd (StNonNull (StList (StNonNull (StNamed (nm "Item"))))) [] [] (nm "use search"));
              (nm "u", fd (StNamed (nm "U")) [] [] []);
              (nm "secret", fd (StNamed (nm "Gated")) [] [nm "f1"] []) ] [] [] []);
         (nm "Item", NObject [ (nm "id", fd (StNonNull (StNamed (nm "Int"))) [] [] []);
                               (nm "when", fd (StNamed (nm "Date")) [] [] []) ] [nm "Node"] [] []);
         (nm "U", NUnion [nm "Item"; nm "Query"] [] []);
         (nm "Gated", NObject [ (nm "x", fd (StNamed (nm "Int")) [] [] []) ] [] [nm "f1"] []);
         (nm "Junk", NObject [ (nm "x", fd (StNamed (nm "Int")) [] [] []) ] [] [] []) ];
     query := nm "Query"; mutation := None; subscription := None;
     additional := [nm "Float"];
     directives := [ (nm "skip", {| dd_args := [ (nm "if", iv (StNonNull (StNamed (nm "Boolean"))) None) ];
                                    dd_locs := [nm "FIELD"; nm "INLINE_FRAGMENT"]; dd_desc := [] |}) ] |}.

Definition F_off : features := [].
Definition F_on : features := [nm "f1"].

(** the hypotheses *)
Example hyps_hold :
  depth_ok S_ex = true /\ gating_coherent S_ex F_off = true /\ gating_coherent S_ex F_on = true /\
  interfaces_declared_once S_ex = true /\ locations_known S_ex = true /\ refs_defined S_ex = true /\
  gating_nested S_ex = true /\ roots_visible S_ex F_off = true /\ builtins_consistent S_ex = true /\
  kinds_ok S_ex = true /\ scalars_accept_all S_ex = true /\ enums_ok_b S_ex = true /\ defaults_denote_b S_ex = true.
Proof. vm_compute. repeat split. Qed.

(** the conclusions, recomputed: the response is the description (with the gated type and field
    hidden, "Junk" — which is not part of the definition — not listed, "Float" listed through
    AdditionalTypes), and its references resolve *)
Example introspect_is_describe :
  match introspect (print_default S_ex) S_ex F_off with
  | IntroOk r => List.length (rs_types r) = 11%nat /\ refs_resolve (normalise r) = true /\
                 map rt_name (rs_types (normalise r)) = map rt_name (rs_types (describe (print_default S_ex) S_ex F_off))
  | _ => False
  end.
Proof. vm_compute. repeat split. Qed.

Example gated_shown_with_feature :
  match introspect (print_default S_ex) S_ex F_on with
  | IntroOk r => List.length (rs_types r) = 12%nat
  | _ => False
  end.
Proof. vm_compute. reflexivity. Qed.

(** a default with every kind of escape round-trips, inside a list with a null *)
Definition v_ex : gval := GList [GString hard_string; GNull; GString []].
Definition t_ex : sty := StNonNull (StList (StNamed (nm "String"))).
(** an input object value: In { a: Int! = 7, s: String } given as {s: "...", a: 3} (Go's map order) *)
Definition v_obj : gval := GList [GMap [ (nm "s", GString hard_string); (nm "a", GInt 3) ]; GNull].
Definition t_obj : sty := StList (StNamed (nm "In")).

Example roundtrip_hypotheses : default_conforms S_ex v_ex t_ex = true /\ printable v_ex.
Proof.
  split; [vm_compute; reflexivity|]. simpl. repeat split; repeat constructor.
Qed.

Example roundtrip_instance :
  exists txt, marshal S_ex v_ex t_ex = MOk txt /\ literal_denotes S_ex t_ex txt v_ex = true.
Proof.
  apply default_roundtrip_values;
    [apply enums_ok_b_spec; vm_compute; reflexivity | apply inputs_ok_b_spec; vm_compute; reflexivity | | ];
    apply roundtrip_hypotheses.
Qed.

Example roundtrip_object_hypotheses : default_conforms S_ex v_obj t_obj = true /\ printable v_obj.
Proof.
  split; [vm_compute; reflexivity|]. simpl. repeat split; repeat constructor.
Qed.

Example roundtrip_object_instance :
  exists txt, marshal S_ex v_obj t_obj = MOk txt /\ literal_denotes S_ex t_obj txt v_obj = true.
Proof.
  apply default_roundtrip_values;
    [apply enums_ok_b_spec; vm_compute; reflexivity | apply inputs_ok_b_spec; vm_compute; reflexivity | | ];
    apply roundtrip_object_hypotheses.
Qed.

(** the rebuilt definition *)
Example rebuild_instance :
  match introspect (print_default S_ex) S_ex F_off with
  | IntroOk r =>
      match rebuild (map_defaults dflt_text r) with
      | Some R => List.length (types R) = 11%nat /\ additional R = [nm "Item"; nm "U"] \/ additional R = [nm "U"; nm "Item"]
      | None => False
      end
  | _ => False
  end.
Proof. vm_compute. left. split; reflexivity. Qed.

(** a pointer graph: Query { a(x: Int = ...): Int, o: [O!] } with feature sets, a directive, and
    the built-in Int both referenced and listed in AdditionalTypes *)
Definition G_ex : g_schema :=
  {| g_self := 1;
     g_types :=
       [ (nm "Int", GScalar 2 true false None []);
         (nm "O", GObject 3 (Some (4, [ (nm "x", {| gf_self := 5; gf_type := GtNamed (nm "Int") 2; gf_args := None;
                                                    gf_features := Some (6, [nm "f1"]); gf_deprecation := []; gf_desc := [] |}) ]))
                            None (Some (7, [nm "f1"])) []);
         (nm "Query", GObject 8
            (Some (9, [ (nm "a", {| gf_self := 10; gf_type := GtNamed (nm "Int") 2;
                                    gf_args := Some (11, [ (nm "x", {| gi_self := 12; gi_type := GtNamed (nm "Int") 2;
                                                                       gi_default := Some (GInt 5); gi_desc := [] |}) ]);
                                    gf_features := None; gf_deprecation := []; gf_desc := [] |});
                        (nm "o", {| gf_self := 13; gf_type := GtList 14 (GtNonNull 15 (GtNamed (nm "O") 3)); gf_args := None;
                                    gf_features := Some (16, [nm "f1"]); gf_deprecation := []; gf_desc := [] |}) ]))
            None None []) ];
     g_query := (nm "Query", 8); g_mutation := None; g_subscription := None;
     g_additional := Some (17, [ (nm "Int", 2) ]);
     g_directives := Some (18, [ (nm "d", {| gd_self := 19; gd_args := None; gd_locs := Some (20, [nm "FIELD"]); gd_desc := [] |}) ]) |}.

Example clone_hypotheses :
  (forall i, In i (ids G_ex) -> i < 21) /\ refs_defined (strip G_ex) = true /\ kinds_ok (strip G_ex) = true /\
  builtin_targets_ok_b G_ex = true.
Proof.
  split; [|vm_compute; repeat split].
  intros i Hi. vm_compute in Hi. repeat (destruct Hi as [<-|Hi]; [reflexivity|]). destruct Hi.
Qed.

Example clone_instance :
  match clone G_ex 21 with
  | Cloned G' _ =>
      strip G' = restrict [nm "Query"; nm "Int"; nm "O"] (strip G_ex) /\
      filter (fun i => existsb (N.eqb i) (ids G_ex)) (ids G') = [2; 2; 2; 2; 2]   (* only the built-in Int *)
  | _ => False
  end.
Proof. vm_compute. split; reflexivity. Qed.

(** the comparison of default texts in the check (Intro/IntrospectCheck.v [default_agrees]) is
    modulo object field order also when a string has a character above U+FFFF (U+10000 = F0 90
    80 80), and still tells two such characters (and a private-use look-alike) apart *)
From ApiFu Require Intro.IntrospectCheck.
Definition astral_text (fields_swapped : bool) (last : N) : bytes :=
  let a := (nm "a: " ++ [34; 240; 144; 128; last; 34])%list in
  let b := nm "b: 1" in
  (if fields_swapped then nm "{" ++ b ++ nm ", " ++ a ++ nm "}" else nm "{" ++ a ++ nm ", " ++ b ++ nm "}")%list.
Example astral_texts_compared_modulo_field_order :
  IntrospectCheck.default_agrees (Some (astral_text false 128)) (DText (astral_text true 128)) = true /\
  IntrospectCheck.default_agrees (Some (astral_text false 128)) (DText (astral_text true 129)) = false /\
  IntrospectCheck.default_agrees (Some (nm "{a: " ++ [34; 240; 144; 128; 128; 34; 125])%list)
                                 (DText (nm "{a: " ++ [34] ++ IntrospectCheck.pu 0 ++ IntrospectCheck.pu 48 ++ IntrospectCheck.pu 32 ++ IntrospectCheck.pu 32 ++ [34; 125])%list) = false.
Proof. vm_compute. repeat split. Qed.

(** the two additional hypotheses of [C10_rebuild_same_lookups] hold of the example definition:
    unique type names, and C13's transcription of schema.New's acceptance checks on its registry *)
From ApiFu Require Intro.ViewBridge.
Example lookups_hypotheses :
  nodup_b (map fst (types S_ex)) = true /\
  ViewBridge.FM.schema_ok (ViewBridge.to_feat (ViewBridge.registered S_ex)) = true.
Proof. vm_compute. split; reflexivity. Qed.

(** Float defaults that are not integral: 1.5 = 6755399441055744 * 2^-52 printed "1.5", and
    1e+21 = 7629394531250000 * 2^17 printed "1e+21" (exponent form): both are inside [printable]
    (second disjunct) and round-trip *)
Definition v_f1 : gval := GFloat 6755399441055744 (-52) (nm "1.5").
Definition v_f2 : gval := GFloat 7629394531250000 17 (nm "1e+21").
Example float_hypotheses :
  default_conforms S_ex (GList [v_f1; v_f2]) (StList (StNamed (nm "Float"))) = true /\
  printable (GList [v_f1; v_f2]).
Proof.
  split; [vm_compute; reflexivity|]. simpl. split; [|split; [|exact I]].
  - right. exists false, (nm "1"), (nm "5"), None. split; [|split; [reflexivity | vm_compute; reflexivity]].
    unfold go_float_ok, all_digits. repeat split; repeat constructor.
  - right. exists false, (nm "1"), [], (Some (Some false, nm "21")). split; [|split; [reflexivity | vm_compute; reflexivity]].
    unfold go_float_ok, all_digits. repeat split; repeat constructor. discriminate.
Qed.
Example float_instance :
  exists txt, marshal S_ex (GList [v_f1; v_f2]) (StList (StNamed (nm "Float"))) = MOk txt /\
              literal_denotes S_ex (StList (StNamed (nm "Float"))) txt (GList [v_f1; v_f2]) = true.
Proof.
  apply default_roundtrip_values;
    [apply enums_ok_b_spec; vm_compute; reflexivity | apply inputs_ok_b_spec; vm_compute; reflexivity | | ];
    apply float_hypotheses.
Qed.
