(** non-vacuity for C08: concrete runs meeting the hypotheses of the theorems of Properties/C08.v *)
From Coq Require Import List NArith ZArith Bool.
From ApiFu Require Import Ws.WsTypes Ws.WsSpec Ws.WsModel Ws.WsProofs Ws.WsTheorems Ws.WsActors Ws.WsActorsProofs.
Import ListNotations.
Open Scope list_scope.

(** a conversation: init, a query under id 1, a subscription under id 2, two events, a mutation that
    reuses the id of the running subscription, stop, a second subscription under the same id whose
    source ends by itself, a third one, then the client drops *)
Definition conv (p : proto) : list label :=
  let st := match p with PWs => TStart | PTws => TSubscribe end in
  let sp := match p with PWs => TStop | PTws => TComplete end in
  [ LFrame (Msg st 1 (PayDoc DQuery));            (* 0: before init: ignored *)
    LFrame (Msg TInit 0 PayNone);                 (* 1 *)
    LFrame (Msg st 1 (PayDoc DQuery));            (* 2 *)
    LFrame (Msg st 2 (PayDoc DSub));              (* 3 *)
    LEmit 3; LEmit 3;                             (* 4, 5 *)
    LFrame (Msg st 2 (PayDoc DMutation));         (* 6 *)
    LFrame (Msg TPing 0 PayNone);                 (* 7 *)
    LFrame (Msg sp 2 PayNone);                    (* 8 *)
    LFrame (Msg st 2 (PayDoc DSub));              (* 9 *)
    LSrcEnd 9;                                    (* 10 *)
    LFrame (Msg st 2 (PayDoc DSub));              (* 11: id reused after the source ended *)
    LFrame (Msg st 2 (PayDoc DSub));              (* 12: duplicate of a live subscription: ignored *)
    LEnd WsTypes.EDrop ].

Example conv_ws_facts :
  In (VStart 2 1 DQuery) (tr PWs (conv PWs)) /\ In (VStart 6 2 DMutation) (tr PWs (conv PWs)) /\
  In (VSubscribe 3) (tr PWs (conv PWs)) /\ In (VSubscribe 9) (tr PWs (conv PWs)) /\ In (VSubscribe 11) (tr PWs (conv PWs)) /\
  owned 3 (tr PWs (conv PWs)) = [SData 2 (CEv 3 1); SData 2 (CEv 3 2); SComplete 2] /\
  owned 6 (tr PWs (conv PWs)) = [SData 2 (CRes 6); SComplete 2] /\
  count (is_stop 3) (tr PWs (conv PWs)) = 1 /\ count (is_stop 9) (tr PWs (conv PWs)) = 1 /\
  count (is_stop 11) (tr PWs (conv PWs)) = 1 /\
  closed (fin PWs (conv PWs)) = true /\ WsModel.registered (fin PWs (conv PWs)) = false /\
  owned 0 (tr PWs (conv PWs)) = [] /\ owned 12 (tr PWs (conv PWs)) = [] /\
  spec_verdict PWs (tr PWs (conv PWs)) = None.
Proof. vm_compute. intuition. Qed.

Example conv_tws_facts :
  In (VSend SPong None) (tr PTws (conv PTws)) /\ In (VSubscribe 3) (tr PTws (conv PTws)) /\
  count (is_stop 3) (tr PTws (conv PTws)) = 1 /\ spec_verdict PTws (tr PTws (conv PTws)) = None.
Proof. vm_compute. intuition. Qed.

(** hypotheses of the ack-first and no-exec-before-init theorems: a split of the frames / the trace *)
Example ack_first_instance :
  exists pre f post, frames (tr PTws [LFrame (Msg TPing 0 PayNone); LFrame (Msg TInit 0 PayNone)]) = pre ++ f :: post /\
                     ~ In SAck pre /\ f = SPong.
Proof. exists [], SPong, [SAck]. vm_compute. intuition. Qed.

Example op_event_instance :
  exists pre e post, tr PWs (conv PWs) = pre ++ e :: post /\ is_op_event e = true.
Proof.
  exists (firstn 6 (tr PWs (conv PWs))), (VStart 2 1 DQuery), (skipn 7 (tr PWs (conv PWs))). vm_compute. auto.
Qed.

(** a connection on which every init is refused: the hypothesis of [ws_nothing_without_init] *)
Example refused_instance :
  let ls := [LFrame (Msg TInit 0 PayReject); LFrame (Msg TStart 1 (PayDoc DQuery)); LFrame (Msg TStop 1 PayNone)] in
  (forall id pl, In (LFrame (Msg TInit id pl)) ls -> init_ok pl = false) /\ tr PWs ls <> [].
Proof.
  simpl. split; [|discriminate]. intros id pl [H|[H|[H|[]]]]; try discriminate. now injection H as _ <-.
Qed.

(** stage 2: a reachable configuration on its way out, with a running subscription and a busy read
    loop, and a complete schedule from it to the configuration where everybody has terminated *)
Definition way_out : list alabel := [EFrame [RSpawn; RSend; RSend]; IRSpawn; IRSendOk; EEmit 0; EDrop].
Definition rest : list alabel :=
  [IRSendOk; IRReturn; IReadFail; IWTakeOk; IGDataOk 0; IWCloseMsg; IWDrainOk; IWDrainOk; IWDrainDone; IWWaitDone;
   IWFinish; IGCancel 0; IGCompleteFail 0].

Example way_out_reachable :
  exists c, arun 2 true init_cfg way_out = Some c /\ ending c = true /\ all_gone c = false /\
            exists c', arun 2 true c rest = Some c' /\ Forall (fun l => internal l = true) rest /\
                       all_gone c' = true /\ finished c' = true /\ WsActors.registered c' = false /\
                       map g_stops (gs c') = [1] /\ List.length rest <= mu c.
Proof.
  eexists. split; [vm_compute; reflexivity|]. split; [reflexivity|]. split; [reflexivity|].
  eexists. split; [vm_compute; reflexivity|]. split; [repeat constructor|]. vm_compute. intuition.
Qed.
