(** non-vacuity for C08: concrete runs meeting the hypotheses of the theorems of Properties/C08.v *)
From Coq Require Import List NArith ZArith Bool String.
From ApiFu Require Import Ws.WsTypes Ws.WsSpec Ws.WsModel Ws.WsProofs Ws.WsTheorems Ws.WsActors Ws.WsActorsProofs Ws.WsSys Ws.WsSysProofs.
Import ListNotations.
Open Scope list_scope.

(** a conversation: init, a query under id 1, a subscription under id 2, two events, a mutation that
    reuses the id of the running subscription, stop, a second subscription under the same id whose
    source ends by itself, a third one, then the client drops *)
Definition conv (p : proto) : list label :=
  let st := match p with PWs => TStart | PTws => TSubscribe end in
  let sp := match p with PWs => TStop | PTws => TComplete end in
  [ LFrame (Msg st 1 (PayDoc DQuery));            (* 0: before init: ignored *)
    LFrame (Msg TInit 0 PayNone);                 (* 1 *)
    LFrame (Msg st 1 (PayDoc DQuery));            (* 2 *)
    LFrame (Msg st 2 (PayDoc DSub));              (* 3 *)
    LEmit 3; LEmit 3;                             (* 4, 5 *)
    LFrame (Msg st 2 (PayDoc DMutation));         (* 6 *)
    LFrame (Msg TPing 0 PayNone);                 (* 7 *)
    LFrame (Msg sp 2 PayNone);                    (* 8 *)
    LFrame (Msg st 2 (PayDoc DSub));              (* 9 *)
    LSrcEnd 9;                                    (* 10 *)
    LFrame (Msg st 2 (PayDoc DSub));              (* 11: id reused after the source ended *)
    LFrame (Msg st 2 (PayDoc DSub));              (* 12: duplicate of a live subscription: ignored *)
    LEnd WsTypes.EDrop ].

Example conv_ws_facts :
  In (VStart 2 1 DQuery) (tr PWs (conv PWs)) /\ In (VStart 6 2 DMutation) (tr PWs (conv PWs)) /\
  In (VSubscribe 3) (tr PWs (conv PWs)) /\ In (VSubscribe 9) (tr PWs (conv PWs)) /\ In (VSubscribe 11) (tr PWs (conv PWs)) /\
  owned 3 (tr PWs (conv PWs)) = [SData 2 (CEv 3 1); SData 2 (CEv 3 2); SComplete 2] /\
  owned 6 (tr PWs (conv PWs)) = [SData 2 (CRes 6); SComplete 2] /\
  count (is_stop 3) (tr PWs (conv PWs)) = 1 /\ count (is_stop 9) (tr PWs (conv PWs)) = 1 /\
  count (is_stop 11) (tr PWs (conv PWs)) = 1 /\
  closed (fin PWs (conv PWs)) = true /\ WsModel.registered (fin PWs (conv PWs)) = false /\
  owned 0 (tr PWs (conv PWs)) = [] /\ owned 12 (tr PWs (conv PWs)) = [] /\
  spec_verdict PWs (tr PWs (conv PWs)) = None.
Proof. vm_compute. intuition. Qed.

Example conv_tws_facts :
  In (VSend SPong None) (tr PTws (conv PTws)) /\ In (VSubscribe 3) (tr PTws (conv PTws)) /\
  count (is_stop 3) (tr PTws (conv PTws)) = 1 /\ spec_verdict PTws (tr PTws (conv PTws)) = None.
Proof. vm_compute. intuition. Qed.

(** hypotheses of the ack-first and no-exec-before-init theorems: a split of the frames / the trace *)
Example ack_first_instance :
  exists pre f post, frames (tr PTws [LFrame (Msg TPing 0 PayNone); LFrame (Msg TInit 0 PayNone)]) = pre ++ f :: post /\
                     ~ In SAck pre /\ f = SPong.
Proof. exists [], SPong, [SAck]. vm_compute. intuition. Qed.

Example op_event_instance :
  exists pre e post, tr PWs (conv PWs) = pre ++ e :: post /\ is_op_event e = true.
Proof.
  exists (firstn 6 (tr PWs (conv PWs))), (VStart 2 1 DQuery), (skipn 7 (tr PWs (conv PWs))). vm_compute. auto.
Qed.

(** keep-alive ticks anywhere in a run: before the init (graphql-ws: silent; graphql-transport-ws: a
    pong), after it (ka / pong), and the run still meets the Spec; [ws_ack_first] has such runs in
    its scope *)
Example tick_instance :
  let ls p := [LTick; LFrame (Msg TInit 0 PayNone); LTick; LFrame (Msg (match p with PWs => TStart | PTws => TSubscribe end) 1 (PayDoc DSub)); LTick; LEmit 3] in
  frames (tr PWs (ls PWs)) = [SAck; SKa; SKa; SKa; SData 1 (CEv 3 1)] /\
  frames (tr PTws (ls PTws)) = [SPong; SAck; SPong; SPong; SData 1 (CEv 3 1)] /\
  spec_verdict PWs (tr PWs (ls PWs)) = None /\ spec_verdict PTws (tr PTws (ls PTws)) = None /\
  closed (fin PWs (ls PWs)) = false.
Proof. vm_compute. intuition. Qed.

(** a connection on which every init is refused: the hypothesis of [ws_nothing_without_init] *)
Example refused_instance :
  let ls := [LFrame (Msg TInit 0 PayReject); LFrame (Msg TStart 1 (PayDoc DQuery)); LFrame (Msg TStop 1 PayNone)] in
  (forall id pl, In (LFrame (Msg TInit id pl)) ls -> init_ok pl = false) /\ tr PWs ls <> [].
Proof.
  simpl. split; [|discriminate]. intros id pl [H|[H|[H|[]]]]; try discriminate. now injection H as _ <-.
Qed.

(** stage 2: a reachable configuration on its way out, with a running subscription and a busy read
    loop, and a complete schedule from it to the configuration where everybody has terminated *)
Definition way_out : list alabel := [EFrame [RSpawn; RSend; RSend]; IRSpawn; IRSendOk; EEmit 0; EDrop].
Definition rest : list alabel :=
  [IRSendOk; IRReturn; IReadFail; IWTakeOk; IGDataOk 0; IWCloseMsg; IWDrainOk; IWDrainOk; IWDrainDone; IWWaitDone;
   IWFinish; IGCancel 0; IGCompleteFail 0].

Example way_out_reachable :
  exists c, arun 2 true init_cfg way_out = Some c /\ settling c = true /\ all_gone c = false /\
            exists c', arun 2 true c rest = Some c' /\ Forall (fun l => internal l = true) rest /\
                       all_gone c' = true /\ finished c' = true /\ WsActors.registered c' = false /\
                       map g_stops (gs c') = [1] /\ List.length rest <= mu c.
Proof.
  eexists. split; [vm_compute; reflexivity|]. split; [reflexivity|]. split; [reflexivity|].
  eexists. split; [vm_compute; reflexivity|]. split; [repeat constructor|]. vm_compute. intuition.
Qed.

(** stage 3: a run of the joined system — init, a subscription, an event, a query whose two frames
    are sent around a second event, stop (the goroutine sends its second data frame and its complete
    only afterwards), the client drops, everybody terminates — with the interleaved bookkeeping and
    the sequential trace side by side *)
Definition joined_run : list ylabel :=
  [YFrame (Msg TInit 0 PayNone); YInt IRSendOk; YInt IRSendOk; YInt IRReturn;
   YFrame (Msg TStart 1 (PayDoc DSub)); YInt IRReturn; YEmit 0; YInt (IGDataOk 0);
   YFrame (Msg TStart 2 (PayDoc DQuery)); YInt IRSendOk; YEmit 0; YInt IRSendOk; YInt IRReturn;
   YFrame (Msg TStop 1 PayNone); YInt IRReturn; YInt (IGDataOk 0); YInt (IGCancel 0); YDrop].
Definition joined_rest : list alabel :=
  [IGCompleteOk 0; IReadFail; IWTakeOk; IWCloseMsg; IWDrainOk; IWDrainOk; IWDrainOk; IWDrainOk; IWDrainOk; IWDrainOk; IWDrainDone;
   IWWaitDone; IWFinish].

Example joined_instance :
  exists y, yrun 100 PWs init_sys joined_run = Some y /\ ending (y_c y) = true /\ all_gone (y_c y) = false /\
    y_hist y = [LFrame (Msg TInit 0 PayNone); LFrame (Msg TStart 1 (PayDoc DSub)); LEmit 1;
                LFrame (Msg TStart 2 (PayDoc DQuery)); LEmit 1; LFrame (Msg TStop 1 PayNone)] /\
    y_gcalls y = [[SData 1 (CEv 1 1); SData 1 (CEv 1 2)]] /\
    owned 1 (tr PWs (y_hist y)) = [SData 1 (CEv 1 1); SData 1 (CEv 1 2); SComplete 1] /\
    exists y', yrun 100 PWs y (map YInt joined_rest) = Some y' /\ Forall (fun a => internal a = true) joined_rest /\
      all_gone (y_c y') = true /\ finished (y_c y') = true /\ closed (y_s y') = true /\
      y_gcalls y' = [[SData 1 (CEv 1 1); SData 1 (CEv 1 2); SComplete 1]] /\
      osends_to None (y_rcalls y') = [SAck; SKa] /\ osends_to (Some 3) (y_rcalls y') = [SData 2 (CRes 3); SComplete 2].
Proof.
  eexists. split; [vm_compute; reflexivity|]. split; [reflexivity|]. split; [reflexivity|]. split; [reflexivity|].
  split; [reflexivity|]. split; [vm_compute; reflexivity|].
  eexists. split; [vm_compute; reflexivity|]. split; [repeat constructor|]. vm_compute. intuition.
Qed.

(** the oracle for the going-down part of a conversation: a query dispatched after terminate, executed
    with its context cancelled (errors only) and whose complete was lost, is not a violation there,
    though it would be one on a connection that stays open; an operation executed behind an init the
    application refused is a violation in both *)
Example going_down_oracle :
  let cut := [VRecv (Msg TInit 0 PayNone); VInit true; VSend SAck None; VSend SKa None;
              VRecv (Msg TTerminate 0 PayNone); VBeginClose 1000;
              VRecv (Msg TStart 1 (PayDoc DQuery)); VStart 2 1 DQuery; VExec 2; VSend (SData 1 CErr) (Some 2)] in
  let behind_refused := [VRecv (Msg TInit 0 PayReject); VInit false; VSend SConnError None;
                         VRecv (Msg TStart 1 (PayDoc DQuery)); VStart 1 1 DQuery; VExec 1] in
  spec_verdict PWs cut = Some "operation-lifecycle"%string /\ spec_verdict_from 5 PWs cut = None /\
  spec_verdict_from 3 PWs behind_refused = Some "operation-before-init"%string.
Proof. vm_compute. auto. Qed.

(** a handler call that returns only upon cancellation, the application closes the connection meanwhile:
    closing has begun, the cancellation arrives, everybody terminates *)
Example cancel_instance :
  exists c, arun 2 true init_cfg [EFrame [RWaitCancel; RSend; RSend]; EAppClose] = Some c /\
            reachable 2 true c /\ closing c = true /\ waits c = true /\
            exists c', arun 2 true c [IRCancelled; IRSendOk; IRSendOk; IRReturn; IWCloseMsg; IWDrainOk; IWDrainOk; IWDrainDone;
                                      IWWaitDone; IReadFail; IWFinish; IAFinish] = Some c' /\ all_gone c' = true /\ finished c' = true.
Proof.
  eexists. split; [vm_compute; reflexivity|]. split; [exists [EFrame [RWaitCancel; RSend; RSend]; EAppClose]; vm_compute; reflexivity|]. split; [reflexivity|]. split; [reflexivity|].
  eexists. split; [vm_compute; reflexivity|]. split; reflexivity.
Qed.

(** a query dispatched after terminate: executed, answered with errors only; the same query before: its result *)
Example cancelled_instance :
  let ls := [LFrame (Msg TInit 0 PayNone); LFrame (Msg TStart 1 (PayDoc DQuery)); LFrame (Msg TTerminate 0 PayNone);
             LFrame (Msg TStart 2 (PayDoc DQuery))] in
  owned 1 (tr PWs ls) = [SData 1 (CRes 1); SComplete 1] /\ owned 3 (tr PWs ls) = [SData 2 CErr; SComplete 2] /\
  count (is_exec 3) (tr PWs ls) = 1 /\ result_class (tr PWs ls) DQuery 3 = CErr /\ result_class (tr PWs ls) DQuery 1 = CRes 1 /\
  spec_verdict PWs (tr PWs ls) = None.
Proof. vm_compute. intuition. Qed.
