(** non-vacuity for C05: concrete, non-trivial instances meeting the hypotheses of the main theorems *)
From Coq Require Import List NArith ZArith Bool String Ascii.
From ApiFu Require Import Base.Sexp Val.Values Val.CoerceModel Val.CoerceSpec Val.CoerceProofs Val.FloatExact Val.CoerceReasons Val.CoerceRefine Val.CoerceRoutes Val.CoerceSameValue Val.CoerceTotal Val.CoerceComplete Val.BridgeC04 Val.BridgeC04Proofs Val.Rfc3339.
Import ListNotations.
Open Scope string_scope.

Definition nm (x : string) : name := map N_of_ascii (list_ascii_of_string x).

(** input Pt { x: Int!, y: Int = 7, z: [Int!] }   enum Color { RED GREEN }
    input Box (hook: wraps) { c: Color = RED-payload, p: Pt } *)
Definition Eex : env :=
  [ (nm "Int", TScalar KInt); (nm "Float", TScalar KFloat);
    (nm "Color", TEnum [(nm "GREEN", GInt 7); (nm "RED", GString (nm "r"))]);
    (nm "Pt", TInput [ (nm "x", {| in_type := StNonNull (StNamed (nm "Int")); in_default := None |});
                       (nm "y", {| in_type := StNamed (nm "Int"); in_default := Some (GInt 7) |});
                       (nm "z", {| in_type := StList (StNonNull (StNamed (nm "Int"))); in_default := None |}) ] HNone);
    (nm "Box", TInput [ (nm "c", {| in_type := StNamed (nm "Color"); in_default := Some (GString (nm "r")) |});
                        (nm "p", {| in_type := StNamed (nm "Pt"); in_default := None |}) ] (HWrap (nm "Box"))) ].
Definition dtex : bytes -> option bytes := fun _ => None.

(** query($v: Int!, $c: Color) { f(b: {p: {x: $v, z: 3}, c: $c}, n: [1, $v]) }
    with b: Box!, n: [Int]   and variables {"v": 5, "c": "GREEN"} *)
Definition argdefs_ex : list (name * in_def) :=
  [ (nm "b", {| in_type := StNonNull (StNamed (nm "Box")); in_default := None |});
    (nm "n", {| in_type := StList (StNamed (nm "Int")); in_default := None |}) ].
Definition defs_ex : list vardef :=
  [ {| vd_name := nm "v"; vd_type := StNonNull (StNamed (nm "Int")); vd_default := None |};
    {| vd_name := nm "c"; vd_type := StNamed (nm "Color"); vd_default := None |} ].
Definition args_ex : list (name * lit) :=
  [ (nm "b", LObject [ (nm "p", LObject [(nm "x", LVar (nm "v")); (nm "z", LInt 3)]); (nm "c", LVar (nm "c")) ]);
    (nm "n", LList [LInt 1; LVar (nm "v")]) ].
Definition raw_ex : list (name * jval) := [ (nm "v", JNum (F64 5 0)); (nm "c", JStr (nm "GREEN")) ].

Definition expected_ex : list (name * gval) :=
  [ (nm "b", GTagged (nm "Box") (GMap [ (nm "c", GInt 7);
                                        (nm "p", GMap [(nm "x", GInt 5); (nm "y", GInt 7); (nm "z", GList [GInt 3])]) ]));
    (nm "n", GList [GInt 1; GInt 5]) ].

Example hypotheses_hold :
  schema_ok Eex argdefs_ex /\ request_ok defs_ex raw_ex /\
  static_ok all_fixed Eex dtex true argdefs_ex defs_ex args_ex = true /\
  run_request all_fixed Eex dtex true argdefs_ex defs_ex args_ex raw_ex = OCalled expected_ex /\
  args_conform_b Eex argdefs_ex expected_ex = true /\
  ref_request Eex dtex argdefs_ex defs_ex args_ex raw_ex = Some expected_ex.
Proof.
  split; [|split; [|split; [|split; [|split]]]].
  - split; [vm_compute; reflexivity|split; [vm_compute; reflexivity|]].
    intros ad [<-|[<-|[]]]; vm_compute; reflexivity.
  - split.
    + intros def dflt [<-|[<-|[]]] H; inversion H.
    + intros p [<-|[<-|[]]]; vm_compute; reflexivity.
  - vm_compute; reflexivity.
  - vm_compute; reflexivity.
  - vm_compute; reflexivity.
  - vm_compute; reflexivity.
Qed.

(** reject_no_call is not vacuous: the same request with {"v": null} has no reference coercion,
    and the model answers with an error *)
Example rejected :
  ref_request Eex dtex argdefs_ex defs_ex args_ex [ (nm "v", JNull); (nm "c", JStr (nm "GREEN")) ] = None /\
  run_request all_fixed Eex dtex true argdefs_ex defs_ex args_ex [ (nm "v", JNull); (nm "c", JStr (nm "GREEN")) ] = ORuntimeError.
Proof. split; vm_compute; reflexivity. Qed.

(** route independence: the Box written as a literal and sent as a JSON variable *)
Definition box_lit : lit :=
  LObject [ (nm "p", LObject [(nm "x", LInt 5); (nm "z", LInt 3)]); (nm "c", LEnum (nm "GREEN")) ].
Definition box_json : jval :=
  JObj [ (nm "p", JObj [(nm "x", JNum (F64 5 0)); (nm "z", JNum (F64 3 0))]); (nm "c", JStr (nm "GREEN")) ].

Example routes_meet :
  same_client_value box_lit box_json /\ jnum_wf box_json = true /\ jval_ok box_json = true /\
  exists g, coerce_literal all_fixed Eex dtex [] box_lit (StNonNull (StNamed (nm "Box"))) true = Ok g /\
            coerce_var_value all_fixed Eex dtex box_json (StNamed (nm "Box")) true = Ok g /\
            g <> GNil.
Proof.
  split; [|split; [|split]].
  - simpl. repeat split; vm_compute; reflexivity.
  - vm_compute; reflexivity.
  - vm_compute; reflexivity.
  - eexists. split; [vm_compute; reflexivity|split; [vm_compute; reflexivity|discriminate]].
Qed.

(** a nested variable: n: [1, $v] versus n: [1, 5] *)
Example nested_meets :
  let vv := [(nm "v", GInt 5)] in
  let L := LList [LInt 1; LVar (nm "v")] in
  find_def (nm "v") defs_ex = Some {| vd_name := nm "v"; vd_type := StNonNull (StNamed (nm "Int")); vd_default := None |} /\
  coerce_var_value all_fixed Eex dtex (JNum (F64 5 0)) (StNonNull (StNamed (nm "Int"))) true = Ok (GInt 5) /\
  same_client_value (LInt 5) (JNum (F64 5 0)) /\ jnum_wf (JNum (F64 5 0)) = true /\
  usage_ok all_fixed Eex defs_ex L (Some (StList (StNamed (nm "Int")))) false = true /\
  subst_var (nm "v") (LInt 5) L = LList [LInt 1; LInt 5] /\
  coerce_literal all_fixed Eex dtex vv L (StList (StNamed (nm "Int"))) true = Ok (GList [GInt 1; GInt 5]) /\
  coerce_literal all_fixed Eex dtex vv (subst_var (nm "v") (LInt 5) L) (StList (StNamed (nm "Int"))) true = Ok (GList [GInt 1; GInt 5]).
Proof. cbv zeta. repeat split; vm_compute; reflexivity. Qed.

(** the float conversions the model relies on, on boundary values *)
Example rounding :
  f64_of_Q 9007199254740993 1 = Some (F64 1 53) /\             (* 2^53+1 rounds to even *)
  f64_of_decimal 1 (-1) = Some (F64 3602879701896397 (-55)) /\ (* 0.1 *)
  f64_of_decimal 1 400 = None /\                                (* overflow: ErrRange *)
  f64_of_decimal 5 (-324) = Some (F64 1 (-1074)).              (* the smallest subnormal *)
Proof. repeat split; vm_compute; reflexivity. Qed.

(** request_no_panic / request_exact are not vacuous: the example schema is closed (and ok), so is
    every argument type, and the raw values are well-formed; the closedness premise is needed: one
    undefined type name and the model panics (Go: nil pointer / "unsupported ... type") *)
Example closed_hypotheses_hold :
  env_ok Eex = true /\ env_closed Eex = true /\
  (forall ad, In ad argdefs_ex -> sty_closed Eex (in_type (snd ad)) = true) /\
  (forall p, In p raw_ex -> jval_ok (snd p) = true) /\
  coerce_var_value all_fixed Eex dtex (JNum (F64 5 0)) (StNamed (nm "Nowhere")) true = Panic.
Proof.
  split; [vm_compute; reflexivity|split; [vm_compute; reflexivity|split; [|split]]].
  - intros ad [<-|[<-|[]]]; vm_compute; reflexivity.
  - intros p [<-|[<-|[]]]; vm_compute; reflexivity.
  - vm_compute; reflexivity.
Qed.

(** static_dynamic_agree is not vacuous and its four reasons are each needed.  The served example
    has no run-time reason; then one request per reason, each accepted by validation, each a
    run-time error, each with exactly that reason. *)
Example no_runtime_reason : runtime_reason Eex dtex defs_ex args_ex raw_ex = false /\
  runtime_reason_precise Eex dtex argdefs_ex defs_ex args_ex raw_ex = false.
Proof. split; vm_compute; reflexivity. Qed.

Definition Er : env :=
  [ (nm "Int", TScalar KInt);
    (nm "R", TInput [ (nm "a", {| in_type := StNamed (nm "Int"); in_default := None |}) ] HFail) ].
Definition one_arg (t : sty) : list (name * in_def) := [ (nm "x", {| in_type := t; in_default := None |}) ].
Definition one_var (t : sty) (d : option lit) : list vardef := [ {| vd_name := nm "s"; vd_type := t; vd_default := d |} ].
Definition Eint : env := [ (nm "Int", TScalar KInt) ].

(** query($s: Int = 1) { f(x: $s) }  with x: Int!  and {"s": null} *)
Example reason_null_variable :
  let argdefs := one_arg (StNonNull (StNamed (nm "Int"))) in
  let defs := one_var (StNamed (nm "Int")) (Some (LInt 1)) in
  let args := [ (nm "x", LVar (nm "s")) ] in
  let raw := [ (nm "s", JNull) ] in
  static_ok all_fixed Eint dtex true argdefs defs args = true /\
  run_request all_fixed Eint dtex true argdefs defs args raw = ORuntimeError /\
  coerce_variable_values all_fixed Eint dtex defs raw = Ok [ (nm "s", GNil) ] /\
  null_variable [ (nm "s", GNil) ] args = true /\ absent_item_variable [ (nm "s", GNil) ] args = false /\
  bad_variable_value all_fixed Eint dtex defs raw = false /\ refusing_hook Eint = false.
Proof. cbv zeta. repeat split; vm_compute; reflexivity. Qed.

(** query($s: Int) { f(x: [$s]) }  with x: [Int]  and no variable values *)
Example reason_absent_item_variable :
  let argdefs := one_arg (StList (StNamed (nm "Int"))) in
  let defs := one_var (StNamed (nm "Int")) None in
  let args := [ (nm "x", LList [LVar (nm "s")]) ] in
  static_ok all_fixed Eint dtex true argdefs defs args = true /\
  run_request all_fixed Eint dtex true argdefs defs args [] = ORuntimeError /\
  coerce_variable_values all_fixed Eint dtex defs [] = Ok [] /\
  null_variable [] args = false /\ absent_item_variable [] args = true /\
  bad_variable_value all_fixed Eint dtex defs [] = false /\ refusing_hook Eint = false.
Proof. cbv zeta. repeat split; vm_compute; reflexivity. Qed.

(** { f(x: {a: 1}) }  with x: R, whose InputCoercion hook refuses *)
Example reason_refusing_hook :
  let argdefs := one_arg (StNamed (nm "R")) in
  let args := [ (nm "x", LObject [ (nm "a", LInt 1) ]) ] in
  static_ok all_fixed Er dtex true argdefs [] args = true /\
  run_request all_fixed Er dtex true argdefs [] args [] = ORuntimeError /\
  null_variable [] args = false /\ absent_item_variable [] args = false /\
  bad_variable_value all_fixed Er dtex [] [] = false /\ refusing_hook Er = true.
Proof. cbv zeta. repeat split; vm_compute; reflexivity. Qed.

(** query($s: Int!) { f(x: $s) }  with {"s": "seven"} *)
Example reason_bad_variable_value :
  let argdefs := one_arg (StNamed (nm "Int")) in
  let defs := one_var (StNonNull (StNamed (nm "Int"))) None in
  let args := [ (nm "x", LVar (nm "s")) ] in
  let raw := [ (nm "s", JStr (nm "seven")) ] in
  static_ok all_fixed Eint dtex true argdefs defs args = true /\
  run_request all_fixed Eint dtex true argdefs defs args raw = ORuntimeError /\
  bad_variable_value all_fixed Eint dtex defs raw = true /\ refusing_hook Eint = false.
Proof. cbv zeta. repeat split; vm_compute; reflexivity. Qed.

(** the scope of route independence for integers: 2^53+1 is held by no binary64, so it has no JSON
    spelling ([same_client_value] is unsatisfiable for it); a client that writes the same digits in
    the variables document is read as 2^53 by any JSON decoder into float64, and an ID then differs
    between the two routes (Float does not: ParseFloat rounds the literal the same way) *)
Example beyond_2_53 :
  let z := 9007199254740993%Z in
  let d := F64 1 53 in
  f64_of_Q z 1 = Some d /\ f64_to_Z d = Some 9007199254740992%Z /\
  coerce_literal all_fixed Eint dtex [] (LInt z) (StNamed (nm "Int")) true = Err /\
  scalar_literal dtex KID (LInt z) = Some (GInt z) /\
  scalar_variable all_fixed dtex KID (JNum d) = Some (GInt 9007199254740992) /\
  scalar_literal dtex KFloat (LInt z) = Some (GFloat d) /\
  scalar_variable all_fixed dtex KFloat (JNum d) = Some (GFloat d).
Proof. cbv zeta. repeat split; vm_compute; reflexivity. Qed.

(** the precise hook reason is strictly sharper: with a refusing hook somewhere in the schema (R) but
    an argument of type Int, the coarse reason holds although nothing can fail *)
Example precise_is_sharper :
  let argdefs := [ (nm "x", {| in_type := StNamed (nm "Int"); in_default := None |}) ] in
  let args := [ (nm "x", LInt 1) ] in
  runtime_reason (Er) dtex [] args [] = true /\
  runtime_reason_precise Er dtex argdefs [] args [] = false /\
  hook_reached_args Er [ (nm "x", {| in_type := StNamed (nm "R"); in_default := None |}) ] [ (nm "x", LObject [ (nm "a", LInt 1) ]) ] = true.
Proof. cbv zeta. repeat split; vm_compute; reflexivity. Qed.

(** the C04 bridge computes: C04's validateCoercion on the translation of C05's literals, numbers
    read back from their decimal text; the example environment of the bridge theorem's corollary *)
Example bridge_computes :
  dec_of_Z (-2147483649) = map N_of_ascii (list_ascii_of_string "-2147483649") /\
  c04_accepts Eint (LInt 2147483647) (StNamed (nm "Int")) true = true /\
  c04_accepts Eint (LInt 2147483648) (StNamed (nm "Int")) true = false /\
  c04_accepts Eint (LList [LInt 1; LNull]) (StList (StNonNull (StNamed (nm "Int")))) true = false /\
  c04_accepts Er (LObject [ (nm "a", LInt 1) ]) (StNamed (nm "R")) true = true /\
  c04_accepts Er (LObject [ (nm "a", LInt 1); (nm "a", LInt 2) ]) (StNamed (nm "R")) true = false /\
  non_numeric [ (nm "String", TScalar KString); (nm "Color", TEnum [ (nm "RED", GInt 1) ]) ] = true /\
  obj_free (LList [LEnum (nm "RED"); LString (nm "x")]) = true.
Proof. repeat split; vm_compute; reflexivity. Qed.

(** the document-level bridge computes: C04's ValidateDocument model on the translated request;
    query Q($s: Int = 1) { f(x: $s) } with x: Int! is accepted, with $s: Int (no default) it is not *)
Example document_bridge_computes :
  let argdefs := one_arg (StNonNull (StNamed (nm "Int"))) in
  let args := [ (nm "x", LVar (nm "s")) ] in
  c04_document_accepts Eint true None argdefs (one_var (StNamed (nm "Int")) (Some (LInt 1))) args = true /\
  static_ok all_fixed Eint dtex true argdefs (one_var (StNamed (nm "Int")) (Some (LInt 1))) args = true /\
  c04_document_accepts Eint true None argdefs (one_var (StNamed (nm "Int")) None) args = false /\
  static_ok all_fixed Eint dtex true argdefs (one_var (StNamed (nm "Int")) None) args = false /\
  bridgeable Eint = true /\ no_float Eint = true.
Proof. cbv zeta. repeat split; vm_compute; reflexivity. Qed.

(** the DateTime model on the edges of time.Parse(RFC3339): one-digit hour and hour offset 24 / minute
    offset 60 accepted, leap second / lower case / non-leap 29 February / two-digit month refused *)
Example datetime_edges :
  rfc3339_go (nm "2020-01-02T3:04:05Z") = true /\ rfc3339_go (nm "2020-01-02T3:4:05Z") = false /\
  rfc3339_go (nm "2020-02-29T00:00:00Z") = true /\ rfc3339_go (nm "1900-02-29T00:00:00Z") = false /\
  rfc3339_go (nm "2020-01-02T03:04:05+24:60") = true /\ rfc3339_go (nm "2020-01-02T03:04:05+25:00") = false /\
  rfc3339_go (nm "2016-12-31T23:59:60Z") = false /\ rfc3339_go (nm "2020-01-02T03:04:05,5Z") = true /\
  rfc3339_go (nm "2020-01-02t03:04:05z") = false /\ rfc3339_go (nm "2020-01-02T03:04:05.Z") = false.
Proof. repeat split; vm_compute; reflexivity. Qed.
