(** non-vacuity for C19: concrete schemas and requests meeting the hypotheses of each theorem of
    Properties/C19.v, with the answer the model computes for them *)
From Coq Require Import List NArith ZArith Bool String.
From ApiFu Require Import Base.Sexp JsonApi.JsonApiModel JsonApi.JsonApiSpec JsonApi.JsonApiProofs JsonApi.JsonApiExtras.
Import ListNotations.
Open Scope string_scope.
Open Scope list_scope.

Definition ok_accept : list bytes := [media_type].
Definition serve := serve_http fixed toy_pmt toy_choose toy_schema.

(** [choose_ok] is inhabited *)
Example choose_ok_inhabited : choose_ok toy_choose.
Proof. exact toy_choose_ok. Qed.

(** well-formedness / status / identity on a successful fetch: a resource object of the addressed
    identity with the standard links of both relationships, and a self link *)
Example fetch_answer :
  serve (toy_request "GET" "/things/2" ok_accept BNone) =
  Resp 200 media_type
    (WDoc (Some version_1_1)
       (WOne {| w_type := b "things"; w_id := b "2"; w_attrs := [b "a"];
                w_rels := [ (b "one", {| rel_links := [(s_related, b "/things/2/one"); (s_self, b "/things/2/relationships/one")];
                                         rel_data := Some (LOne {| r_type := b "things"; r_id := b "2" |}); rel_meta := [] |});
                            (b "many", {| rel_links := [(s_related, b "/things/2/many"); (s_self, b "/things/2/relationships/many")];
                                          rel_data := None; rel_meta := [] |});
                            (b "owner", {| rel_links := [(s_related, b "/things/2/owner"); (s_self, b "/things/2/relationships/owner");
                                                         (b "describedby", b "https://example.com/owner")];
                                           rel_data := None; rel_meta := [] |}) ] |})
       [] [(s_self, b "/things/2")]) None.
Proof. vm_compute. reflexivity. Qed.

(** the marshal fallback of the repaired tree is an error document *)
Example fallback_answer :
  serve (toy_request "GET" "/things/1" ok_accept BNone) =
  Resp 500 media_type (WDoc (Some version_1_1) WAbsent [b "500"] []) None.
Proof. vm_compute. reflexivity. Qed.

(** an error whose status is no status code is answered 500, not a panic *)
Example bad_status_answer :
  serve (toy_request "GET" "/things/bad" ok_accept BNone) =
  Resp 500 media_type (WDoc (Some version_1_1) WAbsent [b "abc"] []) None.
Proof. vm_compute. reflexivity. Qed.

(** ja_406: the media type is offered, but only with a parameter other than profile *)
Definition ext_pmt (s : bytes) : pm_result :=
  if bytes_eqb s (b "application/vnd.api+json; ext=x")
  then {| pm_type := media_type; pm_params := [b "ext"]; pm_err := false |} else toy_pmt s.
Example hyp_406 :
  let accept := [b "text/html, application/vnd.api+json; ext=x"] in
  acceptable ext_pmt accept = false /\ offered_only_modified ext_pmt [b "application/vnd.api+json; ext=x"] = true.
Proof. vm_compute. auto. Qed.
(** ... and a comma list offering the unmodified media type is acceptable *)
Example hyp_accept_list : acceptable toy_pmt [b "text/html, application/vnd.api+json"] = true.
Proof. vm_compute. reflexivity. Qed.

(** ja_400_params *)
Example hyp_400 :
  supported_parameter (b "page[size]") = true /\ supported_parameter (b "Foo[bar]") = true /\
  supported_parameter (b "filter") = false /\ supported_parameter (b "page[") = false /\
  supported_parameter (b "foo[asd") = false /\ supported_parameter (b "aa123@!") = false.
Proof. vm_compute. repeat split. Qed.

(** ja_404: an unknown relationship of an existing resource *)
Example hyp_404 : unknown_target toy_schema (toy_request "GET" "/things/2/nope" ok_accept BNone).
Proof.
  eapply (U_relationship _ _ toy_things (b "2") (b "nope") 0%N).
  - left. vm_compute. reflexivity.
  - reflexivity.
  - vm_compute. reflexivity.
  - vm_compute. reflexivity.
Qed.

(** ja_405: the type defines no Delete *)
Example hyp_405 : undefined_operation toy_schema (toy_request "DELETE" "/things/2" ok_accept BNone).
Proof. eapply (O_delete _ _ toy_things (b "2")); vm_compute; reflexivity. Qed.

(** ja_409: PATCH of a related resource whose document names another id *)
Definition doc_things (id : string) : body :=
  BJson (JObj [(s_data, JObj [(s_type, JStr (b "things")); (s_id, JStr (b id))])]) [].
Example hyp_409 : conflict toy_schema (toy_request "PATCH" "/things/7/one" ok_accept (doc_things "3")).
Proof.
  eapply (K_update_related _ _ toy_things (b "7") (b "one") 0%N _ {| r_type := b "things"; r_id := b "2" |} toy_things).
  - vm_compute. reflexivity.
  - reflexivity.
  - vm_compute. reflexivity.
  - vm_compute. reflexivity.
  - vm_compute. reflexivity.
  - vm_compute. reflexivity.
  - vm_compute. reflexivity.
  - right. vm_compute. intro H. discriminate H.
Qed.
Example answer_409 :
  answer_status (serve (toy_request "PATCH" "/things/7/one" ok_accept (doc_things "3"))) = Some 409%Z /\
  answer_status (serve (toy_request "PATCH" "/things/7/one" ok_accept (doc_things "2"))) = Some 200%Z.
Proof. vm_compute. auto. Qed.

(** linkage decoding: PATCH of a relationship hands Patch the decoded linkage *)
Example linkage_call :
  answer_call (serve (toy_request "PATCH" "/things/2/relationships/one" ok_accept
                        (BJson (JObj [(s_data, identifier_object {| r_type := b "things"; r_id := b "9" |})]) []))) =
  Some (CPatch (b "2") [] [(b "one", LOne {| r_type := b "things"; r_id := b "9" |})]).
Proof. vm_compute. reflexivity. Qed.

(** custom RelationshipResolver implementations.  Resource "c7" (value 7): the resolver's own "self"
    replaces the standard one, its "describedby" is added, its Meta is carried; the relationship
    links of a resource served later in a history are those of that resource *)
Definition owner_of (o : outcome) : option relationship :=
  match o with
  | Resp _ _ (WDoc _ (WOne i) _ _) _ => option_map snd (find (fun nr => bytes_eqb (fst nr) (b "owner")) (w_rels i))
  | _ => None
  end.
Example custom_links_history :
  map owner_of (serve_history toy_pmt toy_choose toy_schema
                  [toy_request "GET" "/things/c7" ok_accept BNone; toy_request "GET" "/things/2" ok_accept BNone]) =
  [ Some {| rel_links := [(s_related, b "/things/c7/owner"); (s_self, b "/elsewhere"); (b "describedby", b "https://example.com/owner")];
            rel_data := None; rel_meta := [(b "count", true)] |};
    Some {| rel_links := [(s_related, b "/things/2/owner"); (s_self, b "/things/2/relationships/owner");
                          (b "describedby", b "https://example.com/owner")];
            rel_data := None; rel_meta := [] |} ].
Proof. vm_compute. reflexivity. Qed.

(** the relationship endpoint of a custom resolver: its Data and its links; without Data the
    related-resource endpoint answers 500 (before the fix: a nil dereference) *)
Example custom_relationship_endpoint :
  serve (toy_request "GET" "/things/c7/relationships/owner" ok_accept BNone) =
  Resp 200 media_type
    (WDoc (Some version_1_1) (WOne (witem_of_rid {| r_type := b "things"; r_id := b "7" |})) []
       [(s_related, b "/things/c7/owner"); (s_self, b "/elsewhere"); (b "describedby", b "https://example.com/owner")]) None /\
  answer_status (serve (toy_request "GET" "/things/c9/owner" ok_accept BNone)) = Some 500%Z /\
  answer_status (serve (toy_request "GET" "/things/c7/owner" ok_accept BNone)) = Some 200%Z.
Proof. vm_compute. auto. Qed.

(** C19_ja_trailing_bytes: the hypotheses are satisfiable, and white space after the document is fine *)
Example trailing_bytes :
  let doc := JObj [(s_data, JObj [(s_type, JStr (b "things")); (s_id, JStr (b "2"))])] in
  answer_status (serve (toy_request "PATCH" "/things/2" ok_accept (BJson doc (b "}")))) = Some 400%Z /\
  answer_status (serve (toy_request "PATCH" "/things/2" ok_accept (BJson doc (b " ")))) = Some 200%Z.
Proof. vm_compute. auto. Qed.

(** ** the heap model: one Links map at location 0, handed out for every resource.  The code as it
    is leaves it empty and gives every resource its own links; the in-place variant does neither
    (C19_in_place_*_refuted are these computations) *)
From ApiFu Require Import JsonApi.JsonApiHeap JsonApi.JsonApiHeapProofs JsonApi.JsonApiBytes.
Example heap_history :
  let '(answers, h) := serve_history_st false leaky_pmt leaky_choose leaky_schema [get_thing "1"; get_thing "2"] leaky_heap in
  h = leaky_heap /\
  map owner_of answers =
  [ Some {| rel_links := [(s_related, b "/things/1/owner"); (s_self, b "/things/1/relationships/owner")]; rel_data := None; rel_meta := [] |};
    Some {| rel_links := [(s_related, b "/things/2/owner"); (s_self, b "/things/2/relationships/owner")]; rel_data := None; rel_meta := [] |} ].
Proof. vm_compute. auto. Qed.
Example heap_history_in_place :
  let '(answers, h) := serve_history_st true leaky_pmt leaky_choose leaky_schema [get_thing "1"; get_thing "2"] leaky_heap in
  h = [CLinks [(s_self, b "/things/1/relationships/owner"); (s_related, b "/things/1/owner")]] /\
  map owner_of answers =
  [ Some {| rel_links := [(s_self, b "/things/1/relationships/owner"); (s_related, b "/things/1/owner")]; rel_data := None; rel_meta := [] |};
    Some {| rel_links := [(s_self, b "/things/1/relationships/owner"); (s_related, b "/things/1/owner")]; rel_data := None; rel_meta := [] |} ].
Proof. vm_compute. auto. Qed.

(** ** request documents as bytes: what the reader and the decoders make of repeated members *)
Definition no_range (_ : bytes) : bool := false.
Example raw_merge :
  decode_body (dec_resource_request true)
    (body_of_text no_range (b "{""data"":{""type"":""x"",""id"":""1""}, ""DATA"":{""type"":""things"",""type"":null,""attributes"":{""a"":1,""a"":2}}}")) =
  Some {| pd_type := []; pd_id := b "1"; pd_attrs := [b "a"]; pd_rels := [] |}.
Proof. vm_compute. reflexivity. Qed.
Example raw_slice_reuse :
  decode_body dec_members
    (body_of_text no_range (b "{""data"":[{""type"":""a"",""id"":""b""},{""type"":""c"",""id"":""d""}],""data"":[{""type"":""e""}]}")) =
  Some [{| r_type := b "e"; r_id := b "b" |}].
Proof. vm_compute. reflexivity. Qed.
Example raw_not_one_value :
  body_of_text no_range (b "{""data"":null}}") = BNone /\ body_of_text no_range (b "") = BNone /\
  body_of_text no_range (b "{""data"":null,""x"":1e999}") = BNone /\
  body_of_text no_range (b " {""data"":null,""x"":-99999} ") = BJson (JObj [(s_data, JNull); (b "x", JNum)]) [].
Proof. vm_compute. auto. Qed.
(** an error object whose Meta does not marshal: the 500 of the fallback *)
Example error_meta_fallback :
  serve_http fixed toy_pmt toy_choose
    [ {| rt_name := b "t"; rt_attrs := []; rt_rels := [];
         rt_get := Some (fun _ => HErr {| e_status := b "403"; e_meta_ok := false |});
         rt_patch := None; rt_create := None; rt_delete := None |} ]
    (toy_request "GET" "/t/1" ok_accept BNone) =
  Resp 500 media_type (WDoc (Some version_1_1) WAbsent [b "500"] []) None.
Proof. vm_compute. reflexivity. Qed.

(** NewSchema: an accepted and three refused definitions *)
Example new_schema_examples :
  new_schema_ok [ {| td_name := b "things"; td_attrs := [(b "title", true)]; td_rels := [(b "author", RKLib true); (b "x-y_9", RKCustom)] |} ] = true /\
  new_schema_ok [ {| td_name := b "things"; td_attrs := [(b "id", true)]; td_rels := [] |} ] = false /\
  new_schema_ok [ {| td_name := b "things"; td_attrs := [(b "a", true)]; td_rels := [(b "a", RKCustom)] |} ] = false /\
  new_schema_ok [ {| td_name := b "things"; td_attrs := []; td_rels := [(b "r", RKLib false)] |} ] = false /\
  new_schema_ok [ {| td_name := b "a-"; td_attrs := []; td_rels := [] |} ] = false.
Proof. vm_compute. repeat split. Qed.
