(** non-vacuity for C11: concrete non-trivial instances meeting the hypotheses of each main theorem *)
From Coq Require Import List NArith ZArith Bool.
From ApiFu Require Import Base.Sexp Serial.SerialPlan Serial.SerialFuture Serial.SerialModel
     Serial.SerialSpec Serial.SerialProofs.
Import ListNotations.
Open Scope N_scope.

(** mutation { a { x y } l { z } c }:
      a  promise -> object; x promise -> Int!, y synchronous Int
      l  synchronous -> [T] with two items; z a promise in each item, the second one fails (nullable)
      c  promise -> Int
    7 field invocations, 5 promises; the schedule fulfils the promise created last first. *)
Definition ex_root : selset :=
  [ ([97], FP (Some 0) false (Some (VObj [ ([120], FP (Some 1) true (Some (VLeaf 1)));
                                           ([121], FP None false (Some (VLeaf 2))) ])));
    ([108], FP None true (Some (VList false [ VObj [ ([122], FP (Some 2) false (Some (VLeaf 3))) ];
                                              VObj [ ([122], FP (Some 3) false None) ] ])));
    ([99], FP (Some 4) false (Some (VLeaf 5))) ].
Definition ex_sigma : sched := sigma_ranks [4; 3; 2; 1; 0]%nat.

Example ex_hypotheses :
  NoDup (map fst ex_root) /\ excl_abandoned_promise ex_root = false /\ fair ex_sigma /\
  (count_async ex_root <= 5)%nat.
Proof.
  split; [repeat constructor; simpl; intuition discriminate|].
  split; [reflexivity|]. split; [apply sigma_ranks_fair|]. vm_compute. repeat constructor.
Qed.

(** the run returns, takes five idle rounds, creates five promises, answers all three root keys in
    order, and its log is: a's three resolvers and two fulfilments, then l's three resolvers and two
    fulfilments (the later promise first), then c's resolver and fulfilment *)
Example ex_run :
  exists r, run (Some ex_sigma) Mutation 5 ex_root = Done r /\
    r_rounds r = 5%nat /\ length (r_proms r) = 5%nat /\ r_null r = false /\
    slot_keys (r_root r) = [Some [97]; Some [108]; Some [99]] /\
    r_events r =
      [ EStart [PKey [97]]; EFulfil [PKey [97]]; EStart [PKey [97]; PKey [120]]; EStart [PKey [97]; PKey [121]];
        EFulfil [PKey [97]; PKey [120]];
        EStart [PKey [108]]; EStart [PKey [108]; PIdx 0; PKey [122]]; EStart [PKey [108]; PIdx 1; PKey [122]];
        EFulfil [PKey [108]; PIdx 1; PKey [122]]; EFulfil [PKey [108]; PIdx 0; PKey [122]];
        EStart [PKey [99]]; EFulfil [PKey [99]] ] /\
    strict_serial (map fst ex_root) (r_events r) = true.
Proof. eexists. split; [vm_compute; reflexivity|]. vm_compute. repeat split. Qed.

(** the same document as a query under the same schedule is not serial: c's promise is fulfilled
    first, a's resolvers run last *)
Example ex_query_not_serial :
  exists r, run (Some ex_sigma) Query 5 ex_root = Done r /\
            strict_serial (map fst ex_root) (r_events r) = false.
Proof. eexists. split; [vm_compute; reflexivity|]. vm_compute. reflexivity. Qed.

(** the witness of the known finding meets the hypotheses of C11_mutation_serial_starts only:
    its log is serial for resolver starts but not strictly *)
Example ex_abandon :
  exists r, run (Some (sigma_ranks [0; 1; 1]%nat)) Mutation 4 wit_abandon = Done r /\
            weak_serial (map fst wit_abandon) (r_events r) = true /\
            strict_serial (map fst wit_abandon) (r_events r) = false /\
            existsb (fun pr => match p_st pr with PSent => true | _ => false end) (r_proms r) = true.
Proof. eexists. split; [vm_compute; reflexivity|]. vm_compute. repeat split. Qed.

(** a run that does not return: an (unfair) idle handler that never fulfils anything leaves the
    executor stuck in the wait for the first root field; the order theorems speak about its log too *)
Example ex_stuck :
  exists s, run (Some (fun _ _ => [])) Mutation 5 ex_root = Stuck s /\
            log_of (run (Some (fun _ _ => [])) Mutation 5 ex_root) = [EStart [PKey [97]]].
Proof. eexists. split; vm_compute; reflexivity. Qed.

(** the proposed drain step on the witness of the known finding: the abandoned promise a.y is
    fulfilled before b starts; the log is strictly serial *)
Example ex_drain :
  exists r, run_gen true (Some (sigma_ranks [0; 1; 1]%nat)) Mutation 4 wit_abandon = Done r /\
            strict_serial (map fst wit_abandon) (r_events r) = true /\
            r_events r = [ EStart [PKey [97]]; EStart [PKey [97]; PKey [120]]; EStart [PKey [97]; PKey [121]];
                           EFulfil [PKey [97]; PKey [120]]; EFulfil [PKey [97]; PKey [121]];
                           EStart [PKey [98]]; EFulfil [PKey [98]] ].
Proof. eexists. split; [vm_compute; reflexivity|]. vm_compute. repeat split. Qed.

(** a request without idle handler: the first promise makes wait answer "No idle handler defined.",
    the mutation stops there *)
Example ex_no_idle_handler :
  exists r, run None Mutation 5 ex_root = Done r /\ r_null r = true /\ r_events r = [EStart [PKey [97]]].
Proof. eexists. split; [vm_compute; reflexivity|]. vm_compute. repeat split. Qed.

(** __typename between two root fields: no resolver, no event, its slot is filled in order *)
Example ex_typename :
  exists r, run (Some ex_sigma) Mutation 5 [([97], FP (Some 0) false (Some (VLeaf 1))); ([116], FTypename);
                                          ([98], FP None false (Some (VLeaf 2)))] = Done r /\
            slot_keys (r_root r) = [Some [97]; Some [116]; Some [98]] /\
            r_events r = [EStart [PKey [97]]; EFulfil [PKey [97]]; EStart [PKey [98]]].
Proof. eexists. split; [vm_compute; reflexivity|]. vm_compute. repeat split. Qed.

(** the hypotheses of C11_mutation_terminates are met by [ex_sigma] / [ex_root] / fuel 5
    ([ex_hypotheses]); both are needed: the unfair handler of [ex_stuck] never returns, and with
    fuel for a single idle round the wait for [a] (two rounds) gives up *)
Example ex_fuel_needed :
  exists s, run (Some ex_sigma) Mutation 1 ex_root = OutOfFuel s.
Proof. eexists. vm_compute. reflexivity. Qed.
