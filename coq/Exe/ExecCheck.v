(** * Exe/ExecCheck.v — C01 correspondence: decode a case, run model (and spec oracle), compare
    with what the implementation did.  Executable only. *)
From Coq Require Import List NArith ZArith Bool String.
From ApiFu Require Import Base.Sexp Exe.ExecData Exe.ExecModel Exe.ExecDecode.
Import ListNotations.
Open Scope string_scope.

Definition of_pathc (c : pathc) : sexp := match c with PKey k => SStr k | PIdx i => of_N i end.
Definition of_pos (p : pos) : sexp := SL [of_N (line p); of_N (col p)].
Definition of_error (e : gerror) : sexp := SL [of_list of_pathc (e_path e); of_list of_pos (e_locs e)].

Fixpoint of_json (j : json) : sexp :=
  match j with
  | JNull => SSym "null" | JMeta => SSym "meta"
  | JBool b => of_bool b
  | JInt z => tag "int" [SZ z]
  | JFloat (Fin m e) => tag "num" [SZ m; SZ e]
  | JFloat _ => SSym "nonfinite"
  | JStr s => tag "s" [SStr s]
  | JArr xs => tag "a" (map of_json xs)
  | JObj kvs => tag "o" (map (fun kv => SL [SStr (fst kv); of_json (snd kv)]) kvs)
  end.

Definition of_run (r : run_result) : sexp :=
  match r with
  | Done d es => tag "done" [of_option of_json (option_map canon d); of_list of_error es]
  | Panic => SSym "panic"
  | OutOfFuel => SSym "out-of-fuel"
  end.

(** model vs implementation: data exactly (ordered), errors as multisets keyed by (path, locations) *)
Definition agrees (m : run_result) (o : observed) : bool :=
  match m, o with
  | Panic, ObsPanic => true
  | Done d es, ObsMarshalError => match d with Some j => negb (marshals j) | None => false end
  | Done d es, ObsDone d' es' =>
      match d, d' with
      | None, None => multiset_eqb es es'
      | Some j, Some j' => marshals j && json_eqb (canon j) (canon (mask_meta j j')) && multiset_eqb es es'
      | _, _ => false
      end
  | _, _ => false
  end.

Definition check (c : sexp) : sexp :=
  match tagged "case" c with
  | Some [s; d; e; w; o; SL flags] =>
      match dec_schema s, dec_doc d, dec_env e, dec_outcome w, dec_obs o with
      | Some Sc, Some D, Some E, Some W, Some obs =>
          match obs with
          | ObsRejected => v_oracle_fail "valid-document-rejected" []
          | _ =>
              let m := run fixed Sc D E (default_fuel D) W in
              match m with
              | OutOfFuel => v_bad "out-of-fuel"
              | _ => if agrees m obs then v_ok ["nontrivial"]
                     else v_mismatch "response" [tag "model" [of_run m]]
              end
          end
      | None, _, _, _, _ => v_bad "schema"
      | _, None, _, _, _ => v_bad "doc"
      | _, _, None, _, _ => v_bad "env"
      | _, _, _, None, _ => v_bad "outcome"
      | _, _, _, _, None => v_bad "observed"
      end
  | _ => v_bad "shape"
  end.
