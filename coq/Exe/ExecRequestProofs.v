(** * Exe/ExecRequestProofs.v — GetOperation: the executor's loop selects exactly the operation the
    specification determines, and refuses the request otherwise (C01). *)
From Coq Require Import List NArith ZArith Bool.
From ApiFu Require Import Base.Sexp Exe.ExecData Exe.ExecModel Exe.ExecSpec.
Import ListNotations.

(** the loop, characterised by the list of matching operations *)
Lemma get_operation_loop_filter opname : forall ops ret,
  get_operation_loop ops opname ret =
  match ret, filter (op_matches opname) ops with
  | None, [] => GNoMatch
  | None, [o] => GOp o
  | None, _ :: o2 :: _ => GMultiple (o_pos o2)
  | Some o, [] => GOp o
  | Some _, o2 :: _ => GMultiple (o_pos o2)
  end.
Proof.
  induction ops as [|o rest IH]; intro ret.
  - destruct ret; reflexivity.
  - cbn [get_operation_loop filter]. destruct (op_matches opname o).
    + destruct ret as [r|]; [reflexivity|]. rewrite IH. destruct (filter (op_matches opname) rest); reflexivity.
    + apply IH.
Qed.

Lemma filter_true {A} (l : list A) : filter (fun _ => true) l = l.
Proof. induction l as [|x r IH]; [reflexivity|]. cbn. rewrite IH. reflexivity. Qed.

Lemma matches_spec opname ops :
  filter (op_matches opname) ops =
  match opname_of opname with None => ops | Some n => filter (s_named n) ops end.
Proof.
  destruct opname as [|b r]; cbn [opname_of].
  - unfold op_matches. apply filter_true.
  - apply filter_ext. intro o. reflexivity.
Qed.

(** the executor selects [o] exactly when the specification determines [o] *)
Theorem get_operation_refines_spec R opname o :
  get_operation R opname = GOp o <-> s_get_operation R (opname_of opname) = Some o.
Proof.
  unfold get_operation. rewrite get_operation_loop_filter, matches_spec. unfold s_get_operation.
  destruct (opname_of opname) as [n|].
  - destruct (filter (s_named n) (r_ops R)) as [|o1 [|o2 l]]; split; intro H; try discriminate; inversion H; reflexivity.
  - destruct (r_ops R) as [|o1 [|o2 l]]; split; intro H; try discriminate; inversion H; reflexivity.
Qed.

(** ... and otherwise refuses the request with exactly one error and no data *)
Theorem get_operation_refuses R opname :
  s_get_operation R (opname_of opname) = None ->
  exists p, get_operation R opname = GMultiple p \/ get_operation R opname = GNoMatch.
Proof.
  unfold get_operation. rewrite get_operation_loop_filter, matches_spec. unfold s_get_operation.
  destruct (opname_of opname) as [n|].
  - destruct (filter (s_named n) (r_ops R)) as [|o1 [|o2 l]]; intro H; try discriminate;
      [exists {| line := 0; col := 0 |}; right; reflexivity|exists (o_pos o2); left; reflexivity].
  - destruct (r_ops R) as [|o1 [|o2 l]]; intro H; try discriminate;
      [exists {| line := 0; col := 0 |}; right; reflexivity|exists (o_pos o2); left; reflexivity].
Qed.

Section Request.
  Variables (M : mode) (S : schema) (R : request_doc) (opname : name) (E : env) (fuel : nat) (W : outcome).

  Theorem run_request_selected o :
    s_get_operation R (opname_of opname) = Some o ->
    run_request M S R opname E fuel W = run M S (doc_of R o) E fuel W.
  Proof.
    intro H. apply get_operation_refines_spec in H. unfold run_request. rewrite H. reflexivity.
  Qed.

  Theorem run_request_refused :
    s_get_operation R (opname_of opname) = None ->
    exists e, run_request M S R opname E fuel W = Done None [e] /\ e_path e = [].
  Proof.
    intro H. destruct (get_operation_refuses R opname H) as [p [Hg|Hg]]; unfold run_request; rewrite Hg;
      eexists; split; reflexivity.
  Qed.
End Request.

(** whole requests never crash (for C03) *)
From ApiFu Require Import Exe.ExecHyps Exe.ExecProofs.
Theorem request_total S R opname E n W :
  type_names_okb S = true ->
  (forall o, s_get_operation R (opname_of opname) = Some o ->
     doc_positions_okb (doc_of R o) = true /\
     doc_ok S (doc_of R o) E (default_fuel (doc_of R o)) n = true) ->
  forall fuel, (forall o, s_get_operation R (opname_of opname) = Some o -> fuel = default_fuel (doc_of R o)) ->
  exists d errs, run_request fixed S R opname E fuel W = Done d errs.
Proof.
  intros Hn Hsel fuel Hfuel.
  destruct (s_get_operation R (opname_of opname)) as [o|] eqn:Es.
  - rewrite (run_request_selected fixed S R opname E fuel W o Es).
    destruct (Hsel o eq_refl) as [Hp Hd]. rewrite (Hfuel o eq_refl).
    exact (exec_total S (doc_of R o) E _ Hn Hp n Hd W).
  - destruct (run_request_refused fixed S R opname E fuel W Es) as [e [H _]]. rewrite H. eauto.
Qed.
