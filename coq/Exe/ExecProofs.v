(** * Exe/ExecProofs.v — the C01 theorems about whole requests (stage 1: executor without memo) *)
From Coq Require Import List NArith ZArith Bool Lia.
From ApiFu Require Import Base.Sexp Exe.ExecData Exe.ExecModel Exe.ExecSpec
     Exe.ExecBaseProofs Exe.ExecCollectProofs Exe.ExecSpecProofs Exe.ExecSimProofs.
Import ListNotations.

Section Top.
  Variables (M : mode) (S : schema) (D : document) (E : env) (fuel : nat).
  Hypothesis Hfix1 : fix1 M = true.
  Hypothesis Hfix7 : fix7 M = true.
  Hypothesis Hmemo : memo M = false.

  (** everything at once: for a well-typed document the executor finishes, and its response is
      related to the reference response *)
  Theorem run_refines_spec n W :
    doc_ok S D E fuel n = true ->
    exists errs,
      run M S D E fuel W = Done (data (exec_spec S D E fuel W)) errs /\
      subseq errs (all_errors (exec_spec S D E fuel W)) /\
      Forall (explained errs) (failure_nulls (exec_spec S D E fuel W)).
  Proof.
    intro Hok. unfold doc_ok in Hok. apply andb_true_iff in Hok as [Hconds Hroot].
    unfold run, exec_spec. change (root_type S (op_kind D)) with (s_root_type S (op_kind D)).
    destruct (s_root_type S (op_kind D)) as [rt|]; [|discriminate].
    assert (Hcs : forallb (sel_conds_ok S) (op_sels D) = true).
    { unfold conds_ok in Hconds. apply andb_true_iff in Hconds as [H _]. exact H. }
    pose proof (sim_selections M S D E fuel Hmemo Hconds n
                               (children_of M S D E fuel W) (s_children_of S D E fuel W) rt (op_sels D) [] init_state
                               (children_sim M S D E fuel Hfix1 Hfix7 Hmemo Hconds W)
                               (wf_s_children_of S D E fuel W) Hroot Hcs) as H.
    pose proof (swf_selection_set S D E fuel (s_children_of S D E fuel W) rt (op_sels D) []
                                  (wf_s_children_of S D E fuel W)) as [Hw _].
    set (x := s_selection_set S D E fuel (s_children_of S D E fuel W) rt (op_sels D) []) in *.
    destruct (exec_selections M S D E fuel (children_of M S D E fuel W) rt (op_sels D) [] init_state) as [r st].
    cbn [fst snd] in H. destruct H as [_ [new [He [Hs Hr]]]]. cbn [init_state st_errs app] in He.
    destruct r as [j|e| |]; try (destruct Hr; fail).
    - destruct Hr as [Hv Hn]. rewrite Hv. cbn [data all_errors failure_nulls].
      exists (st_errs st). rewrite He. split; [reflexivity|]. split; [exact Hs|exact Hn].
    - destruct Hr as [Hv Hin]. rewrite Hv. cbn [data all_errors failure_nulls].
      exists (st_errs st ++ [e]). rewrite He. split; [reflexivity|].
      split; [apply subseq_app; [exact Hs|apply subseq_single; exact Hin]|].
      constructor; [|constructor]. unfold explained. cbn [snd]. fold (count_in (so_thrown x) (new ++ [e])).
      rewrite count_in_app, (count_in_single _ _ Hin).
      rewrite count_in_zero; [reflexivity|].
      intros e' He' Hin'. pose proof (w_nodup _ _ Hw) as Hnd. unfold errs_of in Hnd. rewrite map_app in Hnd.
      apply (NoDup_app_disjoint _ _ (e_path e') Hnd); apply in_map; [apply (subseq_incl _ _ Hs); exact He'|exact Hin'].
  Qed.
End Top.
