(** * Intro/SortLemmas.v — facts about [name_leb], [sort_by] and association lists. *)
From Coq Require Import List NArith ZArith Bool Lia Permutation Sorted.
From ApiFu Require Import Base.Sexp Intro.IntrospectModel.
Import ListNotations.

(** ** [name_leb] is a total order on byte strings *)
Lemma name_leb_refl a : name_leb a a = true.
Proof.
  induction a as [|x a IH]; simpl; auto.
  rewrite N.ltb_irrefl. exact IH.
Qed.

Lemma name_leb_total a b : name_leb a b = true \/ name_leb b a = true.
Proof.
  revert b; induction a as [|x a IH]; intros [|y b]; simpl; auto.
  destruct (N.ltb x y) eqn:E1; auto.
  destruct (N.ltb y x) eqn:E2; auto.
Qed.

Lemma name_leb_antisym a b : name_leb a b = true -> name_leb b a = true -> a = b.
Proof.
  revert b; induction a as [|x a IH]; intros [|y b]; simpl; intros H1 H2; auto; try discriminate.
  destruct (N.ltb x y) eqn:E1; destruct (N.ltb y x) eqn:E2.
  - apply N.ltb_lt in E1, E2. lia.
  - discriminate.
  - discriminate.
  - apply N.ltb_ge in E1, E2. assert (x = y) by lia. subst. f_equal. apply IH; auto.
Qed.

Lemma name_leb_trans a b c : name_leb a b = true -> name_leb b c = true -> name_leb a c = true.
Proof.
  revert b c; induction a as [|x a IH]; intros [|y b] [|z c]; simpl; intros H1 H2; auto; try discriminate.
  destruct (N.ltb x y) eqn:E1; destruct (N.ltb y z) eqn:E2.
  - apply N.ltb_lt in E1, E2. assert (N.ltb x z = true) as -> by (apply N.ltb_lt; lia). reflexivity.
  - destruct (N.ltb z y) eqn:E3; [discriminate|].
    apply N.ltb_lt in E1. apply N.ltb_ge in E2, E3. assert (N.ltb x z = true) as -> by (apply N.ltb_lt; lia). reflexivity.
  - destruct (N.ltb y x) eqn:E3; [discriminate|].
    apply N.ltb_lt in E2. apply N.ltb_ge in E1, E3. assert (N.ltb x z = true) as -> by (apply N.ltb_lt; lia). reflexivity.
  - destruct (N.ltb y x) eqn:E3; [discriminate|]. destruct (N.ltb z y) eqn:E4; [discriminate|].
    apply N.ltb_ge in E1, E2, E3, E4. assert (x = y) by lia. assert (y = z) by lia. subst.
    rewrite N.ltb_irrefl. eapply IH; eauto.
Qed.

(** ** insertion sort *)
Section Sort.
  Variable A : Type.
  Variable key : A -> name.

  Definition kle (x y : A) : Prop := name_leb (key x) (key y) = true.

  Lemma insert_perm x l : Permutation (insert key x l) (x :: l).
  Proof.
    induction l as [|y r IH]; simpl; auto.
    destruct (name_leb (key x) (key y)); auto.
    eapply perm_trans; [apply perm_skip, IH | apply perm_swap].
  Qed.

  Lemma sort_perm l : Permutation (sort_by key l) l.
  Proof.
    induction l as [|x r IH]; simpl; auto.
    eapply perm_trans; [apply insert_perm | apply perm_skip, IH].
  Qed.

  Lemma insert_sorted x l : StronglySorted kle l -> StronglySorted kle (insert key x l).
  Proof.
    induction 1 as [|y r Hs IH Hall]; simpl.
    - constructor; constructor.
    - destruct (name_leb (key x) (key y)) eqn:E.
      + constructor; [constructor; auto|]. constructor; [exact E|].
        eapply Forall_impl; [|exact Hall]. intros z Hz. unfold kle in *. eapply name_leb_trans; eauto.
      + constructor; auto.
        assert (Hyx : kle y x) by (unfold kle; destruct (name_leb_total (key x) (key y)); congruence).
        assert (Hp := insert_perm x r).
        apply Permutation_sym in Hp.
        eapply Permutation_Forall; [exact Hp|]. constructor; auto.
  Qed.

  Lemma sort_sorted l : StronglySorted kle (sort_by key l).
  Proof.
    induction l as [|x r IH]; simpl; [constructor | apply insert_sorted; exact IH].
  Qed.

  (** sorted lists with pairwise distinct keys that are permutations of each other are equal *)
  Lemma sorted_perm_eq l l' :
    StronglySorted kle l -> StronglySorted kle l' -> NoDup (map key l) -> Permutation l l' -> l = l'.
  Proof.
    revert l'; induction l as [|x r IH]; intros l' Hs Hs' Hnd Hp.
    - apply Permutation_nil in Hp. auto.
    - destruct l' as [|y r']; [apply Permutation_sym, Permutation_nil in Hp; discriminate|].
      inversion Hs as [|? ? Hsr Hall]; subst. inversion Hs' as [|? ? Hsr' Hall']; subst.
      assert (Hnd' : NoDup (map key (y :: r'))) by (eapply Permutation_NoDup; [apply Permutation_map, Hp | exact Hnd]).
      assert (Hxy : x = y).
      { assert (Hin1 : In x (y :: r')) by (eapply Permutation_in; [exact Hp | left; auto]).
        assert (Hin2 : In y (x :: r)) by (eapply Permutation_in; [apply Permutation_sym, Hp | left; auto]).
        destruct Hin1 as [->|Hin1]; auto. destruct Hin2 as [->|Hin2]; auto.
        rewrite Forall_forall in Hall, Hall'.
        assert (K : key x = key y) by (apply name_leb_antisym; [apply Hall; auto | apply Hall'; auto]).
        (* x is in r' and has y's key: contradiction with NoDup keys of y :: r' *)
        exfalso. inversion Hnd' as [|? ? Hni _]; subst. apply Hni. rewrite <- K. apply in_map. exact Hin1. }
      subst y. f_equal. apply IH; auto.
      + inversion Hnd; auto.
      + eapply Permutation_cons_inv; eauto.
  Qed.

  Lemma sort_perm_eq l l' : NoDup (map key l) -> Permutation l l' -> sort_by key l = sort_by key l'.
  Proof.
    intros Hnd Hp. apply sorted_perm_eq; try apply sort_sorted.
    - eapply Permutation_NoDup; [apply Permutation_map, Permutation_sym, sort_perm | exact Hnd].
    - eapply perm_trans; [apply sort_perm|]. eapply perm_trans; [exact Hp|]. apply Permutation_sym, sort_perm.
  Qed.

  Lemma sorted_sort_id l : StronglySorted kle l -> NoDup (map key l) -> sort_by key l = l.
  Proof.
    intros Hs Hnd. apply sorted_perm_eq; auto using sort_sorted, sort_perm.
    eapply Permutation_NoDup; [apply Permutation_map, Permutation_sym, sort_perm | exact Hnd].
  Qed.

  Lemma in_sort x l : In x (sort_by key l) <-> In x l.
  Proof.
    split; intro H.
    - eapply Permutation_in; [apply sort_perm | exact H].
    - eapply Permutation_in; [apply Permutation_sym, sort_perm | exact H].
  Qed.

  Lemma sort_length l : length (sort_by key l) = length l.
  Proof. apply Permutation_length, sort_perm. Qed.

  Lemma filter_sorted p l : StronglySorted kle l -> StronglySorted kle (filter p l).
  Proof.
    induction 1 as [|y r Hs IH Hall]; simpl; [constructor|].
    destruct (p y); auto. constructor; auto.
    rewrite Forall_forall in *. intros z Hz. apply Hall. apply filter_In in Hz. tauto.
  Qed.
End Sort.
Arguments kle {A}.

(** sorting commutes with a map that is transparent for the key *)
Lemma insert_map {A B} (kb : B -> name) (f : A -> B) x l :
  insert kb (f x) (map f l) = map f (insert (fun a => kb (f a)) x l).
Proof.
  induction l as [|y r IH]; simpl; auto.
  destruct (name_leb (kb (f x)) (kb (f y))); simpl; auto. rewrite IH. reflexivity.
Qed.

Lemma sort_map {A B} (kb : B -> name) (f : A -> B) l :
  sort_by kb (map f l) = map f (sort_by (fun a => kb (f a)) l).
Proof.
  induction l as [|x r IH]; simpl; auto. rewrite IH. apply insert_map.
Qed.

Lemma sort_by_ext {A} (k1 k2 : A -> name) l : (forall x, In x l -> k1 x = k2 x) -> sort_by k1 l = sort_by k2 l.
Proof.
  induction l as [|x r IH]; simpl; intro H; auto.
  rewrite IH by (intros; apply H; auto).
  assert (K : k1 x = k2 x) by (apply H; auto).
  assert (forall l', (forall y, In y l' -> k1 y = k2 y) -> insert k1 x l' = insert k2 x l') as Hins.
  { induction l' as [|y r' IH']; simpl; intro H'; auto.
    rewrite K, (H' y) by auto. destruct (name_leb (k2 x) (k2 y)); auto. rewrite IH'; auto. }
  apply Hins. intros y Hy. apply H. right. eapply in_sort; eauto.
Qed.

(** ** association lists *)
Lemma lookup_in {A} k (l : list (name * A)) v : lookup k l = Some v -> In (k, v) l.
Proof.
  induction l as [|[k' v'] r IH]; simpl; [discriminate|].
  destruct (bytes_eqb k k') eqn:E.
  - intro H; inversion H; subst. apply bytes_eqb_eq in E. subst. auto.
  - auto.
Qed.

Lemma in_lookup {A} k (l : list (name * A)) v : NoDup (map fst l) -> In (k, v) l -> lookup k l = Some v.
Proof.
  induction l as [|[k' v'] r IH]; simpl; [tauto|].
  intros Hnd [H|H].
  - inversion H; subst. rewrite bytes_eqb_refl. reflexivity.
  - inversion Hnd as [|? ? Hni Hnd']; subst.
    destruct (bytes_eqb k k') eqn:E.
    + apply bytes_eqb_eq in E. subst. exfalso. apply Hni. change k' with (fst (k', v)). apply in_map. exact H.
    + auto.
Qed.

Lemma lookup_none {A} k (l : list (name * A)) : lookup k l = None <-> ~ In k (map fst l).
Proof.
  induction l as [|[k' v'] r IH]; simpl; [tauto|].
  destruct (bytes_eqb k k') eqn:E.
  - apply bytes_eqb_eq in E. subst. split; [discriminate | intro H; exfalso; apply H; auto].
  - rewrite IH. split; intro H; [intros [H'|H']; [subst; rewrite bytes_eqb_refl in E; discriminate | tauto] | tauto].
Qed.

Lemma mem_in n l : mem n l = true <-> In n l.
Proof.
  unfold mem. rewrite existsb_exists. split.
  - intros [x [Hx E]]. apply bytes_eqb_eq in E. subst. exact Hx.
  - intro H. exists n. split; auto. apply bytes_eqb_refl.
Qed.

Lemma mem_false n l : mem n l = false <-> ~ In n l.
Proof. rewrite <- mem_in. destruct (mem n l); split; congruence. Qed.
