(** * Intro/RebuildProofs.v — a definition rebuilt from the introspection result is, for
    validation, the visible part of the original. *)
From Coq Require Import List NArith ZArith Bool Lia Permutation.
From ApiFu Require Import Base.Sexp Intro.Utf8 Intro.IntrospectModel Intro.MarshalValue Intro.LiteralSpec
     Intro.IntrospectSpec Intro.Rebuild Intro.RebuildSpec Intro.SortLemmas Intro.GraphProofs Intro.IntrospectProofs
     Intro.RefsProofs.
Import ListNotations.

Arguments mem : simpl never.

(** ** generic facts *)
Lemma omap_map {A B} (f : A -> option B) (g : A -> B) l : (forall x, In x l -> f x = Some (g x)) -> omap f l = Some (map g l).
Proof.
  induction l as [|x r IH]; intro H; simpl; auto. rewrite H by (left; auto). rewrite IH by (intros; apply H; right; auto). reflexivity.
Qed.

Lemma lookup_map_in {A} (g : name -> A) l x : In x l -> lookup x (map (fun n => (n, g n)) l) = Some (g x).
Proof.
  induction l as [|y r IH]; simpl; [tauto|]. intros [->|H].
  - rewrite bytes_eqb_refl. reflexivity.
  - destruct (bytes_eqb x y) eqn:E; [apply bytes_eqb_eq in E; subst; reflexivity | auto].
Qed.

Lemma lookup_map_notin {A} (g : name -> A) l x : ~ In x l -> lookup x (map (fun n => (n, g n)) l) = None.
Proof.
  induction l as [|y r IH]; simpl; auto. intro H.
  destruct (bytes_eqb x y) eqn:E; [apply bytes_eqb_eq in E; subst; exfalso; apply H; auto | apply IH; tauto].
Qed.

Lemma filter_true {A} (l : list A) : filter (fun _ => true) l = l.
Proof. induction l; simpl; congruence. Qed.

Lemma otext_nullable s : otext (nullable_string s) = s.
Proof. destruct s; reflexivity. Qed.

(** ** the null literal *)
Lemma denotes_null S t v : literal_denotes S t b_null_text v = true -> v = GNull.
Proof.
  unfold literal_denotes. change (parse_literal b_null_text) with (Some LNull).
  simpl. destruct t; try discriminate; destruct v; simpl; auto; discriminate.
Qed.

Lemma marshal_null S t : marshal S GNull t = MOk b_null_text.
Proof. reflexivity. Qed.

(** every input value definition of a schema *)
Definition field_inputs (f : name * field_def) : list input_def := map snd (f_args (snd f)).
Definition type_inputs (t : named_type) : list input_def :=
  match t with
  | NObject fs _ _ _ | NInterface fs _ _ => flat_map field_inputs fs
  | NInput fs _ _ _ => map snd fs
  | _ => []
  end.
Definition all_inputs (S : schema) : list input_def :=
  flat_map (fun t => type_inputs (snd t)) (types S) ++ flat_map (fun d => map snd (dd_args (snd d))) (directives S).

(** every configured default prints as a literal that denotes it (for conforming defaults without
    input object values this is [default_roundtrip_values]; the correspondence check evaluates it
    on every default it generates) *)
Definition defaults_denote (S : schema) : Prop :=
  forall i v, In i (all_inputs S) -> in_default i = Some v ->
    exists txt, marshal S v (in_type i) = MOk txt /\ literal_denotes S (in_type i) txt v = true.

Section Rebuild.
  Variable S : schema.
  Variable F : features.
  Hypothesis Hdepth : depth_ok S = true.
  Hypothesis Honce : interfaces_declared_once S = true.
  Hypothesis Hlocs : locations_known S = true.
  Hypothesis Hdef : refs_defined S = true.
  Hypothesis Hnest : gating_nested S = true.
  Hypothesis Hroots : roots_visible S F = true.
  Hypothesis Hbuiltins : builtins_consistent S = true.
  Hypothesis Hkinds : kinds_ok S = true.
  Hypothesis Haccept : scalars_accept_all S = true.
  Hypothesis Hdenote : defaults_denote S.

  Notation pr := (print_default S).
  Notation tofS := (tof S).

  (** the default of one input value *)
  Lemma default_canon i : In i (all_inputs S) ->
    canon_default (rebuild_default (dflt_text (pr (in_type i) (in_default i)))) = canon_default (in_default i).
  Proof.
    intro Hi. unfold print_default. destruct (in_default i) as [v|] eqn:Ed; [|reflexivity].
    destruct (Hdenote i v Hi Ed) as [txt [Hm Hd]]. rewrite Hm. simpl.
    destruct (bytes_eqb txt b_null_text) eqn:E.
    - apply bytes_eqb_eq in E. subst txt. apply denotes_null in Hd. subst v. reflexivity.
    - destruct v; try reflexivity. rewrite marshal_null in Hm. inversion Hm; subst. rewrite bytes_eqb_refl in E. discriminate.
  Qed.

  Variable reg : list name.
  Hypothesis Hreg : registry S = Some reg.

  Definition V : list name := filter (visible_type S F) reg.

  Lemma reg_facts : NoDup reg /\ (forall n, In n reg <-> belongs S n) /\ (forall n, In n reg -> defined S n = true) /\ Permutation reg (members S).
  Proof.
    destruct (registry_spec S) as [reg' [H' [Hnd [Hin Hd]]]]. rewrite Hreg in H'. inversion H'; subst reg'.
    repeat split; auto; try apply Hin. apply registry_members. exact Hreg.
  Qed.

  Lemma V_listed n : In n V <-> In n (listed S F).
  Proof.
    unfold V. rewrite filter_In, listed_spec. destruct reg_facts as [_ [H _]]. rewrite H. tauto.
  Qed.

  Lemma V_nodup : NoDup V.
  Proof. apply NoDup_filter. apply reg_facts. Qed.

  Lemma V_lookup n : In n V -> lookup n (types S) = Some (tofS n) /\ subset (nt_req (tofS n)) F = true.
  Proof.
    intro H. unfold V in H. apply filter_In in H. destruct H as [H1 H2].
    unfold visible_type in H2. unfold tof. destruct (lookup n (types S)); [auto | discriminate].
  Qed.

  (** the table of shells *)
  Definition sh (n : name) : shell := if is_builtin_name n then ShBuiltin else ShKind (kind_of_named (tofS n)).
  Definition tbl : list (name * shell) := map (fun n => (n, sh n)) V.

  Lemma tbl_in x : In x V -> lookup x tbl = Some (sh x).
  Proof. apply lookup_map_in. Qed.

  Lemma get_type_full t : In (unwrap t) V -> get_type tbl (full_ref S t) = Some t.
  Proof.
    induction t as [n|u IH|u IH]; intro H; simpl in *.
    - destruct (lookup n (types S)) as [t|]; [destruct t|]; simpl; rewrite (tbl_in n H); reflexivity.
    - rewrite IH by exact H. reflexivity.
    - rewrite IH by exact H. reflexivity.
  Qed.

  Lemma get_type_top t : (sty_levels t <= query_depth)%nat -> In (unwrap t) V -> get_type tbl (type_ref_top S t) = Some t.
  Proof. intros H1 H2. rewrite type_ref_top_full by exact H1. apply get_type_full. exact H2. Qed.

  (** input values *)
  Lemma rebuild_input_eq a : depth_ok_input a = true -> In (unwrap (in_type (snd a))) V ->
    rebuild_input tbl (map_input dflt_text (intro_input dflt pr S a))
    = Some (fst a, {| in_type := in_type (snd a);
                      in_default := rebuild_default (dflt_text (pr (in_type (snd a)) (in_default (snd a))));
                      in_desc := in_desc (snd a) |}).
  Proof.
    intros Hd Hv. unfold rebuild_input, map_input, intro_input; simpl.
    rewrite get_type_top; [|apply Nat.leb_le; exact Hd|exact Hv]. simpl. rewrite otext_nullable. reflexivity.
  Qed.

  Definition rb_input (a : name * input_def) : name * input_def :=
    (fst a, {| in_type := in_type (snd a);
               in_default := rebuild_default (dflt_text (pr (in_type (snd a)) (in_default (snd a))));
               in_desc := in_desc (snd a) |}).

  Lemma canon_rb_input a : In (snd a) (all_inputs S) -> canon_input (rb_input a) = canon_input a.
  Proof. intro H. unfold canon_input, rb_input; simpl. rewrite default_canon by exact H. reflexivity. Qed.

  Lemma rebuild_inputs_eq l :
    forallb depth_ok_input l = true -> (forall a, In a l -> In (unwrap (in_type (snd a))) V) ->
    omap (rebuild_input tbl) (map (map_input dflt_text) (map (intro_input dflt pr S) l)) = Some (map rb_input l).
  Proof.
    intros Hd Hv. rewrite map_map. rewrite <- (map_map (fun a => map_input dflt_text (intro_input dflt pr S a)) (fun x => x)).
    rewrite map_id. rewrite (map_map _ _ l) || idtac.
    assert (E : omap (rebuild_input tbl) (map (fun x => map_input dflt_text (intro_input dflt pr S x)) l)
                = Some (map rb_input l)).
    { induction l as [|a r IH]; simpl; auto.
      simpl in Hd. apply andb_true_iff in Hd as [H1 H2].
      rewrite rebuild_input_eq by (auto; apply Hv; left; auto).
      rewrite IH by (auto; intros; apply Hv; right; auto). reflexivity. }
    exact E.
  Qed.

  Lemma canon_inputs_rb l : (forall a, In a l -> In (snd a) (all_inputs S)) -> canon_inputs (map rb_input l) = canon_inputs l.
  Proof.
    intro H. unfold canon_inputs. f_equal. rewrite map_map. apply map_ext_in. intros a Ha. apply canon_rb_input. auto.
  Qed.

  (** names mentioned by a visible type, in visible positions, are in the table *)
  Lemma mention_V n t x : In n V -> lookup n (types S) = Some t -> In x (mentions t) -> subset (req_of S x) F = true -> In x V.
  Proof.
    intros Hn Hl Hx Hs. apply V_listed. eapply mention_listed; eauto. apply V_listed. exact Hn.
  Qed.

  Lemma type_in_types n t : lookup n (types S) = Some t -> In (n, t) (types S).
  Proof. apply lookup_in. Qed.

  Lemma inputs_of_type n t i : lookup n (types S) = Some t -> In i (type_inputs t) -> In i (all_inputs S).
  Proof.
    intros Hl Hi. unfold all_inputs. apply in_app_iff. left. apply in_flat_map. exists (n, t). split; auto. apply lookup_in. exact Hl.
  Qed.

  (** fields *)
  Definition rb_field (f : name * field_def) : name * field_def :=
    (fst f, {| f_type := f_type (snd f); f_args := map rb_input (f_args (snd f)); f_features := [];
               f_deprecation := f_deprecation (snd f); f_desc := f_desc (snd f) |}).

  Lemma rebuild_field_eq f : depth_ok_field f = true -> In (unwrap (f_type (snd f))) V ->
    (forall a, In a (f_args (snd f)) -> In (unwrap (in_type (snd a))) V) ->
    rebuild_field tbl (map_field dflt_text (intro_field dflt pr S f)) = Some (rb_field f).
  Proof.
    intros Hd Hv Ha. apply andb_true_iff in Hd as [H1 H2].
    unfold rebuild_field, map_field, intro_field; simpl.
    rewrite get_type_top; [|apply Nat.leb_le; exact H1|exact Hv]. simpl.
    rewrite rebuild_inputs_eq by auto. simpl. rewrite !otext_nullable. reflexivity.
  Qed.

  Lemma canon_rb_field f : (forall a, In a (f_args (snd f)) -> In (snd a) (all_inputs S)) ->
    canon_field (rb_field f) = canon_field (erase_field f).
  Proof. intro H. unfold canon_field, rb_field, erase_field; simpl. rewrite canon_inputs_rb by exact H. reflexivity. Qed.

  Definition vis_fields (fs : list (name * field_def)) := filter (fun f => subset (f_features (snd f)) F) fs.

  Lemma rebuild_fields_eq n t fs r0 :
    In n V -> lookup n (types S) = Some t ->
    (forall f, In f fs -> forall x, In x (unwrap (f_type (snd f)) :: map (fun a => unwrap (in_type (snd a))) (f_args (snd f))) -> In x (mentions t)) ->
    forallb depth_ok_field fs = true -> forallb (field_gating_ok S r0) fs = true -> subset r0 F = true ->
    omap (rebuild_field tbl) (map (map_field dflt_text) (intro_fields dflt pr S F fs)) = Some (map rb_field (vis_fields fs)).
  Proof.
    intros Hn Hl Hm Hd Hg Hr. unfold intro_fields. fold (vis_fields fs).
    assert (Hsub : forall f, In f (vis_fields fs) -> In f fs /\ subset (f_features (snd f)) F = true)
      by (intros f Hf; apply filter_In in Hf; exact Hf).
    induction (vis_fields fs) as [|f r IH]; simpl; auto.
    destruct (Hsub f (or_introl eq_refl)) as [Hf Hvis].
    rewrite forallb_forall in Hd, Hg. pose proof (Hd f Hf) as Hdf. pose proof (Hg f Hf) as Hgf.
    unfold field_gating_ok in Hgf. apply andb_true_iff in Hgf as [G1 G2].
    rewrite rebuild_field_eq; auto.
    - rewrite IH by (intros; apply Hsub; right; auto). reflexivity.
    - eapply mention_V; eauto; [apply (Hm f Hf); left; auto|]. eapply subset_app_trans; eauto.
    - intros a Ha. rewrite forallb_forall in G2. eapply mention_V; eauto.
      + apply (Hm f Hf). right. apply in_map_iff. eauto.
      + eapply subset_app_trans; eauto.
  Qed.

  (** types *)
  Definition X (n : name) : r_type (option bytes) := map_type dflt_text (intro_type dflt pr S F reg n (tofS n)).

  Definition rb_type (n : name) (t : named_type) : named_type :=
    if is_builtin_name n then NScalar true false [] [] else
    match t with
    | NScalar _ _ _ d => NScalar false true [] d
    | NEnum vs _ d => NEnum (map rebuild_enum_value (map intro_enum vs)) [] d
    | NInput fs _ _ d => NInput (map rb_input fs) [] true d
    | NObject fs ifs _ d => NObject (map rb_field (vis_fields fs)) (filter (visible_type S F) ifs) [] d
    | NInterface fs _ d => NInterface (map rb_field (vis_fields fs)) [] d
    | NUnion ms _ d => NUnion (filter (visible_type S F) ms) [] d
    end.

  Lemma kind_of_V n : In n V -> is_builtin_name n = false -> lookup n tbl = Some (ShKind (kind_of_named (tofS n))).
  Proof. intros H Hb. rewrite tbl_in by exact H. unfold sh. rewrite Hb. reflexivity. Qed.

  Lemma builtin_of n t : lookup n (types S) = Some t ->
    match t with
    | NScalar true _ r d => is_builtin_name n = true /\ r = [] /\ d = []
    | _ => is_builtin_name n = false
    end.
  Proof.
    intro Hl. unfold builtins_consistent in Hbuiltins. rewrite forallb_forall in Hbuiltins.
    specialize (Hbuiltins _ (lookup_in _ _ _ Hl)). simpl in Hbuiltins.
    destruct t as [[] a r d| | | | |]; simpl in *.
    - apply andb_true_iff in Hbuiltins as [H1 H2]. destruct r, d; try discriminate. auto.
    - destruct (is_builtin_name n); auto; discriminate.
    - destruct (is_builtin_name n); auto; discriminate.
    - destruct (is_builtin_name n); auto; discriminate.
    - destruct (is_builtin_name n); auto; discriminate.
    - destruct (is_builtin_name n); auto; discriminate.
    - destruct (is_builtin_name n); auto; discriminate.
  Qed.

  Lemma kinds_of_type n t : lookup n (types S) = Some t ->
    match t with
    | NObject _ ifs _ _ => forallb (is_kind S KInterface) ifs = true
    | NUnion ms _ _ => forallb (is_kind S KObject) ms = true
    | _ => True
    end.
  Proof.
    intro Hl. unfold kinds_ok in Hkinds. apply andb_true_iff in Hkinds as [_ H]. rewrite forallb_forall in H.
    specialize (H _ (lookup_in _ _ _ Hl)). simpl in H. destruct t; auto.
  Qed.

  Lemma named_of_kind k x : (k = KObject \/ k = KInterface) -> In x V -> is_kind S k x = true ->
    get_named_of tbl k (named_ref S x) = Some x.
  Proof.
    intros Hk Hx Hkind. unfold get_named_of. rewrite named_ref_eq. rewrite get_type_full by exact Hx.
    unfold is_shell. unfold is_kind in Hkind.
    destruct (lookup x (types S)) as [t|] eqn:El; [|discriminate].
    pose proof (builtin_of x t El) as Hb.
    assert (Hnb : is_builtin_name x = false) by (destruct t as [[]| | | | |]; try discriminate; auto; destruct k; discriminate).
    rewrite kind_of_V by auto. unfold tof. rewrite El.
    destruct t, k; try discriminate; reflexivity.
  Qed.

  Lemma gate_iface n fs ifs r d i : In n V -> lookup n (types S) = Some (NObject fs ifs r d) -> In i ifs ->
    visible_type S F i = true -> In i V.
  Proof.
    intros Hn Hl Hi Hvi. apply V_listed. apply listed_spec.
    assert (Hn' := Hn). apply V_listed, listed_spec in Hn'. destruct Hn' as [Hb Hv].
    split; auto. eapply belongs_mention; eauto; [simpl; apply in_app_iff; auto | apply (visible_defined S F); auto].
  Qed.

  Lemma names_back l : map tref_name (map (named_ref S) l) = l.
  Proof. rewrite map_map. rewrite (map_ext _ (fun x => x)) by reflexivity. apply map_id. Qed.

  Lemma rebuild_type_eq n : In n V -> rebuild_type tbl (X n) = Some (n, rb_type n (tofS n)).
  Proof.
    intro Hn. destruct (V_lookup n Hn) as [Hl Hvis]. set (t := tofS n) in *.
    pose proof (builtin_of n t Hl) as Hb. pose proof (depth_of_type S Hdepth n t Hl) as Hd.
    pose proof (nested_of S Hnest n t Hl) as Hg. pose proof (kinds_of_type n t Hl) as Hk.
    unfold rebuild_type, X, rb_type. fold t. cbn [rt_name map_type intro_type].
    destruct (is_builtin_name n) eqn:Eb; [reflexivity|].
    destruct t as [b a r d | vs r d | fs r rc d | fs ifs r d | fs r d | ms r d]; cbn -[intro_fields]; simpl in Hd, Hg, Hk, Hvis.
    - rewrite otext_nullable. reflexivity.
    - rewrite otext_nullable. reflexivity.
    - rewrite otext_nullable. rewrite rebuild_inputs_eq; auto.
      intros a Ha. rewrite forallb_forall in Hg. eapply mention_V; eauto; [simpl; apply in_map_iff; eauto|].
      eapply subset_trans; eauto.
    - rewrite otext_nullable.
      rewrite (rebuild_fields_eq n _ fs r Hn Hl (fun f Hf x Hx => field_mentions_object fs ifs r d f x Hf Hx) Hd Hg Hvis).
      cbn [obind].
      rewrite (omap_map _ tref_name).
      2:{ intros x Hx. apply in_map_iff in Hx. destruct Hx as [i [<- Hi]].
          apply filter_In in Hi. destruct Hi as [Hi Hvi].
          rewrite forallb_forall in Hk. apply named_of_kind; auto. eapply gate_iface; eauto. }
      cbn [obind]. rewrite names_back. reflexivity.
    - rewrite otext_nullable.
      rewrite (rebuild_fields_eq n _ fs r Hn Hl (fun f Hf x Hx => field_mentions_interface fs r d f x Hf Hx) Hd Hg Hvis).
      reflexivity.
    - rewrite otext_nullable.
      rewrite (omap_map _ (fun x => tref_name x)).
      2:{ intros x Hx. apply in_map_iff in Hx. destruct Hx as [m [<- Hm]].
          apply filter_In in Hm. destruct Hm as [Hm _].
          rewrite forallb_forall in Hk, Hg. rewrite tref_name_full || idtac.
          apply named_of_kind; auto. eapply mention_V; eauto. eapply subset_trans; eauto. }
      cbn [obind]. rewrite names_back. reflexivity.
  Qed.

  Lemma canon_rb_type n : In n V -> canon_type (rb_type n (tofS n)) = canon_type (erase_type S F (tofS n)).
  Proof.
    intro Hn. destruct (V_lookup n Hn) as [Hl Hvis]. set (t := tofS n) in *.
    pose proof (builtin_of n t Hl) as Hb.
    unfold rb_type. destruct (is_builtin_name n) eqn:Eb.
    - destruct t as [[] a r d| | | | |]; try discriminate. destruct Hb as [_ [-> ->]]. reflexivity.
    - destruct t as [b a r d | vs r d | fs r rc d | fs ifs r d | fs r d | ms r d]; cbn [erase_type canon_type].
      + destruct b; [destruct Hb as [Hb _]; discriminate|].
        assert (a = true) as ->.
        { unfold scalars_accept_all in Haccept. rewrite forallb_forall in Haccept.
          exact (Haccept _ (lookup_in _ _ _ Hl)). }
        reflexivity.
      + f_equal. f_equal. rewrite !map_map. apply map_ext. intros v. unfold canon_enum_value, rebuild_enum_value, intro_enum; simpl.
        rewrite !otext_nullable. reflexivity.
      + f_equal. apply canon_inputs_rb. intros a Ha. eapply inputs_of_type; eauto. simpl. apply in_map. exact Ha.
      + f_equal. f_equal. unfold visible_fields. fold (vis_fields fs). rewrite !map_map. apply map_ext_in. intros f Hf.
        apply canon_rb_field. intros a Ha. eapply inputs_of_type; eauto. simpl. apply in_flat_map. exists f.
        split; [apply filter_In in Hf; tauto|]. unfold field_inputs. apply in_map. exact Ha.
      + f_equal. f_equal. unfold visible_fields. fold (vis_fields fs). rewrite !map_map. apply map_ext_in. intros f Hf.
        apply canon_rb_field. intros a Ha. eapply inputs_of_type; eauto. simpl. apply in_flat_map. exists f.
        split; [apply filter_In in Hf; tauto|]. unfold field_inputs. apply in_map. exact Ha.
      + reflexivity.
  Qed.

  Lemma intro_types_map D' (pr' : sty -> option gval -> D') :
    intro_types D' pr' S F reg = map (fun n => intro_type D' pr' S F reg n (tofS n)) V.
  Proof.
    unfold intro_types, V. rewrite <- flat_map_filter. apply flat_map_ext_in. intros n Hn.
    destruct reg_facts as [_ [_ [Hd _]]]. specialize (Hd n Hn). unfold visible_type, tof, defined in *.
    destruct (lookup n (types S)); [reflexivity | discriminate].
  Qed.

  Lemma entry_V x : In x (entry_points S) -> visible_type S F x = true -> In x V.
  Proof.
    intros Hx Hv. apply V_listed, listed_spec. split; auto. apply belongs_entry; auto. apply (visible_defined S F); auto.
  Qed.

  Lemma root_ok x : In x (entry_points S) -> visible_type S F x = true -> is_kind S KObject x = true -> root_object tbl x = Some x.
  Proof.
    intros Hx Hv Hk. unfold root_object. unfold is_kind in Hk.
    destruct (lookup x (types S)) as [t|] eqn:El; [|discriminate].
    pose proof (builtin_of x t El) as Hb. destruct t; try discriminate.
    rewrite kind_of_V by (auto; apply entry_V; auto). unfold tof. rewrite El. reflexivity.
  Qed.

  Definition rb_dir (d : name * dir_def) : name * dir_def :=
    (fst d, {| dd_args := map rb_input (dd_args (snd d)); dd_locs := dd_locs (snd d); dd_desc := dd_desc (snd d) |}).

  Theorem rebuild_erases r :
    introspect pr S F = IntroOk r ->
    exists R, rebuild (map_defaults dflt_text r) = Some R /\ canon R = canon (erase S F).
  Proof.
    intro Hr. unfold introspect in Hr. rewrite Hreg in Hr. unfold locations_known in Hlocs. rewrite Hlocs in Hr.
    simpl in Hr. inversion Hr; subst r; clear Hr.
    pose proof Hroots as HR. unfold roots_visible in HR. apply andb_true_iff in HR as [HR HR3]. apply andb_true_iff in HR as [HR1 HR2].
    pose proof Hkinds as HK. unfold kinds_ok in HK. apply andb_true_iff in HK as [HK _]. apply andb_true_iff in HK as [HK1 HK2].
    rewrite forallb_forall in HR2, HK2.
    unfold rebuild, map_defaults; cbn [rs_types rs_query rs_mutation rs_subscription rs_directives].
    rewrite intro_types_map. rewrite map_map. fold X.
    (* the table *)
    assert (Etbl : omap shell_of (map X V) = Some tbl).
    { rewrite (omap_map _ (fun rt => (rt_name rt, sh (rt_name rt)))).
      - unfold tbl. rewrite map_map. reflexivity.
      - intros rt Hrt. apply in_map_iff in Hrt. destruct Hrt as [n [<- Hn]].
        unfold shell_of, X, sh; cbn [rt_name rt_kind map_type intro_type].
        destruct (is_builtin_name n); [reflexivity|]. destruct (tofS n); reflexivity. }
    rewrite Etbl. cbn [obind].
    rewrite root_ok; auto; [|unfold entry_points; simpl; auto]. cbn [obind].
    assert (Em : match mutation S with None => Some None | Some m => option_map Some (root_object tbl m) end = Some (mutation S)).
    { destruct (mutation S) as [m|] eqn:E; auto.
      rewrite root_ok; auto.
      - unfold entry_points. rewrite E. simpl. auto.
      - apply HR2. simpl. auto.
      - apply HK2. simpl. auto. }
    assert (Es : match subscription S with None => Some None | Some m => option_map Some (root_object tbl m) end = Some (subscription S)).
    { destruct (subscription S) as [m|] eqn:E; auto.
      rewrite root_ok; auto.
      - unfold entry_points. rewrite E. rewrite !in_app_iff. simpl. auto.
      - apply HR2. apply in_app_iff. right. simpl. auto.
      - apply HK2. apply in_app_iff. right. simpl. auto. }
    rewrite Em, Es. cbn [obind].
    rewrite (omap_map _ (fun rt => (rt_name rt, rb_type (rt_name rt) (tofS (rt_name rt))))).
    2:{ intros rt Hrt. apply in_map_iff in Hrt. destruct Hrt as [n [<- Hn]]. apply rebuild_type_eq. exact Hn. }
    cbn [obind].
    (* directives *)
    assert (Edir : omap (rebuild_directive tbl) (map (map_directive dflt_text) (map (intro_directive dflt pr S) (directives S)))
                   = Some (map rb_dir (directives S))).
    { rewrite map_map. rewrite (omap_map _ (fun x => x)) || idtac.
      assert (E : forall l, incl l (directives S) ->
                 omap (rebuild_directive tbl) (map (fun x => map_directive dflt_text (intro_directive dflt pr S x)) l) = Some (map rb_dir l)).
      { induction l as [|d l IH]; intro Hl; simpl; auto.
        assert (Hd : In d (directives S)) by (apply Hl; left; auto).
        unfold rebuild_directive at 1. cbn [rd_locs rd_args rd_name rd_desc map_directive intro_directive].
        rewrite forallb_forall in Hlocs. rewrite (Hlocs d Hd). cbn [negb].
        rewrite rebuild_inputs_eq.
        - cbn [obind]. rewrite otext_nullable. rewrite IH by (intros x Hx; apply Hl; right; auto). reflexivity.
        - unfold depth_ok in Hdepth. apply andb_true_iff in Hdepth as [_ H2]. rewrite forallb_forall in H2. apply H2. exact Hd.
        - intros a Ha. rewrite forallb_forall in HR3. specialize (HR3 d Hd). rewrite forallb_forall in HR3.
          apply entry_V; [|apply HR3; exact Ha].
          unfold entry_points. rewrite !in_app_iff. right. right. right. right.
          apply in_flat_map. exists d. split; auto. apply in_map_iff. eauto. }
      apply E. apply incl_refl. }
    rewrite Edir. cbn [obind].
    eexists. split; [reflexivity|].
    (* the same for validation *)
    unfold canon, canon_on, erase; cbn [types query mutation subscription additional directives]. f_equal.
    - rewrite !filter_true. rewrite !map_map. cbn [fst snd rt_name]. 
      assert (Eerase : flat_map (fun n => match lookup n (types S) with
                                          | Some t => [(n, erase_type S F t)]
                                          | None => []
                                          end) (listed S F)
                       = map (fun n => (n, erase_type S F (tofS n))) (listed S F)).
      { assert (H : forall l, (forall n, In n l -> defined S n = true) ->
                   flat_map (fun n => match lookup n (types S) with
                                      | Some t => [(n, erase_type S F t)]
                                      | None => []
                                      end) l = map (fun n => (n, erase_type S F (tofS n))) l).
        { induction l as [|n l IH]; intro Hl; simpl; auto.
          rewrite IH by (intros; apply Hl; right; auto).
          pose proof (Hl n (or_introl eq_refl)) as Hd. unfold tof, defined in *. destruct (lookup n (types S)); [reflexivity|discriminate]. }
        apply H. intros n Hn. apply listed_spec in Hn. apply (visible_defined S F). tauto. }
      rewrite Eerase. rewrite map_map. cbn [fst snd].
      transitivity (sort_by fst (map (fun n => (n, canon_type (erase_type S F (tofS n)))) V)).
      + f_equal. apply map_ext_in. intros n Hn. unfold X; cbn [rt_name map_type intro_type]. rewrite canon_rb_type by exact Hn. reflexivity.
      + apply sort_perm_eq.
        * rewrite map_map. cbn [fst]. rewrite map_id. apply V_nodup.
        * apply Permutation_map. apply NoDup_Permutation; [apply V_nodup | apply listed_nodup | apply V_listed].
    - f_equal. rewrite !map_map. apply map_ext_in. intros d Hd. unfold canon_directive, rb_dir; cbn [fst snd dd_args dd_locs dd_desc].
      rewrite canon_inputs_rb; [reflexivity|].
      intros a Ha. unfold all_inputs. apply in_app_iff. right. apply in_flat_map. exists d. split; auto. apply in_map. exact Ha.
  Qed.
End Rebuild.

(** the statement without the registry as a parameter *)
Theorem rebuild_same_for_validation S F r :
  depth_ok S = true -> interfaces_declared_once S = true -> locations_known S = true ->
  refs_defined S = true -> gating_nested S = true -> roots_visible S F = true ->
  builtins_consistent S = true -> kinds_ok S = true -> scalars_accept_all S = true -> defaults_denote S ->
  introspect (print_default S) S F = IntroOk r ->
  exists R, rebuild (map_defaults dflt_text r) = Some R /\ canon R = canon (erase S F).
Proof.
  intros H1 H3 H4 H5 H6 H7 H8 H9 H10 H11 Hr.
  destruct (registry_spec S) as [reg [Hreg _]].
  eapply rebuild_erases; eauto.
Qed.

(** an executable form of [defaults_denote] *)
Definition defaults_denote_b (S : schema) : bool :=
  forallb (fun i => match in_default i with
                    | None => true
                    | Some v => match marshal S v (in_type i) with
                                | MOk txt => literal_denotes S (in_type i) txt v
                                | _ => false
                                end
                    end) (all_inputs S).

Lemma defaults_denote_b_spec S : defaults_denote_b S = true -> defaults_denote S.
Proof.
  intros H i v Hi Hv. unfold defaults_denote_b in H. rewrite forallb_forall in H. specialize (H i Hi). rewrite Hv in H.
  destruct (marshal S v (in_type i)) as [txt| |]; try discriminate. eauto.
Qed.
