(** * Intro/Clone.v — C10: definitions as a pointer graph, and SchemaDefinition.Clone.

    Transcription of graphql/schema/deep_copy.go:5-266 ([deepCopySchemaDefinition],
    [fixTypePointer], [fixNamedTypePointers]) after the repairs "fix: Clone of a definition
    listing a built-in type ..." and "fix: Clone shared feature sets, directive locations ...".

    A definition is the tree of DESIGN Appendix A in which every Go object that has an identity
    and can be mutated carries that identity (an address, [id]): named types, field / input value
    / enum value / directive definitions, list and non-null wrappers, maps (Fields, Arguments,
    Values, Directives, FeatureSets) and slices (interfaces, members, locations,
    AdditionalTypes).  A reference to a named type is its name together with the identity of the
    object pointed to.  [None] for a map / slice is Go's nil; identity 0 is "no storage" (an
    empty slice).  Applied directives ([Directives []*Directive]) and the application's own
    values (defaults, enum values, functions) are not part of the graph.

    [clone G next] allocates identities from [next] upwards.  No proofs in this file. *)
From Coq Require Import List NArith ZArith Bool.
From ApiFu Require Import Base.Sexp Intro.IntrospectModel.
Import ListNotations.
Open Scope N_scope.

Definition id := N.

Inductive gsty := GtNamed (n : name) (target : id) | GtList (self : id) (t : gsty) | GtNonNull (self : id) (t : gsty).
Definition gset := option (id * list name).                       (* FeatureSet *)
Definition gmap (A : Type) := option (id * list (name * A)).      (* map[string]*A *)
Definition gslice := option (id * list (name * id)).              (* []*ObjectType, []*InterfaceType, []NamedType *)
Definition glocs := option (id * list name).                      (* []DirectiveLocation *)

Record g_input := { gi_self : id; gi_type : gsty; gi_default : option gval; gi_desc : text }.
Record g_field := { gf_self : id; gf_type : gsty; gf_args : gmap g_input; gf_features : gset;
                    gf_deprecation : text; gf_desc : text }.
Record g_enum_val := { gv_self : id; gv_value : gval; gv_desc : text; gv_deprecation : text }.

Inductive g_named :=
| GScalar (self : id) (builtin accept_all : bool) (req : gset) (desc : text)
| GEnum (self : id) (vals : gmap g_enum_val) (req : gset) (desc : text)
| GInput (self : id) (fields : gmap g_input) (req : gset) (rc : bool) (desc : text)
| GObject (self : id) (fields : gmap g_field) (ifaces : gslice) (req : gset) (desc : text)
| GInterface (self : id) (fields : gmap g_field) (req : gset) (desc : text)
| GUnion (self : id) (members : gslice) (req : gset) (desc : text).

Record g_dir := { gd_self : id; gd_args : gmap g_input; gd_locs : glocs; gd_desc : text }.

(** [g_types]: the named type objects of the graph, by name *)
Record g_schema := { g_self : id; g_types : list (name * g_named);
                     g_query : name * id; g_mutation : option (name * id); g_subscription : option (name * id);
                     g_additional : gslice; g_directives : gmap g_dir }.

Definition g_self_of (t : g_named) : id :=
  match t with
  | GScalar s _ _ _ _ | GEnum s _ _ _ | GInput s _ _ _ _ | GObject s _ _ _ _ | GInterface s _ _ _ | GUnion s _ _ _ => s
  end.

(** ** forgetting identities: the definition the graph represents *)
Fixpoint strip_ty (t : gsty) : sty :=
  match t with GtNamed n _ => StNamed n | GtList _ u => StList (strip_ty u) | GtNonNull _ u => StNonNull (strip_ty u) end.
Definition strip_set (s : gset) : features := match s with Some (_, l) => l | None => [] end.
Definition strip_map {A B} (f : A -> B) (m : gmap A) : list (name * B) :=
  match m with Some (_, l) => map (fun kv => (fst kv, f (snd kv))) l | None => [] end.
Definition strip_slice (s : gslice) : list name := match s with Some (_, l) => map fst l | None => [] end.
Definition strip_input (i : g_input) : input_def :=
  {| in_type := strip_ty (gi_type i); in_default := gi_default i; in_desc := gi_desc i |}.
Definition strip_field (f : g_field) : field_def :=
  {| f_type := strip_ty (gf_type f); f_args := strip_map strip_input (gf_args f); f_features := strip_set (gf_features f);
     f_deprecation := gf_deprecation f; f_desc := gf_desc f |}.
Definition strip_enum_val (v : g_enum_val) : enum_val :=
  {| ev_value := gv_value v; ev_desc := gv_desc v; ev_deprecation := gv_deprecation v |}.
Definition strip_named (t : g_named) : named_type :=
  match t with
  | GScalar _ b a r d => NScalar b a (strip_set r) d
  | GEnum _ vs r d => NEnum (strip_map strip_enum_val vs) (strip_set r) d
  | GInput _ fs r rc d => NInput (strip_map strip_input fs) (strip_set r) rc d
  | GObject _ fs ifs r d => NObject (strip_map strip_field fs) (strip_slice ifs) (strip_set r) d
  | GInterface _ fs r d => NInterface (strip_map strip_field fs) (strip_set r) d
  | GUnion _ ms r d => NUnion (strip_slice ms) (strip_set r) d
  end.
Definition strip_dir (d : g_dir) : dir_def :=
  {| dd_args := strip_map strip_input (gd_args d); dd_locs := match gd_locs d with Some (_, l) => l | None => [] end;
     dd_desc := gd_desc d |}.
Definition strip (G : g_schema) : schema :=
  {| types := map (fun t => (fst t, strip_named (snd t))) (g_types G);
     query := fst (g_query G); mutation := option_map fst (g_mutation G); subscription := option_map fst (g_subscription G);
     additional := strip_slice (g_additional G);
     directives := strip_map strip_dir (g_directives G) |}.

(** ** every identity of a graph (objects, containers, and the targets of its references) *)
Definition nz (i : id) : list id := if i =? 0 then [] else [i].
Fixpoint ids_ty (t : gsty) : list id :=
  match t with GtNamed _ tg => [tg] | GtList s u => s :: ids_ty u | GtNonNull s u => s :: ids_ty u end.
Definition ids_set (s : gset) : list id := match s with Some (i, _) => [i] | None => [] end.
Definition ids_map {A} (f : A -> list id) (m : gmap A) : list id :=
  match m with Some (i, l) => i :: flat_map (fun kv => f (snd kv)) l | None => [] end.
Definition ids_slice (s : gslice) : list id := match s with Some (i, l) => nz i ++ map snd l | None => [] end.
Definition ids_input (i : g_input) : list id := gi_self i :: ids_ty (gi_type i).
Definition ids_field (f : g_field) : list id :=
  gf_self f :: ids_ty (gf_type f) ++ ids_map ids_input (gf_args f) ++ ids_set (gf_features f).
Definition ids_named (t : g_named) : list id :=
  match t with
  | GScalar s _ _ r _ => s :: ids_set r
  | GEnum s vs r _ => s :: ids_map (fun v => [gv_self v]) vs ++ ids_set r
  | GInput s fs r _ _ => s :: ids_map ids_input fs ++ ids_set r
  | GObject s fs ifs r _ => s :: ids_map ids_field fs ++ ids_slice ifs ++ ids_set r
  | GInterface s fs r _ => s :: ids_map ids_field fs ++ ids_set r
  | GUnion s ms r _ => s :: ids_slice ms ++ ids_set r
  end.
Definition ids_dir (d : g_dir) : list id :=
  gd_self d :: ids_map ids_input (gd_args d) ++ match gd_locs d with Some (i, _) => nz i | None => [] end.
Definition ids (G : g_schema) : list id :=
  g_self G :: flat_map (fun t => ids_named (snd t)) (g_types G)
  ++ [snd (g_query G)] ++ match g_mutation G with Some r => [snd r] | None => [] end
  ++ match g_subscription G with Some r => [snd r] | None => [] end
  ++ ids_slice (g_additional G) ++ ids_map ids_dir (g_directives G).

(** the built-in singletons of a graph (and what belongs to them) *)
Definition builtin_ids (G : g_schema) : list id :=
  flat_map (fun t => match snd t with GScalar s true _ r _ => s :: ids_set r | _ => [] end) (g_types G).

(** ** deepCopySchemaDefinition *)

(** allocation: state-passing *)
Definition alloc (next : N) : id * N := (next, next + 1).

Section Copy.
  (** newNamedTypes: name -> (identity of the copy, is it an object, is it an interface) *)
  Variable tbl : list (name * (id * kind)).

  (** fixTypePointer (deep_copy.go:78-95) *)
  Fixpoint fix_type (t : gsty) (next : N) : gsty * N :=
    match t with
    | GtNamed n tg =>
        if is_builtin_name n then (t, next)
        else match lookup n tbl with
             | Some (i, _) => (GtNamed n i, next)
             | None => (t, next)                       (* not reached by Inspect: the old object *)
             end
    | GtList _ u => let '(u', n1) := fix_type u next in let '(s, n2) := alloc n1 in (GtList s u', n2)
    | GtNonNull _ u => let '(u', n1) := fix_type u next in let '(s, n2) := alloc n1 in (GtNonNull s u', n2)
    end.

  (** copyFeatureSet *)
  Definition copy_set (s : gset) (next : N) : gset * N :=
    match s with
    | None => (None, next)
    | Some (_, l) => let '(i, n1) := alloc next in (Some (i, l), n1)
    end.

  Section MapM.
    Variables A : Type.
    Variable f : A -> N -> A * N.
    Fixpoint copy_entries (l : list (name * A)) (next : N) : list (name * A) * N :=
      match l with
      | [] => ([], next)
      | (k, v) :: r => let '(v', n1) := f v next in let '(r', n2) := copy_entries r n1 in ((k, v') :: r', n2)
      end.
    (** "if m != nil { newValues := make(map...); for k, v := range m { copy } }" *)
    Definition copy_map (m : gmap A) (next : N) : gmap A * N :=
      match m with
      | None => (None, next)
      | Some (_, l) => let '(i, n1) := alloc next in let '(l', n2) := copy_entries l n1 in (Some (i, l'), n2)
      end.
  End MapM.
  Arguments copy_map {A}.

  (** case *InputValueDefinition: "newField := *v; fixNamedTypePointers(&newField)" *)
  Definition copy_input (i : g_input) (next : N) : g_input * N :=
    let '(s, n1) := alloc next in
    let '(t, n2) := fix_type (gi_type i) n1 in
    ({| gi_self := s; gi_type := t; gi_default := gi_default i; gi_desc := gi_desc i |}, n2).

  (** case *FieldDefinition *)
  Definition copy_field (f : g_field) (next : N) : g_field * N :=
    let '(s, n1) := alloc next in
    let '(r, n2) := copy_set (gf_features f) n1 in
    let '(t, n3) := fix_type (gf_type f) n2 in
    let '(a, n4) := copy_map copy_input (gf_args f) n3 in
    ({| gf_self := s; gf_type := t; gf_args := a; gf_features := r; gf_deprecation := gf_deprecation f; gf_desc := gf_desc f |}, n4).

  Definition copy_enum_val (v : g_enum_val) (next : N) : g_enum_val * N :=
    let '(s, n1) := alloc next in
    ({| gv_self := s; gv_value := gv_value v; gv_desc := gv_desc v; gv_deprecation := gv_deprecation v |}, n1).

  (** a slice of pointers to named types: "if newValue, ok := namedTypes[v.Name].(*T); ok" *)
  Definition kind_is (want : kind) (k : kind) : bool :=
    match want, k with KObject, KObject | KInterface, KInterface => true | _, _ => false end.
  Definition copy_slice (want : option kind) (s : gslice) (next : N) : gslice * N :=
    match s with
    | None => (None, next)
    | Some (_, l) =>
        let l' := map (fun e => match lookup (fst e) tbl with
                                | Some (i, k) => match want with
                                                 | Some w => if kind_is w k then (fst e, i) else e
                                                 | None => (fst e, i)
                                                 end
                                | None => e
                                end) l in
        match l with
        | [] => (Some (0, l'), next)                        (* make([]T, 0): no storage *)
        | _ => let '(i, n1) := alloc next in (Some (i, l'), n1)
        end
    end.

  (** fixNamedTypePointers on the shallow copy of a named type (its new identity is in [tbl]) *)
  Definition copy_named (self' : id) (t : g_named) (next : N) : g_named * N :=
    match t with
    | GScalar _ b a r d => let '(r', n1) := copy_set r next in (GScalar self' b a r' d, n1)
    | GEnum _ vs r d =>
        let '(r', n1) := copy_set r next in
        let '(vs', n2) := copy_map copy_enum_val vs n1 in (GEnum self' vs' r' d, n2)
    | GInput _ fs r rc d =>
        let '(r', n1) := copy_set r next in
        let '(fs', n2) := copy_map copy_input fs n1 in (GInput self' fs' r' rc d, n2)
    | GObject _ fs ifs r d =>
        let '(r', n1) := copy_set r next in
        let '(fs', n2) := copy_map copy_field fs n1 in
        let '(ifs', n3) := copy_slice (Some KInterface) ifs n2 in (GObject self' fs' ifs' r' d, n3)
    | GInterface _ fs r d =>
        let '(r', n1) := copy_set r next in
        let '(fs', n2) := copy_map copy_field fs n1 in (GInterface self' fs' r' d, n2)
    | GUnion _ ms r d =>
        let '(r', n1) := copy_set r next in
        let '(ms', n2) := copy_slice (Some KObject) ms n1 in (GUnion self' ms' r' d, n2)
    end.

  (** case *DirectiveDefinition *)
  Definition copy_dir (d : g_dir) (next : N) : g_dir * N :=
    let '(s, n1) := alloc next in
    let '(l, n2) := match gd_locs d with
                    | None => (None, n1)
                    | Some (_, []) => (Some (0, []), n1)
                    | Some (_, ls) => let '(i, n) := alloc n1 in (Some (i, ls), n)
                    end in
    let '(a, n3) := copy_map copy_input (gd_args d) n2 in
    ({| gd_self := s; gd_args := a; gd_locs := l; gd_desc := gd_desc d |}, n3).
End Copy.
Arguments copy_map {A}.
Arguments copy_entries {A}.

(** the first pass (deep_copy.go:8-45): Inspect with "already have this name" as the visited
    test is the traversal of schema.New; a shallow copy of every named type met, except the
    built-in scalars which are kept *)
Fixpoint first_pass (G : g_schema) (reg : list name) (next : N) : list (name * (id * kind)) * N :=
  match reg with
  | [] => ([], next)
  | n :: r =>
      match lookup n (g_types G) with
      | Some t =>
          let k := kind_of_named (strip_named t) in
          match t with
          | GScalar s true _ _ _ => let '(tb, n1) := first_pass G r next in ((n, (s, k)) :: tb, n1)
          | _ => let '(i, n1) := alloc next in let '(tb, n2) := first_pass G r n1 in ((n, (i, k)) :: tb, n2)
          end
      | None => first_pass G r next
      end
  end.

Fixpoint second_pass (G : g_schema) (tbl : list (name * (id * kind))) (todo : list (name * (id * kind))) (next : N)
  : list (name * g_named) * N :=
  match todo with
  | [] => ([], next)
  | (n, (i, _)) :: r =>
      match lookup n (g_types G) with
      | Some t =>
          match t with
          | GScalar _ true _ _ _ => let '(ts, n1) := second_pass G tbl r next in ((n, t) :: ts, n1)   (* built-in: untouched *)
          | _ => let '(t', n1) := copy_named tbl i t next in
                 let '(ts, n2) := second_pass G tbl r n1 in ((n, t') :: ts, n2)
          end
      | None => second_pass G tbl r next
      end
  end.

Inductive clone_result := Cloned (G : g_schema) (next : N) | ClonePanic | CloneOutOfFuel.

(** a root: "newNamedTypes[def.Query.Name].(*ObjectType)" panics when absent or not an object *)
Definition clone_root (tbl : list (name * (id * kind))) (r : name * id) : option (name * id) :=
  match lookup (fst r) tbl with
  | Some (i, KObject) => Some (fst r, i)
  | _ => None
  end.

Definition clone (G : g_schema) (next : N) : clone_result :=
  match registry (strip G) with
  | None => CloneOutOfFuel
  | Some reg =>
      let '(tbl, n1) := first_pass G reg next in
      let '(ts, n2) := second_pass G tbl tbl n1 in
      let '(self', n3) := alloc n2 in
      match clone_root tbl (g_query G),
            match g_mutation G with None => Some None | Some r => option_map Some (clone_root tbl r) end,
            match g_subscription G with None => Some None | Some r => option_map Some (clone_root tbl r) end with
      | Some q, Some mu, Some su =>
          let '(dirs, n4) := copy_map (copy_dir tbl) (g_directives G) n3 in
          let '(add, n5) := copy_slice tbl None (g_additional G) n4 in
          Cloned {| g_self := self'; g_types := ts; g_query := q; g_mutation := mu; g_subscription := su;
                    g_additional := add; g_directives := dirs |} n5
      | _, _, _ => ClonePanic
      end
  end.
