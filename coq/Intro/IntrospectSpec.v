(** * Intro/IntrospectSpec.v — C10 reference: what the standard introspection query must answer.

    Written from the property statement and the GraphQL specification, section 4 (Introspection):
    [describe pr S F] is computed directly from the definition [S] and the request's feature set
    [F].  It lists, sorted by name,

      - every named type of the definition — those that can be reached from the directive
        arguments, the root operation types and AdditionalTypes — whose required features are
        enabled, each exactly once, with its kind, name and description;
      - for objects and interfaces every field whose required features are enabled, with its
        arguments, its type as the complete list/non-null wrapper chain, its deprecation flag
        and reason;  for objects the interfaces they declare, for interfaces the visible objects
        that declare them, for unions their members, for enums every value, for input objects
        every input field;
      - every directive with its locations and arguments.

    Each input value (argument, input field, directive argument) presents its configured type
    and default through the caller's [pr]; with [pr T d = (T, d)] the description is the
    configuration itself.  Executable (it is the oracle); no proofs in this file. *)
From Coq Require Import List NArith ZArith Bool.
From ApiFu Require Import Base.Sexp Intro.IntrospectModel.
Import ListNotations.

(** ** which named types belong to the definition *)

(** the named types a type definition mentions *)
Definition mentions (t : named_type) : list name :=
  match t with
  | NScalar _ _ _ _ | NEnum _ _ _ => []
  | NInput fs _ _ _ => map (fun a => unwrap (in_type (snd a))) fs
  | NObject fs ifs _ _ =>
      ifs ++ flat_map (fun f => unwrap (f_type (snd f)) :: map (fun a => unwrap (in_type (snd a))) (f_args (snd f))) fs
  | NInterface fs _ _ =>
      flat_map (fun f => unwrap (f_type (snd f)) :: map (fun a => unwrap (in_type (snd a))) (f_args (snd f))) fs
  | NUnion ms _ _ => ms
  end.

Definition defined (S : schema) (n : name) : bool :=
  match lookup n (types S) with Some _ => true | None => false end.

(** where the definition starts *)
Definition entry_points (S : schema) : list name :=
  [query S] ++ opt_list (mutation S) ++ opt_list (subscription S) ++ additional S
  ++ flat_map (fun d => map (fun a => unwrap (in_type (snd a))) (dd_args (snd d))) (directives S).

(** declaratively: the least set containing the defined entry points and closed under mention *)
Inductive belongs (S : schema) : name -> Prop :=
| belongs_entry n : In n (entry_points S) -> defined S n = true -> belongs S n
| belongs_mention a t b : belongs S a -> lookup a (types S) = Some t -> In b (mentions t) ->
                          defined S b = true -> belongs S b.

(** executably: saturate, one round per defined type (a round that adds nothing ends it) *)
Definition add_new (acc : list name) (xs : list name) : list name :=
  fold_left (fun acc x => if mem x acc then acc else acc ++ [x]) xs acc.
Definition expand (S : schema) (R : list name) : list name :=
  add_new R (filter (defined S)
               (flat_map (fun a => match lookup a (types S) with Some t => mentions t | None => [] end) R)).
Fixpoint saturate (S : schema) (k : nat) (R : list name) : list name :=
  match k with O => R | Datatypes.S k' => saturate S k' (expand S R) end.
Definition members (S : schema) : list name :=
  saturate S (Datatypes.S (List.length (types S))) (add_new [] (filter (defined S) (entry_points S))).

(** ** the description *)
Definition visible_type (S : schema) (F : features) (n : name) : bool :=
  match lookup n (types S) with Some t => subset (nt_req t) F | None => false end.

(** the named types the request can see, sorted *)
Definition listed (S : schema) (F : features) : list name :=
  sort_by (fun n => n) (filter (visible_type S F) (members S)).

(** a type reference: the complete wrapper chain *)
Fixpoint full_ref (S : schema) (t : sty) : tref :=
  match t with
  | StNamed n => TRef (option_map kind_of_named (lookup n (types S))) (Some n) None
  | StList u => TRef (Some KList) None (Some (full_ref S u))
  | StNonNull u => TRef (Some KNonNull) None (Some (full_ref S u))
  end.

Definition opt_text (s : text) : option text := match s with [] => None | _ => Some s end.
Definition is_deprecated (reason : text) : bool := match reason with [] => false | _ => true end.

Section Describe.
  Variable D : Type.
  Variable pr : sty -> option gval -> D.
  Variable S : schema.
  Variable F : features.

  Definition describe_input (a : name * input_def) : r_input D :=
    {| ri_name := fst a; ri_desc := opt_text (in_desc (snd a)); ri_type := full_ref S (in_type (snd a));
       ri_default := pr (in_type (snd a)) (in_default (snd a)) |}.
  Definition describe_inputs (l : list (name * input_def)) : list (r_input D) :=
    sort_by ri_name (map describe_input l).

  Definition describe_field (f : name * field_def) : r_field D :=
    {| rf_name := fst f; rf_desc := opt_text (f_desc (snd f)); rf_args := describe_inputs (f_args (snd f));
       rf_type := full_ref S (f_type (snd f));
       rf_deprecated := is_deprecated (f_deprecation (snd f));
       rf_reason := opt_text (f_deprecation (snd f)) |}.
  Definition describe_fields (fs : list (name * field_def)) : list (r_field D) :=
    sort_by rf_name (map describe_field (filter (fun f => subset (f_features (snd f)) F) fs)).

  Definition describe_enum_value (v : name * enum_val) : r_enum :=
    {| re_name := fst v; re_desc := opt_text (ev_desc (snd v));
       re_deprecated := is_deprecated (ev_deprecation (snd v)); re_reason := opt_text (ev_deprecation (snd v)) |}.

  Definition ref_to (n : name) : tref := full_ref S (StNamed n).

  (** the visible objects of the definition that declare interface [i], each once *)
  Definition implementers (i : name) : list name :=
    filter (fun o => match lookup o (types S) with
                     | Some (NObject _ ifs _ _) => mem i ifs
                     | _ => false
                     end) (listed S F).

  Definition describe_type (n : name) (t : named_type) : r_type D :=
    {| rt_kind := kind_of_named t; rt_name := n; rt_desc := opt_text (nt_desc t);
       rt_fields := match t with
                    | NObject fs _ _ _ | NInterface fs _ _ => Some (describe_fields fs)
                    | _ => None
                    end;
       rt_inputs := match t with NInput fs _ _ _ => Some (describe_inputs fs) | _ => None end;
       rt_ifaces := match t with
                    | NObject _ ifs _ _ => Some (map ref_to (filter (visible_type S F) ifs))
                    | _ => None
                    end;
       rt_enums := match t with
                   | NEnum vs _ _ => Some (sort_by re_name (map describe_enum_value vs))
                   | _ => None
                   end;
       rt_possible := match t with
                      | NInterface _ _ _ => Some (map ref_to (implementers n))
                      | NUnion ms _ _ => Some (map ref_to (filter (visible_type S F) ms))
                      | _ => None
                      end |}.

  Definition describe_directive (d : name * dir_def) : r_directive D :=
    {| rd_name := fst d; rd_desc := opt_text (dd_desc (snd d)); rd_locs := dd_locs (snd d);
       rd_args := describe_inputs (dd_args (snd d)) |}.

  Definition describe : r_schema D :=
    {| rs_query := query S; rs_mutation := mutation S; rs_subscription := subscription S;
       rs_types := flat_map (fun n => match lookup n (types S) with
                                      | Some t => [describe_type n t]
                                      | None => []
                                      end) (listed S F);
       rs_directives := sort_by rd_name (map describe_directive (directives S)) |}.
End Describe.
Arguments describe {D}.

(** ** every type reference resolves to a listed type *)
Fixpoint ref_leaf (r : tref) : option name :=
  match r with
  | TRef _ (Some n) _ => Some n
  | TRef _ None (Some r') => ref_leaf r'
  | TRef _ None None => None                 (* a chain cut off before its named type *)
  end.

Section Refs.
  Variable D : Type.
  Definition input_refs (i : r_input D) : list tref := [ri_type i].
  Definition field_refs (f : r_field D) : list tref := rf_type f :: flat_map input_refs (rf_args f).
  Definition olist {A} (o : option (list A)) : list A := match o with Some l => l | None => [] end.
  Definition type_refs (t : r_type D) : list tref :=
    flat_map field_refs (olist (rt_fields t)) ++ flat_map input_refs (olist (rt_inputs t))
    ++ olist (rt_ifaces t) ++ olist (rt_possible t).
  Definition all_refs (r : r_schema D) : list tref :=
    flat_map type_refs (rs_types r) ++ flat_map (fun d => flat_map input_refs (rd_args d)) (rs_directives r).
  Definition root_names (r : r_schema D) : list name :=
    [rs_query r] ++ opt_list (rs_mutation r) ++ opt_list (rs_subscription r).
  Definition refs_resolve (r : r_schema D) : bool :=
    let names := map rt_name (rs_types r) in
    forallb (fun x => match ref_leaf x with Some n => mem n names | None => false end) (all_refs r)
    && forallb (fun n => mem n names) (root_names r).
End Refs.
Arguments refs_resolve {D}.
Arguments all_refs {D}.

(** ** what a query can see of a wrapper chain

    A query selects [kind name] and nests [ofType] a fixed number of times; fragments cannot be
    recursive, so no single document sees chains of every length.  [cut_ref d r] is what a query
    nesting to [d] levels (the named type included) sees of the reference [r]; [truncate d] cuts
    every field, argument, input field and directive argument type of a description. *)
Fixpoint cut_ref (d : nat) (r : tref) : option tref :=
  match d with
  | O => None
  | Datatypes.S d' =>
      match r with
      | TRef k n o => Some (TRef k n (match o with Some r' => cut_ref d' r' | None => None end))
      end
  end.
Definition cut_top (d : nat) (r : tref) : tref :=
  match cut_ref d r with Some x => x | None => TRef None None None end.

Section Truncate.
  Variable D : Type.
  Variable d : nat.
  Definition trunc_input (i : r_input D) : r_input D :=
    {| ri_name := ri_name i; ri_desc := ri_desc i; ri_type := cut_top d (ri_type i); ri_default := ri_default i |}.
  Definition trunc_field (f : r_field D) : r_field D :=
    {| rf_name := rf_name f; rf_desc := rf_desc f; rf_args := map trunc_input (rf_args f);
       rf_type := cut_top d (rf_type f); rf_deprecated := rf_deprecated f; rf_reason := rf_reason f |}.
  Definition trunc_type (t : r_type D) : r_type D :=
    {| rt_kind := rt_kind t; rt_name := rt_name t; rt_desc := rt_desc t;
       rt_fields := option_map (map trunc_field) (rt_fields t);
       rt_inputs := option_map (map trunc_input) (rt_inputs t);
       rt_ifaces := rt_ifaces t; rt_enums := rt_enums t; rt_possible := rt_possible t |}.
  Definition trunc_directive (x : r_directive D) : r_directive D :=
    {| rd_name := rd_name x; rd_desc := rd_desc x; rd_locs := rd_locs x; rd_args := map trunc_input (rd_args x) |}.
  Definition truncate (r : r_schema D) : r_schema D :=
    {| rs_query := rs_query r; rs_mutation := rs_mutation r; rs_subscription := rs_subscription r;
       rs_types := map trunc_type (rs_types r); rs_directives := map trunc_directive (rs_directives r) |}.
End Truncate.
Arguments truncate {D}.

(** ** hypotheses under which the implementation is expected to meet the description *)

(** wrapper chains the query can see to the end: at most [query_depth] levels, the named type
    included (introspection.Query documents this limit itself) *)
Fixpoint sty_levels (t : sty) : nat :=
  match t with StNamed _ => 1 | StList u | StNonNull u => Datatypes.S (sty_levels u) end.
Definition depth_ok_input (a : name * input_def) : bool := Nat.leb (sty_levels (in_type (snd a))) query_depth.
Definition depth_ok_field (f : name * field_def) : bool :=
  Nat.leb (sty_levels (f_type (snd f))) query_depth && forallb depth_ok_input (f_args (snd f)).
Definition depth_ok_type (t : named_type) : bool :=
  match t with
  | NObject fs _ _ _ | NInterface fs _ _ => forallb depth_ok_field fs
  | NInput fs _ _ _ => forallb depth_ok_input fs
  | _ => true
  end.
Definition depth_ok (S : schema) : bool :=
  forallb (fun t => depth_ok_type (snd t)) (types S)
  && forallb (fun d => forallb depth_ok_input (dd_args (snd d))) (directives S).

(** feature gating is coherent across "implements": an object and an interface it declares are
    visible together.  No theorem needs this any more (the listings [interfaces] /
    [possibleTypes] are filtered by the request's features since the repair of DESIGN section 6
    row 17); it is kept as a classifier: the check reports how often the generator leaves it. *)
Definition gating_coherent (S : schema) (F : features) : bool :=
  forallb (fun o => match lookup o (types S) with
                    | Some (NObject _ ifs _ _) =>
                        forallb (fun i => Bool.eqb (visible_type S F o) (visible_type S F i)) ifs
                    | _ => true
                    end) (members S).

(** directive locations are among the eighteen of the specification (otherwise the enum
    __DirectiveLocation cannot present them) *)
Definition locations_known (S : schema) : bool :=
  forallb (fun d => forallb (fun l => mem l known_locations) (dd_locs (snd d))) (directives S).

(** an object does not declare the same interface twice (schema.New does not check this) *)
Fixpoint nodup_b (l : list name) : bool :=
  match l with [] => true | x :: r => negb (mem x r) && nodup_b r end.
Definition interfaces_declared_once (S : schema) : bool :=
  forallb (fun t => match snd t with NObject _ ifs _ _ => nodup_b ifs | _ => true end) (types S).

(** ** what schema.New guarantees about references and gating (shallowValidate), as far as the
    resolution of type references needs it *)
Definition req_of (S : schema) (n : name) : features :=
  match lookup n (types S) with Some t => nt_req t | None => [] end.

(** every named type mentioned anywhere is defined (Go pointers cannot dangle) *)
Definition refs_defined (S : schema) : bool :=
  forallb (fun t => forallb (defined S) (mentions (snd t))) (types S) && forallb (defined S) (entry_points S).

(** object_type.go:123-135, interface_type.go:74-86: the type of a field and of its arguments
    requires no more than the field and its parent together; input_object_type.go:150-152: an
    input field's type requires no more than the input object; union_type.go:55-57: a member
    requires no more than the union *)
Definition field_gating_ok (S : schema) (parent : features) (f : name * field_def) : bool :=
  let ctx := (f_features (snd f) ++ parent)%list in
  subset (req_of S (unwrap (f_type (snd f)))) ctx
  && forallb (fun a => subset (req_of S (unwrap (in_type (snd a)))) ctx) (f_args (snd f)).
Definition type_gating_ok (S : schema) (t : named_type) : bool :=
  match t with
  | NObject fs _ r _ | NInterface fs r _ => forallb (field_gating_ok S r) fs
  | NInput fs r _ _ => forallb (fun a => subset (req_of S (unwrap (in_type (snd a)))) r) fs
  | NUnion ms r _ => forallb (fun m => subset (req_of S m) r) ms
  | _ => true
  end.
Definition gating_nested (S : schema) : bool := forallb (fun t => type_gating_ok S (snd t)) (types S).

(** not checked by schema.New, true of every sensible configuration: the root operation types and
    the types of directive arguments are visible to the request *)
Definition roots_visible (S : schema) (F : features) : bool :=
  visible_type S F (query S)
  && forallb (visible_type S F) (opt_list (mutation S) ++ opt_list (subscription S))
  && forallb (fun d => forallb (fun a => visible_type S F (unwrap (in_type (snd a)))) (dd_args (snd d))) (directives S).
