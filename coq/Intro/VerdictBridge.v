(** * Intro/VerdictBridge.v — C10 composed with C13's theorem about C04's validator model.

    C13 proved ([C13_C04_validate_eq], Feat/FeaturesVldRules.v [validate_eq_repaired]) that C04's
    validator model gives, for EVERY document, the same answer on (S, F) and on the erased schema.
    C04's schema type ([Vld.Ast.schema]: literal-kind sets of scalars, the introspection meta
    types and fields, the implementation registry) is a third representation, different from
    C10's and from coq/Feat's; no abstraction function from C10's definitions to it is defined
    here.  The composition is therefore stated for ANY function [to_vld], under two premises
    about it that are named below — both say that C04's validator reads a definition only through
    what C10 already controls; neither is proved. *)
From Coq Require Import List NArith Bool.
From ApiFu Require Import Base.Sexp Intro.IntrospectModel Intro.IntrospectSpec Intro.MarshalValue Intro.Rebuild
     Intro.RebuildSpec Intro.RebuildProofs Intro.ViewBridge.
From ApiFu Require Vld.Ast Vld.ValidatorModel Vld.ProofsCommon Feat.FeaturesVld Feat.FeaturesVldRules.
Import ListNotations.
Module VA := ApiFu.Vld.Ast.
Module VM := ApiFu.Vld.ValidatorModel.
Module FV := ApiFu.Feat.FeaturesVld.

Section Verdicts.
  (** an abstraction of a C10 definition to C04's schema type *)
  Variable to_vld : schema -> VA.schema.

  (** PREMISE [validator_reads_only_canon]: C04's validator cannot tell apart two definitions that
      are the same for validation in C10's sense (same names, kinds, types, default presence,
      memberships, directives ... up to the order of what comes out of Go maps) *)
  Hypothesis validator_reads_only_canon : forall X Y, canon X = canon Y ->
    forall q pi G D, VM.validate_model q pi (to_vld X) G D = VM.validate_model q pi (to_vld Y) G D.

  (** PREMISE [erasures_agree]: C10's erased definition, abstracted, and C13's erasure of the
      abstracted registered definition are indistinguishable for C04's validator (the C13-model
      analogue of this is proved: [erase_fsim]) *)
  Hypothesis erasures_agree : forall S F q pi G D,
    VM.validate_model q pi (to_vld (erase S F)) G D =
    VM.validate_model q pi (FV.verase (to_vld (registered S)) F) G D.

  Theorem rebuild_same_verdicts_given_locality S F r :
    depth_ok S = true -> interfaces_declared_once S = true -> locations_known S = true ->
    refs_defined S = true -> gating_nested S = true -> roots_visible S F = true ->
    builtins_consistent S = true -> kinds_ok S = true -> scalars_accept_all S = true -> defaults_denote S ->
    introspect (print_default S) S F = IntroOk r ->
    exists R, rebuild (map_defaults dflt_text r) = Some R /\
      forall q pi G D,
        FV.vok (to_vld (registered S)) = true -> VA.subset F G = true -> ApiFu.Vld.ProofsCommon.order_ok pi ->
        VM.q_impl_features q = true ->
        VM.validate_model q pi (to_vld R) G D = VM.validate_model q pi (to_vld (registered S)) F D.
  Proof.
    intros H1 H2 H3 H4 H5 H6 H7 H8 H9 H10 Hr.
    destruct (rebuild_same_for_validation S F r H1 H2 H3 H4 H5 H6 H7 H8 H9 H10 Hr) as [R [HR HC]].
    exists R. split; [exact HR|]. intros q pi G D Hok HFG Hpi Hq.
    rewrite (validator_reads_only_canon R (erase S F) HC q pi G D).
    rewrite erasures_agree.
    apply (ApiFu.Feat.FeaturesVldRules.validate_eq_repaired (to_vld (registered S)) F G pi q D Hok HFG Hpi Hq).
  Qed.
End Verdicts.
